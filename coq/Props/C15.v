(** C15 - On a truncated image every reported file is a well-formed prefix.
    Property theorems only (function level: the byte-window views and the transcoder's block
    loops over a base file that was cut off after [c] bytes).

    Vocabulary (TruncProofs.v, Trunc.v, StreamProofs.v):
    - [content] the bytes of the COMPLETE image file, [cut_at c content] its first [c] bytes;
    - [wf v content]: the windows of the view tower [v] (StreamWrapper [KWrap], StreamOffset
      [KOff], SectorStream / FileStream sector chain / MdfStream [KSect]) fit the complete
      file; [good v s]: any state of the view and of all its ancestors, any base cursor;
    - [logical v content]: the bytes the view is meant to contain; [baddr v a]: the address in
      the base file of byte [a] of the view; [cov v c p q]: all of bytes [p, q) of the view
      lie below the cut; [has_sect v]: some sector kind occurs in the tower;
    - [drain] / [drain_many]: PassthroughTranscoder / PipelineTranscoder block loops over
      streams (read a block; SectorReadError -> stop; truncate to whole frames; empty ->
      stop; else emit).

    Covered: every such tower to any depth, every cut position, every state, every history
    of seek / tell / read(n >= 0), every block size and frame size.
    NOT covered here (carried by the oracle run of the check on real truncated images):
    the sample-reversed view (StreamReversed); what the parsers of partition headers,
    allocation tables, directories and sample headers make of a truncated image (in
    particular window sizes that are computed from the truncated file itself - except the
    MdfStream, whose size is computed from the file length: [mdf_over_cut_file],
    [stacked_mdf_blocks_prefix]); WAV framing of the drained PCM (C04); read(n < 0). *)
From SE Require Import Base Stream Transcode FatProofs StreamProofs Trunc TruncProofs TruncPlugProofs.

(** * (1) One read over the cut file *)
(** For every tower [v = V k size sub] that is well formed over the complete file, every cut
    [c], every good state and every n >= 0: over the complete file read(n) returns
    [b] = the logical bytes at the position (clipped at the end of the view); over the cut file
    it returns, in a good state again,
    - [b] itself, and always so when every base byte the read touches lies below the cut; or
    - SectorReadError with the position unchanged - only when a sector kind occurs in the
      tower and some touched byte is missing; or
    - (towers of plain wrappers and offset windows only, some touched byte missing) a PROPER
      PREFIX [b'] of [b]: the bytes of the cut file at the translated address; the position
      advances by [zlen b] (StreamWrapper.read adds true_size, not the number of bytes that
      came back).
    No other exception, never a byte that is not the complete file's byte at the same
    logical position. *)
Theorem truncated_read :
  forall k size sub content c s n,
    let v := V k size sub in
    wf v content -> good v s -> 0 <= n ->
    let p := v_tell s in
    let b := slice (logical v content) p (p + n) in
    exists r s' s0,
      v_read v content s n = (Ok b, s0) /\ v_read v (cut_at c content) s n = (r, s') /\ good v s' /\
      ((r = Ok b /\ v_tell s' = p + zlen b)
       \/ (cov v c p (p + zlen b) = false /\ has_sect v = true /\ r = Err SectorReadError /\ v_tell s' = p)
       \/ (cov v c p (p + zlen b) = false /\ has_sect v = false /\ v_tell s' = p + zlen b /\
           exists b' t, r = Ok b' /\ b = b' ++ t /\ t <> []
                        /\ b' = slice (cut_at c content) (p + woff v) (p + woff v + zlen b)))
      /\ (cov v c p (p + zlen b) = true -> r = Ok b).
Proof. exact truncated_read_lemma. Qed.
Print Assumptions truncated_read.

(** The layer contract behind it, for every tower including the bare file: the outcome of
    read(n) over the cut file is a function of the complete file, the cut and the position
    only ([trunc_outcome]: [b] if covered, else SectorReadError if a sector kind occurs, else
    the bytes that are there) - whatever the state of the ancestors. *)
Theorem truncated_read_any_layer :
  forall v content c, wf v content -> TruncLike v content c.
Proof. exact view_trunclike. Qed.
Print Assumptions truncated_read_any_layer.

(** what "the base bytes the read touches lie below the cut" means *)
Theorem covered_spec :
  forall v c p q, cov v c p q = true <-> forall a, p <= a < q -> baddr v a < c.
Proof. exact cov_true_iff. Qed.
Print Assumptions covered_spec.
Theorem logical_byte_is_base_byte :
  forall v content, wf v content -> forall a, 0 <= a < vsize v content ->
    znth 0 (logical v content) a = znth 0 content (baddr v a) /\ 0 <= baddr v a < zlen content.
Proof. exact logical_znth. Qed.
Print Assumptions logical_byte_is_base_byte.

(** * (1') Histories *)
(** For every history of seek(off, whence) / tell / read(n >= 0) from any good state, the
    outputs over the cut file equal the outputs over the complete file up to the first read
    that comes back short ([short_of]: a proper prefix of the complete read, or
    SectorReadError where the complete file gave bytes); nothing is claimed after that read
    (the transcoder stops there: (2)). *)
Theorem truncated_run :
  forall k size sub content c ops s,
    wf (V k size sub) content -> good (V k size sub) s -> Forall op_ok ops ->
    agree_until_short (fst (run (V k size sub) (cut_at c content) s ops))
                      (fst (run (V k size sub) content s ops)).
Proof. exact truncated_run_lemma. Qed.
Print Assumptions truncated_run.

(** When every byte of the view's window lies below the cut, the cut changes nothing. *)
Theorem truncated_run_complete :
  forall k size sub content c ops s,
    wf (V k size sub) content -> good (V k size sub) s -> Forall op_ok ops ->
    cov (V k size sub) c 0 size = true ->
    fst (run (V k size sub) (cut_at c content) s ops) = fst (run (V k size sub) content s ops).
Proof. exact truncated_run_complete_lemma. Qed.
Print Assumptions truncated_run_complete.

(** * (2) The block loop of the transcoder over one stream *)
(** For every such tower, every cut, every good start state, every block size >= 1 and frame
    size >= 1, every block encoder [enc] (no condition on it when a sector kind occurs in the
    tower; frame-wise monotone otherwise - the identity of PassthroughTranscoder is), and
    [drain_fuel] rounds or more: both loops terminate normally, what the loop yields over the
    cut file is a PREFIX of what it yields over the complete file, and the two are equal when
    the window from the start position on lies below the cut. *)
Theorem truncated_blocks_prefix :
  forall k size sub content c enc bs fs s fuel,
    let v := V k size sub in
    wf v content -> good v s -> 1 <= fs -> 1 <= bs ->
    (has_sect v = true \/ enc_mono fs enc) ->
    (drain_fuel v content s bs <= fuel)%nat ->
    exists D D' T s1 s2,
      drain fuel enc v content s bs fs [] = (Ok D, s1)
      /\ drain fuel enc v (cut_at c content) s bs fs [] = (Ok D', s2)
      /\ D = D' ++ T
      /\ (cov v c (v_tell s) size = true -> D' = D).
Proof. exact truncated_blocks_prefix_lemma. Qed.
Print Assumptions truncated_blocks_prefix.

Theorem passthrough_encoder_monotone : forall fs, enc_mono fs (fun x => x).
Proof. exact enc_mono_id. Qed.
Print Assumptions passthrough_encoder_monotone.

(** Over the complete file the stream loop IS the byte-list loop [passthrough] of Transcode.v
    (whose output C05 / C12 characterise: the rest of the logical content truncated to whole
    frames), for any block size. *)
Theorem drain_is_passthrough :
  forall k size sub content bs fs src,
    let v := V k size sub in
    wf v content -> 0 < bs -> frame_size src = fs ->
    forall fuel s acc, good v s ->
      fst (drain fuel (fun x => x) v content s bs fs acc)
      = passthrough fuel src bs (slice (logical v content) (v_tell s) size) acc.
Proof. exact drain_passthrough_lemma. Qed.
Print Assumptions drain_is_passthrough.

(** * (3) Several streams drained together (stereo pair) *)
(** [drain_many]: every round reads one block of every stream in turn; SectorReadError in any
    of them ends the loop and drops the round; so does an empty block.  Between the reads the
    other streams may have left the shared ancestors in any good state ([pre], [pre'],
    independently in the two runs).  For streams whose towers all contain a sector kind
    (AKAI and Roland sample data are sector chains), any round encoder [enc] (interleaving,
    padding, byte order): the output over the cut file is a prefix - by whole rounds, hence
    by whole frames - of the output over the complete file, equal to it when the windows of
    all streams lie below the cut.
    (Towers WITHOUT a sector kind are excluded on purpose: there a short block of one
    stream is padded by pad_channels up to the length of the other, and the padded frames
    are not the complete file's.) *)
Theorem truncated_streams_prefix :
  forall content c enc pre pre' xs fuel,
    xs <> [] -> Forall (stream_ok content) xs -> Forall (fun x => has_sect (sv x) = true) xs ->
    (forall n, pre_ok (pre n)) -> (forall n, pre_ok (pre' n)) ->
    (many_fuel content xs <= fuel)%nat ->
    exists D D' T xs1 xs2,
      drain_many fuel pre enc content xs [] = (Ok D, xs1)
      /\ drain_many fuel pre' enc (cut_at c content) xs [] = (Ok D', xs2)
      /\ D = D' ++ T
      /\ (forallb (strm_cov c content) xs = true -> D' = D).
Proof. exact truncated_streams_prefix_lemma. Qed.
Print Assumptions truncated_streams_prefix.

(** interference that is allowed: none, or the ancestors left in any good state *)
Theorem no_interference_ok : pre_ok (fun _ s => s).
Proof. exact pre_ok_id. Qed.
Print Assumptions no_interference_ok.
Theorem ancestors_moved_ok :
  forall f : view -> vstate,
    (forall k size sub, good sub (f (V k size sub))) -> pre_ok (fun v s => interfere v s (f v)).
Proof. exact pre_ok_interfere. Qed.
Print Assumptions ancestors_moved_ok.

(** * The 2352-byte-sector wrapper over a cut file *)
(** MdfStream computes its size from the length of the file under it.  Over a cut file that
    still holds a whole sector it is a well-formed view OF THE CUT FILE (so, by C08, an
    ordinary read-only file), and its content is the complete wrapper's content cut at a
    2048-byte boundary: a cut 2352-wrapped image looks, from above, like the raw image cut
    at a sector boundary. *)
Theorem mdf_over_cut_file :
  forall content c,
    let cut := cut_at c content in
    let M := mdf_view (zlen content) Base in
    let M' := mdf_view (zlen cut) Base in
    2352 <= zlen cut ->
    wf M content /\ wf M' cut
    /\ logical M' cut = cut_at ((zlen cut / 2352) * 2048) (logical M content).
Proof. exact mdf_cut_lemma. Qed.
Print Assumptions mdf_over_cut_file.

(** Everything above a well-formed bottom view sees it as a plain file holding its content:
    [plug w B] is the tower [w] with the view [B] in place of the base file, [flat w S] the
    state [S] with [B]'s state replaced by a plain cursor at [B]'s position; [shape_ok w]
    (implied by [wf]): positive sizes and sector lengths, non-negative offsets and sector
    numbers, no reversal.  Reads and block loops give the same results. *)
Theorem bottom_view_reads_as_file :
  forall kB sizeB subB X w S n,
    wf (V kB sizeB subB) X -> shape_ok w -> good (plug w (V kB sizeB subB)) S -> 0 <= n ->
    fst (v_read (plug w (V kB sizeB subB)) X S n)
    = fst (v_read w (logical (V kB sizeB subB) X) (flat w S) n)
    /\ good w (flat w S).
Proof. exact bottom_view_read_lemma. Qed.
Print Assumptions bottom_view_reads_as_file.
Theorem bottom_view_drains_as_file :
  forall kB sizeB subB X enc w bs fs fuel S acc,
    wf (V kB sizeB subB) X -> shape_ok w -> good (plug w (V kB sizeB subB)) S -> 0 <= bs ->
    fst (drain fuel enc (plug w (V kB sizeB subB)) X S bs fs acc)
    = fst (drain fuel enc w (logical (V kB sizeB subB) X) (flat w S) bs fs acc).
Proof. exact bottom_view_drain_lemma. Qed.
Print Assumptions bottom_view_drains_as_file.
Theorem wf_gives_shape : forall w content, wf w content -> shape_ok w.
Proof. exact wf_shape_ok. Qed.
Print Assumptions wf_gives_shape.

(** Hence (2) for a 2352-wrapped image: the tower [w] over the MdfStream of the complete file
    ([plug w M], well formed over the complete file) against THE SAME [w] over the MdfStream
    that is built over the cut file ([plug w M'], its size recomputed from the cut file's
    length), from any good states at the same position: the block loop over the cut image
    yields a prefix of what it yields over the complete image, and all of it when the
    window of [w] lies below the sector boundary the cut amounts to. *)
Theorem stacked_mdf_blocks_prefix :
  forall k size sub content c enc bs fs S S' fuel,
    let cut := cut_at c content in
    let M := mdf_view (zlen content) Base in
    let M' := mdf_view (zlen cut) Base in
    let w := V k size sub in
    2352 <= zlen cut -> wf (plug w M) content ->
    good (plug w M) S -> good (plug w M') S' -> v_tell S' = v_tell S ->
    1 <= fs -> 1 <= bs -> (has_sect w = true \/ enc_mono fs enc) ->
    (drain_fuel (plug w M) content S bs <= fuel)%nat ->
    exists D D' T,
      fst (drain fuel enc (plug w M) content S bs fs []) = Ok D
      /\ fst (drain fuel enc (plug w M') cut S' bs fs []) = Ok D'
      /\ D = D' ++ T
      /\ (cov w ((zlen cut / 2352) * 2048) (v_tell S) size = true -> D' = D).
Proof. exact mdf_stack_blocks_prefix_lemma. Qed.
Print Assumptions stacked_mdf_blocks_prefix.

(** * Non-vacuity *)
(** a chained file of three 4-byte sectors (1, 4, 3) behind an offset window, over a 24-byte
    file; cut inside sector 4 *)
Definition ex_content : list Z := map Z.of_nat (seq 100 24).
Definition ex_chain : view := V (KSect 4 (MChain [1; 4; 3])) 12 Base.
Definition ex_view : view := V (KOff 1) 10 ex_chain.
Example ex_view_wf : wf ex_view ex_content.
Proof.
  cbn [wf ex_view ex_chain kind_ok]. repeat split; try (vm_compute; congruence); try lia.
  repeat constructor; vm_compute; congruence.
Qed.
Example ex_view_sect : has_sect ex_view = true. Proof. reflexivity. Qed.
Example ex_view_bytes :
  logical ex_view ex_content = [105; 106; 107; 116; 117; 118; 119; 112; 113; 114]
  /\ map (baddr ex_view) [0; 1; 2; 3; 4; 5; 6; 7; 8; 9] = [5; 6; 7; 16; 17; 18; 19; 12; 13; 14].
Proof. vm_compute. auto. Qed.
(** cut at 18: bytes 0..4 of the view are there, byte 5 (address 18) is not, bytes 7..9
    (addresses 12..14) are there again but are never delivered *)
Example ex_view_run :
  fst (run ex_view (cut_at 18 ex_content) (init_state ex_view 3) [ORead 3; ORead 2; OTell; ORead 2; OTell; OSeek 7 0; ORead 3])
  = [OutBytes [105; 106; 107]; OutBytes [116; 117]; OutPos 5; OutErr SectorReadError; OutPos 5; OutPos 7;
     OutBytes [112; 113; 114]]
  /\ fst (run ex_view ex_content (init_state ex_view 3) [ORead 3; ORead 2; OTell; ORead 2; OTell; OSeek 7 0; ORead 3])
  = [OutBytes [105; 106; 107]; OutBytes [116; 117]; OutPos 5; OutBytes [118; 119]; OutPos 7; OutPos 7;
     OutBytes [112; 113; 114]].
Proof. vm_compute. auto. Qed.
Example ex_view_drain :
  map (fun c => fst (drain (drain_fuel ex_view ex_content (init_state ex_view 0) 4) (fun x => x) ex_view
                           (cut_at c ex_content) (init_state ex_view 0) 4 2 []))
      [24; 20; 19; 18; 8; 7; 0]
  = [Ok [105; 106; 107; 116; 117; 118; 119; 112; 113; 114];
     Ok [105; 106; 107; 116; 117; 118; 119; 112; 113; 114];
     Ok [105; 106; 107; 116]; Ok [105; 106; 107; 116]; Ok []; Ok []; Ok []].
Proof. vm_compute. reflexivity. Qed.
(** a tower without a sector kind returns what is there *)
Definition ex_win : view := V (KOff 3) 12 (V KWrap 20 Base).
Example ex_win_wf : wf ex_win ex_content.
Proof. cbn [wf ex_win kind_ok]. repeat split; try (vm_compute; congruence); lia. Qed.
Example ex_win_run :
  fst (run ex_win (cut_at 10 ex_content) (init_state ex_win 7) [ORead 5; OTell; ORead 5; OTell; ORead 5])
  = [OutBytes [103; 104; 105; 106; 107]; OutPos 5; OutBytes [108; 109]; OutPos 10; OutBytes []]
  /\ fst (drain 5 (fun x => x) ex_win (cut_at 10 ex_content) (init_state ex_win 0) 4 2 [])
     = Ok [103; 104; 105; 106; 107; 108]
  /\ fst (drain 5 (fun x => x) ex_win ex_content (init_state ex_win 0) 4 2 [])
     = Ok [103; 104; 105; 106; 107; 108; 109; 110; 111; 112; 113; 114].
Proof. vm_compute. auto. Qed.
(** a stereo pair of two chained files sharing the base file; 16-bit samples interleaved *)
Fixpoint ex_inter2 (fuel : nat) (a b : list Z) : list Z :=
  match fuel with
  | O => []
  | S f => match a, b with
           | x :: y :: a', u :: w :: b' => x :: y :: u :: w :: ex_inter2 f a' b'
           | _, _ => []
           end
  end.
Definition ex_enc2 (bl : list (list Z)) : list Z :=
  match bl with [a; b] => ex_inter2 (length a) a b | _ => [] end.
Definition ex_pair : list strm :=
  [ {| sv := ex_chain; sst := init_state ex_chain 0; sbs := 4; sfs := 2 |};
    {| sv := V (KSect 4 (MChain [0; 5; 2])) 12 Base; sst := init_state (V (KSect 4 (MChain [0; 5; 2])) 12 Base) 0;
       sbs := 4; sfs := 2 |} ].
Example ex_pair_ok :
  Forall (stream_ok ex_content) ex_pair /\ Forall (fun x => has_sect (sv x) = true) ex_pair.
Proof.
  split; repeat constructor; cbn; try lia; try (vm_compute; congruence); unfold ex_chain; eauto.
Qed.
Example ex_pair_drain :
  map (fun c => fst (drain_many (many_fuel ex_content ex_pair) (fun _ _ s => s) ex_enc2 (cut_at c ex_content) ex_pair []))
      [24; 22; 18; 7]
  = [Ok [104; 105; 100; 101; 106; 107; 102; 103; 116; 117; 120; 121; 118; 119; 122; 123;
         112; 113; 108; 109; 114; 115; 110; 111];
     Ok [104; 105; 100; 101; 106; 107; 102; 103];
     Ok [104; 105; 100; 101; 106; 107; 102; 103];
     Ok []].
Proof. vm_compute. reflexivity. Qed.
(** a chained file of three 1024-byte sectors (1, 3, 4) over the 2352-byte-sector wrapper of a
    3-sector file, cut inside the third raw sector: the wrapper over the cut file has 2
    sectors (4096 bytes), sector 4 of the chain is gone, two blocks survive *)
Definition ex_raw : list Z := map (fun i => Z.of_nat i mod 251) (seq 0 (3 * 2352)).
Definition ex_w : view := V (KSect 1024 (MChain [1; 3; 4])) 3072 Base.
Example ex_stacked :
  let M := mdf_view (zlen ex_raw) Base in
  let cut := cut_at 4804 ex_raw in
  let M' := mdf_view (zlen cut) Base in
  wf (plug ex_w M) ex_raw
  /\ M' = V (KSect 2048 MMdf) 4096 Base
  /\ exists D,
       fst (drain 5 (fun x => x) (plug ex_w M) ex_raw (init_state (plug ex_w M) 0) 1024 2 []) = Ok D
       /\ length D = 3072%nat
       /\ fst (drain 5 (fun x => x) (plug ex_w M') cut (init_state (plug ex_w M') 0) 1024 2 []) = Ok (firstn 2048 D).
Proof.
  cbv zeta. split; [|split; [vm_compute; reflexivity|]].
  - cbn [plug ex_w wf kind_ok mdf_view]. repeat split; try (vm_compute; congruence); try lia.
    repeat constructor; vm_compute; congruence.
  - eexists. split; [vm_compute; reflexivity|]. split; vm_compute; reflexivity.
Qed.
(** the hypothesis [2352 <= zlen cut] of [stacked_mdf_blocks_prefix]: with less than one whole
    raw sector left the MdfStream has size 0, and a StreamWrapper of size 0 is "not clipped".
    Before the fix of StreamWrapper.seek (seeks clamped to the size 0 while reads were not
    clipped) every sector of the chain was then served from the start of the file and the drained
    data began with [16;17;18;19], not a prefix of the full data; since the fix the seeks are not
    clamped either, the reads run off the end of the file and the drain yields nothing - still a
    prefix.  The theorem keeps the hypothesis (no directory can be read through such a wrapper, so
    an export never builds this tower); the example records the behaviour of the size-0 case. *)
Example ex_stacked_needs_whole_sector :
  let cut := cut_at 1208 ex_raw in
  let M' := mdf_view (zlen cut) Base in
  M' = V (KSect 2048 MMdf) 0 Base
  /\ exists D' D,
       fst (drain 5 (fun x => x) (plug ex_w M') cut (init_state (plug ex_w M') 0) 1024 2 []) = Ok D'
       /\ fst (drain 5 (fun x => x) (plug ex_w (mdf_view (zlen ex_raw) Base)) ex_raw
                     (init_state (plug ex_w (mdf_view (zlen ex_raw) Base)) 0) 1024 2 []) = Ok D
       /\ D' = [] /\ firstn 4 D = [36; 37; 38; 39].
Proof.
  cbv zeta. split; [vm_compute; reflexivity|].
  eexists _, _. split; [vm_compute; reflexivity|]. split; [vm_compute; reflexivity|].
  split; vm_compute; reflexivity.
Qed.
