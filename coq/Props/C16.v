(** C16 - Results depend only on the image bytes, not on what was looked at before.
    Property theorems only.  This is the theorem about the memo PROTOCOL (any node type with
    decidable equality, any realisation function of the image and the node, any adaptive
    operations); that the real realisation closures are functions of the image and the node
    alone is tested by the correspondence run, not proved (see the claim: partial). *)
From SE Require Import Base Lazy LazyProofs.

(** For every history of operations (`ls` at any path, valid or not; `export`; in any order)
    on one opened image, started from any consistent memo state - in particular from the
    freshly opened image - every operation's output equals its output on a freshly opened
    image, and the memo fields stay consistent. *)
Theorem history_independent :
  forall (node : Type) (node_eqb : node -> node -> bool),
    (forall a b, node_eqb a b = true <-> a = b) ->
  forall (value output : Type) (realise : node -> value)
         (ps : list (prog node value output)) (s : memo node value),
    consistent node node_eqb value realise s ->
    fst (exec_all node node_eqb value output realise ps s)
    = map (fun p => fst (exec node node_eqb value output realise p [])) ps
    /\ consistent node node_eqb value realise (snd (exec_all node node_eqb value output realise ps s)).
Proof. exact history_independent_lemma. Qed.
Print Assumptions history_independent.

(** In particular: repeating an operation gives the same answer, and an operation answers the
    same whether or not other operations ran first. *)
Theorem repeat_and_order_independent :
  forall (node : Type) (node_eqb : node -> node -> bool),
    (forall a b, node_eqb a b = true <-> a = b) ->
  forall (value output : Type) (realise : node -> value) (before : list (prog node value output)) (p : prog node value output),
    fst (exec node node_eqb value output realise p (snd (exec_all node node_eqb value output realise before [])))
    = fst (exec node node_eqb value output realise p []).
Proof.
  intros node node_eqb Heq value output realise before p.
  destruct (history_independent_lemma node node_eqb Heq value output realise before [] (consistent_nil _ _ _ _)) as [_ Hc].
  exact (proj1 (exec_independent node node_eqb Heq value output realise p _ Hc)).
Qed.
Print Assumptions repeat_and_order_independent.

(** The image is a parameter of [realise] and no operation of the model can change it: the
    view API has no write (Stream.v defines seek / tell / read only). *)

(** Non-vacuity: nodes = nat, realise n = n * n, an operation that asks for node 3 and then for
    the node numbered by the answer; after a history that already realised node 9 the answer
    is the same. *)
Example c16_example :
  let p := Ask nat nat nat 3%nat (fun v => Ask nat nat nat v (fun w => Ret nat nat nat (v + w)%nat)) in
  fst (exec nat Nat.eqb nat nat (fun n => (n * n)%nat) p [(9%nat, 81%nat)]) = 90%nat
  /\ fst (exec nat Nat.eqb nat nat (fun n => (n * n)%nat) p []) = 90%nat.
Proof. vm_compute. split; reflexivity. Qed.
