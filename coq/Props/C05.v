(** C05 - Left/right pairs merge into one stereo file; no sample is lost or duplicated.
    Property theorems only.  [names] are the export names of the samples of one directory
    (pairwise distinct, no trailing blank: exactly what the naming routine hands out, see
    [export_names_are_pairable]); [combine_stereo names] lists the files written, each with
    the indices of its source samples in CHANNEL order. *)
From SE Require Import Base Codecs Cue Names NamesProofs PairProofs NamesMoreProofs Transcode TranscodeUnbounded.
From Coq Require Import Permutation.

(** The hypotheses below hold of every directory the exporter builds. *)
Theorem export_names_are_pairable :
  forall elems names, make_export_names elems = Ok names -> NoDup names /\ Forall no_trail names.
Proof.
  intros elems names H. split.
  - exact (proj1 (sanitize_names_distinct_lemma _ _ _ H)).
  - exact (export_names_no_trail _ _ H).
Qed.
Print Assumptions export_names_are_pairable.

(** No sample lost, none duplicated: the sources of all written files, taken together, are
    exactly the samples of the directory, each once - for every directory of any size. *)
Theorem pair_partition :
  forall names, NoDup names -> Forall no_trail names ->
    Permutation (concat (map snd (combine_stereo names))) (seq 0 (length names)).
Proof. exact combine_stereo_partition_lemma. Qed.
Print Assumptions pair_partition.

(** Hence the channels of all written files add up to the number of samples. *)
Theorem pair_channels_add_up :
  forall names, NoDup names -> Forall no_trail names ->
    length (concat (map snd (combine_stereo names))) = length names.
Proof.
  intros names H1 H2. rewrite (Permutation_length (combine_stereo_partition_lemma names H1 H2)).
  apply seq_length.
Qed.
Print Assumptions pair_channels_add_up.

(** Every written file is either one sample under its own name (and then no L/R counterpart
    of it exists in the directory), or a pair named after the common stem whose FIRST source
    (channel 0) is the sample called stem+sep+"L" and whose second (channel 1) is
    stem+sep+"R" with the same separator of blanks/hyphens - whatever their directory order. *)
Theorem pair_shape :
  forall names, NoDup names -> Forall no_trail names ->
  forall x src, In (x, src) (combine_stereo names) ->
    (exists i, src = [i] /\ (i < length names)%nat /\ x = nm names i
               /\ (forall a, alt_of x = Some a -> ~ In a names))
    \/ (exists i j stem sep, src = [i; j] /\ (i < length names)%nat /\ (j < length names)%nat /\ x = stem
          /\ nm names i = stem ++ sep ++ [76] /\ nm names j = stem ++ sep ++ [82]
          /\ sep <> [] /\ Forall (fun c => is_sep c = true) sep
          /\ stereo_match (nm names i) = Some {| st_stem := stem; st_sep := sep; st_side := 76 |}).
Proof.
  intros names H1 H2 x src H. eapply combine_loop_shape; [exact H2|apply todo_enum_ok|exact H].
Qed.
Print Assumptions pair_shape.

(** Completeness: whenever the directory holds stem+sep+"L" and stem+sep+"R" (sep a
    non-empty run of blanks/hyphens, the stem not itself ending in one), they ARE merged into
    one file named stem, L first - wherever they stand in the directory. *)
Theorem pair_complete :
  forall names, NoDup names -> Forall no_trail names ->
  forall i j stem sep,
    (i < length names)%nat -> (j < length names)%nat ->
    nm names i = stem ++ sep ++ [76] -> nm names j = stem ++ sep ++ [82] ->
    sep <> [] -> Forall (fun c => is_sep c = true) sep ->
    (stem = [] \/ is_sep (last_char stem) = false) -> mem 10 stem = false ->
    In (stem, [i; j]) (combine_stereo names).
Proof. exact combine_stereo_complete_lemma. Qed.
Print Assumptions pair_complete.

(** The audio of a merged pair: for left and right 16-bit mono streams of equal length the
    written PCM is their frame-by-frame interleaving, the LEFT sample first in every frame,
    every frame of both preserved - for every length and every internal block size (this is
    the transcoder's theorem transcode_stereo_pair of C12 applied to the two source streams
    [left; right] that combine_stereo hands over in that order, see pair_shape). *)
Theorem pair_frames_preserved :
  forall target L R F, zlen L = 2 * F -> zlen R = 2 * F ->
    transcode target [mono16 L; mono16 R] 2 2 = Ok (interleave2 L R).
Proof. exact transcode_stereo_pair_lemma. Qed.
Print Assumptions pair_frames_preserved.

(** The file NAMES after merging need not be distinct (known finding D6, see C06). *)
Theorem pair_output_names_distinct_refuted :
  exists names, NoDup names /\ Forall no_trail names /\ ~ NoDup (map fst (combine_stereo names)).
Proof.
  exists [[65; 32; 76]; [65; 32; 82]; [65]]. split; [|split].
  - repeat constructor; cbn; intuition discriminate.
  - repeat constructor.
  - vm_compute. intros H. inversion H as [|? ? Hn _]. apply Hn. now left.
Qed.

(** ...but EVERY such collision involves a merged pair (finding D6 characterised): if two
    different outputs (different positions in the list of written files) carry the same
    name, at least one of them has two sources, i.e. is a stereo pair named after its stem
    (see [pair_shape]).  Two files that each come from ONE sample never share a name. *)
Theorem output_name_collisions_involve_a_pair :
  forall names, NoDup names -> Forall no_trail names ->
  forall p q x s1 s2,
    p <> q ->
    nth_error (combine_stereo names) p = Some (x, s1) ->
    nth_error (combine_stereo names) q = Some (x, s2) ->
    length s1 = 2%nat \/ length s2 = 2%nat.
Proof. exact output_collision_lemma. Qed.
Print Assumptions output_name_collisions_involve_a_pair.

(** Equivalently: the single-source outputs carry pairwise distinct names. *)
Theorem single_source_output_names_distinct :
  forall names, NoDup names -> Forall no_trail names ->
    NoDup (map fst (filter single_source (combine_stereo names))).
Proof. exact single_outputs_distinct_lemma. Qed.
Print Assumptions single_source_output_names_distinct.

(** Non-vacuity of the two theorems above: "A L", "A R", "A", "B" -> the files A (pair), A, B:
    the collision A/A involves the pair at position 0; the single-source names A, B differ. *)
Example c05_collision_example :
  let names := [[65;32;76]; [65;32;82]; [65]; [66]] in
  NoDup names /\ Forall no_trail names
  /\ combine_stereo names = [([65], [0%nat; 1%nat]); ([65], [2%nat]); ([66], [3%nat])]
  /\ map fst (filter single_source (combine_stereo names)) = [[65]; [66]].
Proof.
  cbv zeta. split; [repeat constructor; cbn; intuition discriminate|].
  split; [repeat constructor|]. split; vm_compute; reflexivity.
Qed.

(** Non-vacuity: "B R", "A", "B L", "C-L" -> B = [2;0] (L first although R comes first),
    A alone, C-L alone. *)
Example c05_example :
  combine_stereo [[66;32;82]; [65]; [66;32;76]; [67;45;76]]
  = [([66], [2%nat; 0%nat]); ([65], [1%nat]); ([67;45;76], [3%nat])].
Proof. vm_compute. reflexivity. Qed.
