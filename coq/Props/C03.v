(** C03 - CDDA tracks tile the bin file exactly at the cue sheet's index positions.
    Property theorems only. *)
From SE Require Import Base Codecs Cue FatProofs Stream StreamProofs CueProofs Transcode TranscodeProofs TranscodeUnbounded AkaiProofs.

Theorem msf_frames : forall m s f,
  frames_of_index {| ix_num := 1; ix_min := m; ix_sec := s; ix_frm := f |} = (60 * m + s) * 75 + f.
Proof. exact msf_frames_lemma. Qed.

(** For every cue sheet whose tracks are all AUDIO and have at least one INDEX, of any
    number of tracks: the track windows are (2352*F_i, 2352*(F_{i+1}-F_i)) and, for the last
    track, (2352*F_n, eof - 2352*F_n), F_i being the frame number of the track's FIRST index. *)
Theorem cdda_windows_exact :
  forall c eof,
    Forall (fun t => is_audio t = true) (c_tracks c) -> Forall has_index (c_tracks c) ->
    map (fun w => (w_off w, w_size w)) (cdda_windows c eof)
    = windows_spec (map first_frame (c_tracks c)) eof.
Proof. exact cdda_windows_lemma. Qed.
Print Assumptions cdda_windows_exact.

(** For strictly increasing first-index frames inside the bin (any bin length, not
    necessarily a multiple of 2352 or 4): concatenating the tracks' PCM in order gives the bin
    from the first track's first index to the end truncated to whole 4-byte frames. *)
Theorem cdda_tiling :
  forall fs bin,
    fs <> [] -> 0 <= hd 0 fs -> increasing fs -> 2352 * last fs 0 <= zlen bin ->
    concat (map (fun p => track_pcm bin (mkwin p)) (windows_spec fs (zlen bin)))
    = slice bin (2352 * hd 0 fs) (zlen bin - (zlen bin - 2352 * last fs 0) mod 4).
Proof. exact cdda_tiling_lemma. Qed.
Print Assumptions cdda_tiling.

(** each non-last track is exactly its slice; the last runs to EOF in whole frames *)
Theorem cdda_track_inner : forall bin off size,
  0 <= off -> 0 < size -> size mod 4 = 0 -> off + size <= zlen bin ->
  track_pcm bin (mkwin (off, size)) = slice bin off (off + size).
Proof. exact track_pcm_inner. Qed.
Theorem cdda_track_last : forall bin off,
  0 <= off <= zlen bin ->
  track_pcm bin (mkwin (off, zlen bin - off)) = slice bin off (zlen bin - (zlen bin - off) mod 4).
Proof. exact track_pcm_last. Qed.

(** Non-vacuity: three tracks, a bin length that is neither a multiple of 2352 nor of 4. *)
Example c03_example :
  windows_spec [1; 3; 4] 11763 = [(2352, 4704); (7056, 2352); (9408, 2355)]
  /\ increasing [1; 3; 4] /\ 2352 * last [1; 3; 4] 0 <= 11763.
Proof. split; [vm_compute; reflexivity|]. split; [cbn [increasing]; lia|cbn [last]; lia]. Qed.

(** [track_pcm] is not an abstraction of convenience: it IS what the real pipeline computes.
    The track's stream is StreamOffset(bin, size, offset) - a well-formed C08 view whose logical
    content is the bin slice - and the pass-through transcoder writes a single little-endian
    16-bit stereo stream truncated to whole 4-byte frames, for every internal block size (C12). *)
Theorem cdda_track_stream_content :
  forall bin off size, 0 <= off -> 0 < size -> off + size <= zlen bin ->
    wf (V (KOff off) size Base) bin /\
    logical (V (KOff off) size Base) bin = slice bin off (off + size).
Proof.
  intros bin off size H1 H2 H3. split.
  - cbn [wf kind_ok logical]. repeat split; lia.
  - apply logical_off; cbn [logical]; lia.
Qed.
Print Assumptions cdda_track_stream_content.
Theorem cdda_track_written_pcm :
  forall target bin w, 0 < w_size w ->
    transcode target [{| sbytes := slice bin (w_off w) (w_off w + w_size w); swidth := 2; schans := 2; sbig := false |}] 2 2
    = Ok (track_pcm bin w).
Proof.
  intros target bin w Hs.
  pose proof (transcode_single_le_lemma target 2
                {| sbytes := slice bin (w_off w) (w_off w + w_size w); swidth := 2; schans := 2; sbig := false |}
                ltac:(lia) eq_refl ltac:(cbn; lia) eq_refl) as H.
  cbn [schans] in H. rewrite H. unfold track_pcm, whole_frames, frame_size. cbn [sbytes schans swidth].
  destruct (Z.gtb_spec (w_size w) 0) as [_|Hc]; [|lia]. do 3 f_equal.
Qed.
Print Assumptions cdda_track_written_pcm.
