(** C03 - CDDA tracks tile the bin file exactly at the cue sheet's index positions.
    Property theorems only. *)
From SE Require Import Base Codecs Cue FatProofs Stream StreamProofs CueProofs CueDecorProofs Transcode TranscodeProofs TranscodeUnbounded
     Names AkaiImage AkaiProofs CddaImage CddaSpec CddaCompose.

Theorem msf_frames : forall m s f,
  frames_of_index {| ix_num := 1; ix_min := m; ix_sec := s; ix_frm := f |} = (60 * m + s) * 75 + f.
Proof. exact msf_frames_lemma. Qed.

(** For every cue sheet whose tracks are all AUDIO and have at least one INDEX, of any
    number of tracks: the track windows are (2352*F_i, 2352*(F_{i+1}-F_i)) and, for the last
    track, (2352*F_n, eof - 2352*F_n), F_i being the frame number of the track's FIRST index. *)
Theorem cdda_windows_exact :
  forall c eof,
    Forall (fun t => is_audio t = true) (c_tracks c) -> Forall has_index (c_tracks c) ->
    map (fun w => (w_off w, w_size w)) (cdda_windows c eof)
    = windows_spec (map first_frame (c_tracks c)) eof.
Proof. exact cdda_windows_lemma. Qed.
Print Assumptions cdda_windows_exact.

(** For strictly increasing first-index frames inside the bin (any bin length, not
    necessarily a multiple of 2352 or 4): concatenating the tracks' PCM in order gives the bin
    from the first track's first index to the end truncated to whole 4-byte frames. *)
Theorem cdda_tiling :
  forall fs bin,
    fs <> [] -> 0 <= hd 0 fs -> increasing fs -> 2352 * last fs 0 <= zlen bin ->
    concat (map (fun p => track_pcm bin (mkwin p)) (windows_spec fs (zlen bin)))
    = slice bin (2352 * hd 0 fs) (zlen bin - (zlen bin - 2352 * last fs 0) mod 4).
Proof. exact cdda_tiling_lemma. Qed.
Print Assumptions cdda_tiling.

(** each non-last track is exactly its slice; the last runs to EOF in whole frames *)
Theorem cdda_track_inner : forall bin off size,
  0 <= off -> 0 < size -> size mod 4 = 0 -> off + size <= zlen bin ->
  track_pcm bin (mkwin (off, size)) = slice bin off (off + size).
Proof. exact track_pcm_inner. Qed.
Theorem cdda_track_last : forall bin off,
  0 <= off <= zlen bin ->
  track_pcm bin (mkwin (off, zlen bin - off)) = slice bin off (zlen bin - (zlen bin - off) mod 4).
Proof. exact track_pcm_last. Qed.

(** Non-vacuity: three tracks, a bin length that is neither a multiple of 2352 nor of 4. *)
Example c03_example :
  windows_spec [1; 3; 4] 11763 = [(2352, 4704); (7056, 2352); (9408, 2355)]
  /\ increasing [1; 3; 4] /\ 2352 * last [1; 3; 4] 0 <= 11763.
Proof. split; [vm_compute; reflexivity|]. split; [cbn [increasing]; lia|cbn [last]; lia]. Qed.

(** [track_pcm] is not an abstraction of convenience: it IS what the real pipeline computes.
    The track's stream is StreamOffset(bin, size, offset) - a well-formed C08 view whose logical
    content is the bin slice - and the pass-through transcoder writes a single little-endian
    16-bit stereo stream truncated to whole 4-byte frames, for every internal block size (C12). *)
Theorem cdda_track_stream_content :
  forall bin off size, 0 <= off -> 0 < size -> off + size <= zlen bin ->
    wf (V (KOff off) size Base) bin /\
    logical (V (KOff off) size Base) bin = slice bin off (off + size).
Proof.
  intros bin off size H1 H2 H3. split.
  - cbn [wf kind_ok logical]. repeat split; lia.
  - apply logical_off; cbn [logical]; lia.
Qed.
Print Assumptions cdda_track_stream_content.
Theorem cdda_track_written_pcm :
  forall target bin w, 0 < w_size w ->
    transcode target [{| sbytes := slice bin (w_off w) (w_off w + w_size w); swidth := 2; schans := 2; sbig := false |}] 2 2
    = Ok (track_pcm bin w).
Proof.
  intros target bin w Hs.
  pose proof (transcode_single_le_lemma target 2
                {| sbytes := slice bin (w_off w) (w_off w + w_size w); swidth := 2; schans := 2; sbig := false |}
                ltac:(lia) eq_refl ltac:(cbn; lia) eq_refl) as H.
  cbn [schans] in H. rewrite H. unfold track_pcm, whole_frames, frame_size. cbn [sbytes schans swidth].
  destruct (Z.gtb_spec (w_size w) 0) as [_|Hc]; [|lia]. do 3 f_equal.
Qed.
Print Assumptions cdda_track_written_pcm.

(** * The WHOLE export, composed (CddaImage.v: [cdda_export]; CddaSpec.v: logical disc, serialiser,
    expected files; CddaCompose.v: proofs).

    THE COMPOSED THEOREM.  For EVERY logical disc [D] - any number of tracks (none included), each
    with an optional TITLE of any printable text, the mode word AUDIO in any letter case, a first INDEX at any MM:SS:FF (any non-negative
    fields, so also positions written with FF >= 75 or SS >= 60) and any further INDEX lines, the
    track starts strictly increasing - and EVERY bin that reaches the last track's start (any
    length, not necessarily a multiple of 2352 or of 4): `export` of the canonical cue sheet of [D]
    over that bin is routed to the CDDA reader and writes exactly [expected D bin]: per track, in
    order, ONE file named by the exporter's own sibling-name routine applied to the track names
    (TITLE, or "Untitled Track k"), 2 channels, 44100 Hz, whose PCM is the bin from the track's
    start (MM*60+SS)*75+FF sectors of 2352 bytes to the next track's start; the last track to the
    end of the bin in whole 4-byte frames.  The names appear on both sides through the same closed
    expression [make_safe_names ;; make_export_names] (as the partition names do in
    [akai_export_correct]): no hypothesis on the titles is needed; should the routine raise
    CouldNotDetermineName, both sides are that error. *)
Theorem cdda_export_correct :
  forall D bin, disc_ok D -> bin_covers D bin ->
    cdda_export (cue_serialise D) bin = expected D bin.
Proof. intros D bin H1 H2. exact (proj2 (cdda_export_correct_lemma D bin H1 H2)). Qed.
Print Assumptions cdda_export_correct.

(** ... and so does EVERY DECORATION of that sheet (the relation [decorated] of C17: any letter
    case of FILE/BINARY/TRACK/TITLE/INDEX, blanks before and after lines, blank lines anywhere,
    non-FILE lines before the FILE line, REM/PERFORMER/FLAGS/... lines inside tracks): the
    sheets the correspondence run generates are of this form. *)
Theorem cdda_export_correct_decorated :
  forall D bin ls', disc_ok D -> bin_covers D bin -> decorated (cue_serialise D) ls' ->
    cdda_export ls' bin = expected D bin.
Proof. exact cdda_export_decorated_lemma. Qed.
Print Assumptions cdda_export_correct_decorated.

(** the routing: the sheet of an audio disc goes to the CDDA reader, never to the sampler readers *)
Theorem cdda_export_routed :
  forall D bin, disc_ok D -> bin_covers D bin ->
    cue_export (cue_serialise D) bin = (files <- expected D bin ;; Ok (ToCdda files)).
Proof. intros D bin H1 H2. exact (proj1 (cdda_export_correct_lemma D bin H1 H2)). Qed.
Print Assumptions cdda_export_routed.

(** The export SUCCEEDS for every valid disc, whatever its titles: the sibling-name routine
    never raises CouldNotDetermineName nor runs out of fuel (NamesTotalProofs.v,
    [sanitize_names_ok_lemma]: every collision of its counting loop consumes a different
    taken name), so [expected D bin] is always [Ok] of one file per track under pairwise
    distinct names. *)
Theorem cdda_export_succeeds :
  forall D bin, disc_ok D -> bin_covers D bin ->
    exists names,
      make_export_names (disc_elems D) = Ok names /\ NoDup names /\ length names = length (ld_tracks D)
      /\ cdda_export (cue_serialise D) bin = Ok (expected_files names D bin).
Proof. exact cdda_export_total_lemma. Qed.
Print Assumptions cdda_export_succeeds.

(** the same, spelled with the names the routine returns ... *)
Theorem cdda_export_correct_named :
  forall D bin sn names, disc_ok D -> bin_covers D bin ->
    make_safe_names (disc_elems D) = Ok sn -> make_export_names (disc_elems D) = Ok names ->
    cdda_export (cue_serialise D) bin = Ok (expected_files names D bin).
Proof. exact cdda_export_named_lemma. Qed.
Print Assumptions cdda_export_correct_named.

(** ... and for track names that stay pairwise distinct under the two sanitisers (the
    [image_plain] form of [akai_export_correct]): every file is "<sanitised name>.wav" *)
Theorem cdda_export_correct_plain :
  forall D bin, disc_ok D -> bin_covers D bin -> disc_plain D ->
    cdda_export (cue_serialise D) bin
    = Ok (expected_files (map (fun n => make_export_name n true) (disc_names 1 (ld_tracks D))) D bin).
Proof. exact cdda_export_plain_lemma. Qed.
Print Assumptions cdda_export_correct_plain.

(** Corollary (no gap, no overlap): whatever files a successful export wrote, their PCM
    concatenated in track order is the bin from the first track's start to its end minus the
    r < 4 trailing bytes that do not fill a frame. *)
Theorem cdda_export_tiles :
  forall D bin files, disc_ok D -> bin_covers D bin -> ld_tracks D <> [] ->
    cdda_export (cue_serialise D) bin = Ok files ->
    let a := 2352 * hd 0 (disc_starts D) in
    let r := (zlen bin - 2352 * last (disc_starts D) 0) mod 4 in
    concat (map w_pcm files) = slice bin a (zlen bin - r)
    /\ exists tail, tail = slice bin (zlen bin - r) (zlen bin) /\ zlen tail = r /\ 0 <= r < 4
                    /\ concat (map w_pcm files) ++ tail = skipn (Z.to_nat a) bin.
Proof. exact cdda_export_tiles_lemma. Qed.
Print Assumptions cdda_export_tiles.

(** Corollary: one file per track, at pairwise distinct paths (from the naming theorem
    [sibling_export_names_distinct] of C06, whatever the titles: equal, differing only in
    characters the sanitiser drops, "x L" / "x R" ...), each 2 channels at 44100 Hz, directly
    below the destination. *)
Theorem cdda_export_one_file_per_track :
  forall D bin files, disc_ok D -> bin_covers D bin ->
    cdda_export (cue_serialise D) bin = Ok files ->
    length files = length (ld_tracks D) /\ NoDup (map w_path files)
    /\ Forall (fun f => w_rate f = 44100 /\ w_channels f = 2 /\ exists n, w_path f = [n]) files.
Proof. exact cdda_export_one_file_per_track_lemma. Qed.
Print Assumptions cdda_export_one_file_per_track.

(** For EVERY text and EVERY bin (cue sheet or not, any track modes, any index order, tracks
    without INDEX, windows beyond the end of the bin ...): the whole-image model is its PLAN -
    the files with the byte range of the bin each one's PCM is - cut out of the bin.  The
    correspondence run evaluates the plan on every generated case (the bin is represented by its
    length only) and the full model on the cases with a small bin. *)
Theorem cdda_export_plan_exact :
  forall lines bin,
    cue_export lines bin = (p <- cue_export_plan lines (zlen bin) ;; Ok (materialise_routed bin p)).
Proof. exact cue_export_plan_exact_lemma. Qed.
Print Assumptions cdda_export_plan_exact.

(** positions written the usual way (FF < 75, SS < 60): the frame count is read back, with
    the carries from frames into seconds and from seconds into minutes *)
Theorem msf_of_frames_roundtrip :
  forall n f t mo more, 0 <= n -> 0 <= f ->
    wf_index (msf_of_frames n f)
    /\ lt_start {| lt_title := t; lt_mode := mo; lt_index := msf_of_frames n f; lt_more := more |} = f.
Proof. intros n f t mo more Hn Hf. split; [now apply msf_of_frames_wf|now apply msf_of_frames_start]. Qed.

(** Non-vacuity: the disc of CddaSpec.v - "Song" at 00:00:74, an untitled track with a pre-gap
    index at 00:01:00 (a carry from frames into seconds), "Song" again at 00:01:02 - over a bin
    of 181111 bytes (= 3 mod 4) satisfies the hypotheses; the theorem gives its export, and
    running the model on the serialised text gives the same three files: "Song", "Untitled
    Track 2", "Song (2)" with 2352, 4704 and 4 bytes of PCM. *)
Example c03_export_example :
  disc_ok ex_disc /\ bin_covers ex_disc ex_bin /\ zlen ex_bin mod 4 = 3 /\ disc_starts ex_disc = [74; 75; 77]
  /\ cue_serialise ex_disc =
     [ [70;73;76;69;32;34;100;46;98;105;110;34;32;66;73;78;65;82;89];   (* FILE "d.bin" BINARY *)
       [84;82;65;67;75;32;48;49;32;65;85;68;73;79];                      (* TRACK 01 AUDIO *)
       [84;73;84;76;69;32;34;83;111;110;103;34];                         (* TITLE "Song" *)
       [73;78;68;69;88;32;48;49;32;48;48;58;48;48;58;55;52];             (* INDEX 01 00:00:74 *)
       [84;82;65;67;75;32;48;50;32;65;85;68;73;79];                      (* TRACK 02 AUDIO *)
       [73;78;68;69;88;32;48;48;32;48;48;58;48;49;58;48;48];             (* INDEX 00 00:01:00 *)
       [73;78;68;69;88;32;48;49;32;48;48;58;48;49;58;48;49];             (* INDEX 01 00:01:01 *)
       [84;82;65;67;75;32;48;51;32;65;85;68;73;79];                      (* TRACK 03 AUDIO *)
       [84;73;84;76;69;32;34;83;111;110;103;34];                         (* TITLE "Song" *)
       [73;78;68;69;88;32;48;49;32;48;48;58;48;49;58;48;50] ]            (* INDEX 01 00:01:02 *)
  /\ cdda_export (cue_serialise ex_disc) ex_bin = expected ex_disc ex_bin
  /\ match cdda_export (cue_serialise ex_disc) ex_bin with
     | Ok files =>
         map (fun w => (w_path w, w_rate w, w_channels w, zlen (w_pcm w), firstn 4 (w_pcm w))) files
         = [ ([[83;111;110;103]], 44100, 2, 2352, [105;106;107;108]);
             ([[85;110;116;105;116;108;101;100;32;84;114;97;99;107;32;50]], 44100, 2, 4704, [198;199;200;201]);
             ([[83;111;110;103;32;40;50;41]], 44100, 2, 4, [133;134;135;136]) ]
     | _ => False
     end.
Proof. exact ex_export_lemma. Qed.

