(** C03 - CDDA tracks tile the bin file exactly at the cue sheet's index positions.
    Property theorems only. *)
From SE Require Import Base Codecs Cue FatProofs StreamProofs CueProofs.

Theorem msf_frames : forall m s f,
  frames_of_index {| ix_num := 1; ix_min := m; ix_sec := s; ix_frm := f |} = (60 * m + s) * 75 + f.
Proof. exact msf_frames_lemma. Qed.

(** For every cue sheet whose tracks are all AUDIO and have at least one INDEX, of any
    number of tracks: the track windows are (2352*F_i, 2352*(F_{i+1}-F_i)) and, for the last
    track, (2352*F_n, eof - 2352*F_n), F_i being the frame number of the track's FIRST index. *)
Theorem cdda_windows_exact :
  forall c eof,
    Forall (fun t => is_audio t = true) (c_tracks c) -> Forall has_index (c_tracks c) ->
    map (fun w => (w_off w, w_size w)) (cdda_windows c eof)
    = windows_spec (map first_frame (c_tracks c)) eof.
Proof. exact cdda_windows_lemma. Qed.
Print Assumptions cdda_windows_exact.

(** For strictly increasing first-index frames inside the bin (any bin length, not
    necessarily a multiple of 2352 or 4): concatenating the tracks' PCM in order gives the bin
    from the first track's first index to the end truncated to whole 4-byte frames. *)
Theorem cdda_tiling :
  forall fs bin,
    fs <> [] -> 0 <= hd 0 fs -> increasing fs -> 2352 * last fs 0 <= zlen bin ->
    concat (map (fun p => track_pcm bin (mkwin p)) (windows_spec fs (zlen bin)))
    = slice bin (2352 * hd 0 fs) (zlen bin - (zlen bin - 2352 * last fs 0) mod 4).
Proof. exact cdda_tiling_lemma. Qed.
Print Assumptions cdda_tiling.

(** each non-last track is exactly its slice; the last runs to EOF in whole frames *)
Theorem cdda_track_inner : forall bin off size,
  0 <= off -> 0 < size -> size mod 4 = 0 -> off + size <= zlen bin ->
  track_pcm bin (mkwin (off, size)) = slice bin off (off + size).
Proof. exact track_pcm_inner. Qed.
Theorem cdda_track_last : forall bin off,
  0 <= off <= zlen bin ->
  track_pcm bin (mkwin (off, zlen bin - off)) = slice bin off (zlen bin - (zlen bin - off) mod 4).
Proof. exact track_pcm_last. Qed.

(** Non-vacuity: three tracks, a bin length that is neither a multiple of 2352 nor of 4. *)
Example c03_example :
  windows_spec [1; 3; 4] 11763 = [(2352, 4704); (7056, 2352); (9408, 2355)]
  /\ increasing [1; 3; 4] /\ 2352 * last [1; 3; 4] 0 <= 11763.
Proof. split; [vm_compute; reflexivity|]. split; [cbn [increasing]; lia|cbn [last]; lia]. Qed.
