(** C11 - Sample streams sharing one image file handle do not disturb one another.
    Property theorems only. *)
From SE Require Import Base Stream FatProofs StreamProofs.

(** Schedules: between two operations of the observed view, other views over the same
    parent objects (other sample streams, directory realisation, the partition scan) may
    run and leave EVERY ancestor of the observed view - including the shared base cursor -
    in an arbitrary good state.  For every such schedule the outputs observed at the view
    are those of an isolated ordinary file over its logical content driven by its own
    operations only: they depend on nothing the other views did. *)
Theorem schedule_noninterference :
  forall k size sub content evs s,
    wf (V k size sub) content -> good (V k size sub) s -> Forall (ev_ok sub) evs ->
    run_sched (V k size sub) content s evs
    = ref_run (logical (V k size sub) content) (v_tell s) (own_ops evs).
Proof. exact schedule_noninterference_lemma. Qed.
Print Assumptions schedule_noninterference.

(** Two runs whose schedules have the same own operations see the same bytes - in
    particular the interleaved run equals the isolated sequential run. *)
Corollary same_projection_same_outputs :
  forall k size sub content evs1 evs2 s1 s2,
    wf (V k size sub) content -> good (V k size sub) s1 -> good (V k size sub) s2 ->
    v_tell s1 = v_tell s2 -> Forall (ev_ok sub) evs1 -> Forall (ev_ok sub) evs2 ->
    own_ops evs1 = own_ops evs2 ->
    run_sched (V k size sub) content s1 evs1 = run_sched (V k size sub) content s2 evs2.
Proof.
  intros. rewrite !schedule_noninterference by assumption. congruence.
Qed.
Print Assumptions same_projection_same_outputs.

(** What the theorem rests on: without the re-seek in StreamWrapper.read a disturbed parent
    cursor changes the bytes.  Counter-model: read the parent where it happens to be. *)
Example without_reseek_interference_shows :
  let content := map Z.of_nat (seq 0 16) in
  fst (base_read content (SBase 3) 2) <> fst (base_read content (SBase 9) 2).
Proof. vm_compute. congruence. Qed.

(** Non-vacuity: an interleaving with a hostile other view on a concrete chained file. *)
Example c11_example :
  let v := V (KOff 1) 5 (V (KSect 4 (MChain [2; 0])) 8 Base) in
  let c := map Z.of_nat (seq 50 12) in
  run_sched v c (init_state v 0)
    [Own (ORead 2); Other (SV 7 3 (SBase 11)); Own (ORead 2); Other (SV 0 0 (SBase 0)); Own (ORead 9)]
  = [OutBytes [59; 60]; OutBytes [61; 50]; OutBytes [51]].
Proof. vm_compute. reflexivity. Qed.
