(** C13 - `ls` and `export` terminate with bounded resources on any input file.

    In this development every Python loop is a Gallina function that is structurally
    recursive, or recursive on an explicit [fuel : nat] and returning [OutOfFuel] when the
    fuel runs out.  The C13 obligations are FUEL-SUFFICIENCY theorems: for EVERY input -
    arbitrary bytes, arbitrary table words, arbitrary text; no well-formedness hypothesis - the
    function, called with the fuel its caller gives it, never returns [OutOfFuel]; the fuel
    is a closed expression LINEAR in the size of the input, so each theorem is an iteration
    bound for the loop it models.  This file only collects them (property theorems only: the
    proofs are in the cited files), grouped by layer, with the bound each one establishes.
    What the collection does NOT cover is listed at the end: the claim is PARTIAL. *)
From Coq Require String.
Import String.StringSyntax.
Delimit Scope string_scope with string.
From SE Require Import Base Codecs Fat Cue Names Transcode Stream Info Roland Container AkaiImage
     FatProofs AkaiChainProofs StreamProofs StreamRevProofs TranscodeProofs NamesProofs TerminationProofs.
From SE Require Filters FiltersProofs Wav WavProofs.

(** * A. Allocation tables (util/fat.py, akai/sat.py, roland/s7xx/fat.py) *)

(** get_path: <= size + 1 steps for ANY link table (cycles, self links, links beyond the
    table); the path returned has <= size sectors. (D1 fix: the loop counter is incremented.) *)
Theorem get_path_total :
  forall size links start, 0 <= size ->
    get_path size links start <> OutOfFuel /\
    (forall p, get_path size links start = Ok p ->
       zlen p <= size /\ Forall (fun s => s < zlen links) p /\ exists t, p = start :: t) /\
    (forall e, get_path size links start = Err e ->
       e = RequestedInvalidSector \/ e = InvalidFatDefinition).
Proof. exact get_path_total_lemma. Qed.
Print Assumptions get_path_total.

(** AKAI SAT decode: n outer rounds, each inner walk <= 2n + 2 steps, for any table of n
    non-negative words; one link per entry (the accumulated list has n entries). *)
Theorem akai_decode_total :
  forall block, Forall (fun w => 0 <= w) block ->
    akai_decode block <> OutOfFuel /\
    (forall t, akai_decode block = Ok t -> length t = length block).
Proof. exact akai_decode_total_lemma. Qed.
Print Assumptions akai_decode_total.

(** ... and it never raises either *)
Theorem akai_decode_never_raises :
  forall block, Forall (fun w => 0 <= w) block -> exists t, akai_decode block = Ok t.
Proof. exact akai_decode_ok. Qed.
Print Assumptions akai_decode_never_raises.

(** Roland FAT decode: <= N outer rounds, each walk <= N + 2 steps (D2 fix: a walk longer
    than the table is rejected); get_file: <= N + 1 steps. *)
Theorem roland_decode_total : forall fat, roland_decode fat <> OutOfFuel.
Proof. exact roland_decode_total_lemma. Qed.
Print Assumptions roland_decode_total.
Theorem roland_get_file_total :
  forall N links index off, 0 <= N -> roland_get_file N links index off <> OutOfFuel.
Proof. exact roland_get_file_total_lemma. Qed.
Print Assumptions roland_get_file_total.

(** * B. Byte-window views (util/stream.py, util/sector.py, util/fat.py, alcohol/mdf.py) *)

(** SectorStream._read over ANY parent that itself terminates, any sector map, any position
    and size: the "while remaining_size > sector_length" loop makes <= size / L rounds (fuel
    size / L + 1), i.e. <= size / L + 2 sector reads.  Condition: the sector length is
    positive (the code's constants 8192, 9216, 2048, 2352; see [sector_length_is_needed]). *)
Theorem sector_read_total :
  forall (St : Type) (p_seek : St -> Z -> res Z * St) (p_read : St -> Z -> res (list Z) * St)
         L m s pos size,
    (forall s a, fst (p_seek s a) <> OutOfFuel) -> (forall s n, fst (p_read s n) <> OutOfFuel) ->
    0 < L ->
    fst (sect_read St p_seek p_read L m s pos size) <> OutOfFuel.
Proof. exact (@sect_read_fuel). Qed.
Print Assumptions sector_read_total.

(** seek of any view: structural in the nesting depth *)
Theorem view_seek_total : forall v s off wh, fst (v_seek v s off wh) <> OutOfFuel.
Proof. exact v_seek_fuel. Qed.
Print Assumptions view_seek_total.

(** read(n) of ANY view - whatever its declared sizes, offsets, sector maps, sample widths,
    whatever the state it is in: depth x (n / L + 2) sector reads. *)
Theorem view_read_total :
  forall v content, sect_ok v -> forall s n, fst (v_read v content s n) <> OutOfFuel.
Proof. exact v_read_fuel. Qed.
Print Assumptions view_read_total.

(** Every history of seek / tell / read(n) / read(-1) on ANY view of positive declared size
    (well formed or NOT: the window may lie outside its parent, the chain may repeat sectors
    or leave the parent, a reversed view may be misaligned): no operation runs out of fuel.
    read(-1): every round that returns bytes advances the position by min(4096, size - pos),
    so <= size / 4096 + 2 rounds. *)
Theorem view_history_total :
  forall k size sub content, sect_ok (V k size sub) -> 0 < size ->
    forall ops s, 0 <= v_tell s -> ~ In OutFuel (fst (run (V k size sub) content s ops)).
Proof. exact view_history_total_lemma. Qed.
Print Assumptions view_history_total.

(** On WELL-FORMED views (C08) read(-1) moreover returns exactly the rest of the content *)
Theorem readall_refines_file :
  forall k size sub content ops s,
    wf (V k size sub) content -> good (V k size sub) s ->
    fst (run (V k size sub) content s ops)
    = ref_runA (logical (V k size sub) content) (v_tell s) ops.
Proof. exact readall_refines_file_lemma. Qed.
Print Assumptions readall_refines_file.
Theorem readall_reads_rest :
  forall k size sub content s n,
    wf (V k size sub) content -> good (V k size sub) s -> n < 0 ->
    let L := logical (V k size sub) content in
    exists s', step (V k size sub) content s (ORead n) = (OutBytes (slice L (v_tell s) (zlen L)), s')
               /\ good (V k size sub) s' /\ v_tell s' = zlen L.
Proof. exact readall_step_lemma. Qed.
Print Assumptions readall_reads_rest.

(** The two conditions are needed.
    - Sector length 0: the MODEL's loop spins; the code divides by the sector length first
      (ZeroDivisionError) and never builds such a stream.  Not a hang of the code.
    - Declared size <= 0 (an UNBOUNDED window: StreamWrapper clips only when size > 0).
      (a) Forward windows: the real loop ends with the parent's data after |parent| / 4096 + 1
      rounds, but the fuel [step] gives read(-1) is computed from the declared size, so the
      MODEL runs out of fuel ([readall_unbounded_window_not_covered]): a defect of the model's
      fuel formula, not of the code; no theorem covers read(-1) on such a window.
      (b) The sample-REVERSED view of size <= 0 over an unbounded offset window: before fix
      4e95fab read(-1) REALLY never ended (every read(4096) returned the same block again; the
      real classes spun with growing memory - a finding of this check, reached from
      roland/s7xx/sample_file.py with loop mode 5 or 6 and sustain end < start - 1 in a damaged
      sample record: `export` hung).  After the fix the first round raises BadReadSize:
      [reversed_unbounded_window_rejected] below. *)
Theorem sector_length_is_needed :
  fst (v_read (V (KSect 0 MPlain) 5 Base) [1; 2; 3; 4; 5] (init_state (V (KSect 0 MPlain) 5 Base) 0) 5) = OutOfFuel.
Proof. exact sector_length_needed. Qed.
Print Assumptions sector_length_is_needed.
Theorem readall_unbounded_window_not_covered :
  let v := V (KOff 0) (-8192) Base in
  fst (step v (repeat 7 5000) (init_state v 0) (ORead (-1))) = OutFuel.
Proof. exact readall_unbounded_window_fuel. Qed.
Print Assumptions readall_unbounded_window_not_covered.

(** the former hang: StreamReversed(StreamOffset(file, 0, 0), 0, 2), any content, any state -
    read(-1) now ends in its first round with BadReadSize *)
Theorem reversed_unbounded_window_rejected :
  forall content pos ts0 sub_state fuel acc, 0 <= pos ->
    fst (v_readall (S fuel) (V (KRev 2) 0 (V (KOff 0) 0 Base)) content (SV pos ts0 sub_state) 4096 acc)
    = Err BadReadSize.
Proof. exact spin_view_readall_ends. Qed.
Print Assumptions reversed_unbounded_window_rejected.

(** * C. Cue sheets (cuesheet.py) *)

(** parse_cue_sheet on ANY text: each of the three loops (FILE entries, TRACK entries,
    track properties) consumes at least one line per round net of the pushed-back line:
    <= |lines| + 1 rounds per loop. *)
Theorem cue_parse_total : forall lines, parse_cue_sheet lines <> OutOfFuel.
Proof. exact cue_parse_total_lemma. Qed.
Print Assumptions cue_parse_total.

(** * D. AKAI images (akai/image.py, partition.py, volume.py, file_entry.py, sample.py) *)

(** The partition scan never stops BECAUSE of fuel: every accepted header has a size word
    > 0 (parse_partition rejects size <= 0) and advances the cursor by size x 8192 >= 8192,
    so <= |img| / 8192 + 1 rounds, and as many partitions at most. *)
Theorem partition_scan_total :
  forall img f, (Z.to_nat (zlen img / SECTOR) < f)%nat ->
    scan_partitions f img 0 = partitions img /\
    (length (partitions img) <= S (Z.to_nat (zlen img / SECTOR)))%nat.
Proof. exact partition_scan_total_lemma. Qed.
Print Assumptions partition_scan_total.

(** Remark (no fuel involved): the file-table loop [entries_loop] is structurally recursive on
    n = |directory area| / 24, the volume table on its 100 entries, [keygroup_walk] on
    number_of_keygroups; their bounds are those numbers. *)
Theorem file_table_total : forall n pc sat table, entries_loop n pc sat table <> OutOfFuel.
Proof. exact entries_loop_fuel. Qed.
Print Assumptions file_table_total.

(** `export` and `ls` (the tree both walk) of ANY image of bytes: no header parse is cut
    short by fuel (so the scan does not end early for that reason), and neither composition
    runs out of fuel: partition scan, SAT decode, chain resolution (<= 11386 + 1 steps per
    chain), file tables, naming, transcoding. *)
Theorem akai_image_total :
  forall img, Forall (fun b => 0 <= b < 256) img ->
    (forall o, parse_partition img o <> OutOfFuel) /\
    akai_export img <> OutOfFuel /\ akai_listing img <> OutOfFuel.
Proof. exact akai_image_total_lemma. Qed.
Print Assumptions akai_image_total.
Theorem akai_export_total : forall img, akai_export img <> OutOfFuel.
Proof. exact akai_export_total_lemma. Qed.
Print Assumptions akai_export_total.
Theorem akai_listing_total : forall img, akai_listing img <> OutOfFuel.
Proof. exact akai_listing_total_lemma. Qed.
Print Assumptions akai_listing_total.

(** * E. Names (structural.py) *)

(** sanitize_names_general for ANY sibling list: the "while next_name in taken" loop makes
    <= |taken| + 1 probes per name (taken grows by <= 1 per sibling: fuel
    |taken| + 2 x siblings + 1), i.e. O(siblings^2) name comparisons per directory - the one
    quadratic loop, quadratic in the number of SIBLINGS, not in the image size. *)
Theorem sanitize_names_total : forall f elems, sanitize_names f elems <> OutOfFuel.
Proof. exact sanitize_names_total_lemma. Qed.
Print Assumptions sanitize_names_total.

(** the two regex scans of make_safe_name / make_export_name: every round consumes >= 1
    character, the fuel |name| + 1 never truncates the result *)
Theorem name_scans_total :
  (forall f1 f2 ok l, (length l <= f1)%nat -> (length l <= f2)%nat ->
     replace_runs f1 ok l = replace_runs f2 ok l) /\
  (forall f1 f2 pw l, (length l <= f1)%nat -> (length l <= f2)%nat ->
     replace_invalid f1 pw l = replace_invalid f2 pw l).
Proof. exact (conj replace_runs_total_lemma replace_invalid_total_lemma). Qed.
Print Assumptions name_scans_total.

(** * F. Transcoding (transcode.py) *)

(** draining the transcoder: every round consumes a block of every stream or stops; fuel
    total bytes + 2, for any streams, block size, widths, channel counts *)
Theorem transcode_total : forall target ss dw dc, transcode target ss dw dc <> OutOfFuel.
Proof. exact transcode_total_lemma. Qed.
Print Assumptions transcode_total.
(** the frame / sample splitter: any fuel >= |buffer| gives the same pieces *)
Theorem pieces_total :
  forall f1 f2 n l, (length l <= f1)%nat -> (length l <= f2)%nat -> pieces f1 n l = pieces f2 n l.
Proof. exact pieces_total_lemma. Qed.
Print Assumptions pieces_total.

(** * G. WAV building (wav.py) - float primitives appear because the header computation
    (pitch fraction) is modelled with binary64 *)
Theorem build_wav_terminates :
  forall d pcm,
    Wav.build_wav d pcm <> OutOfFuel /\
    forall e, Wav.build_wav d pcm = Err e ->
      e = ConstructErr
      \/ (Wav.requires_smpl d = true /\ Wav.smpl_chunk_data d = Err e /\ (e = ValueErr \/ e = OverflowErr)).
Proof. exact WavProofs.build_wav_errors_lemma. Qed.
Print Assumptions build_wav_terminates.

(** * H. `ls` of a file (akai/program.py, keygroup.py, sample.py through info printing) *)

(** KeygroupLinkConstruct: exactly number_of_keygroups (one byte: <= 255) records are decoded,
    wherever the next-keygroup addresses point (backwards, to themselves, past the end). *)
Theorem keygroup_chain_total :
  forall n idx total file pos,
    keygroup_walk n idx total file pos <> OutOfFuel /\
    (forall ks, keygroup_walk n idx total file pos = Ok ks -> length ks = n).
Proof. exact keygroup_walk_fuel. Qed.
Print Assumptions keygroup_chain_total.
Theorem program_keygroup_count :
  forall file,
    decode_program file <> OutOfFuel /\
    (forall p, decode_program file = Ok p ->
       length (p_keygroups p) = Z.to_nat (get (p_env p) (! "number_of_keygroups"))).
Proof. exact decode_program_fuel. Qed.
Print Assumptions program_keygroup_count.
Theorem ls_file_total :
  forall print_cents file_name safe_name type_name body,
    ls_program print_cents file_name safe_name type_name body <> OutOfFuel /\
    ls_sample print_cents file_name safe_name body <> OutOfFuel.
Proof. exact ls_file_total_lemma. Qed.
Print Assumptions ls_file_total.

(** * I. Roland S-7xx (roland/s7xx) *)

(** From FAT words to exported bytes: FAT decode, get_file, then read(-1) of the window over
    the chained file (<= size / 4096 + 2 rounds of <= 4096 / L + 2 cluster reads each), for ANY
    FAT words, image bytes, directory values and loop points such that the window size
    2 x (end - start + 1) computed from the loop points is positive.  The traversal
    volume -> performance -> patch -> partial -> sample ([roland_listing]) is a composition of
    [map] / [filter] / [flat_map] over the fixed-size pointer lists (64 / 32 / 88 / 4 entries):
    structural, no fuel. *)
Theorem roland_sample_pcm_total :
  forall L doff fat image entry top mode p,
    0 < L -> 0 < Roland.w_size (get_params mode p) ->
    roland_sample_pcm L doff fat image entry top mode p <> OutOfFuel.
Proof. exact roland_sample_pcm_total_lemma. Qed.
Print Assumptions roland_sample_pcm_total.
(** the statement for ALL loop points; only the part above is proved *)
Definition roland_sample_pcm_total_statement : Prop :=
  forall L doff fat image entry top mode p,
    0 < L -> roland_sample_pcm L doff fat image entry top mode p <> OutOfFuel.
(** it is FALSE of the model as it stands, with field values the real record can hold
    (witness: a truncated image; a chain whose head clusters lie beyond its end; start point
    behind the sustain end, so that the declared window size is negative = unbounded window,
    see B).  This is a defect of the MODEL's fuel formula for read(-1) (Stream.step computes it
    from the declared size), not a hang of the code, whose loop ends with the parent's data
    (forward mode 0).  With a REVERSE mode (5, 6) and such points the window is the reversed
    unbounded view of [reversed_unbounded_window_rejected]: there the code itself never
    terminated before fix 4e95fab (see B). *)
Theorem roland_sample_pcm_total_statement_refuted : ~ roland_sample_pcm_total_statement.
Proof. exact roland_sample_pcm_total_statement_refuted_lemma. Qed.
Print Assumptions roland_sample_pcm_total_statement_refuted.

(** * J. Containers and sample reversal: splitters whose fuel is the input length *)
Theorem blocks_total :
  forall fuel n l, (0 < n)%nat -> (length l <= fuel)%nat ->
    concat (blocks fuel n l) = l /\ (length (blocks fuel n l) <= length l)%nat.
Proof. exact blocks_total_lemma. Qed.
Print Assumptions blocks_total.
Theorem chunks_total :
  forall fuel w l, (0 < w)%nat -> (length l <= fuel)%nat ->
    concat (chunks fuel w l) = l /\ (length (chunks fuel w l) <= length l)%nat.
Proof. exact chunks_total_lemma. Qed.
Print Assumptions chunks_total.

(** * K. De-emphasis filters (filters/*.pyx): structural - one kernel call per block, each
    kernel a [map] / [fold] over the block (float primitives: the filters compute in binary64) *)
Theorem filter_stream_total : forall blocks f, Filters.stream f blocks <> OutOfFuel.
Proof. exact filter_stream_total_lemma. Qed.
Print Assumptions filter_stream_total.

(** * Non-vacuity *)
(** a corrupted cue sheet (TRACK before FILE, unterminated FILE, junk) is parsed to an answer *)
Example c13_example_cue :
  parse_cue_sheet [ (! "  TRACK 01 AUDIO"); (! "FILE ""a.bin"" BINARY"); (! "junk"); (! "TRACK 1 AUDIO");
                    (! "INDEX 01 00:00:00"); []; (! "FILE ""b.bin") ] <> OutOfFuel
  /\ is_ok (parse_cue_sheet [ (! "FILE ""a.bin"" BINARY"); (! "TRACK 1 AUDIO"); (! "INDEX 01 00:02:00") ]) = true.
Proof. split; [apply cue_parse_total|vm_compute; reflexivity]. Qed.
(** an ILL-FORMED view of positive size (chain with a repeated and an out-of-range sector, window
    larger than its parent): the hypotheses of [view_history_total] hold, and the history
    answers with bytes / errors, never with the out-of-fuel output *)
Definition c13_bad_view : view := V (KOff 2) 40 (V (KSect 4 (MChain [1; 1; 9])) 12 Base).
Example c13_example_view :
  sect_ok c13_bad_view /\
  fst (run c13_bad_view (map Z.of_nat (seq 100 24)) (init_state c13_bad_view 0) [ORead 4; ORead (-1); OTell; ORead (-1)])
  = [OutBytes [106; 107; 104; 105]; OutErr SectorReadError; OutPos 4; OutErr SectorReadError].
Proof. split; [cbn; lia|vm_compute; reflexivity]. Qed.
(** arbitrary bytes are an image with no partition; the scan stops at once *)
Example c13_example_bytes :
  Forall (fun b => 0 <= b < 256) (map (fun i => Z.of_nat i mod 256) (seq 0 300))
  /\ akai_export (map (fun i => Z.of_nat i mod 256) (seq 0 300)) = Ok [].
Proof.
  split; [|vm_compute; reflexivity].
  apply Forall_forall. intros b Hb. apply in_map_iff in Hb as (i & <- & _).
  apply Z.mod_pos_bound. lia.
Qed.

(** * What these theorems do NOT cover (the claim is partial)
    - CPU seconds and resident memory of the CPython process, of numpy and of `construct`:
      no Gallina model exhibits them.  The theorems bound the NUMBER OF ITERATIONS of every
      modelled loop (and with it the length of the lists the loops accumulate) by an
      expression linear in the size of the input (quadratic in the number of siblings for
      the name-collision loop); they are not composed into one step-count function for a
      whole run.
    - Unmodelled code: argparse, printing (InfoTable / InfoTree rendering is modelled in C20
      as structural functions, the terminal output is not), os / file-system calls,
      `construct`'s own parsing machinery, numpy kernels, the Cython filter binaries.
    - read(-1) on a window whose declared size is <= 0 (unbounded window): forward windows are
      not covered ([readall_unbounded_window_not_covered],
      [roland_sample_pcm_total_statement_refuted]: the model's fuel formula is too small there);
      the reversed one did not terminate at all before fix 4e95fab (a finding of this check, repaired in
      /repo; now [reversed_unbounded_window_rejected]; reproducer in notes/C13.md).
    - Roland and CDDA whole-image compositions have no image-level model (only the AKAI image
      has one): their loops are covered function by function (A, B, C, I), not as a composed
      `export`.
    These are exercised only by the fault sweep of the check (harness/props/c13.py): random
    bytes and targeted corruptions of AKAI / Roland / cue inputs, every `ls` and `export` run
    under a CPU alarm and an address-space limit. *)
