(** C13 - placeholder until the collection is written. *)
From SE Require Import Base.
Example c13_placeholder : True. Proof. exact I. Qed.
