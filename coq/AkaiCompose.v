(** Composition of the AKAI layer theorems (C01): [akai_export] applied to the serialisation
    [akai_serialise L A] of a logical image under a valid allocation yields exactly the
    expected files.  Specification: AkaiSpec.v; parser/exporter model: AkaiImage.v. *)
From SE Require Import Base Codecs Fat Cue Names Transcode FatProofs StreamProofs ContainerProofs
     TranscodeProofs TranscodeUnbounded NamesProofs PairProofs AkaiChainProofs AkaiImage AkaiProofs AkaiSpec.
Ltac Zify.zify_post_hook ::= Z.to_euclidean_division_equations.

(** * Lists: lengths, offsets in concatenations *)
Lemma zlen_nil {A} : zlen (@nil A) = 0.
Proof. reflexivity. Qed.
Lemma zlen_map {A B} (f : A -> B) l : zlen (map f l) = zlen l.
Proof. unfold zlen. now rewrite map_length. Qed.
Lemma zlen_repeat {A} (x : A) n : zlen (repeat x n) = Z.of_nat n.
Proof. unfold zlen. now rewrite repeat_length. Qed.

Lemma znth_skip {A} (d : A) k a b o o' :
  zlen a = k -> o' = o - k -> 0 <= o' -> znth d (a ++ b) o = znth d b o'.
Proof. intros H1 -> H3. rewrite znth_app_r by lia. f_equal. lia. Qed.
Lemma znth_here {A} (d : A) a b o : 0 <= o < zlen a -> znth d (a ++ b) o = znth d a o.
Proof. apply znth_app_l. Qed.
Lemma slice_skip {A} k (a b : list A) x y x' y' :
  zlen a = k -> x' = x - k -> y' = y - k -> 0 <= x' -> slice (a ++ b) x y = slice b x' y'.
Proof. intros H1 -> -> H. rewrite slice_app_r by lia. now rewrite H1. Qed.
Lemma slice_here {A} (a b : list A) y : zlen a = y -> slice (a ++ b) 0 y = a.
Proof. intros <-. rewrite slice_app_l by lia. apply slice_all. Qed.
Lemma slice_exact {A} (a : list A) y : zlen a = y -> slice a 0 y = a.
Proof. intros <-. apply slice_all. Qed.
Lemma firstn_here {A} (a b : list A) n : length a = n -> firstn n (a ++ b) = a.
Proof. intros <-. rewrite firstn_app, firstn_all, Nat.sub_diag. cbn. apply app_nil_r. Qed.
Lemma skipn_here {A} (a b : list A) n : length a = n -> skipn n (a ++ b) = b.
Proof. intros <-. rewrite skipn_app, skipn_all, Nat.sub_diag. reflexivity. Qed.

(** * zfrom *)
Lemma zfrom_length a n : length (zfrom a n) = n.
Proof. revert a; induction n; intros; cbn; auto. Qed.
Lemma zlen_zfrom a n : zlen (zfrom a n) = Z.of_nat n.
Proof. unfold zlen. now rewrite zfrom_length. Qed.
Lemma zfrom_In n : forall a x, In x (zfrom a n) <-> a <= x < a + Z.of_nat n.
Proof.
  induction n as [|n IH]; intros a x; cbn [zfrom In]; [lia|]. rewrite IH. lia.
Qed.
Lemma zfrom_nth n : forall a i d, (i < n)%nat -> nth i (zfrom a n) d = a + Z.of_nat i.
Proof.
  induction n as [|n IH]; intros a i d Hi; [lia|]. destruct i as [|i]; cbn [zfrom nth]; [lia|].
  rewrite IH by lia. lia.
Qed.
Lemma zfrom_zseq a n : zfrom a n = zseq a n.
Proof. revert a; induction n as [|n IH]; intros a; cbn [zfrom zseq]; [reflexivity|]. now rewrite IH. Qed.
Lemma zfrom_NoDup n : forall a, NoDup (zfrom a n).
Proof.
  induction n as [|n IH]; intros a; cbn [zfrom]; constructor; [|apply IH].
  rewrite zfrom_In. lia.
Qed.
Lemma znth_map_zfrom {B} (d : B) (f : Z -> B) a n i :
  0 <= i < Z.of_nat n -> znth d (map f (zfrom a n)) i = f (a + i).
Proof.
  intros H. unfold znth. rewrite (nth_indep _ d (f 0)) by (rewrite map_length, zfrom_length; lia).
  rewrite map_nth. rewrite zfrom_nth by lia. f_equal. lia.
Qed.

(** * Little-endian fields read back *)
Lemma zlen_le16 v : zlen (le16 v) = 2. Proof. reflexivity. Qed.
Lemma zlen_le24 v : zlen (le24 v) = 3. Proof. reflexivity. Qed.
Lemma zlen_le32 v : zlen (le32 v) = 4. Proof. reflexivity. Qed.

Lemma u16_le16 v r : u16 (le16 v ++ r) 0 = v.
Proof.
  unfold u16, le16, znth. change (Z.to_nat 0) with 0%nat. change (Z.to_nat (0 + 1)) with 1%nat.
  cbn [app nth]. lia.
Qed.
Lemma u24_le24 v r : u24 (le24 v ++ r) 0 = v.
Proof.
  unfold u24, u16, le24, znth. change (Z.to_nat 0) with 0%nat. change (Z.to_nat (0 + 1)) with 1%nat.
  change (Z.to_nat (0 + 2)) with 2%nat. cbn [app nth]. lia.
Qed.
Lemma u32_le32 v r : u32 (le32 v ++ r) 0 = v.
Proof.
  unfold u32, le32. rewrite <- app_assoc. rewrite u16_le16.
  unfold u16. rewrite (znth_skip 0 2 (le16 (v mod 65536)) _ (0 + 2) 0) by (reflexivity || lia).
  rewrite (znth_skip 0 2 (le16 (v mod 65536)) _ (0 + 2 + 1) 1) by (reflexivity || lia).
  change (znth 0 (le16 (v / 65536) ++ r) 0 + 256 * znth 0 (le16 (v / 65536) ++ r) 1) with (u16 (le16 (v / 65536) ++ r) 0).
  rewrite u16_le16. lia.
Qed.
Lemma u8_shift l k o o' : zlen l = k -> o' = o - k -> 0 <= o' -> forall r, u8 (l ++ r) o = u8 r o'.
Proof. intros. unfold u8. now apply znth_skip with (k := k). Qed.
Lemma u16_shift l k o o' : zlen l = k -> o' = o - k -> 0 <= o' -> forall r, u16 (l ++ r) o = u16 r o'.
Proof.
  intros H1 H2 H3 r. unfold u16. rewrite (znth_skip 0 k l r o o') by assumption.
  rewrite (znth_skip 0 k l r (o + 1) (o' + 1)) by lia. reflexivity.
Qed.
Lemma u24_shift l k o o' : zlen l = k -> o' = o - k -> 0 <= o' -> forall r, u24 (l ++ r) o = u24 r o'.
Proof.
  intros H1 H2 H3 r. unfold u24. rewrite (u16_shift l k o o') by assumption.
  rewrite (znth_skip 0 k l r (o + 2) (o' + 2)) by lia. reflexivity.
Qed.
Lemma u32_shift l k o o' : zlen l = k -> o' = o - k -> 0 <= o' -> forall r, u32 (l ++ r) o = u32 r o'.
Proof.
  intros H1 H2 H3 r. unfold u32. rewrite (u16_shift l k o o') by assumption.
  rewrite (u16_shift l k (o + 2) (o' + 2)) by lia. reflexivity.
Qed.
Lemma s8_shift l k o o' : zlen l = k -> o' = o - k -> 0 <= o' -> forall r, s8 (l ++ r) o = s8 r o'.
Proof. intros. unfold s8. now rewrite (znth_skip 0 k l r o o'). Qed.
Lemma u8_head x r : u8 (x :: r) 0 = x.
Proof. reflexivity. Qed.
Lemma s8_head v r : -128 <= v < 128 -> s8 (s8_byte v :: r) 0 = v.
Proof.
  intros H. unfold s8, s8_byte, znth. change (Z.to_nat 0) with 0%nat. cbn [nth].
  destruct (Z.geb_spec (v mod 256) 128); lia.
Qed.

Lemma words_le16 : forall ws, words (concat (map le16 ws)) = ws.
Proof.
  induction ws as [|w t IH]; [reflexivity|]. cbn [map concat]. unfold le16 at 1. cbn [app words].
  rewrite IH. f_equal. lia.
Qed.
Lemma zlen_concat_const {A B} (f : A -> list B) k l :
  (forall x, In x l -> zlen (f x) = k) -> zlen (concat (map f l)) = k * zlen l.
Proof.
  induction l as [|x t IH]; intros H; cbn [map concat]; [unfold zlen; cbn; lia|].
  rewrite zlen_app, zlen_cons, IH, H; [lia|now left|]. intros y Hy. apply H. now right.
Qed.

(** * AKAI names read back as written *)
Lemma zlen_pad_name n : zlen n <= 12 -> zlen (akai_pad_name n) = 12.
Proof.
  intros H. unfold akai_pad_name. rewrite zlen_app, zlen_map, zlen_zrepeat; pose proof (zlen_nonneg n); lia.
Qed.
Lemma to_akai_char_back c : akai_valid_char c = true -> fast_akai_to_ascii_byte (to_akai_char c) = Ok c.
Proof.
  unfold akai_valid_char, to_akai_char, fast_akai_to_ascii_byte, mem, existsb.
  cbn [map_zero map_nine map_A map_Z map_space map_pound map_plus map_minus map_period].
  intros H.
  destruct (Z.leb_spec 48 c), (Z.leb_spec c 57); cbn [andb orb] in *;
  destruct (Z.leb_spec 65 c), (Z.leb_spec c 90); cbn [andb orb] in *; try lia;
  repeat match goal with
         | |- context [if ?a <=? ?b then _ else _] => destruct (Z.leb_spec a b); cbn [andb orb]; try lia
         | |- context [?a <=? ?b] => destruct (Z.leb_spec a b); cbn [andb orb]; try lia
         end; try (f_equal; lia);
  repeat match goal with
         | |- context [?a =? ?b] => destruct (Z.eqb_spec a b); cbn [andb orb] in *; try lia
         | H : context [?a =? ?b] |- _ => destruct (Z.eqb_spec a b); cbn [andb orb] in *; try lia
         end; try (f_equal; lia); try discriminate.
Qed.
Lemma to_akai_char_range c : akai_valid_char c = true -> 0 <= to_akai_char c <= 40.
Proof.
  unfold akai_valid_char, to_akai_char, mem, existsb. intros H.
  destruct (Z.leb_spec 48 c), (Z.leb_spec c 57); cbn [andb orb] in *; try lia;
  destruct (Z.leb_spec 65 c), (Z.leb_spec c 90); cbn [andb orb] in *; try lia;
  repeat match goal with
         | |- context [?a =? ?b] => destruct (Z.eqb_spec a b); try lia
         end.
Qed.
Lemma to_akai_char_blank c : akai_valid_char c = true -> to_akai_char c = 10 -> c = 32.
Proof.
  unfold akai_valid_char, to_akai_char, mem, existsb. intros H.
  destruct (Z.leb_spec 48 c), (Z.leb_spec c 57); cbn [andb orb] in *; try lia;
  destruct (Z.leb_spec 65 c), (Z.leb_spec c 90); cbn [andb orb] in *; try lia;
  repeat match goal with
         | |- context [?a =? ?b] => destruct (Z.eqb_spec a b); try lia
         end.
Qed.

Lemma rstrip_pad_blanks k : rstrip_pad (repeat 10 k) = [].
Proof. induction k as [|k IH]; [reflexivity|]. cbn [repeat rstrip_pad]. now rewrite IH. Qed.
Lemma rstrip_pad_keep : forall l k, last l 0 <> 10 -> rstrip_pad (l ++ repeat 10 k) = l.
Proof.
  induction l as [|c t IH]; intros k H; cbn [app]; [apply rstrip_pad_blanks|].
  cbn [rstrip_pad]. destruct t as [|c' t'].
  - cbn [app]. rewrite rstrip_pad_blanks. cbn [last] in H. destruct (Z.eqb_spec c 10); [contradiction|reflexivity].
  - rewrite IH by exact H. reflexivity.
Qed.
Lemma last_map_akai : forall n, Forall (fun c => akai_valid_char c = true) n -> last n 0 <> 32 ->
  last (map to_akai_char n) 0 <> 10.
Proof.
  induction n as [|c t IH]; intros HF HL; [cbn; lia|]. inversion HF as [|? ? Hc Ht]; subst.
  destruct t as [|c' t'].
  - cbn [map last] in *. intros E. apply HL. now apply to_akai_char_blank.
  - change (last (map to_akai_char (c :: c' :: t')) 0) with (last (map to_akai_char (c' :: t')) 0).
    apply IH; assumption.
Qed.
Lemma akai_to_ascii_back : forall n, Forall (fun c => akai_valid_char c = true) n ->
  akai_to_ascii (map to_akai_char n) = Ok n.
Proof.
  unfold akai_to_ascii. induction n as [|c t IH]; intros HF; [reflexivity|].
  inversion HF as [|? ? Hc Ht]; subst. cbn [map map_res]. rewrite to_akai_char_back by assumption.
  cbn [bind]. rewrite IH by assumption. reflexivity.
Qed.
Lemma akai_name_back n : name_ok n -> akai_name (akai_pad_name n) = Ok n.
Proof.
  intros (Hl & HF & HL). unfold akai_name, akai_pad_name, zrepeat.
  rewrite rstrip_pad_keep by now apply last_map_akai. now rewrite akai_to_ascii_back.
Qed.
Lemma pad_name_range n : name_ok n -> Forall (fun b => 0 <= b <= 40) (akai_pad_name n).
Proof.
  intros (Hl & HF & HL). unfold akai_pad_name. apply Forall_app. split.
  - apply Forall_forall. intros x Hx. apply in_map_iff in Hx as (c & <- & Hc).
    rewrite Forall_forall in HF. now apply to_akai_char_range, HF.
  - apply Forall_forall. intros x Hx. apply repeat_spec in Hx. lia.
Qed.
Lemma name_ok_nil : name_ok [].
Proof. split; [unfold zlen; cbn; lia|]. split; [constructor|]. cbn. lia. Qed.

(** * The chain theorem of C07 in relational form *)
Lemma akai_decode_chain_rel block c :
  Forall (fun w => 0 <= w < 65536) block -> zlen block <= 49152 ->
  RawChain block c -> NoDup c ->
  (forall sub, inr (zlen block) sub -> ~ In sub c -> ~ In (znth 0 block sub) c) ->
  akai_get_segment block (hd 0 c) = Ok c.
Proof.
  intros Hw Hsize Hrc Hnd Hclosed.
  assert (Hb : Forall (fun w => 0 <= w) block) by (revert Hw; apply Forall_impl; intros; lia).
  destruct (akai_decode_ok block Hb) as [t Ht].
  unfold akai_get_segment. rewrite Ht. cbn [bind].
  unfold akai_decode in Ht.
  destruct (akai_outer _ _ _ _ _) as [st| |] eqn:EO; cbn [bind] in Ht; try discriminate.
  injection Ht as <-.
  apply (outer_inv block c Hb Hnd Hrc Hclosed Hsize) in EO; [|lia|].
  - destruct EO as (_ & _ & pre & suf & Hps & Hpre & _ & Hch).
    assert (pre = []) as ->.
    { destruct pre as [|x pre]; [reflexivity|]. exfalso.
      apply Forall_inv in Hpre. cbn beta in Hpre.
      assert (Hx : In x c) by (rewrite Hps; now left).
      apply (c_inr block c Hrc) in Hx. unfold inr, zlen in *. lia. }
    cbn [app] in Hps. subst suf.
    destruct Hch as [Hch|Hch]; [subst c; inversion Hrc|].
    destruct c as [|h r]; [contradiction|]. cbn [ChainL hd] in *.
    apply get_path_follows_lemma; [exact Hch|].
    pose proof (NoDup_inr_length (length block) (h :: r) Hnd (rc_inr block _ Hrc)). unfold zlen. lia.
  - split; [cbn [a_dirty]; apply repeat_zlen|]. split; [cbn [a_links]; apply repeat_zlen|].
    exists c, []. rewrite app_nil_r. repeat split; auto.
    apply Forall_forall. intros x Hx. cbn [a_dirty]. split; [apply znth_repeat_same|].
    apply (c_inr block c Hrc) in Hx. unfold inr in Hx. lia.
Qed.

(** * Placement lookups *)
Lemma index_of_none s : forall l, ~ In s l -> index_of s l = None.
Proof.
  induction l as [|x t IH]; intros H; [reflexivity|]. cbn [index_of].
  destruct (Z.eqb_spec x s) as [->|_]; [exfalso; apply H; now left|].
  rewrite IH; [reflexivity|]. intros Hi. apply H. now right.
Qed.
Lemma index_of_nth d : forall l i, NoDup l -> (i < length l)%nat -> index_of (nth i l d) l = Some i.
Proof.
  induction l as [|x t IH]; intros i Hnd Hi; cbn [length] in Hi; [lia|].
  inversion Hnd as [|? ? Hx Ht]; subst. destruct i as [|i]; cbn [nth index_of].
  - now rewrite Z.eqb_refl.
  - destruct (Z.eqb_spec x (nth i t d)) as [E|_].
    + exfalso. apply Hx. rewrite E. apply nth_In. lia.
    + rewrite IH by (assumption || lia). reflexivity.
Qed.
Lemma index_of_some d s : forall l i, index_of s l = Some i -> (i < length l)%nat /\ nth i l d = s.
Proof.
  induction l as [|x t IH]; intros i H; cbn [index_of] in H; [discriminate|].
  destruct (Z.eqb_spec x s) as [->|_].
  - injection H as <-. cbn. split; [lia|reflexivity].
  - destruct (index_of s t) as [j|] eqn:E; cbn [option_map] in H; [|discriminate].
    injection H as <-. destruct (IH j eq_refl) as [A B]. cbn [length nth]. split; [lia|assumption].
Qed.

Lemma all_secs_app a b : all_secs (a ++ b) = all_secs a ++ all_secs b.
Proof. unfold all_secs. now rewrite map_app, concat_app. Qed.
Lemma all_secs_cons it t : all_secs (it :: t) = it_secs it ++ all_secs t.
Proof. reflexivity. Qed.
Lemma in_all_secs items it s : In it items -> In s (it_secs it) -> In s (all_secs items).
Proof.
  intros Hi Hs. unfold all_secs. apply in_concat. exists (it_secs it). split; [|assumption].
  now apply in_map.
Qed.

Lemma sector_data_in : forall pre it post i,
  NoDup (all_secs (pre ++ it :: post)) -> (i < length (it_secs it))%nat ->
  sector_data (pre ++ it :: post) (nth i (it_secs it) 0) = item_chunk it i.
Proof.
  induction pre as [|p pre IH]; intros it post i Hnd Hi; cbn [app sector_data].
  - cbn [app] in Hnd. rewrite all_secs_cons in Hnd. apply NoDup_app_l in Hnd. now rewrite index_of_nth.
  - cbn [app] in Hnd. rewrite all_secs_cons in Hnd. rewrite index_of_none.
    + apply IH; [|assumption]. now apply NoDup_app_r in Hnd.
    + intros Hin. eapply NoDup_app_disj; [exact Hnd|exact Hin|].
      rewrite all_secs_app, all_secs_cons. apply in_or_app. right. apply in_or_app. left. apply nth_In. lia.
Qed.
Lemma sat_word_in : forall pre it post i,
  NoDup (all_secs (pre ++ it :: post)) -> (i < length (it_secs it))%nat ->
  sat_word (pre ++ it :: post) (nth i (it_secs it) 0)
  = if it_dir it then SAT_RES_STD else nth (S i) (it_secs it) SAT_EOF.
Proof.
  induction pre as [|p pre IH]; intros it post i Hnd Hi; cbn [app sat_word].
  - cbn [app] in Hnd. rewrite all_secs_cons in Hnd. apply NoDup_app_l in Hnd. now rewrite index_of_nth.
  - cbn [app] in Hnd. rewrite all_secs_cons in Hnd. rewrite index_of_none.
    + apply IH; [|assumption]. now apply NoDup_app_r in Hnd.
    + intros Hin. eapply NoDup_app_disj; [exact Hnd|exact Hin|].
      rewrite all_secs_app, all_secs_cons. apply in_or_app. right. apply in_or_app. left. apply nth_In. lia.
Qed.
(** every word of the table: free, or the word of the item holding the sector *)
Lemma sat_word_cases : forall items s,
  (~ In s (all_secs items) /\ sat_word items s = SAT_FREE) \/
  (exists it i, In it items /\ (i < length (it_secs it))%nat /\ nth i (it_secs it) 0 = s /\
     sat_word items s = if it_dir it then SAT_RES_STD else nth (S i) (it_secs it) SAT_EOF).
Proof.
  induction items as [|it t IH]; intros s; cbn [sat_word].
  - left. split; [intros []|reflexivity].
  - destruct (index_of s (it_secs it)) as [i|] eqn:E.
    + right. destruct (index_of_some 0 s _ _ E) as [A B]. exists it, i. repeat split; auto. now left.
    + destruct (IH s) as [[A B]|(it' & i & A & B & C & D)].
      * left. split; [|assumption]. rewrite all_secs_cons. intros Hin. apply in_app_or in Hin as [Hin|Hin]; [|contradiction].
        destruct (In_nth _ _ 0 Hin) as (k & Hk & Ek).
        pose proof (index_of_none s (it_secs it)) as G.
        assert (Hx : index_of s (it_secs it) <> None).
        { clear G E. revert k Hk Ek. generalize (it_secs it). induction l as [|x l IHl]; intros k Hk Ek; cbn [length] in Hk; [lia|].
          cbn [index_of]. destruct (Z.eqb_spec x s); [discriminate|]. destruct k as [|k]; cbn [nth] in Ek; [contradiction|].
          specialize (IHl k ltac:(lia) Ek). destruct (index_of s l); [discriminate|contradiction]. }
        contradiction.
      * right. exists it', i. repeat split; auto. now right.
Qed.
Lemma same_item : forall items it it' s,
  NoDup (all_secs items) -> In it items -> In it' items -> In s (it_secs it) -> In s (it_secs it') -> it = it'.
Proof.
  induction items as [|x t IH]; intros it it' s Hnd H1 H2 S1 S2; [contradiction|].
  rewrite all_secs_cons in Hnd. destruct H1 as [->|H1], H2 as [->|H2].
  - reflexivity.
  - exfalso. eapply NoDup_app_disj; [exact Hnd|exact S1|]. eapply in_all_secs; eassumption.
  - exfalso. eapply NoDup_app_disj; [exact Hnd|exact S2|]. eapply in_all_secs; eassumption.
  - apply (IH it it' s); try assumption. now apply NoDup_app_r in Hnd.
Qed.

(** * The written allocation table *)
Definition NSAT : nat := Z.to_nat SAT_ENTRIES.
Lemma sat_words_len items : zlen (sat_words items) = SAT_ENTRIES.
Proof. unfold sat_words. rewrite zlen_map, zlen_zfrom. unfold SAT_ENTRIES. lia. Qed.
Lemma sat_words_at items s : 0 <= s < SAT_ENTRIES ->
  znth 0 (sat_words items) s = if s <? 3 then SAT_RES_STD else sat_word items s.
Proof.
  intros H. unfold sat_words. rewrite znth_map_zfrom by (unfold SAT_ENTRIES in *; lia). reflexivity.
Qed.

(** sectors of a partition's items are real data sectors *)
Definition secs_in (items : list item) (n : Z) : Prop := Forall (fun s => 3 <= s < n) (all_secs items).
Lemma secs_in_item items n it s : secs_in items n -> In it items -> In s (it_secs it) -> 3 <= s < n.
Proof.
  intros H Hi Hs. unfold secs_in in H. rewrite Forall_forall in H. apply H. eapply in_all_secs; eassumption.
Qed.

Lemma sat_words_range items n : secs_in items n -> n <= SAT_ENTRIES ->
  Forall (fun w => 0 <= w < 65536) (sat_words items).
Proof.
  intros Hs Hn. unfold sat_words. apply Forall_forall. intros w Hw.
  apply in_map_iff in Hw as (s & <- & _).
  destruct (s <? 3); [unfold SAT_RES_STD; lia|].
  destruct (sat_word_cases items s) as [[_ ->]|(it & i & A & B & C & ->)]; [unfold SAT_FREE; lia|].
  destruct (it_dir it); [unfold SAT_RES_STD; lia|].
  destruct (Nat.lt_ge_cases (S i) (length (it_secs it))) as [Hlt|Hge].
  - pose proof (secs_in_item items n it (nth (S i) (it_secs it) SAT_EOF) Hs A (nth_In _ _ Hlt)). unfold SAT_ENTRIES in *. lia.
  - rewrite nth_overflow by lia. unfold SAT_EOF. lia.
Qed.

Section FileChain.
Context (items : list item) (n : Z) (it : item).
Context (Hnd : NoDup (all_secs items)) (Hin : secs_in items n) (Hn : n <= SAT_ENTRIES)
        (Hit : In it items) (Hfile : it_dir it = false).
Notation block := (sat_words items).
Notation secs := (it_secs it).

Lemma item_split : exists pre post, items = pre ++ it :: post.
Proof. apply in_split. exact Hit. Qed.
Lemma secs_nodup : NoDup secs.
Proof.
  destruct item_split as (pre & post & E). rewrite E, all_secs_app, all_secs_cons in Hnd.
  apply NoDup_app_r in Hnd. now apply NoDup_app_l in Hnd.
Qed.
Lemma file_word i : (i < length secs)%nat -> znth 0 block (nth i secs 0) = nth (S i) secs SAT_EOF.
Proof.
  intros Hi. pose proof (secs_in_item items n it _ Hin Hit (nth_In _ 0 Hi)) as Hr.
  rewrite sat_words_at by lia. destruct (Z.ltb_spec (nth i secs 0) 3); [lia|].
  destruct item_split as (pre & post & E). rewrite E in Hnd |- *.
  rewrite sat_word_in by assumption. now rewrite Hfile.
Qed.
Lemma file_rawchain : forall suf pre, secs = pre ++ suf -> suf <> [] -> RawChain block suf.
Proof.
  induction suf as [|x suf IH]; intros pre E Hne; [congruence|].
  assert (Hi : (length pre < length secs)%nat) by (rewrite E, app_length; cbn [length]; lia).
  assert (Ex : nth (length pre) secs 0 = x) by (rewrite E, app_nth2, Nat.sub_diag by lia; reflexivity).
  pose proof (file_word _ Hi) as Hw. rewrite Ex in Hw.
  pose proof (secs_in_item items n it x Hin Hit ltac:(rewrite E; apply in_or_app; right; now left)) as Hx.
  assert (Hxr : inr (zlen block) x) by (unfold inr; rewrite sat_words_len; lia).
  destruct suf as [|y r].
  - apply rc_end; [assumption|]. rewrite Hw, nth_overflow; [reflexivity|]. rewrite E, app_length. cbn [length]. lia.
  - assert (Ey : nth (S (length pre)) secs SAT_EOF = y).
    { rewrite E, app_nth2 by lia. replace (S (length pre) - length pre)%nat with 1%nat by lia. reflexivity. }
    pose proof (secs_in_item items n it y Hin Hit ltac:(rewrite E; apply in_or_app; right; right; now left)) as Hy.
    apply rc_step; try assumption.
    + now rewrite Hw.
    + unfold SAT_FREE. lia.
    + unfold is_dir_word, SAT_RES_STD, SAT_RES_V2. unfold SAT_ENTRIES in Hn. destruct (Z.eqb_spec y 16384), (Z.eqb_spec y 32768); lia.
    + unfold SAT_EOF. unfold SAT_ENTRIES in Hn. lia.
    + apply (IH (pre ++ [x])); [now rewrite <- app_assoc|discriminate].
Qed.
Lemma file_closed : forall sub, inr (zlen block) sub -> ~ In sub secs -> ~ In (znth 0 block sub) secs.
Proof.
  intros sub Hsub Hns Hv. unfold inr in Hsub. rewrite sat_words_len in Hsub.
  pose proof (secs_in_item items n it _ Hin Hit Hv) as Hr.
  rewrite sat_words_at in Hv, Hr by assumption.
  destruct (sub <? 3); [unfold SAT_RES_STD, SAT_ENTRIES in *; lia|].
  destruct (sat_word_cases items sub) as [[_ E]|(it' & i & A & B & C & E)]; rewrite E in Hv, Hr.
  - unfold SAT_FREE in Hr. lia.
  - destruct (it_dir it'); [unfold SAT_RES_STD, SAT_ENTRIES in *; lia|].
    destruct (Nat.lt_ge_cases (S i) (length (it_secs it'))) as [Hlt|Hge].
    + assert (it = it').
      { eapply same_item; [exact Hnd|exact Hit|exact A|exact Hv|]. apply nth_In. exact Hlt. }
      subst it'. apply Hns. rewrite <- C. apply nth_In. exact B.
    + rewrite nth_overflow in Hr by lia. unfold SAT_EOF, SAT_ENTRIES in *. lia.
Qed.

(** the file's chain is what the decoded table resolves *)
Lemma file_chain_resolves : secs <> [] -> akai_get_segment block (hd 0 secs) = Ok secs.
Proof.
  intros Hne. apply akai_decode_chain_rel.
  - eapply sat_words_range; eassumption.
  - rewrite sat_words_len. unfold SAT_ENTRIES. lia.
  - apply (file_rawchain secs []); [reflexivity|assumption].
  - exact secs_nodup.
  - exact file_closed.
Qed.
End FileChain.

(** the same in the computational form of C07: following the raw words from the first sector
    yields the allocation's list, and every sector is linked from exactly one place *)
Lemma raw_chain_of_rel block : forall c, RawChain block c -> forall seen fuel,
  NoDup (seen ++ c) -> (length c <= fuel)%nat -> raw_chain fuel block seen (hd 0 c) = Some (seen ++ c).
Proof.
  induction 1 as [x Hx He|x y r Hx Hw Hf Hd He Hrc IH]; intros seen fuel Hnd Hfu;
    (destruct fuel as [|fuel]; [cbn [length] in Hfu; lia|]); cbn [hd raw_chain]; unfold inr in Hx.
  - destruct (Z.ltb_spec x 0); [lia|]. destruct (Z.geb_spec x (zlen block)); [lia|]. cbn [orb].
    rewrite existsb_eqb_notin by (intros Hi; eapply NoDup_app_disj; [exact Hnd|exact Hi|now left]).
    rewrite He. reflexivity.
  - destruct (Z.ltb_spec x 0); [lia|]. destruct (Z.geb_spec x (zlen block)); [lia|]. cbn [orb].
    rewrite existsb_eqb_notin by (intros Hi; eapply NoDup_app_disj; [exact Hnd|exact Hi|now left]).
    rewrite Hw. destruct (Z.eqb_spec y SAT_FREE); [contradiction|]. rewrite Hd. cbn [orb].
    destruct (Z.eqb_spec y SAT_EOF); [contradiction|].
    specialize (IH (seen ++ [x]) fuel). cbn [hd] in IH. rewrite IH.
    + now rewrite <- app_assoc.
    + now rewrite <- app_assoc.
    + cbn [length] in *. lia.
Qed.

Lemma filter_map_length {A B} (p : B -> bool) (g : A -> B) l :
  length (filter p (map g l)) = length (filter (fun x => p (g x)) l).
Proof. induction l as [|x t IH]; [reflexivity|]. cbn [map filter]. destruct (p (g x)); cbn [length]; now rewrite IH. Qed.
Lemma filter_none {A} (p : A -> bool) l : (forall x, In x l -> p x = false) -> filter p l = [].
Proof.
  induction l as [|x t IH]; intros H; [reflexivity|]. cbn [filter]. rewrite (H x) by now left.
  apply IH. intros y Hy. apply H. now right.
Qed.
Lemma filter_unique {A} (p : A -> bool) x0 : forall l, NoDup l -> In x0 l -> p x0 = true ->
  (forall x, In x l -> p x = true -> x = x0) -> length (filter p l) = 1%nat.
Proof.
  induction l as [|x t IH]; intros Hnd Hin Hp Hu; [contradiction|]. inversion Hnd as [|? ? Hx Ht]; subst.
  cbn [filter]. destruct Hin as [->|Hin].
  - rewrite Hp. cbn [length]. rewrite filter_none; [reflexivity|].
    intros y Hy. destruct (p y) eqn:E; [|reflexivity]. exfalso. rewrite (Hu y) in Hy by (now right || assumption). contradiction.
  - destruct (p x) eqn:E.
    + exfalso. rewrite (Hu x) in Hx by (now left || assumption). contradiction.
    + apply IH; auto. intros y Hy. apply Hu. now right.
Qed.

Section FileChainC07.
Context (items : list item) (n : Z) (it : item).
Context (Hnd : NoDup (all_secs items)) (Hin : secs_in items n) (Hn : n <= SAT_ENTRIES)
        (Hit : In it items) (Hfile : it_dir it = false) (Hne : it_secs it <> []).
Notation block := (sat_words items).
Notation secs := (it_secs it).

Lemma file_raw_chain : raw_chain (S (length block)) block [] (hd 0 secs) = Some secs.
Proof.
  pose proof (file_rawchain items n it Hnd Hin Hn Hit Hfile secs [] eq_refl Hne) as Hrc.
  pose proof (secs_nodup items it Hnd Hit) as Hs.
  apply (raw_chain_of_rel block secs Hrc []); [exact Hs|].
  pose proof (NoDup_inr_length (length block) secs Hs (rc_inr block secs Hrc)). lia.
Qed.

(** who links to sector [w] of the chain: only its predecessor *)
Lemma file_pred s w : 0 <= s < SAT_ENTRIES -> In w secs -> znth 0 block s = w ->
  exists i, (S i < length secs)%nat /\ nth i secs 0 = s /\ nth (S i) secs SAT_EOF = w.
Proof.
  intros Hs Hw E. pose proof (secs_in_item items n it w Hin Hit Hw) as Hr.
  rewrite sat_words_at in E by assumption.
  destruct (s <? 3); [unfold SAT_RES_STD, SAT_ENTRIES in *; lia|].
  destruct (sat_word_cases items s) as [[_ E']|(it' & i & A & B & C & E')]; rewrite E' in E.
  - unfold SAT_FREE in E. lia.
  - destruct (it_dir it'); [unfold SAT_RES_STD, SAT_ENTRIES in *; lia|].
    destruct (Nat.lt_ge_cases (S i) (length (it_secs it'))) as [Hlt|Hge].
    + assert (it = it').
      { eapply same_item; [exact Hnd|exact Hit|exact A|exact Hw|]. rewrite <- E. apply nth_In. exact Hlt. }
      subst it'. exists i. repeat split; assumption.
    + rewrite nth_overflow in E by lia. unfold SAT_EOF, SAT_ENTRIES in *. lia.
Qed.
Lemma nth_inj_nodup d1 d2 (l : list Z) i j : NoDup l -> (i < length l)%nat -> (j < length l)%nat ->
  nth i l d1 = nth j l d2 -> i = j.
Proof.
  intros Hd Hi Hj E. rewrite (nth_indep l d1 d2 Hi) in E. exact (proj1 (NoDup_nth l d2) Hd i j Hi Hj E).
Qed.
Lemma count_word_as_filter w :
  count_word block w = length (filter (fun s => w =? (if s <? 3 then SAT_RES_STD else sat_word items s)) (zfrom 0 (Z.to_nat SAT_ENTRIES))).
Proof. unfold count_word, sat_words. apply filter_map_length. Qed.

Lemma file_linked_once : linked_once block secs = true.
Proof.
  pose proof (secs_nodup items it Hnd Hit) as Hs.
  destruct secs as [|h t] eqn:Esecs; [congruence|]. cbn [linked_once]. apply andb_true_iff. split.
  - apply Nat.eqb_eq. rewrite count_word_as_filter. rewrite filter_none; [reflexivity|].
    intros s Hs0. apply zfrom_In in Hs0. destruct (Z.eqb_spec h (if s <? 3 then SAT_RES_STD else sat_word items s)) as [E|]; [|reflexivity].
    exfalso. destruct (file_pred s h) as (i & Hi & _ & Ei).
    + unfold SAT_ENTRIES in *. lia.
    + rewrite Esecs. now left.
    + rewrite sat_words_at by (unfold SAT_ENTRIES in *; lia). now symmetry.
    + rewrite Esecs in Hi, Ei. assert (S i = O); [|lia].
      apply (nth_inj_nodup SAT_EOF 0 (h :: t)); [assumption|assumption|cbn [length]; lia|]. rewrite Ei. reflexivity.
  - apply forallb_forall. intros w Hw. apply Nat.eqb_eq.
    destruct (In_nth _ _ 0 Hw) as (j & Hj & Ej).
    set (s0 := nth j (h :: t) 0).
    assert (Hs0 : 3 <= s0 < n).
    { apply (secs_in_item items n it); [assumption|assumption|]. rewrite Esecs. apply nth_In. cbn [length]. lia. }
    assert (Ew : znth 0 block s0 = w).
    { pose proof (file_word items n it Hnd Hin Hn Hit Hfile j) as G. rewrite Esecs in G. cbn [length] in G.
      specialize (G ltac:(lia)). fold s0 in G. rewrite G. cbn [nth]. rewrite (nth_indep t SAT_EOF 0 Hj). exact Ej. }
    rewrite count_word_as_filter. apply (filter_unique _ s0).
    + apply zfrom_NoDup.
    + apply zfrom_In. unfold SAT_ENTRIES in *. lia.
    + rewrite sat_words_at in Ew by lia. rewrite Ew. apply Z.eqb_refl.
    + intros s Hsr E. apply zfrom_In in Hsr. apply Z.eqb_eq in E.
      destruct (file_pred s w) as (i & Hi & Es & Ei).
      * unfold SAT_ENTRIES in *. lia.
      * rewrite Esecs. now right.
      * rewrite sat_words_at by (unfold SAT_ENTRIES in *; lia). now symmetry.
      * rewrite Esecs in Hi, Es, Ei. rewrite <- Es. unfold s0. f_equal.
        assert (S i = S j); [|lia].
        apply (nth_inj_nodup SAT_EOF 0 (h :: t)); [assumption|assumption|cbn [length]; lia|].
        rewrite Ei. cbn [nth]. now symmetry.
Qed.
(** hence, through the C07 instance of AkaiProofs.v, the decoded table delivers the file's sectors *)
Lemma file_chain_content pc sat : akai_decode block = Ok sat ->
  get_segment pc sat (hd 0 secs) = Ok (segment_content pc secs).
Proof.
  intros Hd. apply (akai_chain_to_content_lemma block sat pc _ _ (sat_words_range items n Hin Hn) (sat_words_len items) Hd).
  - exact file_raw_chain.
  - exact file_linked_once.
Qed.
End FileChainC07.


(** * Directory runs *)
Lemma in_dir_secs items s :
  In s (dir_secs items) <-> exists it, In it items /\ it_dir it = true /\ In s (it_secs it).
Proof.
  unfold dir_secs. rewrite in_concat. split.
  - intros (l & Hl & Hs). apply in_map_iff in Hl as (it & <- & Hf). apply filter_In in Hf as [A B]. eauto.
  - intros (it & A & B & C). exists (it_secs it). split; [|assumption]. apply in_map. apply filter_In. auto.
Qed.

Section DirRun.
Context (items : list item) (n : Z).
Context (Hnd : NoDup (all_secs items)) (Hin : secs_in items n) (Hn : n <= SAT_ENTRIES).
Notation block := (sat_words items).

Lemma dir_word_in s : In s (dir_secs items) -> is_dir_word (znth 0 block s) = true.
Proof.
  intros Hs. apply in_dir_secs in Hs as (it & A & B & C).
  pose proof (secs_in_item items n it s Hin A C) as Hr.
  rewrite sat_words_at by lia. destruct (Z.ltb_spec s 3); [lia|].
  destruct (In_nth _ _ 0 C) as (i & Hi & <-).
  destruct (in_split _ _ A) as (pre & post & E). rewrite E in Hnd |- *.
  rewrite sat_word_in by assumption. now rewrite B.
Qed.
Lemma dir_word_out s : 3 <= s < SAT_ENTRIES -> ~ In s (dir_secs items) -> is_dir_word (znth 0 block s) = false.
Proof.
  intros Hr Hs. rewrite sat_words_at by lia. destruct (Z.ltb_spec s 3); [lia|].
  destruct (sat_word_cases items s) as [[_ ->]|(it & i & A & B & C & ->)]; [reflexivity|].
  destruct (it_dir it) eqn:Ed.
  - exfalso. apply Hs. apply in_dir_secs. exists it. repeat split; auto. rewrite <- C. now apply nth_In.
  - destruct (Nat.lt_ge_cases (S i) (length (it_secs it))) as [Hlt|Hge].
    + pose proof (secs_in_item items n it _ Hin A (nth_In _ SAT_EOF Hlt)) as Hq.
      unfold is_dir_word, SAT_RES_STD, SAT_RES_V2. unfold SAT_ENTRIES in Hn.
      destruct (Z.eqb_spec (nth (S i) (it_secs it) SAT_EOF) 16384), (Z.eqb_spec (nth (S i) (it_secs it) SAT_EOF) 32768); lia.
    + rewrite nth_overflow by lia. reflexivity.
Qed.

Lemma dir_run_resolves it d k :
  In it items -> it_dir it = true -> it_secs it = zfrom d (S k) -> 4 <= d ->
  ~ In (d - 1) (dir_secs items) -> ~ In (d + Z.of_nat (S k)) (dir_secs items) ->
  akai_get_segment block d = Ok (it_secs it).
Proof.
  intros Hit Hd Es H4 Hb Ha.
  assert (Hlast : 3 <= d + Z.of_nat k < n).
  { apply (secs_in_item items n it _ Hin Hit). rewrite Es. apply zfrom_In. lia. }
  pose proof (sat_words_range items n Hin Hn) as Hw.
  assert (Hb0 : Forall (fun w => 0 <= w) block) by (revert Hw; apply Forall_impl; intros; lia).
  rewrite (run_resolves block d (d + Z.of_nat (S k)) Hb0).
  - rewrite Es. change zseq with zfrom. replace (Z.to_nat (d + Z.of_nat (S k) - d)) with (S k) by lia. reflexivity.
  - rewrite sat_words_len. unfold SAT_ENTRIES. lia.
  - lia.
  - rewrite sat_words_len. lia.
  - intros j Hj. apply dir_word_in. apply in_dir_secs. exists it. repeat split; auto. rewrite Es. apply zfrom_In. lia.
  - rewrite sat_words_len. destruct (Z.eq_dec (d + Z.of_nat (S k)) SAT_ENTRIES); [now left|right].
    apply dir_word_out; [lia|assumption].
  - right. apply dir_word_out; [lia|assumption].
Qed.
(** the same run as C07's [run_from] computes it from the raw words *)
Lemma dir_run_from it d k :
  In it items -> it_dir it = true -> it_secs it = zfrom d (S k) -> 4 <= d ->
  ~ In (d - 1) (dir_secs items) -> ~ In (d + Z.of_nat (S k)) (dir_secs items) ->
  run_from (length block) block d = it_secs it.
Proof.
  intros Hit Hd Es H4 Hb Ha.
  pose proof (dir_run_resolves it d k Hit Hd Es H4 Hb Ha) as H1.
  assert (Hlast : 3 <= d + Z.of_nat k < n).
  { apply (secs_in_item items n it _ Hin Hit). rewrite Es. apply zfrom_In. lia. }
  assert (Ok_inj : forall a b : list Z, @Ok (list Z) a = Ok b -> a = b) by (intros a b [=]; assumption).
  symmetry. apply Ok_inj. rewrite <- H1.
  apply (akai_decode_dir_run_lemma block d (sat_words_range items n Hin Hn)).
  - rewrite sat_words_len. unfold SAT_ENTRIES. lia.
  - rewrite sat_words_len. lia.
  - apply dir_word_in. apply in_dir_secs. exists it. split; [assumption|]. split; [assumption|]. rewrite Es. left. reflexivity.
  - right. apply dir_word_out; [lia|assumption].
Qed.
End DirRun.

Lemma get_segment_of block sat pc s c :
  akai_decode block = Ok sat -> zlen block = SAT_ENTRIES -> akai_get_segment block s = Ok c ->
  get_segment pc sat s = Ok (segment_content pc c).
Proof.
  intros Hd Hl H. unfold akai_get_segment in H. rewrite Hd in H. cbn [bind] in H. rewrite Hl in H.
  unfold get_segment. rewrite H. reflexivity.
Qed.

(** * Sector contents *)
Lemma sector_pos : 0 < SECTOR. Proof. reflexivity. Qed.
Lemma zlen_pad_to c n : zlen c <= n -> zlen (pad_to c n) = n.
Proof. intros H. unfold pad_to. rewrite zlen_app, zlen_zrepeat by lia. lia. Qed.
Lemma pad_to_ge c n : n <= zlen (pad_to c n).
Proof.
  unfold pad_to. rewrite zlen_app. destruct (Z.le_gt_cases (zlen c) n).
  - rewrite zlen_zrepeat by lia. lia.
  - unfold zrepeat. replace (Z.to_nat (n - zlen c)) with O by lia. unfold zlen at 2. cbn. lia.
Qed.
Lemma item_chunk_len it i : (i < length (it_secs it))%nat -> zlen (item_chunk it i) = SECTOR.
Proof.
  intros Hi. unfold item_chunk. pose proof (pad_to_ge (it_data it) (SECTOR * zlen (it_secs it))) as G.
  rewrite slice_zlen by (unfold SECTOR; lia). unfold zlen in *. unfold SECTOR in *. nia.
Qed.
Lemma sector_data_len : forall items s, zlen (sector_data items s) = SECTOR.
Proof.
  induction items as [|it t IH]; intros s; cbn [sector_data]; [now apply zlen_zrepeat|].
  destruct (index_of s (it_secs it)) as [i|] eqn:E; [|apply IH].
  apply item_chunk_len. now destruct (index_of_some 0 s _ _ E).
Qed.

(** equal-sized pieces laid one after the other *)
Lemma slice_concat_const {B} (f : Z -> list B) L : 0 < L -> (forall x, zlen (f x) = L) ->
  forall l i, (i < length l)%nat ->
  slice (concat (map f l)) (Z.of_nat i * L) ((Z.of_nat i + 1) * L) = f (nth i l 0).
Proof.
  intros HL Hf. induction l as [|x t IH]; intros i Hi; cbn [length] in Hi; [lia|].
  cbn [map concat]. destruct i as [|i].
  - cbn [nth]. change (Z.of_nat 0) with 0. rewrite Z.mul_0_l. apply slice_here. rewrite Hf. lia.
  - cbn [nth]. rewrite (slice_skip L (f x) _ _ _ (Z.of_nat i * L) ((Z.of_nat i + 1) * L)) by (try apply Hf; lia).
    apply IH. lia.
Qed.
From SE Require CueProofs.
Lemma chunks_concat {B} (l : list B) L : 0 < L -> forall k a,
  concat (map (fun i => slice l (Z.of_nat i * L) ((Z.of_nat i + 1) * L)) (seq a k))
  = slice l (Z.of_nat a * L) ((Z.of_nat a + Z.of_nat k) * L).
Proof.
  intros HL. induction k as [|k IH]; intros a; cbn [seq map concat].
  - unfold slice. replace (Z.to_nat _) with O by lia. reflexivity.
  - rewrite IH. replace (Z.of_nat (S a)) with (Z.of_nat a + 1) by lia.
    rewrite CueProofs.slice_app by nia. f_equal. lia.
Qed.
Lemma map_nth_seq {B} (d : B) (l : list B) : l = map (fun i => nth i l d) (seq 0 (length l)).
Proof.
  induction l as [|x t IH]; [reflexivity|]. cbn [length seq map nth]. f_equal.
  rewrite <- seq_shift, map_map. exact IH.
Qed.

(** * The partition's bytes *)
Lemma zlen_checksum n : zlen (checksum_bytes n) = 2. Proof. reflexivity. Qed.
Lemma zlen_MAGIC : zlen MAGIC = 194. Proof. reflexivity. Qed.
Lemma zlen_vol_entry V AV : zlen (lv_name V) <= 12 -> zlen (vol_entry_bytes V AV) = 16.
Proof. intros H. unfold vol_entry_bytes. rewrite !zlen_app, zlen_pad_name, !zlen_le16; lia. Qed.
Lemma zlen_empty_vol : zlen EMPTY_VOL_ENTRY = 16. Proof. reflexivity. Qed.
Lemma zlen_length {A} (l : list A) n : zlen l = Z.of_nat n -> length l = n.
Proof. unfold zlen. lia. Qed.

(** * Volume table *)
Definition ve_of (V : lvolume) (AV : avolume) : vol_entry :=
  {| ve_name := lv_name V; ve_type := lv_type V; ve_start := hd 0 (av_dir AV) |}.
Definition ve_empty : vol_entry := {| ve_name := []; ve_type := 0; ve_start := 0 |}.

Lemma parse_vol_entry_step V AV m rest :
  name_ok (lv_name V) -> (lv_type V = 1 \/ lv_type V = 3) ->
  parse_vol_entries (S m) (vol_entry_bytes V AV ++ rest)
  = (r <- parse_vol_entries m rest ;; Ok (ve_of V AV :: r)).
Proof.
  intros Hn Ht. pose proof Hn as (Hl & _).
  set (b := vol_entry_bytes V AV ++ rest).
  assert (E1 : firstn 12 b = akai_pad_name (lv_name V)).
  { unfold b, vol_entry_bytes. rewrite <- !app_assoc. apply firstn_here. apply zlen_length. now rewrite zlen_pad_name. }
  assert (E2 : u16 b 12 = lv_type V).
  { unfold b, vol_entry_bytes. rewrite <- !app_assoc.
    rewrite (u16_shift _ 12 12 0) by (try apply zlen_pad_name; lia). apply u16_le16. }
  assert (E3 : u16 b 14 = hd 0 (av_dir AV)).
  { unfold b, vol_entry_bytes. rewrite <- !app_assoc.
    rewrite (u16_shift _ 12 14 2) by (try apply zlen_pad_name; lia).
    rewrite (u16_shift _ 2 2 0) by (try apply zlen_le16; lia). apply u16_le16. }
  assert (E4 : skipn 16 b = rest).
  { unfold b. apply skipn_here. apply zlen_length. now apply zlen_vol_entry. }
  cbn [parse_vol_entries]. fold b. rewrite E1, E2, E3, E4. rewrite akai_name_back by assumption. cbn [bind].
  unfold ve_of. destruct Ht as [-> | ->]; reflexivity.
Qed.
Lemma parse_vol_entry_empty m rest :
  parse_vol_entries (S m) (EMPTY_VOL_ENTRY ++ rest)
  = (r <- parse_vol_entries m rest ;; Ok (ve_empty :: r)).
Proof.
  set (b := EMPTY_VOL_ENTRY ++ rest).
  assert (E1 : firstn 12 b = akai_pad_name []) by (unfold b, EMPTY_VOL_ENTRY; rewrite <- app_assoc; now apply firstn_here).
  assert (E2 : u16 b 12 = 0) by reflexivity.
  assert (E3 : u16 b 14 = 0) by reflexivity.
  assert (E4 : skipn 16 b = rest) by reflexivity.
  cbn [parse_vol_entries]. fold b. rewrite E1, E2, E3, E4. rewrite akai_name_back by exact name_ok_nil. reflexivity.
Qed.
Definition vol_ok (va : lvolume * avolume) : Prop :=
  name_ok (lv_name (fst va)) /\ (lv_type (fst va) = 1 \/ lv_type (fst va) = 3).

(** slots: what sits where *)
Lemma slot_lookup_in {A} i : forall slots (vas : list A) va, slot_lookup i slots vas = Some va -> In va vas.
Proof.
  induction slots as [|s st IH]; intros [|v vt] va H; cbn [slot_lookup] in H; try discriminate.
  destruct (s =? i); [injection H as <-; now left|]. right. now apply IH.
Qed.
Lemma slot_lookup_below {A} i : forall slots (vas : list A) lo, increasing_from lo slots -> i < lo ->
  slot_lookup i slots vas = None.
Proof.
  induction slots as [|s st IH]; intros [|v vt] lo Hi Hlt; cbn [slot_lookup]; try reflexivity.
  destruct Hi as [Hs Ht]. destruct (Z.eqb_spec s i) as [E|_]; [lia|]. apply (IH vt (s + 1)); [assumption|lia].
Qed.
Lemma filter_map_ext_in {A B} (f g : A -> option B) : forall l, (forall x, In x l -> f x = g x) ->
  filter_map f l = filter_map g l.
Proof.
  induction l as [|x t IH]; intros H; [reflexivity|]. cbn [filter_map]. rewrite (H x) by now left.
  rewrite IH by (intros y Hy; apply H; now right). reflexivity.
Qed.
(** walking the slots 0, 1, 2, ... in order meets the volumes in their order *)
Lemma slots_collect {A} : forall n a slots (vas : list A),
  length slots = length vas -> increasing_from a slots -> Forall (fun s => s < a + Z.of_nat n) slots ->
  filter_map (fun i => slot_lookup i slots vas) (zfrom a n) = vas.
Proof.
  induction n as [|n IH]; intros a slots vas Hl Hi Hb.
  - destruct slots as [|s st]; [destruct vas; [reflexivity|discriminate]|].
    exfalso. destruct Hi as [Hs _]. apply Forall_inv in Hb. lia.
  - cbn [zfrom filter_map]. destruct slots as [|s st]; destruct vas as [|v vt]; try discriminate.
    + cbn [slot_lookup]. apply (IH (a + 1) [] []); [reflexivity|exact I|constructor].
    + destruct Hi as [Hs Ht]. inversion Hb as [|? ? Hb1 Hb2]; subst. cbn [length] in Hl.
      cbn [slot_lookup]. destruct (Z.eqb_spec s a) as [->|Hne].
      * f_equal. rewrite (filter_map_ext_in _ (fun i => slot_lookup i st vt)).
        -- apply IH; [lia|assumption|]. revert Hb2. apply Forall_impl. intros; lia.
        -- intros i Hin. apply zfrom_In in Hin. cbn [slot_lookup]. destruct (Z.eqb_spec a i); [lia|reflexivity].
      * rewrite (slot_lookup_below a st vt (s + 1)) by (assumption || lia).
        apply (IH (a + 1) (s :: st) (v :: vt)); [cbn [length]; lia|split; [lia|assumption]|].
        constructor; [lia|]. revert Hb2. apply Forall_impl. intros; lia.
Qed.

(** the entry read back from slot [i] *)
Definition ve_at (P : lpartition) (AP : apartition) (i : Z) : vol_entry :=
  match slot_lookup i (lp_slots P) (combine (lp_vols P) AP) with
  | Some va => ve_of (fst va) (snd va)
  | None => ve_empty
  end.
Lemma parse_vol_slots P AP : Forall vol_ok (combine (lp_vols P) AP) -> forall l m rest,
  parse_vol_entries (length l + m) (concat (map (vol_slot_bytes P AP) l) ++ rest)
  = (r <- parse_vol_entries m rest ;; Ok (map (ve_at P AP) l ++ r)).
Proof.
  intros HF. induction l as [|i t IH]; intros m rest.
  - cbn [length plus map concat app]. destruct (parse_vol_entries m rest); reflexivity.
  - cbn [length plus map concat]. rewrite <- app_assoc. unfold vol_slot_bytes at 1, ve_at at 1.
    destruct (slot_lookup i (lp_slots P) (combine (lp_vols P) AP)) as [va|] eqn:E.
    + apply slot_lookup_in in E. rewrite Forall_forall in HF. destruct (HF va E) as [Hn Ht].
      rewrite parse_vol_entry_step by assumption. rewrite IH.
      destruct (parse_vol_entries m rest); reflexivity.
    + rewrite parse_vol_entry_empty, IH. destruct (parse_vol_entries m rest); reflexivity.
Qed.

(** the inactive entries yield no volume *)
Lemma realize_volumes_slots pc sat P AP : forall l,
  realize_volumes pc sat (map (ve_at P AP) l)
  = realize_volumes pc sat (map (fun va => ve_of (fst va) (snd va))
                                (filter_map (fun i => slot_lookup i (lp_slots P) (combine (lp_vols P) AP)) l)).
Proof.
  induction l as [|i t IH]; [reflexivity|]. cbn [map filter_map]. unfold ve_at at 1.
  destruct (slot_lookup i (lp_slots P) (combine (lp_vols P) AP)) as [va|].
  - cbn [map realize_volumes]. rewrite IH. reflexivity.
  - cbn [realize_volumes ve_empty ve_type]. exact IH.
Qed.

(** * One partition *)
Definition sat_of (items : list item) : list link :=
  match akai_decode (sat_words items) with Ok t => t | _ => [] end.
Definition part_of (P : lpartition) (AP : apartition) (o : Z) : partition :=
  {| p_off := o; p_sectors := lp_sectors P;
     p_vols := map (ve_at P AP) (zfrom 0 100);
     p_sat := sat_of (part_items P AP) |}.

Section Partition.
Context (P : lpartition) (AP : apartition) (Hok : part_alloc_ok P AP).
Notation items := (part_items P AP).
Notation n := (lp_sectors P).
Notation vas := (combine (lp_vols P) AP).

Lemma pa_size : 3 <= n <= SAT_ENTRIES. Proof. apply Hok. Qed.
Lemma pa_nodup : NoDup (all_secs items). Proof. apply Hok. Qed.
Lemma pa_secs_in : secs_in items n. Proof. apply Hok. Qed.
Lemma pa_len_vas : length vas = length (lp_vols P).
Proof. destruct Hok as (_ & H & _). rewrite combine_length. lia. Qed.
Lemma pa_vols : Forall (fun va => vol_alloc_ok items (fst va) (snd va)) vas. Proof. apply Hok. Qed.
Lemma pa_vols_ok : Forall vol_ok vas.
Proof. eapply Forall_impl; [|exact pa_vols]. intros va (A & B & _). split; assumption. Qed.

Lemma pa_slots_len : length (lp_slots P) = length vas.
Proof. destruct Hok as (_ & _ & H & _). rewrite pa_len_vas. exact H. Qed.
Lemma pa_slots : slots_ok (lp_slots P). Proof. apply Hok. Qed.

Lemma zlen_vol_slot i : zlen (vol_slot_bytes P AP i) = 16.
Proof.
  unfold vol_slot_bytes. destruct (slot_lookup i (lp_slots P) vas) as [va|] eqn:E; [|reflexivity].
  apply slot_lookup_in in E. pose proof pa_vols_ok as HF. rewrite Forall_forall in HF.
  destruct (HF va E) as [(Hl & _) _]. now apply zlen_vol_entry.
Qed.
Lemma zlen_vol_table : zlen (vol_table P AP) = 1600.
Proof.
  unfold vol_table. rewrite (zlen_concat_const _ 16) by (intros; apply zlen_vol_slot). reflexivity.
Qed.
Lemma zlen_sat_bytes : zlen (concat (map le16 (sat_words items))) = 2 * SAT_ENTRIES.
Proof. rewrite (zlen_concat_const _ 2) by (intros; reflexivity). now rewrite sat_words_len. Qed.
Lemma zlen_part_header : zlen (part_header P AP) = HDR_BYTES.
Proof.
  unfold part_header. rewrite !zlen_app, zlen_vol_table, zlen_sat_bytes, zlen_MAGIC, zlen_checksum, zlen_le16.
  reflexivity.
Qed.
Lemma zlen_data_area :
  zlen (concat (map (sector_data items) (zfrom 3 (Z.to_nat (n - 3))))) = (n - 3) * SECTOR.
Proof.
  rewrite (zlen_concat_const _ SECTOR) by (intros; apply sector_data_len).
  rewrite zlen_zfrom. pose proof pa_size. unfold SECTOR. lia.
Qed.
Lemma zlen_partition_bytes : zlen (partition_bytes P AP) = n * SECTOR.
Proof.
  unfold partition_bytes. rewrite !zlen_app, zlen_part_header, zlen_data_area.
  unfold HDR_BYTES, VOL_ENTRIES, SAT_ENTRIES, SECTOR. change (zlen [0; 0]) with 2. lia.
Qed.

Lemma decode_written : akai_decode (sat_words items) = Ok (sat_of items).
Proof.
  unfold sat_of. destruct (akai_decode_ok (sat_words items)) as [t ->]; [|reflexivity].
  pose proof (sat_words_range items n pa_secs_in ltac:(apply pa_size)) as H.
  revert H. apply Forall_impl. intros; lia.
Qed.

(** (a) the partition header parses to what was written *)
Lemma parse_partition_written pre post :
  parse_partition (pre ++ partition_bytes P AP ++ post) (zlen pre) = Ok (part_of P AP (zlen pre)).
Proof.
  pose proof pa_size as Hn. pose proof zlen_partition_bytes as Hlen. pose proof zlen_part_header as Hh.
  unfold parse_partition.
  assert (Hz : zlen (pre ++ partition_bytes P AP ++ post) = zlen pre + n * SECTOR + zlen post)
    by (rewrite !zlen_app; lia).
  pose proof (zlen_nonneg pre). pose proof (zlen_nonneg post).
  destruct (Z.gtb_spec (zlen pre + HDR_BYTES) (zlen (pre ++ partition_bytes P AP ++ post))) as [Hc|_].
  { exfalso. unfold HDR_BYTES, VOL_ENTRIES, SAT_ENTRIES, SECTOR in *. lia. }
  assert (Eh : slice (pre ++ partition_bytes P AP ++ post) (zlen pre) (zlen pre + HDR_BYTES) = part_header P AP).
  { rewrite (slice_skip (zlen pre) pre _ _ _ 0 HDR_BYTES) by lia.
    unfold partition_bytes. rewrite <- !app_assoc. now apply slice_here. }
  rewrite Eh. set (h := part_header P AP).
  assert (E0 : u16 h 0 = n) by (unfold h, part_header; apply u16_le16).
  assert (E2 : u8 h 2 = 0) by (unfold h, part_header; now rewrite (u8_shift _ 2 2 0) by (reflexivity || lia)).
  assert (E3 : u8 h 3 = 0) by (unfold h, part_header; now rewrite (u8_shift _ 2 3 1) by (reflexivity || lia)).
  assert (E4 : slice h 4 198 = MAGIC).
  { unfold h, part_header. rewrite (slice_skip 2 _ _ 4 198 2 196) by (reflexivity || lia).
    rewrite (slice_skip 2 [0; 0] _ 2 196 0 194) by (reflexivity || lia). now apply slice_here. }
  assert (E200 : u8 h 200 = 47).
  { unfold h, part_header. rewrite (u8_shift _ 2 200 198) by (reflexivity || lia).
    rewrite (u8_shift [0; 0] 2 198 196) by (reflexivity || lia).
    rewrite (u8_shift MAGIC 194 196 2) by (reflexivity || lia).
    now rewrite (u8_shift (checksum_bytes n) 2 2 0) by (reflexivity || lia). }
  assert (E201 : u8 h 201 = 0).
  { unfold h, part_header. rewrite (u8_shift _ 2 201 199) by (reflexivity || lia).
    rewrite (u8_shift [0; 0] 2 199 197) by (reflexivity || lia).
    rewrite (u8_shift MAGIC 194 197 3) by (reflexivity || lia).
    now rewrite (u8_shift (checksum_bytes n) 2 3 1) by (reflexivity || lia). }
  assert (Ev : slice h 202 1802 = vol_table P AP).
  { unfold h, part_header. rewrite (slice_skip 2 _ _ 202 1802 200 1800) by (reflexivity || lia).
    rewrite (slice_skip 2 [0; 0] _ 200 1800 198 1798) by (reflexivity || lia).
    rewrite (slice_skip 194 MAGIC _ 198 1798 4 1604) by (reflexivity || lia).
    rewrite (slice_skip 2 (checksum_bytes n) _ 4 1604 2 1602) by (reflexivity || lia).
    rewrite (slice_skip 2 [47; 0] _ 2 1602 0 1600) by (reflexivity || lia).
    apply slice_here. exact zlen_vol_table. }
  assert (Es : slice h 1802 HDR_BYTES = concat (map le16 (sat_words items))).
  { unfold h, part_header. rewrite (slice_skip 2 _ _ 1802 HDR_BYTES 1800 (HDR_BYTES - 2)) by (reflexivity || lia).
    rewrite (slice_skip 2 [0; 0] _ 1800 _ 1798 (HDR_BYTES - 4)) by (reflexivity || lia).
    rewrite (slice_skip 194 MAGIC _ 1798 _ 1604 (HDR_BYTES - 198)) by (reflexivity || lia).
    rewrite (slice_skip 2 (checksum_bytes n) _ 1604 _ 1602 (HDR_BYTES - 200)) by (reflexivity || lia).
    rewrite (slice_skip 2 [47; 0] _ 1602 _ 1600 (HDR_BYTES - 202)) by (reflexivity || lia).
    rewrite (slice_skip 1600 (vol_table P AP) _ 1600 _ 0 (HDR_BYTES - 1802)) by (try exact zlen_vol_table; lia).
    apply slice_exact. rewrite zlen_sat_bytes. reflexivity. }
  rewrite E0, E2, E3, E4, E200, E201, Ev, Es. rewrite str_eqb_refl. cbn [Z.eqb andb negb].
  assert (Epv : parse_vol_entries 100 (vol_table P AP) = Ok (map (ve_at P AP) (zfrom 0 100))).
  { unfold vol_table. change 100%nat with (length (zfrom 0 100) + 0)%nat at 1.
    rewrite <- (app_nil_r (concat _)). rewrite (parse_vol_slots P AP pa_vols_ok).
    cbn [parse_vol_entries bind]. now rewrite app_nil_r. }
  rewrite Epv. cbn [bind]. rewrite words_le16, decode_written. cbn [bind].
  destruct (Z.leb_spec n 0); [lia|]. reflexivity.
Qed.

(** the partition's window and its sectors *)
Lemma sector_of_partition s : 3 <= s < n ->
  slice (partition_bytes P AP) (s * SECTOR) ((s + 1) * SECTOR) = sector_data items s.
Proof.
  intros Hs. unfold partition_bytes. rewrite app_assoc.
  rewrite (slice_skip (3 * SECTOR) _ _ _ _ (Z.of_nat (Z.to_nat (s - 3)) * SECTOR) ((Z.of_nat (Z.to_nat (s - 3)) + 1) * SECTOR)).
  - rewrite (slice_concat_const (sector_data items) SECTOR sector_pos (sector_data_len items)) by (rewrite zfrom_length; lia).
    rewrite zfrom_nth by lia. f_equal. lia.
  - rewrite zlen_app, zlen_part_header. reflexivity.
  - unfold SECTOR. lia.
  - unfold SECTOR. lia.
  - unfold SECTOR. lia.
Qed.

(** the sectors of an item, in the item's order, deliver its content (zero-filled) *)
Lemma item_content it : In it items -> zlen (it_data it) <= SECTOR * zlen (it_secs it) ->
  segment_content (partition_bytes P AP) (it_secs it) = pad_to (it_data it) (SECTOR * zlen (it_secs it)).
Proof.
  intros Hit Hfit. unfold segment_content.
  destruct (in_split _ _ Hit) as (pre & post & E).
  assert (M : map (fun s => slice (partition_bytes P AP) (s * SECTOR) ((s + 1) * SECTOR)) (it_secs it)
              = map (item_chunk it) (seq 0 (length (it_secs it)))).
  { rewrite (map_nth_seq 0 (it_secs it)) at 1. rewrite map_map. apply map_ext_in. intros i Hi. apply in_seq in Hi.
    rewrite sector_of_partition.
    - pose proof pa_nodup as Hnd. rewrite E in Hnd |- *. apply sector_data_in; [assumption|lia].
    - apply (secs_in_item items n it); [exact pa_secs_in|assumption|]. apply nth_In. lia. }
  rewrite M. unfold item_chunk. rewrite (chunks_concat _ SECTOR sector_pos).
  change (Z.of_nat 0) with 0. rewrite Z.mul_0_l, Z.add_0_l.
  apply slice_exact. rewrite zlen_pad_to by assumption. unfold zlen. lia.
Qed.
End Partition.

(** * (d) The sample header reads back as written *)
Ltac sh lem k o :=
  let o' := eval cbv in (o - k) in
  rewrite (lem _ k o o') by (first [reflexivity | apply zlen_pad_name; assumption | assumption | lia]).

Definition read_loop (l : list Z) (o : Z) : Z * Z * Z * Z :=
  (u32 l o, u16 l (o + 4), u32 l (o + 6), u16 l (o + 10)).
Lemma read_loop_shift a k o o' r : zlen a = k -> o' = o - k -> 0 <= o' ->
  read_loop (a ++ r) o = read_loop r o'.
Proof.
  intros H1 H2 H3. unfold read_loop.
  rewrite (u32_shift a k o o'), (u16_shift a k (o + 4) (o' + 4)), (u32_shift a k (o + 6) (o' + 6)),
    (u16_shift a k (o + 10) (o' + 10)) by lia. reflexivity.
Qed.
Lemma zlen_loop_bytes x : zlen (loop_bytes x) = 12.
Proof. destruct x as [[[a b] c] d]. reflexivity. Qed.
Lemma read_loop_head x r : read_loop (loop_bytes x ++ r) 0 = x.
Proof.
  destruct x as [[[a b] c] d]. unfold read_loop, loop_bytes. rewrite <- !app_assoc.
  rewrite u32_le32.
  rewrite (u16_shift _ 4 (0 + 4) 0), u16_le16 by (reflexivity || lia).
  rewrite (u32_shift _ 4 (0 + 6) 2), (u32_shift _ 2 2 0), u32_le32 by (reflexivity || lia).
  rewrite (u16_shift _ 4 (0 + 10) 6), (u16_shift _ 2 6 4), (u16_shift _ 4 4 0), u16_le16 by (reflexivity || lia).
  reflexivity.
Qed.
Lemma loops_read : forall ls r,
  map (fun k => read_loop (concat (map loop_bytes ls) ++ r) (12 * Z.of_nat k)) (seq 0 (length ls)) = ls.
Proof.
  induction ls as [|x t IH]; intros r; [reflexivity|].
  cbn [length seq map concat]. rewrite <- app_assoc. f_equal.
  - apply read_loop_head.
  - rewrite <- seq_shift, map_map. rewrite <- (IH r) at 2. apply map_ext. intros k.
    apply (read_loop_shift _ 12); [apply zlen_loop_bytes|lia|lia].
Qed.
Lemma zlen_loops ls : length ls = 8%nat -> zlen (concat (map loop_bytes ls)) = 96.
Proof.
  intros H. rewrite (zlen_concat_const _ 12) by (intros; apply zlen_loop_bytes). unfold zlen. rewrite H. reflexivity.
Qed.
Lemma zlen_sample_header f : sample_ok f -> zlen (sample_header f) = SAMPLE_HDR.
Proof.
  intros (_ & (Hs & _) & H). unfold sample_header.
  rewrite !zlen_app, zlen_pad_name, !zlen_le32, zlen_le16, zlen_loops by (assumption || apply H). reflexivity.
Qed.
Lemma zlen_file_body f : sample_ok f -> zlen (file_body f) = SAMPLE_HDR + 2 * ls_count f.
Proof.
  intros H. unfold file_body. rewrite zlen_app, zlen_sample_header by assumption.
  destruct H as (_ & _ & _ & _ & _ & _ & _ & _ & _ & _ & -> & _). reflexivity.
Qed.

Definition sample_of (nm : list Z) (f : lsample) : sample :=
  {| sm_file_name := nm; sm_name := ls_sname f; sm_id := ls_id f; sm_note := ls_note f;
     sm_loop_type := ls_loop_type f; sm_cents := ls_cents f; sm_semi := ls_semi f;
     sm_count := ls_count f; sm_start := ls_start f; sm_end := ls_end f; sm_rate_raw := ls_rate f;
     sm_loops := ls_loops f; sm_pcm := sample_window f |}.

Lemma app3 {A} (a b c : A) r : [a; b; c] ++ r = a :: b :: c :: r. Proof. reflexivity. Qed.
Lemma s8_at1 a v r : -128 <= v < 128 -> s8 (a :: s8_byte v :: r) 1 = v.
Proof. intros H. exact (s8_head v r H). Qed.
Lemma s8_at2 a b v r : -128 <= v < 128 -> s8 (a :: b :: s8_byte v :: r) 2 = v.
Proof. intros H. exact (s8_head v r H). Qed.

Lemma parse_sample_written f nm ty sz st :
  sample_ok f ->
  parse_sample {| fe_name := nm; fe_type := ty; fe_size := sz; fe_start := st; fe_content := file_body f |}
  = Some (sample_of nm f).
Proof.
  intros Hok. pose proof (zlen_file_body f Hok) as Hlen. pose proof (zlen_sample_header f Hok) as Hhdr.
  pose proof Hok as (_ & Hsn & _ & Hid & Hnote & Hlt & Hcents & Hsemi & Hse & Hec & Hpl & _ & _ & Hll & _ & _).
  pose proof Hsn as (Hsl & _).
  unfold parse_sample. cbn [fe_content fe_name]. set (b := file_body f) in *.
  assert (B : b = [ls_id f; 0; ls_note f] ++ akai_pad_name (ls_sname f) ++ [0; 0; 0; 0] ++
                  [ls_loop_type f; s8_byte (ls_cents f); s8_byte (ls_semi f)] ++ [0; 0; 0; 0] ++
                  le32 (ls_count f) ++ le32 (ls_start f) ++ le32 (ls_end f) ++
                  concat (map loop_bytes (ls_loops f)) ++ [0; 0; 0; 0] ++ le16 (ls_rate f) ++ ls_pcm f).
  { unfold b, file_body, sample_header. now rewrite <- !app_assoc. }
  assert (E0 : u8 b 0 = ls_id f) by (rewrite B; reflexivity).
  assert (E2 : u8 b 2 = ls_note f) by (rewrite B; reflexivity).
  assert (E3 : slice b 3 15 = akai_pad_name (ls_sname f)).
  { rewrite B. rewrite (slice_skip 3 _ _ 3 15 0 12) by (reflexivity || lia). apply slice_here. now apply zlen_pad_name. }
  assert (E19 : u8 b 19 = ls_loop_type f).
  { rewrite B. sh u8_shift 3 19. sh u8_shift 12 16. sh u8_shift 4 4. reflexivity. }
  assert (E20 : s8 b 20 = ls_cents f).
  { rewrite B. sh s8_shift 3 20. sh s8_shift 12 17. sh s8_shift 4 5. rewrite app3. now apply s8_at1. }
  assert (E21 : s8 b 21 = ls_semi f).
  { rewrite B. sh s8_shift 3 21. sh s8_shift 12 18. sh s8_shift 4 6. rewrite app3. now apply s8_at2. }
  assert (E26 : u32 b 26 = ls_count f).
  { rewrite B. sh u32_shift 3 26. sh u32_shift 12 23. sh u32_shift 4 11. sh u32_shift 3 7. sh u32_shift 4 4.
    apply u32_le32. }
  assert (E30 : u32 b 30 = ls_start f).
  { rewrite B. sh u32_shift 3 30. sh u32_shift 12 27. sh u32_shift 4 15. sh u32_shift 3 11. sh u32_shift 4 8.
    sh u32_shift 4 4. apply u32_le32. }
  assert (E34 : u32 b 34 = ls_end f).
  { rewrite B. sh u32_shift 3 34. sh u32_shift 12 31. sh u32_shift 4 19. sh u32_shift 3 15. sh u32_shift 4 12.
    sh u32_shift 4 8. sh u32_shift 4 4. apply u32_le32. }
  assert (E138 : u16 b 138 = ls_rate f).
  { rewrite B. sh u16_shift 3 138. sh u16_shift 12 135. sh u16_shift 4 123. sh u16_shift 3 119. sh u16_shift 4 116.
    sh u16_shift 4 112. sh u16_shift 4 108. sh u16_shift 4 104.
    rewrite (u16_shift _ 96 100 4) by (try (apply zlen_loops; assumption); lia). sh u16_shift 4 4. apply u16_le16. }
  assert (EL : map (fun k => (u32 b (38 + 12 * Z.of_nat k), u16 b (38 + 12 * Z.of_nat k + 4),
                              u32 b (38 + 12 * Z.of_nat k + 6), u16 b (38 + 12 * Z.of_nat k + 10))) (seq 0 8)
               = ls_loops f).
  { etransitivity; [|apply (loops_read (ls_loops f) ([0; 0; 0; 0] ++ le16 (ls_rate f) ++ ls_pcm f))]. rewrite Hll.
    apply map_ext. intros k. cbv zeta. change (read_loop b (38 + 12 * Z.of_nat k) = read_loop (concat (map loop_bytes (ls_loops f)) ++ [0; 0; 0; 0] ++ le16 (ls_rate f) ++ ls_pcm f) (12 * Z.of_nat k)).
    rewrite B.
    rewrite (read_loop_shift _ 3 _ (35 + 12 * Z.of_nat k)) by (reflexivity || lia).
    rewrite (read_loop_shift _ 12 _ (23 + 12 * Z.of_nat k)) by (try (apply zlen_pad_name; assumption); lia).
    rewrite (read_loop_shift _ 4 _ (19 + 12 * Z.of_nat k)) by (reflexivity || lia).
    rewrite (read_loop_shift _ 3 _ (16 + 12 * Z.of_nat k)) by (reflexivity || lia).
    rewrite (read_loop_shift _ 4 _ (12 + 12 * Z.of_nat k)) by (reflexivity || lia).
    rewrite (read_loop_shift _ 4 _ (8 + 12 * Z.of_nat k)) by (reflexivity || lia).
    rewrite (read_loop_shift _ 4 _ (4 + 12 * Z.of_nat k)) by (reflexivity || lia).
    rewrite (read_loop_shift _ 4 _ (12 * Z.of_nat k)) by (reflexivity || lia). reflexivity. }
  assert (EP : slice b (SAMPLE_HDR + 2 * ls_start f) (SAMPLE_HDR + 2 * ls_start f + 2 * (ls_end f - ls_start f)) = sample_window f).
  { unfold b, file_body.
    rewrite (slice_skip SAMPLE_HDR _ _ _ _ (2 * ls_start f) (2 * ls_end f)) by (assumption || lia). reflexivity. }
  destruct (Z.ltb_spec (zlen b) SAMPLE_HDR) as [Hc|_]; [unfold SAMPLE_HDR in *; lia|].
  rewrite E0, E2, E3, E19, E20, E21, E26, E30, E34, E138, EL.
  assert (Eid : negb ((ls_id f =? 1) || (ls_id f =? 3)) = false) by (destruct Hid as [-> | ->]; reflexivity).
  rewrite Eid. rewrite akai_name_back by assumption.
  destruct (Z.gtb_spec (ls_loop_type f) 4) as [Hc|_]; [lia|].
  destruct (Z.gtb_spec (2 * (ls_end f - ls_start f)) 0) as [_|Hc]; [|lia].
  rewrite EP. reflexivity.
Qed.

(** * (b, c) Directory and files of one volume *)
Lemma map_fst_combine {A B} : forall (a : list A) (b : list B), length b = length a -> map fst (combine a b) = a.
Proof.
  induction a as [|x t IH]; intros [|y u] H; cbn in *; try reflexivity; try discriminate.
  f_equal. apply IH. lia.
Qed.
Lemma Forall_znth {A} (P : A -> Prop) d l i : Forall P l -> 0 <= i < zlen l -> P (znth d l i).
Proof.
  intros H Hi. rewrite Forall_forall in H. apply H. unfold znth. apply nth_In. unfold zlen in Hi. lia.
Qed.
Lemma filter_map_app {A B} (f : A -> option B) : forall a b, filter_map f (a ++ b) = filter_map f a ++ filter_map f b.
Proof.
  induction a as [|x t IH]; intros b; [reflexivity|]. cbn [app filter_map]. destruct (f x); cbn [app]; now rewrite IH.
Qed.

Definition fe_of (fa : lsample * list Z) : fentry :=
  {| fe_name := ls_name (fst fa); fe_type := ls_type (fst fa); fe_size := zlen (file_body (fst fa));
     fe_start := hd 0 (snd fa); fe_content := file_body (fst fa) |}.
Definition child_of (f : lsample) : child := CSample (sample_of (ls_name f) f).
Definition volume_of (V : lvolume) : volume :=
  {| v_name := lv_name V; v_type := lv_type V; v_children := map child_of (lv_files V) |}.

Lemma zlen_entry_name e secs : entry_alloc_ok e secs -> zlen (entry_name_bytes e) = 12.
Proof.
  destruct e as [f|g]; cbn [entry_alloc_ok entry_name_bytes].
  - intros (((Hl & _) & _) & _). now apply zlen_pad_name.
  - intros ((Hl & _) & _). exact Hl.
Qed.
Lemma zlen_dir_entry e secs : entry_alloc_ok e secs -> zlen (dir_entry e secs) = 24.
Proof.
  intros H. unfold dir_entry. rewrite !zlen_app, (zlen_entry_name e secs H), zlen_le24, zlen_le16. reflexivity.
Qed.
Lemma dir_entry_is_entry e secs : entry_alloc_ok e secs -> is_entry (dir_entry e secs).
Proof.
  intros H. split; [now apply zlen_dir_entry|]. pose proof (zlen_entry_name e secs H) as Hl.
  unfold dir_entry. rewrite u16_app_l by lia.
  destruct e as [f|g]; cbn [entry_alloc_ok entry_name_bytes] in *.
  - destruct H as ((Hn & _) & _).
    pose proof (pad_name_range _ Hn) as HF. unfold u16.
    pose proof (Forall_znth _ 0 _ 8 HF ltac:(rewrite Hl; lia)) as H8.
    pose proof (Forall_znth _ 0 _ (8 + 1) HF ltac:(rewrite Hl; lia)) as H9.
    cbn beta in H8, H9. unfold TABLE_END_FLAG. lia.
  - destruct H as ((_ & _ & Hf & _) & _). unfold u16. change (8 + 1) with 9. exact Hf.
Qed.
Lemma END_ENTRY_flag r : u16 (END_ENTRY ++ r) 8 = TABLE_END_FLAG.
Proof. reflexivity. Qed.
Lemma zlen_END_ENTRY : zlen END_ENTRY = 24. Proof. reflexivity. Qed.

Lemma realize_file_written fa : sample_ok (fst fa) -> realize_file (fe_of fa) = Some (child_of (fst fa)).
Proof.
  intros Hok. unfold realize_file, fe_of. cbn [fe_type].
  assert (E : is_sample_type (ls_type (fst fa)) = true).
  { destruct Hok as (_ & _ & [-> | ->] & _); reflexivity. }
  rewrite E. rewrite parse_sample_written by assumption. reflexivity.
Qed.

(** the type byte of a ghost: not a sample's, not a program's; if the tool knows it at all it is
    a drum, QL or effects file *)
Lemma is_file_type_other t : is_file_type t = true -> ~ In t [115; 243; 112; 240] -> In t [100; 113; 120].
Proof.
  intros H Hn. cbn [In] in *.
  destruct (Z.eqb_spec t 100) as [->|N1]; [now left|].
  destruct (Z.eqb_spec t 113) as [->|N2]; [right; now left|].
  destruct (Z.eqb_spec t 120) as [->|N3]; [right; right; now left|].
  exfalso. apply Hn. unfold is_file_type in H. lia.
Qed.
Lemma not_sample_program t : ~ In t [115; 243; 112; 240] ->
  is_sample_type t = false /\ is_program_type t = false.
Proof. intros Hn. cbn [In] in Hn. unfold is_sample_type, is_program_type. split; lia. Qed.

(** the samples among valid entries are valid samples *)
Lemma samples_of_entries_ok : forall es (fs : list (list Z)),
  Forall (fun ea => entry_alloc_ok (fst ea) (snd ea)) (combine es fs) -> length fs = length es ->
  Forall sample_ok (samples_of es).
Proof.
  induction es as [|e t IH]; intros [|x u] HF Hl; cbn [length] in Hl; try discriminate; [constructor|].
  cbn [combine] in HF. inversion HF as [|? ? He HF']; subst. cbn [fst snd] in He.
  destruct e as [f|g]; cbn [samples_of].
  - constructor; [apply He|]. apply (IH u); [assumption|lia].
  - apply (IH u); [assumption|lia].
Qed.

Section Volume.
Context (P : lpartition) (AP : apartition) (Hok : part_alloc_ok P AP).
Context (V : lvolume) (AV : avolume) (Hva : In (V, AV) (combine (lp_vols P) AP)).
Notation items := (part_items P AP).
Notation n := (lp_sectors P).
Notation pc := (partition_bytes P AP).
Notation sat := (sat_of items).
Notation eas := (combine (lv_entries V) (av_files AV)).

Lemma vol_valid : vol_alloc_ok items V AV.
Proof. pose proof (pa_vols P AP Hok) as H. rewrite Forall_forall in H. exact (H _ Hva). Qed.
Lemma vol_items_in it : In it (vol_items V AV) -> In it items.
Proof.
  intros H. unfold part_items. apply in_concat. exists (vol_items V AV). split; [|assumption].
  apply in_map_iff. exists (V, AV). split; [reflexivity|assumption].
Qed.
Lemma len_eas : length eas = length (lv_entries V).
Proof. destruct vol_valid as (_ & _ & H & _). rewrite combine_length. lia. Qed.
Lemma eas_ok : Forall (fun ea => entry_alloc_ok (fst ea) (snd ea)) eas.
Proof. apply vol_valid. Qed.
Lemma entry_item_in ea : In ea eas ->
  In {| it_dir := false; it_secs := snd ea; it_data := entry_body (fst ea) |} items.
Proof. intros H. apply vol_items_in. right. apply in_map_iff. exists ea. split; [reflexivity|assumption]. Qed.

(** an entry with sectors (sample or ghost): its chain resolves to its sectors, which hold its body *)
Lemma entry_segment ea : In ea eas -> snd ea <> [] -> zlen (entry_body (fst ea)) <= SECTOR * zlen (snd ea) ->
  get_segment pc sat (hd 0 (snd ea)) = Ok (pad_to (entry_body (fst ea)) (SECTOR * zlen (snd ea))).
Proof.
  intros Hea Hne Hfit.
  set (it := {| it_dir := false; it_secs := snd ea; it_data := entry_body (fst ea) |}).
  assert (Hit : In it items) by now apply entry_item_in.
  pose proof (file_chain_resolves items n it (pa_nodup P AP Hok) (pa_secs_in P AP Hok) ltac:(apply (pa_size P AP Hok)) Hit eq_refl Hne) as Hc.
  pose proof (item_content P AP Hok it Hit Hfit) as Hcont.
  unfold it in Hc, Hcont. cbn [it_secs it_data] in Hc, Hcont.
  rewrite (get_segment_of _ _ pc _ _ (decode_written P AP Hok) (sat_words_len items) Hc).
  f_equal. exact Hcont.
Qed.
Lemma entry_start ea : In ea eas -> snd ea <> [] -> 3 <= hd 0 (snd ea) < n.
Proof.
  intros Hea Hne.
  apply (secs_in_item items n {| it_dir := false; it_secs := snd ea; it_data := entry_body (fst ea) |}).
  - exact (pa_secs_in P AP Hok).
  - now apply entry_item_in.
  - cbn [it_secs]. destruct (snd ea); [congruence|now left].
Qed.

(** a sample's entry is kept, with the file's content *)
Lemma kept_sample f secs : In (LSample f, secs) eas ->
  kept pc sat (dir_entry (LSample f) secs) = Ok [fe_of (f, secs)].
Proof.
  intros Hfa. pose proof eas_ok as HF. rewrite Forall_forall in HF. pose proof (HF _ Hfa) as Hea.
  cbn [fst snd entry_alloc_ok] in Hea. destruct Hea as (Hs & Hne & Hfit).
  pose proof Hs as (Hn & _ & Hty & _). pose proof Hn as (Hl & _).
  set (e := dir_entry (LSample f) secs).
  assert (E1 : firstn 12 e = akai_pad_name (ls_name f)).
  { unfold e, dir_entry. cbn [entry_name_bytes]. apply firstn_here. apply zlen_length. now rewrite zlen_pad_name. }
  assert (E16 : u8 e 16 = ls_type f).
  { unfold e, dir_entry. cbn [entry_name_bytes entry_type]. sh u8_shift 12 16. sh u8_shift 4 4. reflexivity. }
  assert (E17 : u24 e 17 = zlen (file_body f)).
  { unfold e, dir_entry. cbn [entry_name_bytes entry_type entry_size].
    sh u24_shift 12 17. sh u24_shift 4 5. sh u24_shift 1 1. apply u24_le24. }
  assert (E20 : u16 e 20 = hd 0 secs).
  { unfold e, dir_entry. cbn [entry_name_bytes entry_type entry_size].
    sh u16_shift 12 20. sh u16_shift 4 8. sh u16_shift 1 4. sh u16_shift 3 3. apply u16_le16. }
  unfold kept, parse_fentry. rewrite E1, E16, E17, E20. rewrite akai_name_back by assumption.
  assert (Eft : is_file_type (ls_type f) = true) by (destruct Hty as [-> | ->]; reflexivity).
  rewrite Eft. cbn [negb].
  pose proof (entry_segment (LSample f, secs) Hfa Hne Hfit) as Hseg. cbn [fst snd entry_body] in Hseg.
  rewrite Hseg. cbn [bind].
  pose proof (entry_start _ Hfa Hne) as Hst. cbn [snd] in Hst.
  cbn [fe_start]. destruct (Z.gtb_spec (hd 0 secs) 0) as [_|Hc]; [|lia].
  do 2 f_equal. unfold fe_of. cbn [fst snd]. f_equal.
  pose proof (zlen_file_body _ Hs) as Hlen. pose proof Hs as (_ & _ & _ & _ & _ & _ & _ & _ & Hse & Hec & _).
  unfold wrap_size. destruct (Z.gtb_spec (zlen (file_body f)) 0) as [_|Hc]; [|unfold SAMPLE_HDR in *; lia].
  unfold pad_to. now apply slice_here.
Qed.

(** a ghost's entry yields nothing that becomes a child of the volume: it is skipped when its
    name bytes are not AKAI text or its type is unknown; a drum / QL / effects file is kept as a
    file entry (its chain resolves) that is neither a sample nor a program *)
Lemma kept_ghost g secs : In (LGhost g, secs) eas ->
  exists k, kept pc sat (dir_entry (LGhost g) secs) = Ok k /\ filter_map realize_file k = [].
Proof.
  intros Hfa. pose proof eas_ok as HF. rewrite Forall_forall in HF. pose proof (HF _ Hfa) as Hea.
  cbn [fst snd entry_alloc_ok] in Hea.
  destruct Hea as ((Hl & Hnb & Hflag & Hty & Hnot & Hsz & Hdb) & Hfit & Hknown).
  set (e := dir_entry (LGhost g) secs).
  assert (E1 : firstn 12 e = lg_raw_name g).
  { unfold e, dir_entry. cbn [entry_name_bytes]. apply firstn_here. now apply zlen_length. }
  assert (E16 : u8 e 16 = lg_type g).
  { unfold e, dir_entry. cbn [entry_name_bytes entry_type]. sh u8_shift 12 16. sh u8_shift 4 4. reflexivity. }
  assert (E17 : u24 e 17 = lg_size g).
  { unfold e, dir_entry. cbn [entry_name_bytes entry_type entry_size].
    sh u24_shift 12 17. sh u24_shift 4 5. sh u24_shift 1 1. apply u24_le24. }
  assert (E20 : u16 e 20 = hd 0 secs).
  { unfold e, dir_entry. cbn [entry_name_bytes entry_type entry_size].
    sh u16_shift 12 20. sh u16_shift 4 8. sh u16_shift 1 4. sh u16_shift 3 3. apply u16_le16. }
  unfold kept, parse_fentry. rewrite E1, E16, E17, E20.
  destruct (akai_name (lg_raw_name g)) as [nm| |]; try (exists []; split; reflexivity).
  destruct (is_file_type (lg_type g)) eqn:Eft; cbn [negb].
  2:{ exists []. split; reflexivity. }
  pose proof (Hknown (is_file_type_other _ Eft Hnot)) as Hne.
  pose proof (entry_segment (LGhost g, secs) Hfa Hne Hfit) as Hseg. cbn [fst snd entry_body] in Hseg.
  rewrite Hseg. cbn [bind].
  pose proof (entry_start _ Hfa Hne) as Hst. cbn [snd] in Hst.
  cbn [fe_start]. destruct (Z.gtb_spec (hd 0 secs) 0) as [_|Hc]; [|lia].
  eexists. split; [reflexivity|]. cbn [filter_map]. unfold realize_file. cbn [fe_type].
  destruct (not_sample_program _ Hnot) as [-> ->]. reflexivity.
Qed.

(** the entries one after the other: the children they yield are the samples, in order *)
Lemma kept_all_written : forall l, incl l eas ->
  exists es, kept_all pc sat (map (fun ea => dir_entry (fst ea) (snd ea)) l) = Ok es /\
             filter_map realize_file es = map child_of (samples_of (map fst l)).
Proof.
  induction l as [|[e secs] t IH]; intros Hi; [exists []; split; reflexivity|].
  destruct (IH ltac:(intros x Hx; apply Hi; now right)) as (es & Hes & Hch).
  assert (Hin : In (e, secs) eas) by (apply Hi; now left).
  cbn [map kept_all fst snd]. destruct e as [f|g].
  - rewrite (kept_sample f secs Hin). cbn [bind]. rewrite Hes. cbn [bind]. eexists. split; [reflexivity|].
    cbn [app filter_map samples_of map].
    assert (Hs : sample_ok f).
    { pose proof eas_ok as HF. rewrite Forall_forall in HF. apply (HF _ Hin). }
    rewrite (realize_file_written (f, secs) Hs). cbn [fst]. f_equal. exact Hch.
  - destruct (kept_ghost g secs Hin) as (k & Hk & Hkc). rewrite Hk. cbn [bind]. rewrite Hes. cbn [bind].
    eexists. split; [reflexivity|]. rewrite filter_map_app, Hkc. cbn [app samples_of]. exact Hch.
Qed.

Lemma zlen_dir_table : zlen (dir_table V AV) = 24 * (zlen (lv_entries V) + 1).
Proof.
  unfold dir_table. rewrite zlen_app, zlen_END_ENTRY. rewrite (zlen_concat_const _ 24).
  - unfold zlen at 1. rewrite len_eas. unfold zlen. lia.
  - intros ea Hea. pose proof eas_ok as HF. rewrite Forall_forall in HF. now apply zlen_dir_entry, HF.
Qed.

(** the directory run resolves to the table that was written *)
Lemma dir_segment : exists k, 24 * (zlen (lv_entries V) + 1) <= SECTOR * Z.of_nat (S k) /\
  get_segment pc sat (hd 0 (av_dir AV)) = Ok (pad_to (dir_table V AV) (SECTOR * Z.of_nat (S k))).
Proof.
  destruct vol_valid as (_ & _ & Hlen & (d & k & Ed & H4 & Hfit & Hb & Ha) & _).
  exists k. split; [assumption|].
  set (it := {| it_dir := true; it_secs := av_dir AV; it_data := dir_table V AV |}).
  assert (Hit : In it items) by (apply vol_items_in; now left).
  pose proof (dir_run_resolves items n (pa_nodup P AP Hok) (pa_secs_in P AP Hok) ltac:(apply (pa_size P AP Hok))
                it d k Hit eq_refl Ed H4 Hb Ha) as Hc.
  assert (Ehd : hd 0 (av_dir AV) = d) by (rewrite Ed; reflexivity). rewrite Ehd.
  rewrite (get_segment_of _ _ pc _ _ (decode_written P AP Hok) (sat_words_len items) Hc).
  unfold it at 1. cbn [it_secs]. f_equal.
  assert (Ez : zlen (av_dir AV) = Z.of_nat (S k)) by (rewrite Ed; apply zlen_zfrom).
  rewrite <- Ez. apply (item_content P AP Hok it Hit). unfold it. cbn [it_data it_secs]. rewrite Ez.
  rewrite zlen_dir_table. lia.
Qed.

(** (c) the directory parses to entries whose children are exactly the written samples *)
Lemma file_entries_written k :
  24 * (zlen (lv_entries V) + 1) <= SECTOR * Z.of_nat (S k) ->
  exists es, file_entries pc sat (pad_to (dir_table V AV) (SECTOR * Z.of_nat (S k))) = Ok es /\
             filter_map realize_file es = map child_of (lv_files V).
Proof.
  intros Hfit. unfold file_entries.
  set (ds := map (fun ea => dir_entry (fst ea) (snd ea)) eas).
  assert (Hds : Forall is_entry ds).
  { apply Forall_forall. intros e He. apply in_map_iff in He as (ea & <- & Hea).
    pose proof eas_ok as HF. rewrite Forall_forall in HF. now apply dir_entry_is_entry, HF. }
  pose proof zlen_dir_table as Et.
  rewrite zlen_pad_to by lia.
  assert (Lds : length ds = length (lv_entries V)) by (unfold ds; rewrite map_length; apply len_eas).
  replace (Z.to_nat (SECTOR * Z.of_nat (S k) / 24))
    with (length ds + (Z.to_nat (SECTOR * Z.of_nat (S k) / 24) - length ds))%nat
    by (rewrite Lds; unfold zlen, SECTOR in *; lia).
  unfold pad_to, dir_table. fold ds. rewrite <- !app_assoc.
  rewrite entries_loop_decompose by assumption.
  destruct (kept_all_written eas (incl_refl _)) as (es & Hes & Hch).
  unfold ds. rewrite Hes. cbn [bind].
  rewrite entries_loop_end by apply END_ENTRY_flag. cbn [bind]. rewrite app_nil_r.
  exists es. split; [reflexivity|]. rewrite Hch. unfold lv_files.
  rewrite map_fst_combine by apply vol_valid. reflexivity.
Qed.
End Volume.

(** * Plain sibling names keep their sanitised names, and stay unpaired *)
Lemma distinct_first_nodup : forall l seen, NoDup l -> (forall x, In x l -> ~ In x seen) ->
  distinct_first l seen = l.
Proof.
  induction l as [|x t IH]; intros seen Hnd Hd; [reflexivity|]. cbn [distinct_first].
  inversion Hnd as [|? ? Hx Ht]; subst.
  assert (E : in_names x seen = false) by (apply in_names_false, Hd; now left). rewrite E. f_equal.
  apply IH; [assumption|]. intros y Hy Hin. apply in_app_or in Hin as [Hin|[<-|[]]]; [|contradiction].
  apply (Hd y); [now right|assumption].
Qed.
Lemma count_occ_name_nodup n : forall l, NoDup l -> In n l -> count_occ_name n l = 1%nat.
Proof.
  induction l as [|x t IH]; intros Hnd Hin; [contradiction|]. inversion Hnd as [|? ? Hx Ht]; subst.
  rewrite count_occ_name_cons. destruct Hin as [->|Hin].
  - rewrite str_eqb_refl, count_occ_name_zero by assumption. reflexivity.
  - destruct (str_eqb n x) eqn:E.
    + apply str_eqb_eq in E. subst. contradiction.
    + now rewrite IH.
Qed.
Lemma assign_all_plain cands taken : NoDup cands -> forall groups, incl groups cands ->
  assign_all groups cands taken = Ok (map (fun g => (g, [g])) groups).
Proof.
  intros Hnd. induction groups as [|g t IH]; intros Hi; [reflexivity|]. cbn [assign_all map].
  rewrite count_occ_name_nodup by (assumption || (apply Hi; now left)). cbn [Nat.eqb].
  rewrite IH by (intros x Hx; apply Hi; now right). reflexivity.
Qed.
Lemma pop_assigned_plain g : forall pre post, (forall k vs, In (k, vs) pre -> k <> g) ->
  pop_assigned g (pre ++ (g, [g]) :: post) = Some (g, pre ++ (g, []) :: post).
Proof.
  induction pre as [|[k vs] pre IH]; intros post Hk; cbn [app pop_assigned].
  - now rewrite str_eqb_refl.
  - destruct (str_eqb k g) eqn:E.
    + apply str_eqb_eq in E. exfalso. eapply Hk; [now left|exact E].
    + rewrite IH by (intros k' vs' Hin; eapply Hk; right; exact Hin). reflexivity.
Qed.
Lemma distribute_plain : forall cands pre, NoDup cands -> (forall k vs, In (k, vs) pre -> ~ In k cands) ->
  distribute cands (pre ++ map (fun g => (g, [g])) cands) = cands.
Proof.
  induction cands as [|c t IH]; intros pre Hnd Hk; [reflexivity|]. inversion Hnd as [|? ? Hc Ht]; subst.
  cbn [distribute map]. rewrite pop_assigned_plain.
  - f_equal. change (pre ++ (c, []) :: map (fun g => (g, [g])) t) with (pre ++ [(c, [])] ++ map (fun g => (g, [g])) t).
    rewrite app_assoc. apply IH; [assumption|]. intros k vs Hin Hkt.
    apply in_app_or in Hin as [Hin|[E|[]]].
    + apply (Hk k vs Hin). now right.
    + injection E as <- _. contradiction.
  - intros k vs Hin ->. apply (Hk c vs Hin). now left.
Qed.
Lemma sanitize_names_plain f elems :
  NoDup (map (fun e => f (fst e) (snd e)) elems) ->
  sanitize_names f elems = Ok (map (fun e => f (fst e) (snd e)) elems).
Proof.
  intros Hnd. unfold sanitize_names. set (cands := map _ elems) in *.
  rewrite distinct_first_nodup by (assumption || (intros x _ [])).
  rewrite assign_all_plain by (assumption || apply incl_refl). cbn [bind].
  rewrite <- (app_nil_l (map _ cands)). rewrite distribute_plain; [reflexivity|assumption|intros k vs []].
Qed.

Lemma last_index_of_absent n : forall names k, ~ In n names -> last_index_of n names k None = None.
Proof.
  induction names as [|x t IH]; intros k H; [reflexivity|]. cbn [last_index_of].
  destruct (str_eqb x n) eqn:E.
  - apply str_eqb_eq in E. exfalso. apply H. now left.
  - apply IH. intros Hi. apply H. now right.
Qed.
Lemma combine_loop_plain names : (forall n m, In n names -> stereo_match n = Some m -> ~ In (stereo_partner m) names) ->
  forall todo marked, NoDup (map snd todo) -> (forall x, In x (map snd todo) -> In x names /\ ~ In x marked) ->
  combine_loop todo names marked = map (fun p => (snd p, [fst p])) todo.
Proof.
  intros Hpl. induction todo as [|[i name] rest IH]; intros marked Hnd Hin; [reflexivity|].
  cbn [map snd fst] in *. inversion Hnd as [|? ? Hx Ht]; subst. cbn [combine_loop].
  destruct (Hin name ltac:(now left)) as [Hnn Hnm].
  assert (E : in_names name marked = false) by now apply in_names_false. rewrite E.
  assert (Hrest : combine_loop rest names (marked ++ [name]) = map (fun p => (snd p, [fst p])) rest).
  { apply IH; [assumption|]. intros x Hx'. destruct (Hin x ltac:(now right)) as [A B]. split; [assumption|].
    intros Hi. apply in_app_or in Hi as [Hi|[<-|[]]]; contradiction. }
  destruct (stereo_match name) as [m|] eqn:Em.
  - pose proof (Hpl name m Hnn Em) as Hp. unfold stereo_partner in Hp.
    rewrite last_index_of_absent by exact Hp. now rewrite Hrest.
  - now rewrite Hrest.
Qed.
Lemma combine_seq_snd {A} : forall (l : list A) k, map snd (combine (seq k (length l)) l) = l.
Proof. induction l as [|x t IH]; intros k; [reflexivity|]. cbn [length seq combine map snd]. now rewrite IH. Qed.
Lemma combine_stereo_plain names : plain_names names ->
  combine_stereo names = map (fun p => (snd p, [fst p])) (combine (seq 0 (length names)) names).
Proof.
  intros [Hnd Hpl]. unfold combine_stereo. apply combine_loop_plain; [exact Hpl| |].
  - now rewrite combine_seq_snd.
  - intros x Hx. rewrite combine_seq_snd in Hx. split; [assumption|intros []].
Qed.

(** * Export of one volume's samples *)
Definition wav_of (prefix : list (list Z)) (sn : sample * list Z) : wavfile :=
  {| w_path := prefix ++ [snd sn]; w_rate := sm_rate (fst sn); w_channels := 1; w_pcm := sm_pcm (fst sn) |}.
Lemma export_outputs_mono prefix smps : forall rest k,
  (forall j, nth_error smps (k + j) = nth_error rest j) ->
  Forall (fun sn => zlen (sm_pcm (fst sn)) mod 2 = 0) rest ->
  export_outputs prefix smps (map (fun p => (snd p, [fst p])) (combine (seq k (length rest)) (map snd rest)))
  = Ok (map (wav_of prefix) rest).
Proof.
  induction rest as [|[s nm] rest IH]; intros k Hnth HF; [reflexivity|].
  inversion HF as [|? ? He HF']; subst. cbn [fst snd] in He.
  cbn [length seq map combine snd fst export_outputs filter_map].
  pose proof (Hnth O) as H0. rewrite Nat.add_0_r in H0. cbn [nth_error] in H0. rewrite H0. cbn [option_map fst].
  change (zlen [s]) with 1. cbn [map]. rewrite mono_export_even_lemma by assumption. cbn [bind].
  rewrite IH; [reflexivity| |assumption].
  intros j. specialize (Hnth (S j)). cbn [nth_error] in Hnth. rewrite <- Hnth. f_equal. lia.
Qed.

Definition sample_pair (f : lsample) : sample * list Z :=
  (sample_of (ls_name f) f, make_export_name (ls_name f) true).
Lemma samples_of_children_written : forall fs,
  samples_of_children (map child_of fs) (map (fun f => make_export_name (ls_name f) true) fs)
  = map sample_pair fs.
Proof.
  unfold samples_of_children. induction fs as [|f t IH]; [reflexivity|].
  cbn [map combine filter_map fst snd child_of]. now rewrite IH.
Qed.
Lemma window_even f : sample_ok f -> zlen (sample_window f) mod 2 = 0.
Proof.
  intros (_ & _ & _ & _ & _ & _ & _ & _ & Hse & Hec & Hpl & _). unfold sample_window.
  rewrite slice_zlen by lia. lia.
Qed.

Lemma export_volume_written pn vn V :
  Forall sample_ok (lv_files V) -> volume_plain V ->
  (names <- make_export_names (map (fun c => (child_name c, true)) (v_children (volume_of V))) ;;
   let smps := samples_of_children (v_children (volume_of V)) names in
   export_outputs [pn; vn] smps (combine_stereo (map snd smps)))
  = Ok (map (expected_file pn vn) (lv_files V)).
Proof.
  intros Hok Hpl. cbn [volume_of v_children]. unfold make_export_names.
  assert (Em : map (fun e : list Z * bool => make_export_name (fst e) (snd e))
                 (map (fun c => (child_name c, true)) (map child_of (lv_files V)))
               = map (fun f => make_export_name (ls_name f) true) (lv_files V)).
  { rewrite !map_map. reflexivity. }
  rewrite sanitize_names_plain by (rewrite Em; apply Hpl). rewrite Em. cbn [bind]. cbv zeta.
  rewrite samples_of_children_written.
  assert (En : map snd (map sample_pair (lv_files V)) = map (fun f => make_export_name (ls_name f) true) (lv_files V)).
  { rewrite map_map. reflexivity. }
  rewrite combine_stereo_plain by (rewrite En; exact Hpl).
  replace (length (map snd (map sample_pair (lv_files V)))) with (length (map sample_pair (lv_files V)))
    by (now rewrite !map_length).
  rewrite (export_outputs_mono [pn; vn] (map sample_pair (lv_files V)) (map sample_pair (lv_files V)) 0).
  - f_equal. rewrite map_map. apply map_ext. intros f. reflexivity.
  - intros j. reflexivity.
  - apply Forall_forall. intros sn Hsn. apply in_map_iff in Hsn as (f & <- & Hf).
    rewrite Forall_forall in Hok. cbn [sample_pair fst sample_of sm_pcm]. apply window_even. now apply Hok.
Qed.

(** * The volumes of one partition *)
Lemma Forall_combine_fst {A B} (Q : A -> Prop) : forall (a : list A) (b : list B),
  length b = length a -> Forall (fun ab => Q (fst ab)) (combine a b) -> Forall Q a.
Proof.
  intros a b Hl H. rewrite <- (map_fst_combine a b Hl). apply Forall_forall. intros x Hx.
  apply in_map_iff in Hx as (ab & <- & Hab). rewrite Forall_forall in H. now apply H.
Qed.

Section PartitionExport.
Context (P : lpartition) (AP : apartition) (Hok : part_alloc_ok P AP).
Notation items := (part_items P AP).
Notation pc := (partition_bytes P AP).
Notation sat := (sat_of items).
Notation vas := (combine (lp_vols P) AP).

Lemma realize_volumes_sub : forall l, incl l vas ->
  realize_volumes pc sat (map (fun va => ve_of (fst va) (snd va)) l) = Ok (map (fun va => volume_of (fst va)) l).
Proof.
  induction l as [|[V AV] t IH]; intros Hi; [reflexivity|].
  assert (Hva : In (V, AV) vas) by (apply Hi; now left).
  cbn [map realize_volumes fst snd ve_of ve_type ve_start ve_name].
  destruct (vol_valid P AP Hok V AV Hva) as (_ & Hty & _).
  destruct (Z.eqb_spec (lv_type V) 0) as [Hc|_]; [lia|].
  destruct (dir_segment P AP Hok V AV Hva) as (k & Hfit & ->). cbn [bind].
  destruct (file_entries_written P AP Hok V AV Hva k Hfit) as (es & -> & Hch). cbn [bind].
  rewrite IH by (intros x Hx; apply Hi; now right). cbn [bind].
  rewrite Hch. reflexivity.
Qed.
Lemma realize_volumes_written o :
  realize_volumes pc (p_sat (part_of P AP o)) (p_vols (part_of P AP o)) = Ok (map volume_of (lp_vols P)).
Proof.
  cbn [part_of p_sat p_vols]. rewrite realize_volumes_slots.
  rewrite slots_collect.
  - rewrite realize_volumes_sub by apply incl_refl.
    rewrite <- (map_map fst volume_of). rewrite map_fst_combine by apply Hok. reflexivity.
  - exact (pa_slots_len P AP Hok).
  - apply (pa_slots P AP Hok).
  - eapply Forall_impl; [|apply (pa_slots P AP Hok)]. intros s Hs. cbn beta in *. lia.
Qed.
Lemma part_content_written pre post o : o = zlen pre ->
  part_content (pre ++ pc ++ post) (part_of P AP o) = pc.
Proof.
  intros ->. unfold part_content. cbn [part_of p_off p_sectors].
  rewrite (slice_skip (zlen pre) pre _ _ _ 0 (lp_sectors P * SECTOR)) by lia.
  apply slice_here. now apply zlen_partition_bytes.
Qed.
Lemma files_ok V : In V (lp_vols P) -> Forall sample_ok (lv_files V).
Proof.
  intros HV. rewrite <- (map_fst_combine (lp_vols P) AP) in HV by apply Hok.
  apply in_map_iff in HV as ([V' AV] & E & Hva). cbn [fst] in E. subst V'.
  destruct (vol_valid P AP Hok V AV Hva) as (_ & _ & Hl & _ & HF).
  exact (samples_of_entries_ok _ _ HF Hl).
Qed.
End PartitionExport.

Lemma export_volumes_written pn : forall vols,
  Forall (fun V => Forall sample_ok (lv_files V)) vols -> Forall volume_plain vols ->
  export_volumes pn (map volume_of vols) (map (fun V => make_export_name (lv_name V) false) vols)
  = Ok (concat (map (expected_volume pn) vols)).
Proof.
  induction vols as [|V t IH]; intros Hok Hpl; [reflexivity|].
  inversion Hok as [|? ? Ho Hok']; subst. inversion Hpl as [|? ? Hp Hpl']; subst.
  cbn [map export_volumes concat].
  pose proof (export_volume_written pn (make_export_name (lv_name V) false) V Ho Hp) as H. cbv zeta in H.
  destruct (make_export_names _) as [names| |]; cbn [bind] in H |- *; try discriminate.
  rewrite H. cbn [bind]. rewrite IH by assumption. reflexivity.
Qed.

(** * The whole image *)
Definition pbytes (pa : lpartition * apartition) : list Z := partition_bytes (fst pa) (snd pa).
Fixpoint parts_of (o : Z) (pas : list (lpartition * apartition)) : list partition :=
  match pas with
  | [] => []
  | pa :: t => part_of (fst pa) (snd pa) o :: parts_of (o + lp_sectors (fst pa) * SECTOR) t
  end.
Definition pa_ok (pa : lpartition * apartition) : Prop := part_alloc_ok (fst pa) (snd pa).

Lemma parts_of_length : forall pas o, length (parts_of o pas) = length pas.
Proof. induction pas as [|pa t IH]; intros o; cbn [parts_of length]; [reflexivity|]. now rewrite IH. Qed.

Lemma scan_written : forall pas pre fuel, Forall pa_ok pas -> (length pas <= fuel)%nat ->
  scan_partitions fuel (pre ++ concat (map pbytes pas)) (zlen pre) = parts_of (zlen pre) pas.
Proof.
  induction pas as [|[P AP] t IH]; intros pre fuel Hok Hf.
  - cbn [map concat parts_of]. rewrite app_nil_r. destruct fuel as [|f]; [reflexivity|]. cbn [scan_partitions].
    destruct (Z.ltb_spec (zlen pre) (zlen pre)); [lia|reflexivity].
  - inversion Hok as [|? ? Hp Hok']; subst. unfold pa_ok in Hp. cbn [fst snd] in Hp.
    destruct fuel as [|f]; [cbn [length] in Hf; lia|]. cbn [length] in Hf.
    cbn [map concat parts_of scan_partitions fst snd]. unfold pbytes at 1. cbn [fst snd].
    pose proof (zlen_partition_bytes P AP Hp) as Hlen. pose proof (pa_size P AP Hp) as Hn.
    destruct (Z.ltb_spec (zlen pre) (zlen (pre ++ partition_bytes P AP ++ concat (map pbytes t)))) as [_|Hc].
    2:{ exfalso. rewrite !zlen_app, Hlen in Hc. pose proof (zlen_nonneg (concat (map pbytes t))). unfold SECTOR in *. lia. }
    rewrite (parse_partition_written P AP Hp). cbn [part_of p_sectors]. f_equal.
    specialize (IH (pre ++ partition_bytes P AP) f Hok' ltac:(lia)).
    rewrite zlen_app, Hlen, <- app_assoc in IH. exact IH.
Qed.
Lemma zlen_image : forall pas, Forall pa_ok pas -> Z.of_nat (length pas) * SECTOR <= zlen (concat (map pbytes pas)).
Proof.
  induction pas as [|[P AP] t IH]; intros Hok; [unfold zlen; cbn; lia|].
  inversion Hok as [|? ? Hp Hok']; subst. unfold pa_ok in Hp. cbn [fst snd] in Hp.
  cbn [map concat length]. rewrite zlen_app. unfold pbytes at 1. cbn [fst snd].
  rewrite (zlen_partition_bytes P AP Hp). pose proof (pa_size P AP Hp). specialize (IH Hok'). unfold SECTOR in *. lia.
Qed.
Lemma partitions_written pas : Forall pa_ok pas ->
  partitions (concat (map pbytes pas)) = parts_of 0 pas.
Proof.
  intros Hok. unfold partitions.
  apply (scan_written pas [] _ Hok). pose proof (zlen_image pas Hok). unfold SECTOR in *. lia.
Qed.

Lemma export_partitions_written : forall pas pre pnames,
  Forall pa_ok pas -> Forall partition_plain (map fst pas) -> length pnames = length pas ->
  export_partitions (pre ++ concat (map pbytes pas)) (parts_of (zlen pre) pas) pnames
  = Ok (expected pnames (map fst pas)).
Proof.
  induction pas as [|[P AP] t IH]; intros pre pnames Hok Hpl Hlen.
  - destruct pnames; reflexivity.
  - destruct pnames as [|pn pnames]; [discriminate|]. cbn [length] in Hlen.
    inversion Hok as [|? ? Hp Hok']; subst. unfold pa_ok in Hp. cbn [fst snd] in Hp.
    cbn [map fst] in Hpl. inversion Hpl as [|? ? [Hvn Hvp] Hpl']; subst.
    cbn [map concat parts_of export_partitions fst snd]. change (pbytes (P, AP)) with (partition_bytes P AP).
    rewrite (part_content_written P AP Hp pre _ (zlen pre) eq_refl).
    rewrite (realize_volumes_written P AP Hp). cbn [bind].
    unfold make_export_names at 1.
    assert (Em : map (fun e : list Z * bool => make_export_name (fst e) (snd e))
                   (map (fun v => (v_name v, false)) (map volume_of (lp_vols P)))
                 = map (fun V => make_export_name (lv_name V) false) (lp_vols P)).
    { rewrite !map_map. reflexivity. }
    rewrite sanitize_names_plain by (rewrite Em; exact Hvn). rewrite Em. cbn [bind].
    rewrite export_volumes_written; [|apply Forall_forall; intros V HV; exact (files_ok P AP Hp V HV)|exact Hvp].
    cbn [bind].
    specialize (IH (pre ++ partition_bytes P AP) pnames Hok' Hpl' ltac:(lia)).
    rewrite zlen_app, (zlen_partition_bytes P AP Hp), <- app_assoc in IH. rewrite IH. cbn [bind].
    reflexivity.
Qed.

(** * The composed theorem *)
Lemma akai_export_correct_lemma L A pn :
  image_alloc_ok L A -> image_plain L -> partition_export_names (length L) = Ok pn ->
  akai_export (akai_serialise L A) = Ok (expected pn L).
Proof.
  intros [Hlen Hok] Hpl Hpn. unfold akai_export, akai_serialise.
  change (fun pa : lpartition * apartition => partition_bytes (fst pa) (snd pa)) with pbytes.
  rewrite (partitions_written (combine L A) Hok). rewrite parts_of_length.
  assert (Hcl : length (combine L A) = length L) by (rewrite combine_length; lia).
  rewrite Hcl. unfold partition_export_names in Hpn. rewrite Hpn. cbn [bind].
  pose proof (sanitize_names_distinct_lemma _ _ _ Hpn) as [_ Hpl']. rewrite map_length, seq_length in Hpl'.
  pose proof (export_partitions_written (combine L A) [] pn Hok) as H.
  rewrite (map_fst_combine L A Hlen) in H. cbn [app] in H. apply H; [exact Hpl|lia].
Qed.

(** up to 26 partitions the partition names are the letters A..Z *)
Lemma partition_letters_lemma n : (n <= 26)%nat -> partition_export_names n = Ok (partition_letters n).
Proof.
  intros H. do 27 (destruct n as [|n]; [vm_compute; reflexivity|]). lia.
Qed.

(** * The example of AkaiSpec.v satisfies the hypotheses *)
Lemma ex_loops_ok : length ex_loops = 8%nat /\ Forall loop_ok ex_loops.
Proof.
  split; [reflexivity|]. apply Forall_forall. intros x Hx. apply repeat_spec in Hx. subst. unfold loop_ok. lia.
Qed.
Lemma ex_name_ok n : zlen n <= 12 -> forallb akai_valid_char n = true -> last n 0 <> 32 -> name_ok n.
Proof. intros A B C. split; [assumption|]. split; [|assumption]. apply Forall_forall. now apply forallb_forall. Qed.
Lemma ex_kick_ok : sample_ok ex_kick.
Proof.
  unfold sample_ok. cbn [ex_kick ls_name ls_sname ls_type ls_id ls_note ls_loop_type ls_cents ls_semi
    ls_start ls_end ls_count ls_pcm ls_loops ls_rate].
  split; [apply ex_name_ok; [vm_compute; congruence|reflexivity|cbn; lia]|].
  split; [apply ex_name_ok; [vm_compute; congruence|reflexivity|cbn; lia]|].
  split; [now right|]. split; [now right|]. unfold is_byte, SAMPLE_HDR.
  split; [lia|]. split; [lia|]. split; [lia|]. split; [lia|]. split; [lia|]. split; [lia|].
  split; [reflexivity|]. split; [repeat constructor; lia|]. split; [lia|].
  split; [apply ex_loops_ok|]. split; [apply ex_loops_ok|lia].
Qed.
Lemma ex_snare_ok : sample_ok ex_snare.
Proof.
  unfold sample_ok. cbn [ex_snare ls_name ls_sname ls_type ls_id ls_note ls_loop_type ls_cents ls_semi
    ls_start ls_end ls_count ls_pcm ls_loops ls_rate].
  split; [apply ex_name_ok; [vm_compute; congruence|reflexivity|cbn; lia]|].
  split; [apply ex_name_ok; [vm_compute; congruence|reflexivity|cbn; lia]|].
  split; [now left|]. split; [now left|]. unfold is_byte, SAMPLE_HDR.
  split; [lia|]. split; [lia|]. split; [lia|]. split; [lia|]. split; [lia|]. split; [lia|].
  split; [vm_compute; reflexivity|]. split.
  { apply Forall_forall. intros x Hx. apply in_map_iff in Hx as (i & <- & _). lia. }
  split; [lia|]. split; [apply ex_loops_ok|]. split; [apply ex_loops_ok|lia].
Qed.
Lemma ex_kick_alloc s : file_alloc_ok ex_kick [s].
Proof. split; [exact ex_kick_ok|]. split; [discriminate|]. rewrite (zlen_file_body _ ex_kick_ok). vm_compute. congruence. Qed.
Lemma ex_snare_alloc s1 s2 : file_alloc_ok ex_snare [s1; s2].
Proof. split; [exact ex_snare_ok|]. split; [discriminate|]. rewrite (zlen_file_body _ ex_snare_ok). vm_compute. congruence. Qed.
Lemma ex_alloc_ok : image_alloc_ok ex_logical ex_alloc.
Proof.
  split; [reflexivity|]. constructor; [|constructor]. cbn [fst snd].
  set (P := {| lp_sectors := 9; lp_vols := _ |}). set (AP := [_]).
  assert (Ea : all_secs (part_items P AP) = [4; 6; 8; 7]) by reflexivity.
  assert (Ed : dir_secs (part_items P AP) = [4]) by reflexivity.
  unfold part_alloc_ok. rewrite Ea. cbn [lp_sectors lp_vols lp_slots P]. unfold SAT_ENTRIES.
  split; [lia|]. split; [reflexivity|]. split; [reflexivity|]. split.
  { split; [cbn; lia|repeat constructor; lia]. }
  split.
  { repeat constructor; cbn [In]; lia. }
  split; [repeat constructor; lia|].
  constructor; [|constructor]. cbn [fst snd]. unfold vol_alloc_ok. rewrite Ed.
  cbn [lv_name lv_type lv_entries av_dir av_files].
  split; [apply ex_name_ok; [vm_compute; congruence|reflexivity|cbn; lia]|].
  split; [now right|]. split; [reflexivity|]. split.
  { exists 4, O. split; [reflexivity|]. split; [lia|]. split; [vm_compute; congruence|]. cbn [In]. lia. }
  constructor; [|constructor; [|constructor]]; cbn [fst snd entry_alloc_ok].
  - apply ex_kick_alloc.
  - apply ex_snare_alloc.
Qed.
Lemma ex_plain : image_plain ex_logical.
Proof.
  constructor; [|constructor]. split; [cbn; repeat constructor; intros []|].
  constructor; [|constructor]. unfold volume_plain, lv_files. cbn [lv_entries samples_of map ex_kick ex_snare ls_name].
  assert (E1 : make_export_name [75; 73; 67; 75] true = [75; 73; 67; 75]) by reflexivity.
  assert (E2 : make_export_name [83; 78; 65; 82; 69; 46; 49] true = [83; 78; 65; 82; 69; 46; 49]) by reflexivity.
  rewrite E1, E2. split.
  - constructor; [intros [H|[]]; discriminate|]. constructor; [intros []|constructor].
  - intros n m [<-|[<-|[]]] H; vm_compute in H; discriminate.
Qed.
Lemma ex_export :
  akai_export (akai_serialise ex_logical ex_alloc) = Ok (expected [[65]] ex_logical).
Proof. apply akai_export_correct_lemma; [exact ex_alloc_ok|exact ex_plain|reflexivity]. Qed.
Print Assumptions akai_export_correct_lemma.

(** * The first version (packed slots, sample files only) as a corollary *)
Lemma combine_map_l {A B C} (f : A -> B) : forall (a : list A) (c : list C),
  combine (map f a) c = map (fun p => (f (fst p), snd p)) (combine a c).
Proof. induction a as [|x t IH]; intros [|y u]; cbn [map combine fst snd]; try reflexivity. now rewrite IH. Qed.
Lemma samples_of_map : forall fs, samples_of (map LSample fs) = fs.
Proof. induction fs as [|f t IH]; [reflexivity|]. cbn [map samples_of]. now rewrite IH. Qed.
Lemma zfrom_app : forall n m a, zfrom a (n + m) = zfrom a n ++ zfrom (a + Z.of_nat n) m.
Proof.
  induction n as [|n IH]; intros m a.
  - cbn [plus zfrom app]. f_equal. lia.
  - cbn [plus zfrom app]. rewrite IH. do 3 f_equal. lia.
Qed.
Lemma slot_lookup_absent {A} i : forall slots (vas : list A), ~ In i slots -> slot_lookup i slots vas = None.
Proof.
  induction slots as [|s st IH]; intros [|v vt] H; cbn [slot_lookup]; try reflexivity.
  destruct (Z.eqb_spec s i) as [->|_]; [exfalso; apply H; now left|]. apply IH. intros Hi. apply H. now right.
Qed.
Lemma packed_slots_concat {A B} (f : A -> list B) (E : list B) : forall (vas : list A) a,
  concat (map (fun i => match slot_lookup i (zfrom a (length vas)) vas with Some va => f va | None => E end)
              (zfrom a (length vas)))
  = concat (map f vas).
Proof.
  induction vas as [|v vt IH]; intros a; [reflexivity|].
  cbn [length zfrom map concat slot_lookup]. rewrite Z.eqb_refl. f_equal.
  rewrite <- (IH (a + 1)). f_equal. apply map_ext_in. intros i Hi. apply zfrom_In in Hi.
  destruct (Z.eqb_spec a i); [lia|reflexivity].
Qed.
(** the slots of a packed table are well-formed exactly when there are at most 100 volumes *)
Lemma increasing_zfrom : forall n a, increasing_from a (zfrom a n).
Proof. induction n as [|n IH]; intros a; cbn [zfrom increasing_from]; [exact I|]. split; [lia|apply IH]. Qed.
Lemma slots_ok_packed n : (n <= 100)%nat -> slots_ok (zfrom 0 n).
Proof.
  intros H. split; [apply increasing_zfrom|]. apply Forall_forall. intros s Hs. apply zfrom_In in Hs. lia.
Qed.
Lemma vol_table_packed P AP :
  lp_slots P = zfrom 0 (length (lp_vols P)) -> length AP = length (lp_vols P) -> (length (lp_vols P) <= 100)%nat ->
  vol_table P AP = vol_table_v1 P AP.
Proof.
  intros Hs Hl H100. unfold vol_table, vol_table_v1, vol_slot_bytes. rewrite Hs.
  set (vas := combine (lp_vols P) AP).
  assert (Hv : length (lp_vols P) = length vas) by (unfold vas; rewrite combine_length; lia).
  rewrite Hv.
  replace 100%nat with (length vas + (100 - length vas))%nat at 1 by lia.
  rewrite zfrom_app, map_app, concat_app. f_equal.
  - apply (packed_slots_concat (fun va => vol_entry_bytes (fst va) (snd va)) EMPTY_VOL_ENTRY vas 0).
  - assert (G : forall m c, Z.of_nat (length vas) <= c -> concat (map (fun i => match slot_lookup i (zfrom 0 (length vas)) vas with
                                                   | Some va => vol_entry_bytes (fst va) (snd va) | None => EMPTY_VOL_ENTRY end) (zfrom c m))
                          = concat (repeat EMPTY_VOL_ENTRY m)).
    { induction m as [|m IH]; intros c Hc; [reflexivity|]. cbn [zfrom map concat repeat].
      rewrite slot_lookup_absent; [|rewrite zfrom_In; lia]. f_equal. apply IH. lia. }
    apply G. lia.
Qed.
Lemma dir_table_ghost_free V AV : volume_ghost_free V -> dir_table V AV = dir_table_v1 V AV.
Proof.
  intros H. unfold volume_ghost_free in H. unfold dir_table, dir_table_v1. rewrite H at 1. rewrite combine_map_l, map_map. reflexivity.
Qed.

Lemma vol_alloc_v1 items V AV : volume_ghost_free V -> vol_alloc_ok_v1 items V AV -> vol_alloc_ok items V AV.
Proof.
  intros Hg (Hn & Ht & Hl & Hd & HF).
  unfold volume_ghost_free in Hg.
  assert (Ez : length (lv_entries V) = length (lv_files V)) by (rewrite Hg at 1; apply map_length).
  split; [assumption|]. split; [assumption|]. split; [lia|]. split.
  - destruct Hd as (d & k & H1 & H2 & H3 & H4 & H5). exists d, k. repeat split; try assumption.
    unfold zlen in *. lia.
  - rewrite Hg, combine_map_l. apply Forall_forall. intros ea Hea. apply in_map_iff in Hea as (fa & <- & Hfa).
    cbn [fst snd entry_alloc_ok]. rewrite Forall_forall in HF. now apply HF.
Qed.
Lemma part_alloc_v1 P AP : partition_v1 P -> part_alloc_ok_v1 P AP -> part_alloc_ok P AP.
Proof.
  intros [Hs Hg] (H1 & H2 & H3 & H4 & H5 & H6).
  split; [assumption|]. split; [assumption|]. split; [rewrite Hs; apply zfrom_length|].
  split; [rewrite Hs; now apply slots_ok_packed|]. split; [assumption|]. split; [assumption|].
  apply Forall_forall. intros [V AV] Hva. cbn [fst snd]. rewrite Forall_forall in H6, Hg.
  apply vol_alloc_v1; [|exact (H6 _ Hva)]. apply Hg. apply in_combine_l in Hva. exact Hva.
Qed.
Lemma image_alloc_v1 L A : image_v1 L -> image_alloc_ok_v1 L A -> image_alloc_ok L A.
Proof.
  intros Hv [Hl HF]. split; [assumption|]. apply Forall_forall. intros [P AP] Hpa. cbn [fst snd].
  unfold image_v1 in Hv. rewrite Forall_forall in HF, Hv. apply part_alloc_v1; [|exact (HF _ Hpa)]. apply Hv. apply in_combine_l in Hpa. exact Hpa.
Qed.
(** the first version's theorem, from the general one *)
Lemma akai_export_correct_v1_lemma L A pn :
  image_v1 L -> image_alloc_ok_v1 L A -> image_plain L -> partition_export_names (length L) = Ok pn ->
  akai_export (akai_serialise L A) = Ok (expected pn L).
Proof. intros Hv Hok. apply akai_export_correct_lemma. now apply image_alloc_v1. Qed.
(** ...and on such images the serialiser writes the first version's layout *)
Lemma v1_layout_lemma P AP : partition_v1 P -> part_alloc_ok_v1 P AP ->
  vol_table P AP = vol_table_v1 P AP /\
  forall V AV, In (V, AV) (combine (lp_vols P) AP) -> dir_table V AV = dir_table_v1 V AV.
Proof.
  intros [Hs Hg] (_ & Hl & H100 & _). split; [now apply vol_table_packed|].
  intros V AV Hva. apply dir_table_ghost_free. rewrite Forall_forall in Hg. apply Hg.
  apply in_combine_l in Hva. exact Hva.
Qed.
(** the first example is of that kind *)
Lemma ex_v1 : image_v1 ex_logical.
Proof. constructor; [|constructor]. split; [reflexivity|]. constructor; [reflexivity|constructor]. Qed.

(** a ghost whose name field is valid AKAI text (the usual case) meets the conditions on the name bytes *)
Lemma ghost_named_ok_lemma n ty size data :
  name_ok n -> is_byte ty -> ~ In ty [115; 243; 112; 240] -> 0 <= size < 16777216 -> Forall is_byte data ->
  ghost_ok (ghost_named n ty size data).
Proof.
  intros Hn Hty Hnot Hsz Hd. pose proof Hn as (Hl & _). pose proof (pad_name_range _ Hn) as HF.
  pose proof (zlen_pad_name n Hl) as Hz.
  unfold ghost_ok, ghost_named. cbn [lg_raw_name lg_type lg_size lg_data].
  split; [assumption|]. split.
  { revert HF. apply Forall_impl. intros b Hb. unfold is_byte. lia. }
  split; [|split; [assumption|]; split; [assumption|]; split; assumption].
  pose proof (Forall_znth _ 0 _ 8 HF ltac:(rewrite Hz; lia)) as H8.
  pose proof (Forall_znth _ 0 _ 9 HF ltac:(rewrite Hz; lia)) as H9.
  cbn beta in H8, H9. unfold TABLE_END_FLAG. lia.
Qed.

(** * The second example (holes and ghosts) satisfies the hypotheses *)
Lemma bytes_ok l : forallb (fun x => (0 <=? x) && (x <? 256)) l = true -> Forall is_byte l.
Proof.
  intros H. apply Forall_forall. intros x Hx. rewrite forallb_forall in H. specialize (H x Hx). unfold is_byte. lia.
Qed.
Lemma ex_ghost_ok g :
  zlen (lg_raw_name g) = 12 ->
  forallb (fun x => (0 <=? x) && (x <? 256)) (lg_raw_name g ++ [lg_type g] ++ lg_data g) = true ->
  negb (znth 0 (lg_raw_name g) 8 + 256 * znth 0 (lg_raw_name g) 9 =? TABLE_END_FLAG) = true ->
  negb (mem (lg_type g) [115; 243; 112; 240]) = true -> 0 <= lg_size g < 16777216 -> ghost_ok g.
Proof.
  intros H1 H2 H3 H4 H5. apply bytes_ok in H2. apply Forall_app in H2 as [Ha H2]. apply Forall_app in H2 as [Hb Hc].
  split; [assumption|]. split; [assumption|]. split; [lia|]. split; [now inversion Hb|].
  split; [|split; assumption]. unfold mem, existsb in H4. cbn [In]. lia.
Qed.
Lemma ex2_alloc_ok : image_alloc_ok ex2_logical ex2_alloc.
Proof.
  split; [reflexivity|]. constructor; [|constructor]. cbn [fst snd].
  set (P := {| lp_sectors := 40; lp_vols := _ |}). set (AP := [_; _; _]).
  assert (Ea : all_secs (part_items P AP) = [5; 9; 11; 14; 13; 20; 21; 30; 25; 38]) by reflexivity.
  assert (Ed : dir_secs (part_items P AP) = [5; 20; 21; 38]) by reflexivity.
  unfold part_alloc_ok. rewrite Ea. cbn [lp_sectors lp_vols lp_slots P]. unfold SAT_ENTRIES.
  split; [lia|]. split; [reflexivity|]. split; [reflexivity|]. split.
  { split; [cbn; lia|repeat constructor; lia]. }
  split.
  { repeat constructor; cbn [In]; lia. }
  split; [repeat constructor; lia|].
  constructor; [|constructor; [|constructor; [|constructor]]]; cbn [fst snd]; unfold vol_alloc_ok; rewrite Ed;
    cbn [lv_name lv_type lv_entries av_dir av_files].
  - split; [apply ex_name_ok; [vm_compute; congruence|reflexivity|cbn; lia]|].
    split; [now right|]. split; [reflexivity|]. split.
    { exists 5, O. split; [reflexivity|]. split; [lia|]. split; [vm_compute; congruence|]. cbn [In]. lia. }
    constructor; [|constructor; [|constructor; [|constructor]]]; cbn [fst snd entry_alloc_ok].
    + apply ex_kick_alloc.
    + split; [apply ex_ghost_ok; try reflexivity; cbn; lia|]. split; [vm_compute; congruence|]. intros _. discriminate.
    + apply ex_snare_alloc.
  - split; [apply ex_name_ok; [vm_compute; congruence|reflexivity|cbn; lia]|].
    split; [now left|]. split; [reflexivity|]. split.
    { exists 20, 1%nat. split; [reflexivity|]. split; [lia|]. split; [vm_compute; congruence|]. cbn [In]. lia. }
    constructor; [|constructor; [|constructor]]; cbn [fst snd entry_alloc_ok].
    + split; [apply ex_ghost_ok; try reflexivity; cbn; lia|]. split; [vm_compute; congruence|]. intros _. discriminate.
    + apply ex_kick_alloc.
  - split; [apply ex_name_ok; [vm_compute; congruence|reflexivity|cbn; lia]|].
    split; [now right|]. split; [reflexivity|]. split.
    { exists 38, O. split; [reflexivity|]. split; [lia|]. split; [vm_compute; congruence|]. cbn [In]. lia. }
    constructor; [|constructor]; cbn [fst snd entry_alloc_ok].
    split; [apply ex_ghost_ok; try reflexivity; cbn; lia|]. split; [vm_compute; congruence|].
    cbn [ex_unknown ghost_named lg_type In]. lia.
Qed.
Lemma ex2_plain : image_plain ex2_logical.
Proof.
  assert (E1 : make_export_name [75; 73; 67; 75] true = [75; 73; 67; 75]) by reflexivity.
  assert (E2 : make_export_name [83; 78; 65; 82; 69; 46; 49] true = [83; 78; 65; 82; 69; 46; 49]) by reflexivity.
  constructor; [|constructor]. split.
  { cbn [lp_vols map lv_name]. vm_compute. repeat constructor; cbn [In]; intros H; repeat destruct H as [H|H]; try discriminate; assumption. }
  cbn [lp_vols]. constructor; [|constructor; [|constructor; [|constructor]]]; unfold volume_plain, lv_files;
    cbn [lv_entries samples_of map ex_kick ex_snare ls_name]; rewrite ?E1, ?E2.
  - split.
    + constructor; [intros [H|[]]; discriminate|]. constructor; [intros []|constructor].
    + intros n m [<-|[<-|[]]] H; vm_compute in H; discriminate.
  - split.
    + constructor; [intros []|constructor].
    + intros n m [<-|[]] H; vm_compute in H; discriminate.
  - split; [constructor|]. intros n m [].
Qed.
Lemma ex2_export :
  akai_export (akai_serialise ex2_logical ex2_alloc) = Ok (expected [[65]] ex2_logical).
Proof. apply akai_export_correct_lemma; [exact ex2_alloc_ok|exact ex2_plain|reflexivity]. Qed.
Lemma ex2_not_v1 : ~ image_v1 ex2_logical.
Proof. intros H. apply Forall_inv in H. destruct H as [H _]. discriminate H. Qed.

(** the composed theorem with the partition letters spelled out *)
Lemma akai_export_correct_letters_lemma L A :
  image_alloc_ok L A -> image_plain L -> (length L <= 26)%nat ->
  akai_export (akai_serialise L A) = Ok (expected (partition_letters (length L)) L).
Proof.
  intros Hok Hpl Hn. apply akai_export_correct_lemma; [assumption|assumption|]. now apply partition_letters_lemma.
Qed.
