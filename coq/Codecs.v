(** Model of smpl_extract/akai/akai_string.py (byte converters), smpl_extract/midi.py
    (MidiNote) and the two tuning functions of smpl_extract/akai/data_types.py. *)
From SE Require Import Base.
From Coq Require Import Floats.PrimFloat Floats.SpecFloat Floats.FloatOps.

(** * AKAI <-> ASCII character codes (CHAR_MAP_* constants) *)
Inductive fmt := ASCII | AKAI.
Definition map_zero (f : fmt) := match f with ASCII => 48 | AKAI => 0 end.
Definition map_nine (f : fmt) := match f with ASCII => 57 | AKAI => 9 end.
Definition map_space (f : fmt) := match f with ASCII => 32 | AKAI => 10 end.
Definition map_A (f : fmt) := match f with ASCII => 65 | AKAI => 11 end.
Definition map_Z (f : fmt) := match f with ASCII => 90 | AKAI => 36 end.
Definition map_pound (f : fmt) := match f with ASCII => 35 | AKAI => 37 end.
Definition map_plus (f : fmt) := match f with ASCII => 43 | AKAI => 38 end.
Definition map_minus (f : fmt) := match f with ASCII => 45 | AKAI => 39 end.
Definition map_period (f : fmt) := match f with ASCII => 46 | AKAI => 40 end.

(** [_char_format_convert_byte] *)
Definition convert_byte (b : Z) (src dst : fmt) : res Z :=
  if (map_zero src <=? b) && (b <=? map_nine src) then Ok (map_zero dst + b - map_zero src)
  else if (map_A src <=? b) && (b <=? map_Z src) then Ok (map_A dst + b - map_A src)
  else if b =? map_space src then Ok (map_space dst)
  else if b =? map_pound src then Ok (map_pound dst)
  else if b =? map_plus src then Ok (map_plus dst)
  else if b =? map_minus src then Ok (map_minus dst)
  else if b =? map_period src then Ok (map_period dst)
  else Err InvalidCharacter.

(** [_fast_akai_to_ascii_byte] (same function written a second time in the source) *)
Definition fast_akai_to_ascii_byte (b : Z) : res Z :=
  if (map_zero AKAI <=? b) && (b <=? map_nine AKAI) then Ok (b + map_zero ASCII - map_zero AKAI)
  else if (map_A AKAI <=? b) && (b <=? map_Z AKAI) then Ok (b + map_A ASCII - map_A AKAI)
  else if b =? map_space AKAI then Ok (map_space ASCII)
  else if b =? map_pound AKAI then Ok (map_pound ASCII)
  else if b =? map_plus AKAI then Ok (map_plus ASCII)
  else if b =? map_minus AKAI then Ok (map_minus ASCII)
  else if b =? map_period AKAI then Ok (map_period ASCII)
  else Err InvalidCharacter.

Fixpoint map_res {A B} (f : A -> res B) (l : list A) : res (list B) :=
  match l with
  | [] => Ok []
  | x :: t => y <- f x ;; ys <- map_res f t ;; Ok (y :: ys)
  end.

(** [char_akai_to_ascii], [char_ascii_to_akai] on already upper-cased input bytes *)
Definition akai_to_ascii (l : list Z) : res (list Z) := map_res fast_akai_to_ascii_byte l.
Definition ascii_to_akai (l : list Z) : res (list Z) := map_res (fun b => convert_byte b ASCII AKAI) l.

(** * MIDI notes *)
(** scale degree A..G = 0..6 *)
Record note := { degree : Z; sharp : bool; octave : Z }.

Definition scale_table (raw : Z) : Z * bool :=
  if raw =? 0 then (0, false) else if raw =? 1 then (0, true)
  else if raw =? 2 then (1, false) else if raw =? 3 then (2, false)
  else if raw =? 4 then (2, true) else if raw =? 5 then (3, false)
  else if raw =? 6 then (3, true) else if raw =? 7 then (4, false)
  else if raw =? 8 then (5, false) else if raw =? 9 then (5, true)
  else if raw =? 10 then (6, false) else (6, true).

Definition from_int_a0 (z : Z) : note :=
  let oct := z / 12 in
  let '(d, s) := scale_table (z mod 12) in
  {| degree := d; sharp := s; octave := oct |}.

Definition inv_table (d : Z) (s : bool) : Z :=
  if d =? 0 then (if s then 1 else 0)
  else if d =? 1 then (if s then 3 else 2)
  else if d =? 2 then (if s then 4 else 3)
  else if d =? 3 then (if s then 6 else 5)
  else if d =? 4 then (if s then 8 else 7)
  else if d =? 5 then (if s then 9 else 8)
  else (if s then 11 else 10).

Definition to_int_a0 (n : note) : Z := inv_table (degree n) (sharp n) + 12 * octave n.

Definition A0 : Z := 21.
Definition from_akai_byte (b : Z) := from_int_a0 (b - A0).
Definition from_midi_byte (b : Z) := from_int_a0 (b - A0).
Definition to_akai_byte (n : note) := to_int_a0 n + A0.
Definition to_midi_byte (n : note) := to_int_a0 n + A0.

(** [MidiNote.to_string] *)
Definition note_to_string (n : note) : list Z :=
  [degree n + 65] ++ (if sharp n then [35] else []) ++ str_Z (octave n).

(** str.upper / str.strip on 7-bit codes *)
Definition upper_c (c : Z) : Z := if (97 <=? c) && (c <=? 122) then c - 32 else c.
Definition is_space_c (c : Z) : bool :=
  ((9 <=? c) && (c <=? 13)) || ((28 <=? c) && (c <=? 32)).
Fixpoint lstrip (l : list Z) : list Z :=
  match l with
  | c :: t => if is_space_c c then lstrip t else l
  | [] => []
  end.
Definition strip (l : list Z) : list Z := rev (lstrip (rev (lstrip l))).

(** [MidiNote.from_string]: upper().strip(), then MIDI_NOTE_STR_REGEX.match
    ([A-Ga-g])(#?)(\d) anchored at the start, remaining text ignored. *)
Definition is_digit_c (c : Z) : bool := (48 <=? c) && (c <=? 57).
Definition is_note_letter (c : Z) : bool :=
  ((65 <=? c) && (c <=? 71)) || ((97 <=? c) && (c <=? 103)).
Definition note_from_string (s : list Z) : res note :=
  match strip (map upper_c s) with
  | c :: rest =>
      if is_note_letter c then
        let d := upper_c c - 65 in
        match rest with
        | 35 :: o :: _ =>
            if is_digit_c o then Ok {| degree := d; sharp := true; octave := o - 48 |}
            else Err ReError
        | o :: _ =>
            if is_digit_c o then Ok {| degree := d; sharp := false; octave := o - 48 |}
            else Err ReError
        | [] => Err ReError
        end
      else Err ReError
  | [] => Err ReError
  end.

(** * Tuning bytes <-> cents (IEEE binary64, as CPython floats) *)
Local Open Scope float_scope.
(** Python's round(float) -> int : round half to even on the exact value. *)
Definition round_half_even_sf (x : spec_float) : Z :=
  match x with
  | S754_finite s m e =>
      let mz := Z.pos m in
      let mag :=
        if (0 <=? e)%Z then (mz * 2 ^ e)%Z
        else
          let d := (2 ^ (- e))%Z in
          let q := (mz / d)%Z in
          let r := (mz mod d)%Z in
          if (2 * r <? d)%Z then q
          else if (d <? 2 * r)%Z then (q + 1)%Z
          else if Z.even q then q else (q + 1)%Z in
      if s then (- mag)%Z else mag
  | _ => 0%Z
  end.
Definition py_round (x : float) : Z := round_half_even_sf (Prim2SF x).

Definition float_of_Z (z : Z) : float :=
  match z with
  | Z0 => 0
  | Zpos p => of_uint63 (Uint63.of_Z z)
  | Zneg p => - of_uint63 (Uint63.of_Z (- z))
  end.

(** The value returned by [parse_akai_tune_cents]: Python returns the int 0 for x = 0
    and a float otherwise. *)
Inductive pynum := PInt (z : Z) | PFloat (f : float).

Definition parse_tune_cents (x : Z) : pynum :=
  if (x =? 0)%Z then PInt 0
  else PFloat ((float_of_Z 100 / float_of_Z 255) * float_of_Z (x - (-128)) + float_of_Z (-50)).

Definition pynum_is_zero (v : pynum) : bool :=
  match v with PInt z => (z =? 0)%Z | PFloat f => f =? 0 end.
Definition pynum_float (v : pynum) : float :=
  match v with PInt z => float_of_Z z | PFloat f => f end.

Definition build_tune_cents (v : pynum) : Z :=
  if pynum_is_zero v then 0%Z
  else
    let m := float_of_Z 255 / float_of_Z 100 in
    (py_round (m * (pynum_float v - float_of_Z (-50))) + (-128))%Z.
