(** The raw-word FAT shortcuts of the whole-image Roland model (RolandImage.v) against the
    decoder model (Fat.v: [roland_decode] = FatAreaAdapter._decode, [get_path], [roland_get_file]):

    for the table of the real format (65536 words, none negative)
    - [raw_fat_check] accepts exactly the tables the decoder accepts, with the same version;
    - for an accepted table, following the raw words from a cluster ([raw_get_path],
      [raw_get_file]) gives what resolving the cluster through the decoded 65536-entry link
      table gives - for EVERY start cluster (linked, free, reserved, outside the scanned
      range, beyond the table) and every cluster_top.

    Built on RolandChainProofs.v (every raw chain of an accepted table is installed). *)
From SE Require Import Base Fat FatProofs AkaiChainProofs Roland RolandProofs RolandChainProofs RolandImage.

Lemma add_links_from_other : forall rest prev tbl t,
  add_links_from prev rest tbl = Ok t -> 0 <= prev -> Forall (fun x => 0 <= x) rest ->
  forall y, 0 <= y -> ~ In y (prev :: rest) -> znth dlink t y = znth dlink tbl y.
Proof.
  induction rest as [|l rest IH]; intros prev tbl t H Hp Hr y Hy Hn; cbn [add_links_from] in H.
  - destruct (prev <? zlen tbl); [|discriminate]. injection H as <-.
    apply znth_upd_other; [assumption|assumption|]. intros ->. apply Hn. now left.
  - destruct (prev <? zlen tbl); [|discriminate].
    inversion Hr as [|? ? Hl Hr']; subst.
    rewrite (IH _ _ _ H Hl Hr' y Hy).
    + apply znth_upd_other; [assumption|assumption|]. intros ->. apply Hn. now left.
    + intros Hi. apply Hn. now right.
Qed.
Lemma add_links_other links tbl t :
  add_links links tbl = Ok t -> Forall (fun x => 0 <= x) links ->
  forall y, 0 <= y -> ~ In y links -> znth dlink t y = znth dlink tbl y.
Proof.
  destruct links as [|p rest]; cbn [add_links]; intros H HF y Hy Hn.
  - now injection H as <-.
  - inversion HF; subst. eapply add_links_from_other; eassumption.
Qed.
Lemma add_links_from_ok : forall rest prev tbl,
  prev < zlen tbl -> Forall (fun x => x < zlen tbl) rest -> exists t, add_links_from prev rest tbl = Ok t.
Proof.
  induction rest as [|l rest IH]; intros prev tbl Hp Hr; cbn [add_links_from].
  - destruct (Z.ltb_spec prev (zlen tbl)); [eauto|lia].
  - destruct (Z.ltb_spec prev (zlen tbl)); [|lia].
    inversion Hr; subst. apply IH; rewrite zlen_upd; assumption.
Qed.
Lemma add_links_ok links tbl :
  Forall (fun x => x < zlen tbl) links -> exists t, add_links links tbl = Ok t.
Proof.
  destruct links as [|p rest]; cbn [add_links]; intros HF; [eauto|].
  inversion HF; subst. now apply add_links_from_ok.
Qed.

Section FatTheory.
Context (fat : list Z).
Notation N := (zlen fat).
Notation word x := (znth 0 fat x).
Hypothesis HN : N = FAT_ENTRIES.
Hypothesis Hnn : Forall (fun v => 0 <= v) fat.

Lemma word_nonneg x : 0 <= word x.
Proof. now apply znth_nonneg. Qed.

(** a cluster the decoder can link: inside the scanned range, its word neither free nor reserved *)
Definition walk_node (x : Z) : Prop := 2 <= x < N - 9 /\ word x <> FAT_FREE /\ word x <> FAT_RESERVED.

(** the word of a walked cluster, when it is a link, names a cluster of the scanned range *)
Lemma next_in_range x :
  word x <> FAT_ERROR -> word x <> FAT_FREE -> word x <> FAT_RESERVED -> word x < FAT_END ->
  2 <= word x < N - 9.
Proof.
  pose proof (word_nonneg x). rewrite HN.
  unfold FAT_ERROR, FAT_FREE, FAT_RESERVED, FAT_END, FAT_ENTRIES. lia.
Qed.

(** * The raw walk *)
Lemma raw_walk_spec : forall fuel x first, 2 <= x < N - 9 ->
  match raw_walk fuel fat N x first with
  | WFree => first = true /\ (word x = FAT_RESERVED \/ word x = FAT_FREE)
  | WChain c => RChain fat c /\ exists t, c = x :: t
  | WOut => False
  | WBad => True
  end.
Proof.
  induction fuel as [|f IH]; intros x first Hx; cbn [raw_walk].
  - destruct (Z.geb_spec x N); [lia|exact I].
  - destruct (Z.geb_spec x N); [lia|].
    destruct (Z.eqb_spec (word x) FAT_ERROR) as [|Herr]; [exact I|].
    destruct (Z.eqb_spec (word x) FAT_RESERVED) as [Hres|Hres]; cbn [orb].
    { destruct first; [auto|exact I]. }
    destruct (Z.eqb_spec (word x) FAT_FREE) as [Hfree|Hfree].
    { destruct first; [auto|exact I]. }
    destruct (Z.geb_spec (word x) FAT_END) as [Hend|Hend].
    + split; [|now exists []]. constructor; try assumption.
      rewrite HN in Hx. unfold FAT_END, FAT_ENTRIES in *. lia.
    + pose proof (next_in_range x Herr Hfree Hres Hend) as Hv.
      specialize (IH (word x) false Hv).
      destruct (raw_walk f fat N (word x) false) as [|c| |]; try exact I.
      * destruct IH as (Hc & t & ->). split; [|eauto].
        constructor; try assumption; [|reflexivity].
        rewrite HN in Hx. unfold FAT_END, FAT_ENTRIES in *. lia.
      * exact IH.
Qed.

Lemma raw_walk_complete : forall c, RChain fat c ->
  forall fuel first, (length c <= fuel)%nat -> raw_walk fuel fat N (hd 0 c) first = WChain c.
Proof.
  induction 1 as [x Hx Hf He|x y r Hx Hf Hw Hc IH]; intros fuel first Hfu; cbn [hd].
  - destruct fuel as [|f]; [cbn in Hfu; lia|]. cbn [raw_walk].
    destruct (Z.geb_spec x N); [lia|].
    destruct (Z.eqb_spec (word x) FAT_ERROR); [unfold FAT_ERROR, FAT_END in *; lia|].
    destruct (Z.eqb_spec (word x) FAT_RESERVED); [unfold FAT_RESERVED, FAT_END in *; lia|].
    destruct (Z.eqb_spec (word x) FAT_FREE); [unfold FAT_FREE, FAT_END in *; lia|]. cbn [orb].
    destruct (Z.geb_spec (word x) FAT_END); [reflexivity|lia].
  - destruct fuel as [|f]; [cbn in Hfu; lia|]. cbn [raw_walk].
    pose proof (rchain_range fat _ Hc y ltac:(now left)) as [Hy Hy'].
    rewrite HN in Hy. unfold FAT_ENTRIES in Hy.
    destruct (Z.geb_spec x N); [lia|]. rewrite Hw.
    destruct (Z.eqb_spec y FAT_ERROR); [unfold FAT_ERROR in *; lia|].
    destruct (Z.eqb_spec y FAT_RESERVED); [unfold FAT_RESERVED in *; lia|].
    destruct (Z.eqb_spec y FAT_FREE); [unfold FAT_FREE in *; lia|]. cbn [orb].
    destruct (Z.geb_spec y FAT_END); [lia|].
    cbn [hd] in IH. rewrite IH; [reflexivity|]. cbn [length] in *. lia.
Qed.

(** what the decoder does from a start of the scanned range when it does not reject *)
Definition Good (x : Z) : Prop :=
  (word x = FAT_FREE \/ word x = FAT_RESERVED) \/ exists c, RChain fat (x :: c).

Lemma good_walk_node x : 2 <= x < N - 9 -> Good x -> word x <> FAT_FREE -> word x <> FAT_RESERVED ->
  exists c, RChain fat (x :: c).
Proof. intros _ [[?|?]|H] ? ?; [contradiction|contradiction|exact H]. Qed.

Lemma rchain_tail x y r : RChain fat (x :: y :: r) -> RChain fat (y :: r).
Proof. inversion 1; assumption. Qed.
Lemma rchain_member_good c : RChain fat c -> forall y, In y c -> Good y.
Proof.
  intros Hc y Hy. destruct (rchain_suffix fat c Hc y Hy) as (pre & suf & _ & Hs). right. eauto.
Qed.

(** * The decoder's inner walk *)
Notation dirty st x := (znth false (r_dirty st) x).

Lemma rwalk_links_len : forall fuel st sl sub st',
  roland_walk fuel fat N st sl sub = Ok st' -> zlen (r_links st') = zlen (r_links st).
Proof.
  induction fuel as [|fuel IH]; intros st sl sub st' H; [discriminate|]. cbn [roland_walk] in H.
  destruct (sub >=? N); [now injection H as <-|].
  destruct (word sub =? FAT_ERROR); [discriminate|].
  destruct ((word sub =? FAT_RESERVED) || (word sub =? FAT_FREE)).
  { destruct sl; [|discriminate]. now injection H as <-. }
  destruct (zlen (sl ++ [sub]) >? N); [discriminate|].
  destruct (word sub >=? FAT_END).
  - destruct (add_links _ _) as [t| |] eqn:EA; cbn [bind] in H; try discriminate.
    injection H as <-. cbn [r_links]. apply add_links_length in EA. cbn [r_links] in EA. unfold zlen. lia.
  - apply IH in H. exact H.
Qed.

Lemma rwalk_post : forall fuel st sl sub st',
  roland_walk fuel fat N st sl sub = Ok st' -> 2 <= sub < N - 9 -> Forall walk_node sl ->
  zlen (r_dirty st) = N ->
  zlen (r_dirty st') = N /\
  (forall y, dirty st y = true -> dirty st' y = true) /\ dirty st' sub = true /\
  exists c, ((sl = [] /\ (word sub = FAT_RESERVED \/ word sub = FAT_FREE) /\ c = []) \/ RChain fat (sub :: c)) /\
            (forall y, 0 <= y -> dirty st' y = true -> dirty st y = true \/ In y (sub :: c)) /\
            (forall y, 0 <= y -> znth dlink (r_links st') y = znth dlink (r_links st) y \/ walk_node y).
Proof.
  induction fuel as [|fuel IH]; intros st sl sub st' H Hsub Hsl Hd; [discriminate|].
  cbn [roland_walk] in H.
  destruct (Z.geb_spec sub N); [lia|].
  set (st1 := {| r_links := r_links st; r_dirty := upd (r_dirty st) sub true |}) in *.
  assert (Hd1 : zlen (r_dirty st1) = N) by (cbn [st1 r_dirty]; now rewrite zlen_upd).
  assert (Hmono1 : forall y, dirty st y = true -> dirty st1 y = true)
    by (intros y Hy; cbn [st1 r_dirty]; now apply upd_true_mono).
  assert (Hsub1 : dirty st1 sub = true) by (cbn [st1 r_dirty]; apply znth_upd_same; lia).
  assert (Hinv1 : forall y, 0 <= y -> dirty st1 y = true -> dirty st y = true \/ y = sub).
  { intros y Hy Hdy. cbn [st1 r_dirty] in Hdy. apply upd_true_inv in Hdy as [E|?]; [right; lia|now left]. }
  destruct (Z.eqb_spec (word sub) FAT_ERROR) as [|Herr]; [discriminate|].
  destruct (Z.eqb_spec (word sub) FAT_RESERVED) as [Hres|Hres]; cbn [orb] in H.
  { destruct sl; [|discriminate]. injection H as <-.
    split; [assumption|]. split; [assumption|]. split; [assumption|].
    exists []. split; [left; auto|]. split.
    - intros y Hy Hdy. destruct (Hinv1 y Hy Hdy) as [?| ->]; [now left|right; now left].
    - intros y Hy. now left. }
  destruct (Z.eqb_spec (word sub) FAT_FREE) as [Hfree|Hfree].
  { destruct sl; [|discriminate]. injection H as <-.
    split; [assumption|]. split; [assumption|]. split; [assumption|].
    exists []. split; [left; auto|]. split.
    - intros y Hy Hdy. destruct (Hinv1 y Hy Hdy) as [?| ->]; [now left|right; now left].
    - intros y Hy. now left. }
  assert (Hnode : walk_node sub) by (repeat split; try lia; assumption).
  destruct (zlen (sl ++ [sub]) >? N); [discriminate|].
  destruct (Z.geb_spec (word sub) FAT_END) as [Hend|Hend].
  - destruct (add_links (sl ++ [sub]) (r_links st1)) as [t| |] eqn:EA; cbn [bind] in H; try discriminate.
    injection H as <-. cbn [r_links r_dirty].
    split; [assumption|]. split; [assumption|]. split; [assumption|].
    exists []. split.
    { right. constructor; try lia. rewrite HN in Hsub. unfold FAT_END, FAT_ENTRIES in *. lia. }
    split.
    + intros y Hy Hdy. destruct (Hinv1 y Hy Hdy) as [?| ->]; [now left|right; now left].
    + intros y Hy. destruct (in_dec Z.eq_dec y (sl ++ [sub])) as [Hi|Hni].
      * right. apply in_app_or in Hi as [Hi|[<-|[]]]; [|assumption].
        rewrite Forall_forall in Hsl. now apply Hsl.
      * left. rewrite (add_links_other _ _ _ EA); [reflexivity| |assumption|assumption].
        apply Forall_app. split; [|constructor; [lia|constructor]].
        eapply Forall_impl; [|exact Hsl]. intros a [Ha _]. lia.
  - pose proof (next_in_range sub Herr Hfree Hres Hend) as Hv.
    apply IH in H; [|assumption| |assumption].
    2:{ apply Forall_app. split; [assumption|constructor; [assumption|constructor]]. }
    destruct H as (P1 & P2 & P3 & c & P4 & P5 & P6).
    split; [assumption|]. split; [auto|]. split; [auto|].
    exists (word sub :: c). split.
    + right. destruct P4 as [(E & _)|P4]; [destruct sl; discriminate|].
      constructor; [lia| |reflexivity|assumption].
      rewrite HN in Hsub. unfold FAT_END, FAT_ENTRIES in *. lia.
    + split.
      * intros y Hy Hdy. destruct (P5 y Hy Hdy) as [Hy1|Hin].
        -- destruct (Hinv1 y Hy Hy1) as [?| ->]; [now left|right; now left].
        -- right. now right.
      * intros y Hy. destruct (P6 y Hy) as [E|?]; [left; exact E|now right].
Qed.

(** the walk from a good start is accepted *)
Lemma rwalk_free_ok fuel st sub :
  sub < N -> (word sub = FAT_FREE \/ word sub = FAT_RESERVED) ->
  exists st', roland_walk (S fuel) fat N st [] sub = Ok st'.
Proof.
  intros Hs Hw. cbn [roland_walk]. destruct (Z.geb_spec sub N); [lia|].
  destruct (Z.eqb_spec (word sub) FAT_ERROR) as [E|_].
  { rewrite E in Hw. unfold FAT_ERROR, FAT_FREE, FAT_RESERVED in Hw. lia. }
  destruct Hw as [-> | ->]; cbn; eauto.
Qed.
Lemma rwalk_complete : forall c sub sl st fuel,
  RChain fat (sub :: c) -> Forall (fun x => x < N) sl -> zlen sl + zlen (sub :: c) <= N ->
  (length (sub :: c) <= fuel)%nat -> zlen (r_links st) = N ->
  exists st', roland_walk fuel fat N st sl sub = Ok st'.
Proof.
  induction c as [|y r IH]; intros sub sl st fuel Hc Hsl Hlen Hfu Hl.
  - destruct fuel as [|fuel]; [cbn in Hfu; lia|]. cbn [roland_walk].
    inversion Hc as [? Hx Hf He|]; subst.
    destruct (Z.geb_spec sub N); [lia|].
    destruct (Z.eqb_spec (word sub) FAT_ERROR); [unfold FAT_ERROR, FAT_END in *; lia|].
    destruct (Z.eqb_spec (word sub) FAT_RESERVED); [unfold FAT_RESERVED, FAT_END in *; lia|].
    destruct (Z.eqb_spec (word sub) FAT_FREE); [unfold FAT_FREE, FAT_END in *; lia|]. cbn [orb].
    change (zlen [sub]) with 1 in Hlen.
    destruct (Z.gtb_spec (zlen (sl ++ [sub])) N) as [Hg|_].
    { rewrite zlen_app in Hg. change (zlen [sub]) with 1 in Hg. lia. }
    destruct (Z.geb_spec (word sub) FAT_END); [|lia]. cbn [r_links].
    destruct (add_links_ok (sl ++ [sub]) (r_links st)) as [t Ht].
    { rewrite Hl. apply Forall_app. split; [assumption|constructor; [lia|constructor]]. }
    rewrite Ht. cbn [bind]. eauto.
  - destruct fuel as [|fuel]; [cbn in Hfu; lia|]. cbn [roland_walk].
    inversion Hc as [|? ? ? Hx Hf Hw Hc']; subst.
    pose proof (rchain_range fat _ Hc' (word sub) ltac:(now left)) as [Hy Hy'].
    rewrite HN in Hy. unfold FAT_ENTRIES in Hy.
    destruct (Z.geb_spec sub N); [lia|].
    destruct (Z.eqb_spec (word sub) FAT_ERROR); [unfold FAT_ERROR in *; lia|].
    destruct (Z.eqb_spec (word sub) FAT_RESERVED); [unfold FAT_RESERVED in *; lia|].
    destruct (Z.eqb_spec (word sub) FAT_FREE); [unfold FAT_FREE in *; lia|]. cbn [orb].
    rewrite !zlen_cons in Hlen. pose proof (zlen_nonneg r).
    destruct (Z.gtb_spec (zlen (sl ++ [sub])) N) as [Hg|_].
    { rewrite zlen_app in Hg. change (zlen [sub]) with 1 in Hg. lia. }
    destruct (Z.geb_spec (word sub) FAT_END); [lia|].
    apply IH; try assumption.
    + apply Forall_app. split; [assumption|constructor; [lia|constructor]].
    + rewrite zlen_app. change (zlen [sub]) with 1. rewrite !zlen_cons. lia.
    + cbn [length] in *. lia.
Qed.

(** * The decoder's outer loop *)
Definition OInv (st : rol_st) : Prop :=
  zlen (r_dirty st) = N /\ zlen (r_links st) = N /\
  (forall y, 2 <= y -> dirty st y = true -> Good y) /\
  (forall y, 0 <= y -> znth dlink (r_links st) y = dlink \/ walk_node y).

Lemma router_post : forall n i st st',
  roland_outer n fat N i st = Ok st' -> 2 <= i -> i + Z.of_nat n <= N - 9 -> OInv st ->
  (forall y, 2 <= y < i -> dirty st y = true) ->
  OInv st' /\ (forall y, 2 <= y < i + Z.of_nat n -> dirty st' y = true).
Proof.
  induction n as [|n IH]; intros i st st' H Hi Hn Hinv Hlow; cbn [roland_outer] in H.
  - injection H as <-. split; [assumption|]. intros y Hy. apply Hlow. lia.
  - replace (i + Z.of_nat (S n)) with ((i + 1) + Z.of_nat n) in * by lia.
    destruct (dirty st i) eqn:Ed.
    + apply IH in H; try assumption; try lia.
      intros y Hy. destruct (Z.eq_dec y i) as [->|]; [assumption|apply Hlow; lia].
    + destruct (roland_walk (roland_walk_fuel N) fat N st [] i) as [st1| |] eqn:EW; cbn [bind] in H;
        try discriminate.
      destruct Hinv as (Hd & Hl & Hg & Hk).
      pose proof (rwalk_links_len _ _ _ _ _ EW) as Hl1.
      apply rwalk_post in EW; [|lia|constructor|assumption].
      destruct EW as (P1 & P2 & P3 & c & P4 & P5 & P6).
      apply IH in H; try assumption; try lia.
      * split; [assumption|]. split; [lia|]. split.
        -- intros y Hy Hdy. destruct (P5 y ltac:(lia) Hdy) as [Hy1|Hin]; [now apply Hg|].
           destruct P4 as [(_ & Hw & ->)|P4].
           ++ destruct Hin as [<-|[]]. left. tauto.
           ++ eapply rchain_member_good; eassumption.
        -- intros y Hy. destruct (P6 y Hy) as [E|?]; [rewrite E; now apply Hk|now right].
      * intros y Hy. destruct (Z.eq_dec y i) as [->|]; [assumption|apply P2, Hlow; lia].
Qed.

(** the outer loop over good starts is accepted *)
Lemma router_complete : forall n i st,
  (forall y, i <= y < i + Z.of_nat n -> 2 <= y < N - 9 /\ Good y) -> zlen (r_links st) = N ->
  exists st', roland_outer n fat N i st = Ok st'.
Proof.
  induction n as [|n IH]; intros i st Hg Hl; cbn [roland_outer]; [eauto|].
  destruct (dirty st i).
  - apply IH; [|assumption]. intros y Hy. apply Hg. lia.
  - destruct (Hg i ltac:(lia)) as [Hi [Hfree|[c Hc]]].
    + destruct (rwalk_free_ok (Z.to_nat (N + 1)) st i ltac:(lia) Hfree) as [st1 E].
      unfold roland_walk_fuel. replace (Z.to_nat (N + 2)) with (S (Z.to_nat (N + 1))) by lia.
      rewrite E. cbn [bind]. apply IH; [intros y Hy; apply Hg; lia|].
      rewrite (rwalk_links_len _ _ _ _ _ E). assumption.
    + pose proof (rchain_length fat _ Hc) as Hlen.
      destruct (rwalk_complete c i [] st (roland_walk_fuel N) Hc ltac:(constructor)) as [st1 E];
        [change (zlen (@nil Z)) with 0; lia| |assumption|].
      { unfold roland_walk_fuel. unfold zlen in *. lia. }
      rewrite E. cbn [bind]. apply IH; [intros y Hy; apply Hg; lia|].
      rewrite (rwalk_links_len _ _ _ _ _ E). assumption.
Qed.

(** * The whole decoder *)
Lemma decode_good ver links :
  roland_decode fat = Ok (ver, links) ->
  zlen links = N /\ (forall y, 2 <= y < N - 9 -> Good y) /\
  (forall y, 0 <= y -> znth dlink links y = dlink \/ walk_node y) /\
  znth 0 fat 0 = FAT_AREA_ID /\ roland_version (znth 0 fat (N - 2)) (znth 0 fat (N - 1)) = Ok ver.
Proof.
  intros H. unfold roland_decode in H.
  destruct (Z.eqb_spec (znth 0 fat 0) FAT_AREA_ID) as [Hid|]; cbn [negb] in H; [|discriminate].
  destruct (roland_version _ _) as [v| |] eqn:EV; cbn [bind] in H; try discriminate.
  destruct (roland_outer _ _ _ _ _) as [st| |] eqn:EO; cbn [bind] in H; try discriminate.
  injection H as <- <-.
  apply router_post in EO; [|lia|rewrite HN; unfold FAT_ENTRIES; lia| |].
  - destruct EO as ((Hd & Hl & Hg & Hk) & Hall). split; [assumption|]. split.
    + intros y Hy. apply Hg; [lia|]. apply Hall. rewrite HN in *. unfold FAT_ENTRIES in *. lia.
    + split; [assumption|]. split; [assumption|reflexivity].
  - split; [cbn [r_dirty]; rewrite !zlen_upd; apply repeat_zlen|].
    split; [cbn [r_links]; apply repeat_zlen|]. split.
    + intros y Hy Hdy. exfalso. cbn [r_dirty] in Hdy.
      apply upd_true_inv in Hdy as [?|Hdy]; [lia|].
      apply upd_true_inv in Hdy as [?|Hdy]; [lia|].
      rewrite znth_repeat_same in Hdy. discriminate.
    + intros y Hy. left. cbn [r_links]. apply znth_repeat_same.
  - intros y Hy. lia.
Qed.

Lemma decode_complete ver :
  znth 0 fat 0 = FAT_AREA_ID -> roland_version (znth 0 fat (N - 2)) (znth 0 fat (N - 1)) = Ok ver ->
  (forall y, 2 <= y < N - 9 -> Good y) -> exists links, roland_decode fat = Ok (ver, links).
Proof.
  intros Hid Hv Hg. unfold roland_decode. rewrite Hid, Z.eqb_refl. cbn [negb]. rewrite Hv. cbn [bind].
  match goal with |- context [roland_outer ?n fat N 2 ?st] =>
    destruct (router_complete n 2 st) as [st' E] end.
  - intros y Hy. split; [lia|apply Hg; lia].
  - cbn [r_links]. apply repeat_zlen.
  - rewrite E. cbn [bind]. eauto.
Qed.

(** * The raw check *)
Lemma start_ok_good i : 2 <= i < N - 9 -> (start_ok fat N i = true <-> Good i \/ False).
Proof.
  intros Hi. unfold start_ok. pose proof (raw_walk_spec (raw_walk_fuel N) i true Hi) as Hs. split.
  - intros H. left. destruct (raw_walk _ _ _ _ _) as [|c| |]; try discriminate.
    + left. tauto.
    + destruct Hs as (Hc & t & ->). right. eauto.
    + contradiction.
  - intros [[Hfree|[c Hc]]|[]].
    + destruct (raw_walk _ _ _ _ _) as [|c| |] eqn:E; try reflexivity. exfalso.
      (* a free start is never WBad: one step *)
      unfold raw_walk_fuel in E. rewrite HN in E. unfold FAT_ENTRIES in E.
      replace (Z.to_nat 65536) with (S (Z.to_nat 65535)) in E by lia. cbn [raw_walk] in E.
      destruct (Z.geb_spec i 65536); [discriminate|].
      destruct (Z.eqb_spec (word i) FAT_ERROR) as [E1|_].
      { rewrite E1 in Hfree. unfold FAT_ERROR, FAT_FREE, FAT_RESERVED in Hfree. lia. }
      destruct Hfree as [Hf|Hf]; rewrite Hf in E; cbn in E; discriminate.
    + pose proof (rchain_length fat _ Hc) as Hlen.
      change i with (hd 0 (i :: c)). rewrite raw_walk_complete; [reflexivity|assumption|].
      unfold raw_walk_fuel, zlen in *. lia.
Qed.

Lemma skipn_cons_nth {A} (d : A) : forall n (l : list A) v t,
  skipn n l = v :: t -> nth n l d = v /\ skipn (S n) l = t.
Proof.
  induction n as [|n IH]; intros [|x l] v t H; cbn in *; try discriminate.
  - injection H as -> ->. auto.
  - apply IH in H. exact H.
Qed.
Lemma skipn_nil_len {A} : forall n (l : list A), skipn n l = [] -> (length l <= n)%nat.
Proof. induction n as [|n IH]; intros [|x l] H; cbn in *; try discriminate; try lia. apply IH in H. lia. Qed.

Lemma starts_ok_spec : forall n i, 0 <= i ->
  (starts_ok n (skipn (Z.to_nat i) fat) fat N i = true <->
   forall y, i <= y < i + Z.of_nat n -> y < N ->
     word y = FAT_RESERVED \/ word y = FAT_FREE \/ start_ok fat N y = true).
Proof.
  induction n as [|n IH]; intros i Hi; cbn [starts_ok].
  - split; [intros _ y Hy; lia|reflexivity].
  - destruct (skipn (Z.to_nat i) fat) as [|v t] eqn:E.
    + split; [|reflexivity]. intros _ y Hy HyN. apply skipn_nil_len in E. unfold zlen in HyN. lia.
    + apply (skipn_cons_nth 0) in E as [Ev Et]. fold (znth 0 fat i) in Ev.
      replace (S (Z.to_nat i)) with (Z.to_nat (i + 1)) in Et by lia. rewrite <- Et.
      rewrite Bool.andb_true_iff, (IH (i + 1)) by lia. rewrite <- Ev. split.
      * intros [H1 H2] y Hy HyN. destruct (Z.eq_dec y i) as [->|].
        -- destruct (Z.eqb_spec (word i) FAT_RESERVED); [now left|].
           destruct (Z.eqb_spec (word i) FAT_FREE); [right; now left|]. cbn [orb] in H1. right. now right.
        -- apply H2; lia.
      * intros H. split.
        -- destruct (Z.eqb_spec (word i) FAT_RESERVED) as [|Hnr]; [reflexivity|].
           destruct (Z.eqb_spec (word i) FAT_FREE) as [|Hnf]; [reflexivity|]. cbn [orb].
           assert (HiN : i < N).
           { destruct (Z_lt_ge_dec i N); [assumption|]. exfalso. apply Hnf.
             unfold znth. rewrite nth_overflow; [reflexivity|]. unfold zlen in *. lia. }
           destruct (H i ltac:(lia) HiN) as [?|[?|?]]; [contradiction|contradiction|assumption].
        -- intros y Hy HyN. apply H; lia.
Qed.

Lemma good_start_ok y : 2 <= y < N - 9 -> Good y ->
  word y = FAT_RESERVED \/ word y = FAT_FREE \/ start_ok fat N y = true.
Proof.
  intros Hy Hg. right. right. apply start_ok_good; [assumption|now left].
Qed.

Lemma raw_fat_check_accepts_sec ver links :
  roland_decode fat = Ok (ver, links) -> raw_fat_check fat = Ok ver.
Proof.
  intros H. apply decode_good in H as (_ & Hg & _ & Hid & Hv).
  unfold raw_fat_check. rewrite Hid, Z.eqb_refl. cbn [negb]. rewrite Hv. cbn [bind].
  change 2%nat with (Z.to_nat 2).
  destruct (starts_ok _ _ _ _ _) eqn:E; [reflexivity|]. exfalso.
  assert (E' : starts_ok (Z.to_nat (N - 9 - 2)) (skipn (Z.to_nat 2) fat) fat N 2 = true).
  { assert (HN11 : 11 <= N) by (rewrite HN; unfold FAT_ENTRIES; lia).
    apply starts_ok_spec; [lia|]. intros y Hy HyN. apply good_start_ok; [|apply Hg]; lia. }
  congruence.
Qed.
Lemma raw_fat_check_sound_sec ver :
  raw_fat_check fat = Ok ver -> exists links, roland_decode fat = Ok (ver, links).
Proof.
  unfold raw_fat_check. intros H.
  destruct (Z.eqb_spec (znth 0 fat 0) FAT_AREA_ID) as [Hid|]; cbn [negb] in H; [|discriminate].
  destruct (roland_version _ _) as [v| |] eqn:EV; cbn [bind] in H; try discriminate.
  change 2%nat with (Z.to_nat 2) in H.
  destruct (starts_ok _ _ _ _ _) eqn:E; [|discriminate]. injection H as <-.
  apply decode_complete; [assumption|assumption|].
  assert (HN11 : 11 <= N) by (rewrite HN; unfold FAT_ENTRIES; lia).
  intros y Hy. rewrite starts_ok_spec in E by lia.
  destruct (E y) as [?|[?|Hs]]; try lia.
  - left. now right.
  - left. now left.
  - apply start_ok_good in Hs as [?|[]]; assumption.
Qed.

(** * Resolving a start cluster *)
Lemma raw_get_path_decoded_sec ver links entry :
  roland_decode fat = Ok (ver, links) -> 0 <= entry ->
  raw_get_path fat entry = get_path N links entry.
Proof.
  intros H He. pose proof (roland_decode_rchain fat ver links) as Hinst.
  pose proof H as H'. apply decode_good in H' as (Hl & Hg & Hk & _ & _).
  assert (HNpos : 0 < N) by (rewrite HN; reflexivity).
  unfold raw_get_path.
  destruct (Z.geb_spec entry N) as [Hge|Hlt].
  { (* beyond the table *)
    unfold get_path, get_path_fuel. cbn [get_path_loop].
    destruct (Z.ltb_spec 0 N); [|lia]. rewrite Hl.
    destruct (Z.geb_spec entry N); [reflexivity|lia]. }
  assert (Hsingle : (forall c, ~ RChain fat (entry :: c)) -> ~ walk_node entry \/ True ->
                    znth dlink links entry = dlink -> get_path N links entry = Ok [entry]).
  { intros _ _ Hd. apply get_path_follows_lemma; [|change (zlen [entry]) with 1; lia].
    apply chain_end; [lia|]. now rewrite Hd. }
  destruct ((2 <=? entry) && (entry <? N - 9)) eqn:Er.
  - assert (Hr : 2 <= entry < N - 9) by lia.
    pose proof (raw_walk_spec (raw_walk_fuel N) entry true Hr) as Hs.
    destruct (Hg entry Hr) as [Hfree|[c Hc]].
    + (* free / reserved: never linked *)
      assert (Hd : znth dlink links entry = dlink).
      { destruct (Hk entry He) as [?|(_ & H1 & H2)]; [assumption|]. destruct Hfree; contradiction. }
      assert (Ew : raw_walk (raw_walk_fuel N) fat N entry true = WFree).
      { destruct (raw_walk _ _ _ _ _) as [|c| |] eqn:E; try reflexivity; try contradiction.
        - destruct Hs as (Hc & t & ->).
          inversion Hc as [? _ _ He'|? ? ? _ _ Hw Hc']; subst.
          + unfold FAT_END, FAT_FREE, FAT_RESERVED in *. lia.
          + pose proof (rchain_range fat _ Hc' (word entry) ltac:(now left)).
            unfold FAT_FREE, FAT_RESERVED in *. lia.
        - assert (start_ok fat N entry = true) by (apply start_ok_good; [assumption|left; now left]).
          unfold start_ok in *. rewrite E in *. discriminate. }
      rewrite Ew. symmetry. apply get_path_follows_lemma; [|change (zlen [entry]) with 1; lia].
      apply chain_end; [lia|]. now rewrite Hd.
    + pose proof (rchain_length fat _ Hc) as Hlen.
      change entry with (hd 0 (entry :: c)) at 1.
      rewrite raw_walk_complete; [|assumption|unfold raw_walk_fuel, zlen in *; lia].
      symmetry. apply get_path_follows_lemma; [|assumption].
      destruct (Hinst (entry :: c) H Hc) as [Hl' Hi].
      exact (rchain_chain fat links (entry :: c) Hc Hl' Hi).
  - (* outside the scanned range: never linked *)
    assert (Hd : znth dlink links entry = dlink).
    { destruct (Hk entry He) as [?|(Hr & _)]; [assumption|lia]. }
    symmetry. apply get_path_follows_lemma; [|change (zlen [entry]) with 1; lia].
    apply chain_end; [lia|]. now rewrite Hd.
Qed.
End FatTheory.

(** * Statements without the section context *)
Definition fat_table (fat : list Z) : Prop :=
  zlen fat = FAT_ENTRIES /\ Forall (fun v => 0 <= v) fat.

Lemma raw_fat_check_exact_lemma : forall fat ver, fat_table fat ->
  (raw_fat_check fat = Ok ver <-> exists links, roland_decode fat = Ok (ver, links)).
Proof.
  intros fat ver [HN Hnn]. split.
  - now apply raw_fat_check_sound_sec.
  - intros [links H]. eapply raw_fat_check_accepts_sec; eassumption.
Qed.
(** both reject with ConstructError *)
Lemma raw_fat_check_errors_lemma : forall fat, raw_fat_check fat <> OutOfFuel /\
  forall e, raw_fat_check fat = Err e -> e = ConstructErr.
Proof.
  intros fat. unfold raw_fat_check.
  destruct (negb _); [split; [discriminate|intros e H; now injection H]|].
  unfold roland_version.
  repeat match goal with |- context [if ?b then _ else _] => destruct b end; cbn [bind];
    (split; [discriminate|intros e H; try discriminate; now injection H]).
Qed.
Lemma raw_get_path_decoded_lemma : forall fat ver links entry, fat_table fat ->
  roland_decode fat = Ok (ver, links) -> 0 <= entry ->
  raw_get_path fat entry = get_path (zlen fat) links entry.
Proof. intros fat ver links entry [HN Hnn]. now apply raw_get_path_decoded_sec. Qed.
Lemma raw_get_file_decoded_lemma : forall fat ver links entry top, fat_table fat ->
  roland_decode fat = Ok (ver, links) -> 0 <= entry ->
  raw_get_file fat entry top = roland_get_file (zlen fat) links entry top.
Proof.
  intros fat ver links entry top Hf H He. unfold raw_get_file, roland_get_file.
  now rewrite (raw_get_path_decoded_lemma fat ver links entry Hf H He).
Qed.
