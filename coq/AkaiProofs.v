(** Proofs about the whole-image AKAI model: the logical contents it computes are exactly
    what the real view towers deliver (bridge to C08), and the exported PCM is the window
    between the markers (bridge to C12). *)
From SE Require Import Base Codecs Fat Cue Names Transcode Stream FatProofs StreamProofs
     TranscodeProofs TranscodeUnbounded AkaiImage.
Ltac Zify.zify_post_hook ::= Z.to_euclidean_division_equations.

(** * Logical content of the three view kinds as slices / concatenations *)
Lemma logical_off off size sub c :
  0 <= off -> 0 <= size -> off + size <= zlen (logical sub c) ->
  logical (V (KOff off) size sub) c = slice (logical sub c) off (off + size).
Proof.
  intros Ho Hs Hl. cbn [logical]. rewrite (slice_map_znth 0) by assumption.
  replace (zrange off (off + size)) with (zrange (0 + off) (size + off)) by (f_equal; lia).
  rewrite zrange_shift, map_map. apply map_ext. intros a. cbn [addr]. f_equal. lia.
Qed.
Lemma logical_wrap size sub c :
  0 <= size -> size <= zlen (logical sub c) ->
  logical (V KWrap size sub) c = slice (logical sub c) 0 size.
Proof.
  intros Hs Hl. cbn [logical]. rewrite (slice_map_znth 0 _ 0 size) by lia. reflexivity.
Qed.

Lemma znth_app_l {A} (d : A) l1 l2 i : 0 <= i < zlen l1 -> znth d (l1 ++ l2) i = znth d l1 i.
Proof. intros H. unfold znth, zlen in *. apply app_nth1. lia. Qed.
Lemma znth_app_r {A} (d : A) l1 l2 i : zlen l1 <= i -> znth d (l1 ++ l2) i = znth d l2 (i - zlen l1).
Proof.
  intros H. unfold znth, zlen in *. rewrite app_nth2 by lia. f_equal. lia.
Qed.

Lemma logical_chain L secs sub c :
  0 < L -> Forall (fun s => 0 <= s /\ (s + 1) * L <= zlen (logical sub c)) secs ->
  logical (V (KSect L (MChain secs)) (L * zlen secs) sub) c
  = concat (map (fun s => slice (logical sub c) (s * L) ((s + 1) * L)) secs).
Proof.
  intros HL. set (P := logical sub c).
  induction secs as [|s secs IH] using rev_ind; intros HF.
  - cbn. unfold zlen. cbn. rewrite Z.mul_0_r. reflexivity.
  - apply Forall_app in HF as [HF1 HF2]. inversion HF2 as [|? ? [Hs0 Hs1] _]; subst.
    specialize (IH HF1). cbn [logical] in *. fold P in IH |- *.
    rewrite zlen_app. change (zlen [s]) with 1.
    pose proof (zlen_nonneg secs) as Hn.
    rewrite (zrange_app 0 (L * zlen secs) (L * (zlen secs + 1))) by nia.
    rewrite map_app, map_app, concat_app. cbn [map concat]. rewrite app_nil_r. f_equal.
    + rewrite <- IH. apply map_ext_zrange. intros a Ha. f_equal. cbn [addr sbase].
      rewrite znth_app_l; [reflexivity|]. split; [apply Z.div_pos; lia|]. apply Z.div_lt_upper_bound; lia.
    + replace ((s + 1) * L) with (s * L + L) by lia.
      rewrite (slice_map_znth 0 P (s * L) L) by lia.
      replace (s * L + L) with ((s + 1) * L) by lia.
      replace (zrange (L * zlen secs) (L * (zlen secs + 1)))
        with (zrange (s * L + (L * zlen secs - s * L)) ((s + 1) * L + (L * zlen secs - s * L))) by (f_equal; lia).
      rewrite zrange_shift, map_map. apply map_ext_zrange. intros x Hx. f_equal. cbn [addr sbase].
      assert (Hq : (x + (L * zlen secs - s * L)) / L = zlen secs) by nia.
      rewrite Hq. rewrite znth_app_r by lia. rewrite Z.sub_diag. change (znth 0 [s] 0) with s.
      nia.
Qed.

(** * The view tower of an AKAI file and of a sample's data window *)
Definition part_view (p : partition) : view := V (KOff (p_off p)) (p_sectors p * SECTOR) Base.
Definition file_view (p : partition) (secs : list Z) (fsize : Z) : view :=
  V KWrap fsize (chain_view SECTOR secs (part_view p)).
Definition data_view (p : partition) (secs : list Z) (fsize st en : Z) : view :=
  V (KOff (SAMPLE_HDR + 2 * st)) (2 * (en - st)) (file_view p secs fsize).

Definition part_ok (img : list Z) (p : partition) : Prop :=
  0 <= p_off p /\ 0 < p_sectors p /\ p_off p + p_sectors p * SECTOR <= zlen img.
Definition chain_in_part (p : partition) (secs : list Z) : Prop :=
  Forall (fun s => 0 <= s /\ s + 1 <= p_sectors p) secs.

Lemma part_view_logical img p : part_ok img p -> logical (part_view p) img = part_content img p.
Proof.
  intros (H1 & H2 & H3). unfold part_view, part_content.
  apply logical_off; cbn [logical]; unfold SECTOR in *; lia.
Qed.
Lemma part_content_len img p : part_ok img p -> zlen (part_content img p) = p_sectors p * SECTOR.
Proof. intros (H1 & H2 & H3). unfold part_content. rewrite slice_zlen by lia. unfold SECTOR in *. lia. Qed.

Lemma segment_view_logical img p secs :
  part_ok img p -> chain_in_part p secs ->
  logical (chain_view SECTOR secs (part_view p)) img = segment_content (part_content img p) secs.
Proof.
  intros Hp Hc. unfold chain_view, segment_content.
  rewrite logical_chain.
  - rewrite (part_view_logical img p Hp). reflexivity.
  - unfold SECTOR. lia.
  - rewrite (part_view_logical img p Hp), (part_content_len img p Hp).
    eapply Forall_impl; [|exact Hc]. intros s [A B]. unfold SECTOR. cbn beta. nia.
Qed.
Lemma segment_content_len pc secs :
  Forall (fun s => 0 <= s /\ (s + 1) * SECTOR <= zlen pc) secs ->
  zlen (segment_content pc secs) = SECTOR * zlen secs.
Proof.
  induction secs as [|s t IH]; intros H; [reflexivity|]. inversion H as [|? ? [A B] Ht]; subst.
  unfold segment_content in *. cbn [map concat]. rewrite zlen_app, IH by assumption.
  rewrite slice_zlen by (unfold SECTOR; nia). rewrite zlen_cons. unfold SECTOR in *. lia.
Qed.

(** The file as the real code reads it - StreamWrapper(size) over Segment(sector list) over the
    partition window over the image - has as logical content exactly the model's
    [wrap_size (segment_content ...)]: the sectors of the chain, IN CHAIN ORDER whatever their
    numbers, cut at the directory's size. *)
Lemma file_view_logical_lemma img p secs fsize :
  part_ok img p -> chain_in_part p secs -> 0 < fsize <= SECTOR * zlen secs ->
  logical (file_view p secs fsize) img = wrap_size (segment_content (part_content img p) secs) fsize.
Proof.
  intros Hp Hc Hf. unfold file_view.
  assert (Hlen : zlen (logical (chain_view SECTOR secs (part_view p)) img) = SECTOR * zlen secs).
  { rewrite segment_view_logical by assumption. apply segment_content_len.
    rewrite (part_content_len img p Hp). eapply Forall_impl; [|exact Hc]. intros s [A B]. unfold SECTOR. cbn beta. nia. }
  rewrite logical_wrap by lia. rewrite segment_view_logical by assumption.
  unfold wrap_size. destruct (Z.gtb_spec fsize 0); [reflexivity|lia].
Qed.

(** and it is a well-formed view in the sense of C08, so view_refines_file applies to it *)
Lemma file_view_wf_lemma img p secs fsize :
  part_ok img p -> chain_in_part p secs -> secs <> [] -> 0 < fsize <= SECTOR * zlen secs ->
  wf (file_view p secs fsize) img.
Proof.
  intros Hp Hc Hne Hf. pose proof Hp as (H1 & H2 & H3).
  assert (Hz : 0 < zlen secs) by (destruct secs; [congruence|rewrite zlen_cons; pose proof (zlen_nonneg secs); lia]).
  unfold file_view, chain_view, part_view. cbn [wf kind_ok].
  assert (Hpl : zlen (logical (V (KOff (p_off p)) (p_sectors p * SECTOR) Base) img) = p_sectors p * SECTOR).
  { apply logical_len. unfold SECTOR. lia. }
  assert (Hcl : zlen (logical (V (KSect SECTOR (MChain secs)) (SECTOR * zlen secs) (V (KOff (p_off p)) (p_sectors p * SECTOR) Base)) img)
                = SECTOR * zlen secs).
  { apply logical_len. unfold SECTOR. lia. }
  rewrite Hcl, Hpl. cbn [logical].
  repeat split; try (unfold SECTOR in *; lia).
  eapply Forall_impl; [|exact Hc]. intros s [A B]. unfold SECTOR. cbn beta. nia.
Qed.

(** the sample's data stream: StreamOffset(140 + 2*start, size 2*(end-start)) over the file *)
Lemma data_view_logical_lemma img p secs fsize st en :
  part_ok img p -> chain_in_part p secs -> 0 < fsize <= SECTOR * zlen secs ->
  0 <= st < en -> SAMPLE_HDR + 2 * en <= fsize ->
  logical (data_view p secs fsize st en) img
  = slice (wrap_size (segment_content (part_content img p) secs) fsize) (SAMPLE_HDR + 2 * st) (SAMPLE_HDR + 2 * en).
Proof.
  intros Hp Hc Hf Hs He. unfold data_view.
  assert (Hl : zlen (logical (file_view p secs fsize) img) = fsize) by (apply logical_len; lia).
  rewrite logical_off by (unfold SAMPLE_HDR in *; lia).
  rewrite file_view_logical_lemma by assumption. f_equal. lia.
Qed.

(** what parse_sample takes as PCM is that slice *)
Local Opaque Z.add Z.mul Z.sub.
Lemma parse_sample_pcm_lemma e s :
  parse_sample e = Some s ->
  let f := fe_content e in
  sm_start s = u32 f 30 /\ sm_end s = u32 f 34 /\
  (sm_start s < sm_end s -> sm_pcm s = slice f (SAMPLE_HDR + 2 * sm_start s) (SAMPLE_HDR + 2 * sm_end s)).
Proof.
  unfold parse_sample. intros H.
  destruct (zlen (fe_content e) <? SAMPLE_HDR); [discriminate|].
  destruct (negb _); [discriminate|].
  destruct (akai_name _) as [nm| |]; try discriminate.
  destruct (u8 (fe_content e) 19 >? 4); [discriminate|].
  set (st := u32 (fe_content e) 30) in *. set (en := u32 (fe_content e) 34) in *.
  injection H as <-. unfold sm_start, sm_end, sm_pcm.
  split; [reflexivity|]. split; [reflexivity|].
  intros Hlt. destruct (Z.gtb_spec (2 * (en - st)) 0) as [_|Hc]; [|exfalso; lia].
  f_equal. unfold SAMPLE_HDR. lia.
Qed.
Local Transparent Z.add Z.mul Z.sub.

(** * The exported audio *)
(** a mono sample is written unchanged (whole 16-bit words), whatever the block size *)
Lemma mono_export_pcm_lemma target s :
  transcode target [src_of s] 2 1
  = Ok (firstn (Z.to_nat ((zlen (sm_pcm s) / 2) * 2)) (sm_pcm s)).
Proof.
  pose proof (transcode_single_le_lemma target 2 (src_of s) ltac:(lia) eq_refl ltac:(cbn; lia) eq_refl) as H.
  cbn [schans src_of] in H. rewrite H. unfold whole_frames, frame_size. cbn [sbytes src_of schans swidth].
  do 3 f_equal.
Qed.
Lemma mono_export_even_lemma target s :
  zlen (sm_pcm s) mod 2 = 0 -> transcode target [src_of s] 2 1 = Ok (sm_pcm s).
Proof.
  intros He. rewrite mono_export_pcm_lemma. f_equal.
  replace (zlen (sm_pcm s) / 2 * 2) with (zlen (sm_pcm s)) by lia.
  unfold zlen. rewrite Nat2Z.id. apply firstn_all.
Qed.
Lemma pair_export_pcm_lemma target l r F :
  zlen (sm_pcm l) = 2 * F -> zlen (sm_pcm r) = 2 * F ->
  transcode target [src_of l; src_of r] 2 2 = Ok (interleave2 (sm_pcm l) (sm_pcm r)).
Proof. intros Hl Hr. exact (transcode_stereo_pair_lemma target (sm_pcm l) (sm_pcm r) F Hl Hr). Qed.

(** * The file table: one entry at a time (C14) *)
Definition kept (pc : list Z) (sat : list link) (e : list Z) : res (list fentry) :=
  r <- parse_fentry pc sat e ;;
  Ok (match r with Some x => if fe_start x >? 0 then [x] else [] | None => [] end).
Definition is_entry (e : list Z) : Prop := zlen e = 24 /\ u16 e 8 <> TABLE_END_FLAG.

Lemma u16_app_l (a b : list Z) o : 0 <= o -> o + 1 < zlen a -> u16 (a ++ b) o = u16 a o.
Proof. intros H1 H2. unfold u16. rewrite !znth_app_l by lia. reflexivity. Qed.
Lemma firstn_24_app (e rest : list Z) : zlen e = 24 -> firstn 24 (e ++ rest) = e.
Proof.
  intros H. assert (L : length e = 24%nat) by (unfold zlen in H; lia).
  rewrite <- L at 1. rewrite firstn_app, firstn_all, Nat.sub_diag. cbn. apply app_nil_r.
Qed.
Lemma skipn_24_app (e rest : list Z) : zlen e = 24 -> skipn 24 (e ++ rest) = rest.
Proof.
  intros H. assert (L : length e = 24%nat) by (unfold zlen in H; lia).
  rewrite <- L at 1. rewrite skipn_app, skipn_all, Nat.sub_diag. reflexivity.
Qed.

Lemma entries_loop_step n pc sat e rest :
  is_entry e ->
  entries_loop (S n) pc sat (e ++ rest)
  = (k <- kept pc sat e ;; r <- entries_loop n pc sat rest ;; Ok (k ++ r)).
Proof.
  intros [He Hf]. cbn [entries_loop]. rewrite u16_app_l by lia.
  destruct (Z.eqb_spec (u16 e 8) TABLE_END_FLAG) as [Hc|_]; [contradiction|].
  rewrite firstn_24_app, skipn_24_app by assumption. unfold kept.
  destruct (parse_fentry pc sat e) as [[x|]| |]; cbn [bind]; try reflexivity;
    destruct (entries_loop n pc sat rest) as [r| |]; cbn [bind]; try reflexivity.
  destruct (fe_start x >? 0); reflexivity.
Qed.

Fixpoint kept_all (pc : list Z) (sat : list link) (es : list (list Z)) : res (list fentry) :=
  match es with
  | [] => Ok []
  | e :: t => k <- kept pc sat e ;; r <- kept_all pc sat t ;; Ok (k ++ r)
  end.

(** the table loop over [es ++ tail] = the entries of [es], each on its own, then the tail *)
Lemma entries_loop_decompose pc sat : forall es m tail,
  Forall is_entry es ->
  entries_loop (length es + m) pc sat (concat es ++ tail)
  = (a <- kept_all pc sat es ;; r <- entries_loop m pc sat tail ;; Ok (a ++ r)).
Proof.
  induction es as [|e t IH]; intros m tail HF.
  - cbn [length plus concat app kept_all bind]. destruct (entries_loop m pc sat tail); reflexivity.
  - inversion HF as [|? ? He Ht]; subst. cbn [length plus concat kept_all]. rewrite <- app_assoc.
    rewrite entries_loop_step by assumption. rewrite IH by assumption.
    destruct (kept pc sat e) as [k| |]; cbn [bind]; try reflexivity.
    destruct (kept_all pc sat t) as [a| |]; cbn [bind]; try reflexivity.
    destruct (entries_loop m pc sat tail) as [r| |]; cbn [bind]; try reflexivity.
    now rewrite app_assoc.
Qed.
Lemma kept_all_app pc sat a b :
  kept_all pc sat (a ++ b) = (x <- kept_all pc sat a ;; y <- kept_all pc sat b ;; Ok (x ++ y)).
Proof.
  induction a as [|e t IH]; cbn [app kept_all bind].
  - destruct (kept_all pc sat b); reflexivity.
  - destruct (kept pc sat e) as [k| |]; cbn [bind]; try reflexivity. rewrite IH.
    destruct (kept_all pc sat t) as [x| |]; cbn [bind]; try reflexivity.
    destruct (kept_all pc sat b) as [y| |]; cbn [bind]; try reflexivity. now rewrite app_assoc.
Qed.
Lemma kept_length pc sat e k : kept pc sat e = Ok k -> (length k <= 1)%nat.
Proof.
  unfold kept. destruct (parse_fentry pc sat e) as [[x|]| |]; cbn [bind]; try discriminate; intros [= <-].
  - destruct (fe_start x >? 0); cbn; lia.
  - cbn. lia.
Qed.
Lemma entries_loop_end m pc sat tail : u16 tail 8 = TABLE_END_FLAG -> entries_loop m pc sat tail = Ok [].
Proof. intros H. destruct m; [reflexivity|]. cbn [entries_loop]. now rewrite H, Z.eqb_refl. Qed.

(** Isolation: damage the 24 bytes of ONE entry (any bytes, as long as bytes 8-9 do not read
    as the end-of-table mark and the entry does not raise an uncaught exception): every other
    entry of the table yields exactly what it yielded before, in the same order; at most the
    damaged entry's own item disappears or changes.  The partition bytes [pc'] of the damaged
    image may differ from [pc] as long as the other entries read the same through both (they
    do when their chains avoid the directory sector, see [segment_content_local]). *)
Lemma akai_entry_isolation_lemma pc pc' sat es1 e e' es2 tail m A B x x' :
  Forall is_entry es1 -> is_entry e -> is_entry e' -> Forall is_entry es2 ->
  u16 tail 8 = TABLE_END_FLAG ->
  kept_all pc sat es1 = Ok A -> kept_all pc' sat es1 = Ok A ->
  kept_all pc sat es2 = Ok B -> kept_all pc' sat es2 = Ok B ->
  kept pc sat e = Ok x -> kept pc' sat e' = Ok x' ->
  entries_loop (length (es1 ++ e :: es2) + m) pc sat (concat (es1 ++ e :: es2) ++ tail) = Ok (A ++ x ++ B)
  /\ entries_loop (length (es1 ++ e' :: es2) + m) pc' sat (concat (es1 ++ e' :: es2) ++ tail) = Ok (A ++ x' ++ B)
  /\ (length x <= 1)%nat /\ (length x' <= 1)%nat.
Proof.
  intros H1 He He' H2 Ht HA HA' HB HB' Hx Hx'.
  assert (G : forall q d y, kept_all q sat es1 = Ok A -> kept_all q sat es2 = Ok B -> is_entry d -> kept q sat d = Ok y ->
              entries_loop (length (es1 ++ d :: es2) + m) q sat (concat (es1 ++ d :: es2) ++ tail) = Ok (A ++ y ++ B)).
  { intros q d y Ha Hb Hd Hy. rewrite entries_loop_decompose.
    - rewrite kept_all_app, Ha. cbn [bind kept_all]. rewrite Hy, Hb. cbn [bind].
      rewrite entries_loop_end by assumption. cbn [bind]. now rewrite app_nil_r.
    - apply Forall_app. split; [assumption|]. constructor; assumption. }
  split; [now apply G|]. split; [now apply G|]. split; eapply kept_length; eassumption.
Qed.

(** the bytes a chain delivers depend only on the chain's own sectors *)
Lemma segment_content_local pc pc' secs :
  (forall s, In s secs -> slice pc (s * SECTOR) ((s + 1) * SECTOR) = slice pc' (s * SECTOR) ((s + 1) * SECTOR)) ->
  segment_content pc secs = segment_content pc' secs.
Proof.
  intros H. unfold segment_content. f_equal. apply map_ext_in. exact H.
Qed.

(** * Chain resolution through the decoded SAT (instance of C07's unbounded theorem) *)
From SE Require Import AkaiChainProofs.
Lemma akai_chain_to_content_lemma block sat pc s c :
  Forall (fun w => 0 <= w < 65536) block -> zlen block = SAT_ENTRIES ->
  akai_decode block = Ok sat ->
  raw_chain (S (length block)) block [] s = Some c -> linked_once block c = true ->
  get_segment pc sat s = Ok (segment_content pc c).
Proof.
  intros Hb Hlen Hdec Hraw Hlo.
  pose proof (akai_decode_chain_lemma block s c Hb ltac:(rewrite Hlen; unfold SAT_ENTRIES; lia) Hraw Hlo) as H.
  unfold akai_get_segment in H. rewrite Hdec in H. cbn [bind] in H. rewrite Hlen in H.
  unfold get_segment. rewrite H. reflexivity.
Qed.
