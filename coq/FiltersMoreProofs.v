(** More lemmas about the filter model (Filters.v): the two saturation statements that
    FiltersProofs.v left open.
    (a) [fir16_clamp_lemma]: _c_bound_and_fix x = clamp (round-half-away x) for every finite
        double (integer reasoning on canonical mantissas; FloatAxioms ltb_spec / Prim2SF_valid).
    (b) [iir16_no_nan_lemma]: the ChickenSys IIR presets never produce NaN / infinity on int16
        input (Flocq: Binary operations are correctly rounded; interval argument in R). *)
From SE Require Import Base Codecs Filters FiltersProofs.
From Coq Require Import Floats.PrimFloat Floats.SpecFloat Floats.FloatOps Floats.FloatAxioms.

(** * (a) the clamp branches of _c_bound_and_fix agree with clamping the rounded value *)

Lemma digits2_pos_lower m : 2 ^ (Z.pos (digits2_pos m) - 1) <= Z.pos m.
Proof.
  induction m as [m IH|m IH|]; cbn [digits2_pos]; [| |cbn; lia];
    rewrite Pos2Z.inj_succ; replace (Z.succ (Z.pos (digits2_pos m)) - 1) with (Z.succ (Z.pos (digits2_pos m) - 1)) by lia;
    rewrite Z.pow_succ_r by lia; lia.
Qed.

(** a valid binary64 with exponent above emin is normal: its mantissa has 53 digits *)
Lemma valid_normal_lower s m e :
  SpecFloat.valid_binary prec emax (S754_finite s m e) = true -> -1074 < e -> 2 ^ 52 <= Z.pos m.
Proof.
  cbn [SpecFloat.valid_binary]. unfold bounded, canonical_mantissa, fexp, SpecFloat.emin, prec, emax.
  intros H He. apply andb_prop in H. destruct H as [H _]. apply Zeq_bool_eq in H.
  assert (Hd : Z.pos (digits2_pos m) = 53) by lia.
  pose proof (digits2_pos_lower m) as Hl. rewrite Hd in Hl. exact Hl.
Qed.

(** m*2^e with m >= 2^52 and e >= -37 rounds to at least 32768 *)
Lemma round_big m e : 2 ^ 52 <= Z.pos m -> -37 <= e -> 32768 <= round_away_mag m e.
Proof.
  intros Hm He. change (2 ^ 52) with 4503599627370496 in Hm. unfold round_away_mag.
  destruct (0 <=? e) eqn:E.
  - assert (1 <= 2 ^ e) by (apply (Z.pow_le_mono_r 2 0 e); lia). nia.
  - assert (Hd : 2 ^ (- e) <= 2 ^ 37) by (apply pow2_ge; lia).
    assert (Hp : 0 < 2 ^ (- e)) by (apply Z.pow_pos_nonneg; lia).
    change (2 ^ 37) with 137438953472 in Hd. remember (2 ^ (- e)) as d eqn:Ed. clear Ed.
    apply Z.div_le_lower_bound; nia.
Qed.

Lemma round_gt38 m : Z.pos sat_M < Z.pos m -> 32767 <= round_away_mag m (-38).
Proof.
  intros Hm. unfold round_away_mag. cbn [Z.leb Z.compare Z.opp]. change (2 ^ 38) with 274877906944.
  unfold sat_M in Hm. apply Z.div_le_lower_bound; lia.
Qed.
Lemma round_gt37 m : 4503599627370496 < Z.pos m -> 32768 <= round_away_mag m (-37).
Proof.
  intros Hm. unfold round_away_mag. cbn [Z.leb Z.compare Z.opp]. change (2 ^ 37) with 137438953472.
  apply Z.div_le_lower_bound; lia.
Qed.

(** M*2^E < x  for a finite x = (-1)^s m*2^e:  x is positive and  E < e, or e = E and M < m *)
Lemma gt_pos M E s m e : SFltb (S754_finite false M E) (S754_finite s m e) = true ->
  s = false /\ (E < e \/ (e = E /\ Z.pos M < Z.pos m)).
Proof.
  unfold SFltb, SFcompare. destruct s; [discriminate|]. intros H. split; [reflexivity|].
  destruct (Z.compare_spec E e) as [He|He|He]; try discriminate; [|lia].
  subst e. change (Pos.compare_cont Eq M m) with (Pos.compare M m) in H.
  destruct (Pos.compare_spec M m) as [Hm|Hm|Hm]; try discriminate. right. split; lia.
Qed.
(** x < -(M*2^E) *)
Lemma lt_neg M E s m e : SFltb (S754_finite s m e) (S754_finite true M E) = true ->
  s = true /\ (E < e \/ (e = E /\ Z.pos M < Z.pos m)).
Proof.
  unfold SFltb, SFcompare. destruct s; [|discriminate]. intros H. split; [reflexivity|].
  destruct (Z.compare_spec e E) as [He|He|He]; try discriminate; [|lia].
  subst e. change (Pos.compare_cont Eq m M) with (Pos.compare m M) in H.
  destruct (Pos.compare_spec m M) as [Hm|Hm|Hm]; cbn [CompOpp] in H; try discriminate. right. split; lia.
Qed.

Lemma fir16_clamp_lemma x s m e : Prim2SF x = S754_finite s m e ->
  c_bound_and_fix x = Z.max (-32768) (Z.min 32767 (sgn s (round_away_mag m e))).
Proof.
  intros Ex. destruct (fir16_saturates_lemma x) as [Heq Hrange]. rewrite Heq in Hrange |- *.
  pose proof (Prim2SF_valid x) as Hv. rewrite Ex in Hv.
  assert (Hp : Prim2SF 32767%float = S754_finite false sat_M (-38)) by (vm_compute; reflexivity).
  assert (Hn : Prim2SF (-32768)%float = S754_finite true 4503599627370496 (-37)) by (vm_compute; reflexivity).
  destruct (32767 <? x)%float eqn:E1.
  - rewrite ltb_spec, Hp, Ex in E1. apply gt_pos in E1. destruct E1 as [-> [He|[-> Hm]]]; cbn [sgn].
    + pose proof (round_big m e (valid_normal_lower _ _ _ Hv ltac:(lia)) ltac:(lia)). lia.
    + pose proof (round_gt38 m Hm). lia.
  - destruct (x <? -32768)%float eqn:E2.
    + rewrite ltb_spec, Hn, Ex in E2. apply lt_neg in E2. destruct E2 as [-> [He|[-> Hm]]]; cbn [sgn].
      * pose proof (round_big m e (valid_normal_lower _ _ _ Hv ltac:(lia)) ltac:(lia)). lia.
      * pose proof (round_gt37 m Hm). lia.
    + rewrite Ex in Hrange |- *. cbn [round_away_sf] in *. lia.
Qed.

(** * (b) the ChickenSys IIR presets never leave the finite doubles on int16 input

    Magnitude analysis directly on SpecFloat (no real numbers): [sfb K x] says that x is a zero
    or a finite m*2^e with m*2^e < 2^K.  Every correctly rounded operation raises the bound by
    a fixed amount and cannot overflow as long as the bound stays below 2^971; _c_bound brings
    every stored output back below 2^15.  *)

Definition sfb (K : Z) (x : spec_float) : Prop :=
  match x with
  | S754_zero _ => True
  | S754_finite _ m e => Z.pos m < 2 ^ (K - e)
  | _ => False
  end.
Definition sfbb (K : Z) (x : spec_float) : bool :=
  match x with
  | S754_zero _ => true
  | S754_finite _ m e => Z.pos m <? 2 ^ (K - e)
  | _ => false
  end.
Lemma sfbb_sfb K x : sfbb K x = true -> sfb K x.
Proof. destruct x; cbn [sfbb sfb]; intros H; try discriminate; try exact I. lia. Qed.

Lemma pow2_pos n : 0 <= n -> 0 < 2 ^ n.
Proof. intros H. apply Z.pow_pos_nonneg; lia. Qed.
Lemma pow_lt_nonneg m k : 0 <= m -> m < 2 ^ k -> 0 <= k.
Proof. intros H0 H. destruct (Z.lt_ge_cases k 0) as [Hk|Hk]; [|assumption]. rewrite Z.pow_neg_r in H by assumption. lia. Qed.
Lemma pow2_lt_split m x b c : 0 <= b <= c -> m * 2 ^ b <= x -> x < 2 ^ c -> m < 2 ^ (c - b).
Proof.
  intros Hb H1 H2. replace c with ((c - b) + b) in H2 by lia. rewrite Z.pow_add_r in H2 by lia.
  pose proof (pow2_pos b ltac:(lia)) as Hp. apply (Z.mul_lt_mono_pos_r (2 ^ b)); lia.
Qed.
Lemma sfb_mono K K' x : K <= K' -> sfb K x -> sfb K' x.
Proof.
  intros HK. destruct x as [s|s| |s m e]; cbn [sfb]; try tauto. intros H.
  pose proof (pow_lt_nonneg _ _ (Pos2Z.is_nonneg _) H) as Hk.
  pose proof (pow2_ge (K' - e) (K - e) ltac:(lia)). lia.
Qed.

Lemma Zdigits2_le m k : 0 <= m -> m < 2 ^ k -> Zdigits2 m <= k.
Proof.
  intros H0 H. pose proof (pow_lt_nonneg _ _ H0 H) as Hk.
  destruct m as [|p|p]; cbn [Zdigits2]; [lia| |lia].
  pose proof (digits2_pos_lower p) as Hl.
  destruct (Z.le_gt_cases (Z.pos (digits2_pos p)) k) as [Hle|Hgt]; [assumption|].
  pose proof (pow2_ge (Z.pos (digits2_pos p) - 1) k ltac:(lia)). lia.
Qed.
Lemma digits2_pos_gt p j : 0 <= j -> 2 ^ j <= Z.pos p -> j < Z.pos (digits2_pos p).
Proof.
  intros Hj H. pose proof (digits2_pos_bound p) as Hb.
  destruct (Z.lt_ge_cases j (Z.pos (digits2_pos p))) as [Hlt|Hge]; [assumption|].
  pose proof (pow2_ge j (Z.pos (digits2_pos p)) ltac:(lia)). lia.
Qed.

Lemma fexp64 z : fexp prec emax z = Z.max (z - 53) (-1074).
Proof. reflexivity. Qed.

(** ** shifting right *)
Lemma shr_1_m mrs : 0 <= shr_m mrs -> shr_m (shr_1 mrs) = shr_m mrs / 2.
Proof.
  destruct mrs as [m r s]. cbn [shr_m]. intros H.
  destruct m as [|[p|p|]|p]; cbn [shr_1 shr_m]; try lia; try reflexivity.
  - rewrite Pos2Z.inj_xI. apply Z.div_unique with 1; lia.
  - rewrite Pos2Z.inj_xO. apply Z.div_unique with 0; lia.
Qed.

Lemma iter_shr_m p : forall mrs, 0 <= shr_m mrs ->
  shr_m (iter_pos shr_1 p mrs) = shr_m mrs / 2 ^ Z.pos p.
Proof.
  induction p as [p IH|p IH|]; intros mrs H; cbn [iter_pos].
  - assert (H1 : 0 <= shr_m (shr_1 mrs)) by (rewrite shr_1_m by assumption; apply Z.div_pos; lia).
    assert (Hp : 0 < 2 ^ Z.pos p) by (apply pow2_pos; lia).
    assert (H2 : 0 <= shr_m (iter_pos shr_1 p (shr_1 mrs))) by (rewrite IH by assumption; apply Z.div_pos; lia).
    rewrite IH by assumption. rewrite IH by assumption. rewrite shr_1_m by assumption.
    rewrite !Z.div_div by lia. f_equal.
    replace (Z.pos p~1) with (1 + Z.pos p + Z.pos p) by lia.
    rewrite !Z.pow_add_r by lia. lia.
  - assert (Hp : 0 < 2 ^ Z.pos p) by (apply pow2_pos; lia).
    assert (H2 : 0 <= shr_m (iter_pos shr_1 p mrs)) by (rewrite IH by assumption; apply Z.div_pos; lia).
    rewrite IH by assumption. rewrite IH by assumption.
    rewrite !Z.div_div by lia. f_equal.
    replace (Z.pos p~0) with (Z.pos p + Z.pos p) by lia.
    rewrite !Z.pow_add_r by lia. lia.
  - apply shr_1_m. assumption.
Qed.

Lemma shr_record_of_loc_m m l : shr_m (shr_record_of_loc m l) = m.
Proof. destruct l as [|[]]; reflexivity. Qed.

Lemma shr_fexp_bound m e l mrs' e' : 0 <= m -> shr_fexp prec emax m e l = (mrs', e') ->
  0 <= shr_m mrs' /\ e <= e' /\ shr_m mrs' * 2 ^ (e' - e) <= m /\
  e' = Z.max e (Z.max (Zdigits2 m + e - 53) (-1074)).
Proof.
  intros Hm. unfold shr_fexp, shr. rewrite fexp64.
  destruct (Z.max (Zdigits2 m + e - 53) (-1074) - e) as [|p|p] eqn:En; intros [= <- <-].
  - rewrite shr_record_of_loc_m. replace (e - e) with 0 by lia. rewrite Z.pow_0_r. lia.
  - assert (Hp : 0 < 2 ^ Z.pos p) by (apply pow2_pos; lia).
    rewrite iter_shr_m by (rewrite shr_record_of_loc_m; lia). rewrite shr_record_of_loc_m.
    replace (e + Z.pos p - e) with (Z.pos p) by lia.
    split; [apply Z.div_pos; lia|]. split; [lia|].
    split; [rewrite Z.mul_comm; apply Z.mul_div_le; lia | lia].
  - rewrite shr_record_of_loc_m. replace (e - e) with 0 by lia. rewrite Z.pow_0_r. lia.
Qed.

Lemma rne_bound m l : 0 <= m -> 0 <= round_nearest_even m l <= m + 1.
Proof. intros H. unfold round_nearest_even. destruct l as [|[]]; try destruct (Z.even m); lia. Qed.

(** ** the rounding step: a mantissa/exponent pair below 2^K rounds to a zero or a finite
    double below 2^(K+1) (no overflow for K <= 971) *)
Lemma bra_bound K sx mx ex lx : -1074 <= K <= 971 -> 0 <= mx < 2 ^ (K - ex) ->
  sfb (K + 1) (binary_round_aux prec emax sx mx ex lx).
Proof.
  intros HK [H0 Hlt].
  pose proof (pow_lt_nonneg _ _ H0 Hlt) as HKe.
  unfold binary_round_aux.
  destruct (shr_fexp prec emax mx ex lx) as [mrs1 e1] eqn:E1.
  destruct (shr_fexp_bound _ _ _ _ _ H0 E1) as (Hm1 & Hle1 & Hv1 & He1).
  pose proof (Zdigits2_le mx (K - ex) H0 Hlt) as Hd.
  assert (He1K : e1 <= K) by lia.
  assert (Hm1lt : shr_m mrs1 < 2 ^ (K - e1)).
  { replace (K - e1) with ((K - ex) - (e1 - ex)) by lia.
    apply (pow2_lt_split _ mx); [lia | assumption | assumption]. }
  set (m2 := round_nearest_even (shr_m mrs1) (loc_of_shr_record mrs1)).
  pose proof (rne_bound (shr_m mrs1) (loc_of_shr_record mrs1) Hm1) as Hm2. fold m2 in Hm2.
  assert (Hm2lt : m2 < 2 ^ (K + 1 - e1)).
  { replace (K + 1 - e1) with (Z.succ (K - e1)) by lia. rewrite Z.pow_succ_r by lia. lia. }
  destruct (shr_fexp prec emax m2 e1 loc_Exact) as [mrs2 e2] eqn:E2.
  destruct (shr_fexp_bound _ _ _ _ _ (proj1 Hm2) E2) as (Hm3 & Hle2 & Hv2 & He2).
  pose proof (Zdigits2_le m2 (K + 1 - e1) (proj1 Hm2) Hm2lt) as Hd2.
  assert (He2K : e2 <= K) by lia.
  assert (Hm3lt : shr_m mrs2 < 2 ^ (K + 1 - e2)).
  { replace (K + 1 - e2) with ((K + 1 - e1) - (e2 - e1)) by lia.
    apply (pow2_lt_split _ m2); [lia | assumption | assumption]. }
  destruct (shr_m mrs2) as [|p|p] eqn:Em3; cbn [sfb]; [exact I| |lia].
  replace (Zle_bool e2 (emax - prec)) with true; [cbn [sfb]; exact Hm3lt|].
  symmetry. apply Zle_imp_le_bool. unfold emax, prec. lia.
Qed.

Lemma shl_align_bound K mx ex ez m' e' : shl_align mx ex ez = (m', e') ->
  Z.pos mx < 2 ^ (K - ex) -> Z.pos m' < 2 ^ (K - e').
Proof.
  unfold shl_align. destruct (ez - ex) as [|d|d] eqn:Ed; intros [= <- <-] H; try exact H.
  pose proof (pow_lt_nonneg _ _ (Pos2Z.is_nonneg _) H) as Hk.
  rewrite shift_pos_correct. change (Zpower_pos 2 d) with (2 ^ Z.pos d).
  replace (K - ez) with (Z.pos d + (K - ex)) by lia. rewrite Z.pow_add_r by lia.
  pose proof (pow2_pos (Z.pos d) ltac:(lia)). nia.
Qed.
Lemma shl_align_snd mx ex ez : ez <= ex -> snd (shl_align mx ex ez) = ez.
Proof. intros H. unfold shl_align. destruct (ez - ex) as [|d|d] eqn:Ed; cbn [snd]; lia. Qed.
Lemma shl_align_fst_bound K mx ex ez : ez <= ex -> Z.pos mx < 2 ^ (K - ex) ->
  Z.pos (fst (shl_align mx ex ez)) < 2 ^ (K - ez).
Proof.
  intros Hz H. pose proof (shl_align_snd mx ex ez Hz) as Hs.
  destruct (shl_align mx ex ez) as [m' e'] eqn:E. cbn [fst snd] in *. subst e'.
  eapply shl_align_bound; eassumption.
Qed.

Lemma binary_round_bound K sx m e : -1074 <= K <= 971 -> Z.pos m < 2 ^ (K - e) ->
  sfb (K + 1) (binary_round prec emax sx m e).
Proof.
  intros HK H. unfold binary_round.
  destruct (shl_align m e (fexp prec emax (Z.pos (digits2_pos m) + e))) as [mz ez] eqn:E.
  apply bra_bound; [assumption|]. split; [lia|]. eapply shl_align_bound; eassumption.
Qed.
Lemma binary_normalize_bound K m e sz : -1074 <= K <= 971 -> Z.abs m < 2 ^ (K - e) ->
  sfb (K + 1) (binary_normalize prec emax m e sz).
Proof.
  intros HK H. unfold binary_normalize. destruct m as [|p|p]; [exact I| |]; apply binary_round_bound; assumption || lia.
Qed.

(** ** the four operations *)
Lemma sfmul_bound K1 K2 x y : -1074 <= K1 + K2 <= 971 -> sfb K1 x -> sfb K2 y ->
  sfb (K1 + K2 + 1) (SFmul prec emax x y).
Proof.
  intros HK Hx Hy.
  destruct x as [sx|sx| |sx mx ex]; destruct y as [sy|sy| |sy my ey]; cbn [sfb] in Hx, Hy; try contradiction;
    cbn [SFmul sfb]; try exact I.
  apply bra_bound; [assumption|]. split; [lia|].
  pose proof (pow_lt_nonneg _ _ (Pos2Z.is_nonneg _) Hx). pose proof (pow_lt_nonneg _ _ (Pos2Z.is_nonneg _) Hy).
  replace (K1 + K2 - (ex + ey)) with ((K1 - ex) + (K2 - ey)) by lia. rewrite Z.pow_add_r by lia.
  rewrite Pos2Z.inj_mul. apply Z.mul_lt_mono_nonneg; lia.
Qed.

Lemma sfadd_fin_bound K sgx sgy mx ex my ey (op : Z -> Z -> Z) :
  (forall a b, Z.abs (op a b) <= Z.abs a + Z.abs b) ->
  -1074 <= K + 1 <= 971 -> Z.pos mx < 2 ^ (K - ex) -> Z.pos my < 2 ^ (K - ey) ->
  sfb (K + 2)
    (binary_normalize prec emax
       (op (cond_Zopp sgx (Z.pos (fst (shl_align mx ex (Z.min ex ey)))))
           (cond_Zopp sgy (Z.pos (fst (shl_align my ey (Z.min ex ey)))))) (Z.min ex ey) false).
Proof.
  intros Hop HK Hx Hy. set (ez := Z.min ex ey).
  pose proof (shl_align_fst_bound K mx ex ez ltac:(lia) Hx) as Ha.
  pose proof (shl_align_fst_bound K my ey ez ltac:(lia) Hy) as Hb.
  set (a := fst (shl_align mx ex ez)) in *. set (b := fst (shl_align my ey ez)) in *.
  pose proof (pow_lt_nonneg _ _ (Pos2Z.is_nonneg _) Ha) as Hk.
  replace (K + 2) with (K + 1 + 1) by lia. apply binary_normalize_bound; [lia|].
  replace (K + 1 - ez) with (Z.succ (K - ez)) by lia. rewrite Z.pow_succ_r by lia.
  specialize (Hop (cond_Zopp sgx (Z.pos a)) (cond_Zopp sgy (Z.pos b))).
  destruct sgx, sgy; cbn [cond_Zopp] in *; lia.
Qed.

Lemma sfadd_bound K x y : -1074 <= K + 1 <= 971 -> sfb K x -> sfb K y -> sfb (K + 2) (SFadd prec emax x y).
Proof.
  intros HK Hx Hy.
  destruct x as [sx|sx| |sx mx ex]; destruct y as [sy|sy| |sy my ey]; cbn [sfb] in Hx, Hy; try contradiction;
    cbn [SFadd].
  - destruct (Bool.eqb sx sy); exact I.
  - apply (sfb_mono K); [lia | exact Hy].
  - apply (sfb_mono K); [lia | exact Hx].
  - apply (sfadd_fin_bound K sx sy mx ex my ey Z.add); try assumption. intros; lia.
Qed.
Lemma sfsub_bound K x y : -1074 <= K + 1 <= 971 -> sfb K x -> sfb K y -> sfb (K + 2) (SFsub prec emax x y).
Proof.
  intros HK Hx Hy.
  destruct x as [sx|sx| |sx mx ex]; destruct y as [sy|sy| |sy my ey]; cbn [sfb] in Hx, Hy; try contradiction;
    cbn [SFsub].
  - destruct (Bool.eqb sx (negb sy)); exact I.
  - apply (sfb_mono K (K + 2) (S754_finite (negb sy) my ey)); [lia | exact Hy].
  - apply (sfb_mono K); [lia | exact Hx].
  - apply (sfadd_fin_bound K sx sy mx ex my ey Z.sub); try assumption. intros; lia.
Qed.

(** division by a finite divisor of magnitude at least 2^L *)
Lemma sfdiv_bound K L x sy my ey : -1074 <= K - L <= 971 -> 0 <= L - ey -> 2 ^ (L - ey) <= Z.pos my ->
  sfb K x -> sfb (K - L + 1) (SFdiv prec emax x (S754_finite sy my ey)).
Proof.
  intros HK HL Hmy Hx. destruct x as [sx|sx| |sx mx ex]; cbn [sfb] in Hx; try contradiction; cbn [SFdiv]; [exact I|].
  unfold SFdiv_core_binary. rewrite fexp64. cbn [Zdigits2].
  set (d1 := Z.pos (digits2_pos mx)). set (d2 := Z.pos (digits2_pos my)).
  set (e' := Z.min (Z.max (d1 + ex - (d2 + ey) - 53) (-1074)) (ex - ey)).
  pose proof (pow_lt_nonneg _ _ (Pos2Z.is_nonneg _) Hx) as HKe.
  pose proof (Zdigits2_le (Z.pos mx) (K - ex) ltac:(lia) Hx) as Hd1. cbn [Zdigits2] in Hd1. fold d1 in Hd1.
  pose proof (digits2_pos_gt my (L - ey) HL Hmy) as Hd2. fold d2 in Hd2.
  assert (He'K : e' <= K - L) by lia.
  assert (Hs : 0 <= ex - ey - e') by lia.
  set (m' := match ex - ey - e' with Z.pos _ => Z.shiftl (Z.pos mx) (ex - ey - e') | 0 => Z.pos mx | Z.neg _ => 0 end).
  assert (Hm' : m' = Z.pos mx * 2 ^ (ex - ey - e')).
  { unfold m'. destruct (ex - ey - e') as [|p|p] eqn:Es; [rewrite Z.pow_0_r; lia | | lia].
    rewrite Z.shiftl_mul_pow2 by lia. reflexivity. }
  pose proof (Z_div_mod m' (Z.pos my) ltac:(lia)) as Hdm.
  destruct (Z.div_eucl m' (Z.pos my)) as [q r]. destruct Hdm as [Hdm Hr].
  assert (Hq0 : 0 <= q) by nia.
  replace (K - L + 1) with ((K - L) + 1) by lia. apply bra_bound; [assumption|]. split; [assumption|].
  replace (K - L - e') with ((K - ey - e') - (L - ey)) by lia.
  apply (pow2_lt_split _ m'); [lia | |].
  - pose proof (pow2_pos (L - ey) HL). nia.
  - rewrite Hm'. replace (K - ey - e') with ((K - ex) + (ex - ey - e')) by lia. rewrite Z.pow_add_r by lia.
    pose proof (pow2_pos (ex - ey - e') Hs). nia.
Qed.

(** ** on primitive floats *)
Definition fb (K : Z) (x : float) : Prop := sfb K (Prim2SF x).

Lemma fb_mono K K' x : K <= K' -> fb K x -> fb K' x.
Proof. apply sfb_mono. Qed.
Lemma fb_mul K1 K2 x y : -1074 <= K1 + K2 <= 971 -> fb K1 x -> fb K2 y -> fb (K1 + K2 + 1) (x * y).
Proof. unfold fb. rewrite mul_spec. apply sfmul_bound. Qed.
Lemma fb_add K x y : -1074 <= K + 1 <= 971 -> fb K x -> fb K y -> fb (K + 2) (x + y).
Proof. unfold fb. rewrite add_spec. apply sfadd_bound. Qed.
Lemma fb_sub K x y : -1074 <= K + 1 <= 971 -> fb K x -> fb K y -> fb (K + 2) (x - y).
Proof. unfold fb. rewrite sub_spec. apply sfsub_bound. Qed.
Lemma fb_div_one K x : -1074 <= K <= 971 -> fb K x -> fb (K + 1) (x / 1).
Proof.
  intros HK Hx. unfold fb. rewrite div_spec.
  change (Prim2SF 1%float) with (S754_finite false 4503599627370496 (-52)).
  replace (K + 1) with (K - 0 + 1) by lia. apply sfdiv_bound; [lia | lia | | exact Hx].
  change (2 ^ (0 - -52)) with 4503599627370496. lia.
Qed.
Lemma fb_zero K : fb K 0.
Proof. exact I. Qed.

(** a bounded double is not a NaN *)
Lemma fb_eqb K x : fb K x -> (x =? x)%float = true.
Proof.
  unfold fb. rewrite eqb_spec. destruct (Prim2SF x) as [s|s| |s m e]; cbn [sfb]; try contradiction; intros _.
  - reflexivity.
  - unfold SFeqb, SFcompare. rewrite Z.compare_refl.
    change (Pos.compare_cont Eq m m) with (Pos.compare m m). rewrite Pos.compare_refl. destruct s; reflexivity.
Qed.

(** _c_bound brings any bounded double back below 2^15 *)
Lemma fb_c_bound K y : fb K y -> fb 15 (c_bound y).
Proof.
  intros Hy. unfold c_bound.
  destruct (32767 <? y)%float eqn:E1.
  { unfold fb. change (Prim2SF 32767%float) with (S754_finite false sat_M (-38)). cbn [sfb]. unfold sat_M.
    change (2 ^ (15 - -38)) with 9007199254740992. lia. }
  destruct (y <? -32767)%float eqn:E2.
  { unfold fb. change (Prim2SF (-32767)%float) with (S754_finite true sat_M (-38)). cbn [sfb]. unfold sat_M.
    change (2 ^ (15 - -38)) with 9007199254740992. lia. }
  rewrite ltb_spec in E1, E2.
  change (Prim2SF 32767%float) with (S754_finite false sat_M (-38)) in E1.
  change (Prim2SF (-32767)%float) with (S754_finite true sat_M (-38)) in E2.
  pose proof (Prim2SF_valid y) as Hv. unfold fb in *.
  destruct (Prim2SF y) as [s|s| |s m e] eqn:Ey; cbn [sfb] in *; try contradiction; [exact I|].
  apply valid_mantissa_bound in Hv.
  assert (He : e <= -38).
  { destruct s.
    - destruct (not_lt_neg _ _ _ _ E2) as [He|[-> _]]; lia.
    - destruct (not_gt_pos _ _ _ _ E1) as [He|[-> _]]; lia. }
  pose proof (pow2_ge (15 - e) 53 ltac:(lia)). lia.
Qed.

(** int16 samples converted to double are below 2^16 (finite domain: all 65536 values) *)
Definition i16 (z : Z) : Prop := -32768 <= z <= 32767.
Lemma z2f_fb_all :
  forallb (fun a => forallb (fun b => sfbb 16 (Prim2SF (z2f (i16_of a b)))) (seq 0 256)) (seq 0 256) = true.
Proof. vm_compute. reflexivity. Qed.
Lemma z2f_fb z : i16 z -> fb 16 (z2f z).
Proof.
  intros H. unfold i16 in H. pose proof z2f_fb_all as HA. rewrite forallb_forall in HA.
  specialize (HA (Z.to_nat ((z + 32768) / 256))). rewrite forallb_forall in HA.
  assert (H1 : 0 <= (z + 32768) / 256 < 256) by (split; [apply Z.div_pos; lia | apply Z.div_lt_upper_bound; lia]).
  assert (H2 : 0 <= (z + 32768) mod 256 < 256) by (apply Z.mod_pos_bound; lia).
  specialize (HA ltac:(apply in_seq; lia) (Z.to_nat ((z + 32768) mod 256)) ltac:(apply in_seq; lia)).
  assert (E : i16_of (Z.to_nat ((z + 32768) / 256)) (Z.to_nat ((z + 32768) mod 256)) = z).
  { unfold i16_of. rewrite !Z2Nat.id by lia. pose proof (Z.div_mod (z + 32768) 256 ltac:(lia)). lia. }
  rewrite E in HA. apply sfbb_sfb. exact HA.
Qed.

(** ** one sample of the ChickenSys recurrence (two B taps, one feedback tap, k = 1) *)
(** the value the kernel computes for one sample before _c_bound: x window [x; a] (newest first),
    y window [v], B = [c0; c1], A = [1; nc2] *)
Definition chick_raw (c0 c1 nc2 x a v : float) : float :=
  ((wdot [c0; c1] [x; a] - wdot [nc2] [v]) / 1)%float.
Lemma iir16_step_finite c0 c1 nc2 x a v : fb 0 c0 -> fb 0 c1 -> fb 0 nc2 ->
  fb 16 x -> fb 16 a -> fb 15 v ->
  fb 24 (chick_raw c0 c1 nc2 x a v) /\ fb 15 (c_bound (chick_raw c0 c1 nc2 x a v)).
Proof.
  intros H0 H1 H2 Hx Ha Hv. unfold chick_raw, wdot. cbn [combine fold_left fst snd].
  pose proof (fb_mul 0 16 c0 x ltac:(lia) H0 Hx) as T1. cbn in T1.
  pose proof (fb_mul 0 16 c1 a ltac:(lia) H1 Ha) as T2. cbn in T2.
  pose proof (fb_mul 0 15 nc2 v ltac:(lia) H2 Hv) as T3. cbn in T3.
  pose proof (fb_add 17 0 (c0 * x) ltac:(lia) (fb_zero 17) T1) as S1. cbn in S1.
  pose proof (fb_add 19 (0 + c0 * x) (c1 * a) ltac:(lia) S1 (fb_mono 17 19 _ ltac:(lia) T2)) as S2. cbn in S2.
  pose proof (fb_add 16 0 (nc2 * v) ltac:(lia) (fb_zero 16) T3) as S3. cbn in S3.
  pose proof (fb_sub 21 _ _ ltac:(lia) S2 (fb_mono 18 21 _ ltac:(lia) S3)) as W. cbn in W.
  pose proof (fb_div_one 23 _ ltac:(lia) W) as Y. cbn in Y.
  split; [exact Y | exact (fb_c_bound 24 _ Y)].
Qed.

(** ** induction over the samples *)
Lemma chick_wloop_inv c0 c1 nc2 : fb 0 c0 -> fb 0 c1 -> fb 0 nc2 ->
  forall l a b v, Forall i16 l -> fb 16 a -> fb 16 b -> fb 15 v ->
    let '(o, xw', yw') := wloop c_bound [c0; c1] [nc2] 1 [a; b] [v] (map z2f l) in
    Forall (fb 15) o /\ (exists a' b', xw' = [a'; b'] /\ fb 16 a' /\ fb 16 b') /\
    (exists v', yw' = [v'] /\ fb 15 v').
Proof.
  intros H0 H1 H2. induction l as [|z t IH]; intros a b v Hl Ha Hb Hv.
  - cbn [map wloop]. split; [constructor|]. split; [exists a, b; auto | exists v; auto].
  - inversion Hl as [|z' t' Hz Ht]; subst. cbn [map wloop]. unfold wpush. cbn [removelast].
    destruct (iir16_step_finite c0 c1 nc2 (z2f z) a v H0 H1 H2 (z2f_fb z Hz) Ha Hv) as [_ Hy]. unfold chick_raw in Hy.
    set (y := c_bound _) in *.
    specialize (IH (z2f z) a y Ht (z2f_fb z Hz) Ha Hy).
    destruct (wloop c_bound [c0; c1] [nc2] 1 [z2f z; a] [y] (map z2f t)) as [[o xw'] yw'].
    destruct IH as (Ho & Hxw & Hyw). split; [constructor; assumption|]. split; assumption.
Qed.

(** filters in the shape of the three ChickenSys IIR presets, in a bounded state *)
Definition chick_state_ok (f : iir) : Prop :=
  i_chick f = true /\
  (exists c0 c1 nc2, i_B f = [c0; c1] /\ i_A f = [1%float; nc2] /\ fb 0 c0 /\ fb 0 c1 /\ fb 0 nc2) /\
  (exists a, i_xprev f = [a] /\ fb 16 a) /\ (exists v, i_yprev f = [v] /\ fb 15 v).

Lemma iir16_block_finite f l y g : chick_state_ok f -> Forall i16 l -> iir_process f (AI l) = Ok (y, g) ->
  chick_state_ok g /\ exists o, y = AI (map c_fix_int o) /\ Forall (fb 15) o.
Proof.
  intros (Hc & (c0 & c1 & nc2 & HB & HA & H0 & H1 & H2) & (a & Hxp & Ha) & (v & Hyp & Hv)) Hl.
  unfold iir_process. rewrite Hc. rewrite iir_core_refines. unfold iir_core_w.
  rewrite HB, HA, Hxp, Hyp.
  destruct (negb (iir_pre [c0; c1] [1%float; nc2] [a] [v])); cbn [bind]; [discriminate|].
  cbn [tl hd app length].
  pose proof (chick_wloop_inv c0 c1 nc2 H0 H1 H2 l a 0%float v Hl Ha (fb_zero 16) Hv) as HI.
  destruct (wloop c_bound [c0; c1] [nc2] 1 [a; 0%float] [v] (map z2f l)) as [[o xw'] yw'].
  destruct HI as (Ho & (a' & b' & -> & Ha' & Hb') & (v' & -> & Hv')).
  cbn [bind firstn]. intros [= <- <-]. split.
  - unfold chick_state_ok, iir_with. cbn [i_chick i_B i_A i_xprev i_yprev].
    split; [assumption|]. split; [exists c0, c1, nc2; auto|]. split; [exists a'; auto | exists v'; auto].
  - exists o. auto.
Qed.

Lemma chick_iir_new_ok c0 c1 c2 : fb 0 c0 -> fb 0 c1 -> fb 0 (- c2)%float -> chick_state_ok (chick_iir c0 c1 c2).
Proof.
  intros H0 H1 H2. unfold chick_state_ok, chick_iir, iir_mk, iir_reset, iir_with.
  cbn [i_chick i_B i_A i_xprev i_yprev length Nat.sub repeat].
  split; [reflexivity|]. split; [exists c0, c1, (- c2)%float; auto|].
  split; [exists 0%float | exists 0%float]; split; reflexivity || apply fb_zero.
Qed.

Lemma preset_iir_ok n f : In n [1; 2; 3] -> preset n = Ok (FI f) -> chick_state_ok f.
Proof.
  intros Hn Hp. destruct Hn as [<-|[<-|[<-|[]]]]; cbn [preset] in Hp; injection Hp as <-;
    apply chick_iir_new_ok; apply sfbb_sfb; vm_compute; reflexivity.
Qed.

Lemma iir16_no_nan_lemma n f l y g : In n [1; 2; 3] -> preset n = Ok (FI f) -> arr_ok (AI l) ->
  iir_process f (AI l) = Ok (y, g) -> Forall (fun v => PrimFloat.eqb v v = true) (i_yprev g).
Proof.
  intros Hn Hp Hl Hr. pose proof (preset_iir_ok n f Hn Hp) as Hok.
  destruct (iir16_block_finite f l y g Hok Hl Hr) as [(_ & _ & _ & (v & -> & Hv)) _].
  constructor; [exact (fb_eqb 15 v Hv) | constructor].
Qed.

(** ... and after ANY history of process / get_remaining / reset_state calls on int16 blocks *)
Definition op_ok (op : fop) : Prop := match op with OProc x => arr_ok x | _ => True end.

Lemma chick_reset_ok f : chick_state_ok f -> chick_state_ok (iir_reset f).
Proof.
  intros (Hc & (c0 & c1 & nc2 & HB & HA & H0 & H1 & H2) & _ & _).
  unfold chick_state_ok, iir_reset, iir_with. cbn [i_chick i_B i_A i_xprev i_yprev]. rewrite HB, HA.
  cbn [length Nat.sub repeat].
  split; [assumption|]. split; [exists c0, c1, nc2; auto|].
  split; [exists 0%float | exists 0%float]; split; reflexivity || apply fb_zero.
Qed.

Lemma chick_run_ops_ok : forall ops f r, chick_state_ok f -> Forall op_ok ops ->
  run_ops (FI f) ops = Ok r -> exists g, snd r = FI g /\ chick_state_ok g.
Proof.
  induction ops as [|op t IH]; intros f r Hf Hops Hr.
  - cbn [run_ops] in Hr. injection Hr as <-. exists f. auto.
  - inversion Hops as [|op' t' Hop Ht]; subst. destruct op as [x| |]; cbn [run_ops filt_process filt_get_remaining filt_reset] in Hr.
    + destruct (iir_process f x) as [[y g]| |] eqn:Ep; cbn [bind fst snd] in Hr; try discriminate.
      destruct x as [lf|l].
      { unfold iir_process in Ep. rewrite (proj1 Hf) in Ep. discriminate. }
      destruct (iir16_block_finite f l y g Hf Hop Ep) as [Hg _].
      destruct (run_ops (FI g) t) as [r2| |] eqn:E2; cbn [bind fst snd] in Hr; try discriminate.
      injection Hr as <-. cbn [snd]. exact (IH g r2 Hg Ht E2).
    + unfold iir_get_remaining in Hr. cbn [bind fst snd] in Hr.
      destruct (run_ops (FI (iir_reset f)) t) as [r2| |] eqn:E2; cbn [bind fst snd] in Hr; try discriminate.
      injection Hr as <-. cbn [snd]. exact (IH _ r2 (chick_reset_ok f Hf) Ht E2).
    + exact (IH _ r (chick_reset_ok f Hf) Ht Hr).
Qed.

Lemma iir16_history_no_nan_lemma n f ops r : In n [1; 2; 3] -> preset n = Ok (FI f) -> Forall op_ok ops ->
  run_ops (FI f) ops = Ok r ->
  exists g, snd r = FI g /\ Forall (fun v => PrimFloat.eqb v v = true) (i_xprev g ++ i_yprev g).
Proof.
  intros Hn Hp Hops Hr. pose proof (preset_iir_ok n f Hn Hp) as Hok.
  destruct (chick_run_ops_ok ops f r Hok Hops Hr) as (g & Hg & (_ & _ & (a & Exa & Ha) & (v & Eyv & Hv))).
  exists g. split; [assumption|]. rewrite Exa, Eyv. cbn [app].
  constructor; [exact (fb_eqb 16 a Ha)|]. constructor; [exact (fb_eqb 15 v Hv) | constructor].
Qed.
