(** Dispatch table of the extracted correspondence driver: each model function wrapped
    as [val -> val].  The harness (harness/model.py) reads the ids and names from the
    comments of [dispatch], so this file is the single registry. *)
From SE Require Import Base Codecs Fat Stream Transcode Cue Names.
From Coq Require Import Floats.PrimFloat Floats.SpecFloat Floats.FloatOps.

(** floats travel as (kind sign mantissa exponent): kind 0 = finite (value = +-m*2^e,
    m > 0), 1 = zero, 2 = infinity, 3 = nan *)
Definition vfloat (f : float) : val :=
  match Prim2SF f with
  | S754_finite s m e => VL [VI 0; vbool s; VI (Z.pos m); VI e]
  | S754_zero s => VL [VI 1; vbool s]
  | S754_infinity s => VL [VI 2; vbool s]
  | S754_nan => VL [VI 3]
  end.
Definition unfloat (v : val) : float :=
  match v with
  | VL [VI 0; VI s; VI (Zpos m); VI e] => SF2Prim (S754_finite (negb (s =? 0)) m e)
  | VL [VI 1; VI s] => SF2Prim (S754_zero (negb (s =? 0)))
  | VL [VI 2; VI s] => SF2Prim (S754_infinity (negb (s =? 0)))
  | _ => SF2Prim S754_nan
  end.

Definition vnote (n : note) : val := VL [VI (degree n); vbool (sharp n); VI (octave n)].
Definition unnote (v : val) : note :=
  match v with
  | VL [VI d; VI s; VI o] => {| degree := d; sharp := negb (s =? 0); octave := o |}
  | _ => {| degree := 0; sharp := false; octave := 0 |}
  end.
Definition vpynum (p : pynum) : val :=
  match p with PInt z => VL [VI 0; VI z] | PFloat f => VL [VI 1; vfloat f] end.
Definition unpynum (v : val) : pynum :=
  match v with
  | VL [VI 0; VI z] => PInt z
  | VL [VI 1; f] => PFloat (unfloat f)
  | _ => PInt 0
  end.

Definition vlink (l : link) : val := VL [VI (lnext l); vbool (lend l)].
Definition unlink (v : val) : link :=
  match v with VL [VI n; VI e] => {| lnext := n; lend := negb (e =? 0) |} | _ => dlink end.
Definition nth_arg (a : val) (n : nat) : val := nth n (unVL a) (VI 0).

Fixpoint unview (fuel : nat) (v : val) : view :=
  match fuel with
  | O => Base
  | S f =>
    match v with
    | VL [VI 1; k; VI size; sub] =>
        let kd := match k with
                  | VL [VI 1; VI off] => KOff off
                  | VL [VI 2; VI L; VL [VI 0]] => KSect L MPlain
                  | VL [VI 2; VI L; VL [VI 1; secs]] => KSect L (MChain (unVLZ secs))
                  | VL [VI 2; VI L; VL [VI 2]] => KSect L MMdf
                  | VL [VI 3; VI w] => KRev w
                  | _ => KWrap
                  end in
        V kd size (unview f sub)
    | _ => Base
    end
  end.
Definition unop (v : val) : op :=
  match v with
  | VL [VI 0; VI off; VI wh] => OSeek off wh
  | VL [VI 2; VI n] => ORead n
  | _ => OTell
  end.
Definition vout (o : out) : val :=
  match o with
  | OutPos p => VL [VI 0; VI p]
  | OutBytes b => VL [VI 1; vlistZ b]
  | OutErr e => VL [VI 2; VI (exn_code e)]
  | OutFuel => VL [VI 3]
  end.

Definition unsrc (v : val) : src :=
  match v with
  | VL [b; VI w; VI c; VI big] => {| sbytes := unVLZ b; swidth := w; schans := c; sbig := negb (big =? 0) |}
  | _ => {| sbytes := []; swidth := 1; schans := 1; sbig := false |}
  end.

Definition vopt (o : option (list Z)) : val := match o with None => VL [VI 0] | Some s => VL [VI 1; vlistZ s] end.
Definition vtrack (t : ctrack) : val :=
  VL [VI (t_num t); vlistZ (t_mode t); vopt (t_title t);
      VL (map (fun i => VL [VI (ix_num i); VI (ix_min i); VI (ix_sec i); VI (ix_frm i)]) (t_indices t))].
Definition vcue (c : cue) : val := VL [vlistZ (c_bin c); VL (map vtrack (c_tracks c))].
Definition vwindow (w : window) : val :=
  VL [vopt (w_title w); VI (w_number w); VI (w_off w); VI (w_size w); VI (w_samples w)].
Definition unlines (v : val) : list (list Z) := map unVLZ (unVL v).

Definition unelems (v : val) : list (list Z * bool) :=
  map (fun e => (unVLZ (nth_arg e 0), negb (unVI (nth_arg e 1) =? 0))) (unVL v).
Definition vnames (l : list (list Z)) : val := VL (map vlistZ l).

Definition dispatch (id : Z) (a : val) : val :=
  match id with
  | 101 (* fast_akai_to_ascii_byte *) => vres VI (fast_akai_to_ascii_byte (unVI a))
  | 102 (* convert_byte_to_akai *) => vres VI (convert_byte (unVI a) ASCII AKAI)
  | 103 (* convert_byte_to_ascii *) => vres VI (convert_byte (unVI a) AKAI ASCII)
  | 104 (* akai_to_ascii *) => vres vlistZ (akai_to_ascii (unVLZ a))
  | 105 (* ascii_to_akai *) => vres vlistZ (ascii_to_akai (unVLZ a))
  | 106 (* from_akai_byte *) => vnote (from_akai_byte (unVI a))
  | 107 (* from_midi_byte *) => vnote (from_midi_byte (unVI a))
  | 108 (* to_akai_byte *) => VI (to_akai_byte (unnote a))
  | 109 (* to_midi_byte *) => VI (to_midi_byte (unnote a))
  | 110 (* note_to_string *) => vlistZ (note_to_string (unnote a))
  | 111 (* note_from_string *) => vres vnote (note_from_string (unVLZ a))
  | 112 (* parse_tune_cents *) => vpynum (parse_tune_cents (unVI a))
  | 113 (* build_tune_cents *) => VI (build_tune_cents (unpynum a))
  | 201 (* get_path *) =>
      vres vlistZ (get_path (unVI (nth_arg a 0)) (map unlink (unVL (nth_arg a 1))) (unVI (nth_arg a 2)))
  | 202 (* add_links *) =>
      vres (fun t => VL (map vlink t)) (add_links (unVLZ (nth_arg a 0)) (map unlink (unVL (nth_arg a 1))))
  | 203 (* akai_decode *) => vres (fun t => VL (map vlink t)) (akai_decode (unVLZ a))
  | 204 (* akai_get_segment *) => vres vlistZ (akai_get_segment (unVLZ (nth_arg a 0)) (unVI (nth_arg a 1)))
  | 205 (* roland_decode *) =>
      vres (fun r => VL [VI (fst r); VL (map vlink (snd r))]) (roland_decode (unVLZ a))
  | 206 (* roland_get_file *) =>
      vres vlistZ (t <- roland_decode (unVLZ (nth_arg a 0)) ;;
                   roland_get_file (zlen (unVLZ (nth_arg a 0))) (snd t) (unVI (nth_arg a 1)) (unVI (nth_arg a 2)))
  | 301 (* run_view *) =>
      let v := unview 16 (nth_arg a 0) in
      VL (map vout (fst (run v (unVLZ (nth_arg a 1)) (init_state v (unVI (nth_arg a 2)))
                            (map unop (unVL (nth_arg a 3))))))
  | 302 (* rev_samples *) => vlistZ (rev_samples (unVI (nth_arg a 0)) (unVLZ (nth_arg a 1)))
  | 401 (* transcode *) =>
      vres vlistZ (transcode (unVI (nth_arg a 0)) (map unsrc (unVL (nth_arg a 1)))
                             (unVI (nth_arg a 2)) (unVI (nth_arg a 3)))
  | 501 (* parse_cue_sheet *) => vres vcue (parse_cue_sheet (unlines a))
  | 502 (* cue_route_windows *) =>
      vres (fun c => VL [VI (match cue_route c with RSampler => 0 | RCdda => 1 end);
                         VL (map vwindow (cdda_windows c (unVI (nth_arg a 1))))])
           (parse_cue_sheet (unlines (nth_arg a 0)))
  | 503 (* track_pcm *) =>
      vlistZ (track_pcm (unVLZ (nth_arg a 0))
                {| w_title := None; w_number := 0; w_off := unVI (nth_arg a 1); w_size := unVI (nth_arg a 2); w_samples := 0 |})
  | 504 (* is_ascii_text *) => vbool (is_ascii_text (unVLZ a))
  | 601 (* make_safe_name *) => vlistZ (make_safe_name (unVLZ a))
  | 602 (* make_export_name *) => vlistZ (make_export_name (unVLZ (nth_arg a 0)) (negb (unVI (nth_arg a 1) =? 0)))
  | 603 (* add_count *) => vlistZ (add_count (unVLZ (nth_arg a 0)) (unVI (nth_arg a 1)))
  | 604 (* stereo_match *) =>
      match stereo_match (unVLZ a) with
      | Some m => VL [VI 1; vlistZ (st_stem m); vlistZ (st_sep m); VI (st_side m)]
      | None => VL [VI 0]
      end
  | 605 (* make_safe_names *) => vres vnames (make_safe_names (unelems a))
  | 606 (* make_export_names *) => vres vnames (make_export_names (unelems a))
  | 607 (* combine_stereo *) =>
      VL (map (fun p => VL [vlistZ (fst p); vlistZ (map Z.of_nat (snd p))]) (combine_stereo (unlines a)))
  | 608 (* path_tokens *) => vnames (path_tokens (unVLZ a))
  | 609 (* sanitize_token *) => vlistZ (sanitize_token (negb (unVI (nth_arg a 0) =? 0)) (unVLZ (nth_arg a 1)))
  | _ => vbad
  end.
