(** Dispatch table of the extracted correspondence driver: each model function wrapped
    as [val -> val].  The harness (harness/model.py) reads the ids and names from the
    comments of the dispatch tables in coq/Driver*.v, so these files are the single registry.
    Per-property tables live in DriverCxx.v ([dispatch_cxx : Z -> val -> option val], None for
    an id they do not own) and are chained in [dispatch] below. *)
From SE Require Import Base Codecs Fat Stream Transcode Cue Names AkaiImage CddaImage Container StreamProofs DriverBase.
From SE Require DriverC20 DriverC04 DriverC19 DriverC02 DriverC15 DriverC14.

(** CDDA whole-image model (CddaImage.v): a routed result is (0 bin-name) for a sheet handed to
    the sampler readers, (1 payload) for a CDDA image; a plan file is (path rate channels off len) *)
Definition vrouted {A} (f : A -> val) (r : routed A) : val :=
  match r with ToSampler b => VL [VI 0; vlistZ b] | ToCdda x => VL [VI 1; f x] end.
Definition vplan (p : planfile) : val :=
  VL [VL (map vlistZ (pf_path p)); VI (pf_rate p); VI (pf_channels p); VI (pf_off p); VI (pf_len p)].

Definition dispatch_core (id : Z) (a : val) : option val :=
  Some (
  match id with
  | 101 (* fast_akai_to_ascii_byte *) => vres VI (fast_akai_to_ascii_byte (unVI a))
  | 102 (* convert_byte_to_akai *) => vres VI (convert_byte (unVI a) ASCII AKAI)
  | 103 (* convert_byte_to_ascii *) => vres VI (convert_byte (unVI a) AKAI ASCII)
  | 104 (* akai_to_ascii *) => vres vlistZ (akai_to_ascii (unVLZ a))
  | 105 (* ascii_to_akai *) => vres vlistZ (ascii_to_akai (unVLZ a))
  | 106 (* from_akai_byte *) => vnote (from_akai_byte (unVI a))
  | 107 (* from_midi_byte *) => vnote (from_midi_byte (unVI a))
  | 108 (* to_akai_byte *) => VI (to_akai_byte (unnote a))
  | 109 (* to_midi_byte *) => VI (to_midi_byte (unnote a))
  | 110 (* note_to_string *) => vlistZ (note_to_string (unnote a))
  | 111 (* note_from_string *) => vres vnote (note_from_string (unVLZ a))
  | 112 (* parse_tune_cents *) => vpynum (parse_tune_cents (unVI a))
  | 113 (* build_tune_cents *) => VI (build_tune_cents (unpynum a))
  | 201 (* get_path *) =>
      vres vlistZ (get_path (unVI (nth_arg a 0)) (map unlink (unVL (nth_arg a 1))) (unVI (nth_arg a 2)))
  | 202 (* add_links *) =>
      vres (fun t => VL (map vlink t)) (add_links (unVLZ (nth_arg a 0)) (map unlink (unVL (nth_arg a 1))))
  | 203 (* akai_decode *) => vres (fun t => VL (map vlink t)) (akai_decode (unVLZ a))
  | 204 (* akai_get_segment *) => vres vlistZ (akai_get_segment (unVLZ (nth_arg a 0)) (unVI (nth_arg a 1)))
  | 205 (* roland_decode *) =>
      vres (fun r => VL [VI (fst r); VL (map vlink (snd r))]) (roland_decode (unVLZ a))
  | 206 (* roland_get_file *) =>
      vres vlistZ (t <- roland_decode (unVLZ (nth_arg a 0)) ;;
                   roland_get_file (zlen (unVLZ (nth_arg a 0))) (snd t) (unVI (nth_arg a 1)) (unVI (nth_arg a 2)))
  | 301 (* run_view *) =>
      let v := unview 16 (nth_arg a 0) in
      VL (map vout (fst (run v (unVLZ (nth_arg a 1)) (init_state v (unVI (nth_arg a 2)))
                            (map unop (unVL (nth_arg a 3))))))
  | 302 (* rev_samples *) => vlistZ (rev_samples (unVI (nth_arg a 0)) (unVLZ (nth_arg a 1)))
  | 401 (* transcode *) =>
      vres vlistZ (transcode (unVI (nth_arg a 0)) (map unsrc (unVL (nth_arg a 1)))
                             (unVI (nth_arg a 2)) (unVI (nth_arg a 3)))
  | 501 (* parse_cue_sheet *) => vres vcue (parse_cue_sheet (unlines a))
  | 502 (* cue_route_windows *) =>
      vres (fun c => VL [VI (match cue_route c with RSampler => 0 | RCdda => 1 end);
                         VL (map vwindow (cdda_windows c (unVI (nth_arg a 1))))])
           (parse_cue_sheet (unlines (nth_arg a 0)))
  | 503 (* track_pcm *) =>
      vlistZ (track_pcm (unVLZ (nth_arg a 0))
                {| w_title := None; w_number := 0; w_off := unVI (nth_arg a 1); w_size := unVI (nth_arg a 2); w_samples := 0 |})
  | 504 (* is_ascii_text *) => vbool (is_ascii_text (unVLZ a))
  | 601 (* make_safe_name *) => vlistZ (make_safe_name (unVLZ a))
  | 602 (* make_export_name *) => vlistZ (make_export_name (unVLZ (nth_arg a 0)) (negb (unVI (nth_arg a 1) =? 0)))
  | 603 (* add_count *) => vlistZ (add_count (unVLZ (nth_arg a 0)) (unVI (nth_arg a 1)))
  | 604 (* stereo_match *) =>
      match stereo_match (unVLZ a) with
      | Some m => VL [VI 1; vlistZ (st_stem m); vlistZ (st_sep m); VI (st_side m)]
      | None => VL [VI 0]
      end
  | 605 (* make_safe_names *) => vres vnames (make_safe_names (unelems a))
  | 606 (* make_export_names *) => vres vnames (make_export_names (unelems a))
  | 607 (* combine_stereo *) =>
      VL (map (fun p => VL [vlistZ (fst p); vlistZ (map Z.of_nat (snd p))]) (combine_stereo (unlines a)))
  | 608 (* path_tokens *) => vnames (path_tokens (unVLZ a))
  | 609 (* sanitize_token *) => vlistZ (sanitize_token (negb (unVI (nth_arg a 0) =? 0)) (unVLZ (nth_arg a 1)))
  | 610 (* parse_path *) =>
      match parse_path (negb (unVI (nth_arg a 0) =? 0)) (untree 32 (nth_arg a 1)) (unVLZ (nth_arg a 2)) with
      | Some p => VL [VI 1; vlistZ (map Z.of_nat p)]
      | None => VL [VI 0]
      end
  | 620 (* akai_export *) => vres (fun l => VL (map vwav l)) (akai_export (unimg a))
  | 621 (* akai_listing *) =>
      vres (fun l => VL (map (fun p => VL [vlistZ (fst p);
                 VL (map (fun v => VL [vlistZ (fst v); VL (map vlistZ (snd v))]) (snd p))]) l))
           (akai_listing (unimg a))
  | 640 (* cdda_export *) =>
      vres (fun l => VL (map vwav l)) (cdda_export (unlines (nth_arg a 0)) (unVLZ (nth_arg a 1)))
  | 641 (* cdda_export_plan *) =>
      vres (vrouted (fun l => VL (map vplan l))) (cue_export_plan (unlines (nth_arg a 0)) (unVI (nth_arg a 1)))
  | 642 (* cdda_listing *) =>
      vres (vrouted vnames) (cdda_listing (unlines (nth_arg a 0)) (unVI (nth_arg a 1)))
  | 643 (* cue_export *) =>
      vres (vrouted (fun l => VL (map vwav l))) (cue_export (unlines (nth_arg a 0)) (unVLZ (nth_arg a 1)))
  | 630 (* detect_container *) =>
      VI (match detect (unVLZ a) with CMdf => 1 | CMdx => 2 | CRaw => 0 end)
  | 631 (* wrap_2352 *) => vlistZ (wrap_2352 (unVLZ a))
  | 632 (* wrap_mdx *) => vlistZ (wrap_mdx (unVLZ a))
  | 633 (* container_logical *) => vlistZ (logical (container_view (unVLZ a)) (unVLZ a))
  | _ => vbad
  end).


Definition owns_core (id : Z) : bool := id <? 700.
Definition exts : list (Z -> val -> option val) := [DriverC20.dispatch_c20; DriverC04.dispatch_c04; DriverC19.dispatch_c19; DriverC02.dispatch_c02; DriverC15.dispatch_c15; DriverC14.dispatch_c14].
Fixpoint first_some (l : list (Z -> val -> option val)) (id : Z) (a : val) : val :=
  match l with
  | [] => vbad
  | f :: t => match f id a with Some v => v | None => first_some t id a end
  end.
Definition dispatch (id : Z) (a : val) : val :=
  if owns_core id then match dispatch_core id a with Some v => v | None => vbad end
  else first_some exts id a.
