(** Dispatch table of property C14, Roland S-7xx sample records (RolandEntries.v): ids 880-889. *)
From SE Require Import Base Codecs Fat Stream Roland RolandEntries DriverBase.

(** geometry: (max dbase pbase fat nfat L doff); anything else = the format's *)
Definition unlayout (v : val) : rlayout :=
  match unVLZ v with
  | [m; d; p; f; n; l; o] =>
      {| ly_max := m; ly_dbase := d; ly_pbase := p; ly_fat := f; ly_nfat := n; ly_L := l; ly_doff := o |}
  | _ => real_layout
  end.
Definition vpoints (p : rpoints) : val :=
  vlistZ [p_start p; p_sus_start p; p_sus_end p; p_rel_start p; p_rel_end p].
Definition ventry (e : sentry) : val :=
  let d := se_dir e in let p := se_par e in
  VL [VI (se_index e);
      VL [vlistZ (de_name d); VI (de_type d); VI (de_attr d); VI (de_fat_entry d); VI (de_nclusters d)];
      VL [vlistZ (sp_name p); vpoints (sp_points p); vlistZ (sp_fines p); VI (sp_mode p);
          VI (sp_sus_enable p); VI (sp_sus_tune p); VI (sp_rel_tune p);
          VI (sp_cluster_top p); VI (sp_nclusters p); VI (sp_sample_mode p); VI (sp_freq p);
          vnote (sp_key p)]].
(** a link table given by its size and the entries that differ from SectorLink():
    (N ((index next end) ...)) *)
Definition unsparse_links (v : val) : Z * list link :=
  let N := unVI (nth_arg v 0) in
  (N, fold_left (fun t x => upd t (unVI (nth_arg x 0))
                              {| lnext := unVI (nth_arg x 1); lend := negb (unVI (nth_arg x 2) =? 0) |})
                (unVL (nth_arg v 1)) (repeat dlink (Z.to_nat N))).

Definition dispatch_c14 (id : Z) (a : val) : option val :=
  match id with
  | 880 (* roland_sample_entry *) =>
      (* geometry, image, index list: SampleEntryReferenceAdapter + SampleEntryConstruct of each *)
      let ly := unlayout (nth_arg a 0) in let img := unVLZ (nth_arg a 1) in
      Some (VL (map (fun i => vres ventry (parse_sample_entry ly img i)) (unVLZ (nth_arg a 2))))
  | 881 (* roland_record_offsets *) =>
      Some (VL [VI (dir_rec_offset real_layout (unVI a)); VI (par_rec_offset real_layout (unVI a));
                VI DIR_REC; VI PAR_REC])
  | 882 (* roland_entries_of *) =>
      (* geometry, sparse link table, image, index list: the tolerant loop with get_file *)
      let nl := unsparse_links (nth_arg a 1) in
      Some (vres (fun l => VL (map (fun x => VL [ventry (fst x); vlistZ (snd x)]) l))
                 (entries_of (unlayout (nth_arg a 0)) (fst nl) (snd nl) (unVLZ (nth_arg a 2)) (unVLZ (nth_arg a 3))))
  | 883 (* roland_entries_img *) =>
      (* whole image (sparse encoding), index list: each reference at the format's addresses *)
      let img := unimg (nth_arg a 0) in
      Some (VL (map (fun i => vres ventry (parse_sample_entry real_layout img i)) (unVLZ (nth_arg a 1))))
  | 884 (* roland_dir_record *) =>
      Some (vres (fun d => VL [vlistZ (de_name d); VI (de_type d); VI (de_attr d); VI (de_fat_entry d); VI (de_nclusters d)])
                 (parse_dir_record (unVLZ a)))
  | 885 (* roland_padded_ascii *) => Some (vres vlistZ (padded_ascii (unVLZ a)))
  | _ => None
  end.
