(** Model of the block loops of smpl_extract/transcoder.py (PassthroughTranscoder.__next__,
    PipelineTranscoder.__next__ / decode_frame) over STREAMS, i.e. over the byte-window views
    of Stream.v rather than over byte lists (Transcode.v), so that what a short base file does
    to the exported PCM can be stated.  No proofs here (TruncProofs.v). *)
From SE Require Import Base Stream Transcode.

(** the image file cut off after its first [c] bytes *)
Definition cut_at (c : Z) (content : list Z) : list Z := firstn (Z.to_nat c) content.

(** One data stream drained block by block:
      try: buffer = stream.read(buffer_size)
      except SectorReadError: raise StopIteration
      buffer = resize_buffer(buffer, frame_size)
      if len(buffer) <= 0: raise StopIteration
      return buffer                                   (PassthroughTranscoder)
    [enc] is what is done to a non-empty whole-frame block before it is written: the identity
    for the passthrough transcoder, decode / byte-swap / encode for a one-stream pipeline
    (PipelineTranscoder stops in the same two cases: SectorReadError, or an empty channel).
    Any other exception propagates. *)
Fixpoint drain (fuel : nat) (enc : list Z -> list Z) (v : view) (content : list Z) (s : vstate)
         (bs fs : Z) (acc : list Z) : res (list Z) * vstate :=
  match fuel with
  | O => (OutOfFuel, s)
  | S f =>
      let '(r, s1) := v_read v content s bs in
      match r with
      | Err SectorReadError => (Ok acc, s1)
      | Err e => (Err e, s1)
      | OutOfFuel => (OutOfFuel, s1)
      | Ok b =>
          match resize_buffer b fs with
          | [] => (Ok acc, s1)
          | buf => drain f enc v content s1 bs fs (acc ++ enc buf)
          end
      end
  end.

(** fuel that always suffices from state [s] (TruncProofs.drain_terminates) *)
Definition drain_fuel (v : view) (content : list Z) (s : vstate) (bs : Z) : nat :=
  S (S (Z.to_nat ((vsize v content - v_tell s) / bs))).

(** Several data streams drained together (decode_frame reads one block of every stream, in
    order; PipelineTranscoder stops when any of these reads raises SectorReadError - the
    blocks already read in this round are dropped - or when any channel of the round is
    empty).  A stream: its view, its state, its block size and its frame size. *)
Record strm := { sv : view; sst : vstate; sbs : Z; sfs : Z }.
Definition with_state (x : strm) (s : vstate) : strm :=
  {| sv := sv x; sst := s; sbs := sbs x; sfs := sfs x |}.

(** The streams of one export are views over the same file object and may share further
    ancestors: between two reads of one stream the others move the shared cursors.  [pre]
    stands for what they did: it may replace the state of the ancestors by anything
    (TruncProofs.pre_ok: the stream's own position stays, the state stays good); the identity
    when nothing is shared. *)
Fixpoint read_round (pre : view -> vstate -> vstate) (content : list Z) (ss : list strm)
  : res (list (list Z)) * list strm :=
  match ss with
  | [] => (Ok [], [])
  | x :: rest =>
      let '(r, s1) := v_read (sv x) content (pre (sv x) (sst x)) (sbs x) in
      match r with
      | Ok b =>
          let '(rr, rest') := read_round pre content rest in
          (match rr with
           | Ok bl => Ok (resize_buffer b (sfs x) :: bl)
           | Err e => Err e
           | OutOfFuel => OutOfFuel
           end, with_state x s1 :: rest')
      | Err e => (Err e, with_state x s1 :: rest)
      | OutOfFuel => (OutOfFuel, with_state x s1 :: rest)
      end
  end.

Definition is_nil {A} (l : list A) : bool := match l with [] => true | _ => false end.

(** [enc] : the blocks of one round (one whole-frame buffer per stream) to output bytes
    (pad_channels + encode_frame) *)
Fixpoint drain_many (fuel : nat) (pre : nat -> view -> vstate -> vstate) (enc : list (list Z) -> list Z)
         (content : list Z) (ss : list strm) (acc : list Z) : res (list Z) * list strm :=
  match fuel with
  | O => (OutOfFuel, ss)
  | S f =>
      let '(r, ss1) := read_round (pre f) content ss in
      match r with
      | Err SectorReadError => (Ok acc, ss1)
      | Err e => (Err e, ss1)
      | OutOfFuel => (OutOfFuel, ss1)
      | Ok bl =>
          if existsb is_nil bl then (Ok acc, ss1)
          else drain_many f pre enc content ss1 (acc ++ enc bl)
      end
  end.

(** fuel that always suffices for [drain_many]: the rounds of the first stream *)
Definition many_fuel (content : list Z) (ss : list strm) : nat :=
  match ss with
  | [] => 1%nat
  | x :: _ => drain_fuel (sv x) content (sst x) (sbs x)
  end.
