(** Marshalling helpers shared by the dispatch tables of the extracted correspondence driver. *)
From SE Require Import Base Codecs Fat Stream Transcode Cue Names AkaiImage.
From Coq Require Import Floats.PrimFloat Floats.SpecFloat Floats.FloatOps.

(** floats travel as (kind sign mantissa exponent): kind 0 = finite (value = +-m*2^e,
    m > 0), 1 = zero, 2 = infinity, 3 = nan *)
Definition vfloat (f : float) : val :=
  match Prim2SF f with
  | S754_finite s m e => VL [VI 0; vbool s; VI (Z.pos m); VI e]
  | S754_zero s => VL [VI 1; vbool s]
  | S754_infinity s => VL [VI 2; vbool s]
  | S754_nan => VL [VI 3]
  end.
Definition unfloat (v : val) : float :=
  match v with
  | VL [VI 0; VI s; VI (Zpos m); VI e] => SF2Prim (S754_finite (negb (s =? 0)) m e)
  | VL [VI 1; VI s] => SF2Prim (S754_zero (negb (s =? 0)))
  | VL [VI 2; VI s] => SF2Prim (S754_infinity (negb (s =? 0)))
  | _ => SF2Prim S754_nan
  end.

Definition vnote (n : note) : val := VL [VI (degree n); vbool (sharp n); VI (octave n)].
Definition unnote (v : val) : note :=
  match v with
  | VL [VI d; VI s; VI o] => {| degree := d; sharp := negb (s =? 0); octave := o |}
  | _ => {| degree := 0; sharp := false; octave := 0 |}
  end.
Definition vpynum (p : pynum) : val :=
  match p with PInt z => VL [VI 0; VI z] | PFloat f => VL [VI 1; vfloat f] end.
Definition unpynum (v : val) : pynum :=
  match v with
  | VL [VI 0; VI z] => PInt z
  | VL [VI 1; f] => PFloat (unfloat f)
  | _ => PInt 0
  end.

Definition vlink (l : link) : val := VL [VI (lnext l); vbool (lend l)].
Definition unlink (v : val) : link :=
  match v with VL [VI n; VI e] => {| lnext := n; lend := negb (e =? 0) |} | _ => dlink end.
Definition nth_arg (a : val) (n : nat) : val := nth n (unVL a) (VI 0).

Fixpoint unview (fuel : nat) (v : val) : view :=
  match fuel with
  | O => Base
  | S f =>
    match v with
    | VL [VI 1; k; VI size; sub] =>
        let kd := match k with
                  | VL [VI 1; VI off] => KOff off
                  | VL [VI 2; VI L; VL [VI 0]] => KSect L MPlain
                  | VL [VI 2; VI L; VL [VI 1; secs]] => KSect L (MChain (unVLZ secs))
                  | VL [VI 2; VI L; VL [VI 2]] => KSect L MMdf
                  | VL [VI 3; VI w] => KRev w
                  | _ => KWrap
                  end in
        V kd size (unview f sub)
    | _ => Base
    end
  end.
Definition unop (v : val) : op :=
  match v with
  | VL [VI 0; VI off; VI wh] => OSeek off wh
  | VL [VI 2; VI n] => ORead n
  | _ => OTell
  end.
Definition vout (o : out) : val :=
  match o with
  | OutPos p => VL [VI 0; VI p]
  | OutBytes b => VL [VI 1; vlistZ b]
  | OutErr e => VL [VI 2; VI (exn_code e)]
  | OutFuel => VL [VI 3]
  end.

Definition unsrc (v : val) : src :=
  match v with
  | VL [b; VI w; VI c; VI big] => {| sbytes := unVLZ b; swidth := w; schans := c; sbig := negb (big =? 0) |}
  | _ => {| sbytes := []; swidth := 1; schans := 1; sbig := false |}
  end.

Definition vopt (o : option (list Z)) : val := match o with None => VL [VI 0] | Some s => VL [VI 1; vlistZ s] end.
Definition vtrack (t : ctrack) : val :=
  VL [VI (t_num t); vlistZ (t_mode t); vopt (t_title t);
      VL (map (fun i => VL [VI (ix_num i); VI (ix_min i); VI (ix_sec i); VI (ix_frm i)]) (t_indices t))].
Definition vcue (c : cue) : val := VL [vlistZ (c_bin c); VL (map vtrack (c_tracks c))].
Definition vwindow (w : window) : val :=
  VL [vopt (w_title w); VI (w_number w); VI (w_off w); VI (w_size w); VI (w_samples w)].
Definition unlines (v : val) : list (list Z) := map unVLZ (unVL v).

Definition unelems (v : val) : list (list Z * bool) :=
  map (fun e => (unVLZ (nth_arg e 0), negb (unVI (nth_arg e 1) =? 0))) (unVL v).
Definition vnames (l : list (list Z)) : val := VL (map vlistZ l).


Fixpoint untree (fuel : nat) (v : val) : tree :=
  match fuel with
  | O => Leaf
  | S f =>
    match v with
    | VL [VI 1; VL ch] => Dir (map (fun c => (unVLZ (nth 0 (unVL c) (VI 0)), untree f (nth 1 (unVL c) (VI 0)))) ch)
    | _ => Leaf
    end
  end.

(** a (large, mostly zero) image travels as (len (off (bytes...)) (off (bytes...)) ...) with
    increasing, non-overlapping runs *)
Fixpoint build_img (runs : list val) (pos len : Z) : list Z :=
  match runs with
  | [] => zrepeat 0 (len - pos)
  | r :: t =>
      let off := unVI (nth 0 (unVL r) (VI 0)) in
      let bs := unVLZ (nth 1 (unVL r) (VI 0)) in
      zrepeat 0 (off - pos) ++ bs ++ build_img t (off + zlen bs) len
  end.
Definition unimg (v : val) : list Z :=
  match unVL v with
  | VI len :: runs => build_img runs 0 len
  | _ => []
  end.
Definition vwav (w : wavfile) : val :=
  VL [VL (map vlistZ (w_path w)); VI (w_rate w); VI (w_channels w); vlistZ (w_pcm w)].
