(** More proofs about the naming code's model (Names.v):
    - T1: replacing ONE sibling's candidate name leaves every other sibling's assigned name
      unchanged unless the old or new name collides (sanitize_names);
    - T2: every collision among the output names of combine_stereo involves a merged pair;
    - T3: the lookup keys (strip) of the names make_safe_names hands out are pairwise
      distinct, in general;
    - T4: the same under the AKAI image's normalisation for names over the AKAI alphabet. *)
From SE Require Import Base Codecs Cue Names NamesProofs PairProofs PathProofs.
From Coq Require Import Permutation.

(** * Small helpers *)
Lemma str_eqb_neq a b : str_eqb a b = false <-> a <> b.
Proof.
  destruct (str_eqb a b) eqn:E.
  - apply str_eqb_eq in E. split; [discriminate|congruence].
  - split; [|reflexivity]. intros _ Hc. apply str_eqb_eq in Hc. congruence.
Qed.
Lemma count_occ_name_app n a b :
  count_occ_name n (a ++ b) = (count_occ_name n a + count_occ_name n b)%nat.
Proof. unfold count_occ_name. now rewrite filter_app, app_length. Qed.
Lemma distribute_length : forall cands tbl, length (distribute cands tbl) = length cands.
Proof.
  induction cands as [|x t IH]; intros tbl; cbn [distribute]; [reflexivity|].
  destruct (pop_assigned x tbl) as [[v tbl']|]; cbn [length]; now rewrite IH.
Qed.

(** the candidate-level core of sanitize_names *)
Definition sanitize_cands (cands : list (list Z)) : res (list (list Z)) :=
  let groups := distinct_first cands [] in
  tbl <- assign_all groups cands groups ;;
  Ok (distribute cands tbl).
Lemma sanitize_names_cands f elems :
  sanitize_names f elems = sanitize_cands (map (fun e => f (fst e) (snd e)) elems).
Proof. reflexivity. Qed.

(** * T1: one candidate replaced - a simulation between the two runs *)
Section OneChange.
Context (c c' : list Z).

(** related names: the same name (different from both [c] and [c']), or [c] against [c'] *)
Definition erel (x x' : list Z) : Prop := (x = x' /\ x <> c /\ x <> c') \/ (x = c /\ x' = c').
Definition lrel := Forall2 erel.
(** related taken-sets: same size, same members apart from [c] / [c'] *)
Definition trel (t t' : list (list Z)) : Prop :=
  length t = length t' /\ forall x, x <> c -> x <> c' -> (In x t <-> In x t').

Lemma erel_eqb x x' y y' : erel x x' -> erel y y' -> str_eqb x y = str_eqb x' y'.
Proof.
  intros [(-> & Hx1 & Hx2)|(-> & ->)] [(-> & Hy1 & Hy2)|(-> & ->)].
  - reflexivity.
  - transitivity false; [apply str_eqb_neq; assumption|symmetry; apply str_eqb_neq; assumption].
  - transitivity false; [apply str_eqb_neq; congruence|symmetry; apply str_eqb_neq; congruence].
  - now rewrite !str_eqb_refl.
Qed.
Lemma lrel_in_names x x' l l' : erel x x' -> lrel l l' -> in_names x l = in_names x' l'.
Proof.
  intros Hx H. induction H as [|y y' l l' Hy _ IH]; [reflexivity|].
  unfold in_names in *. cbn [existsb]. now rewrite IH, (erel_eqb _ _ _ _ Hx Hy).
Qed.
Lemma lrel_count x x' l l' : erel x x' -> lrel l l' -> count_occ_name x l = count_occ_name x' l'.
Proof.
  intros Hx H. induction H as [|y y' l l' Hy _ IH]; [reflexivity|].
  now rewrite !count_occ_name_cons, IH, (erel_eqb _ _ _ _ Hx Hy).
Qed.
Lemma lrel_length l l' : lrel l l' -> length l = length l'.
Proof. intros H. induction H; cbn [length]; congruence. Qed.
Lemma lrel_distinct_first : forall l l', lrel l l' -> forall seen seen', lrel seen seen' ->
  lrel (distinct_first l seen) (distinct_first l' seen').
Proof.
  intros l l' H. induction H as [|x x' l l' Hx _ IH]; intros seen seen' Hs; cbn [distinct_first]; [constructor|].
  rewrite (lrel_in_names _ _ _ _ Hx Hs). destruct (in_names x' seen').
  - now apply IH.
  - constructor; [assumption|]. apply IH. apply Forall2_app; [assumption|]. constructor; [assumption|constructor].
Qed.
Lemma lrel_trel l l' : lrel l l' -> trel l l'.
Proof.
  intros H. split; [now apply lrel_length|]. intros x H1 H2.
  induction H as [|y y' l l' Hy _ IH]; [reflexivity|]. cbn [In]. rewrite IH.
  destruct Hy as [(-> & _ & _)|(-> & ->)]; [reflexivity|]. split; intros [Hc|Hc]; try congruence; now right.
Qed.

Lemma trel_in_names n t t' : trel t t' -> n <> c -> n <> c' -> in_names n t = in_names n t'.
Proof.
  intros [_ H] H1 H2. specialize (H n H1 H2).
  destruct (in_names n t) eqn:E1, (in_names n t') eqn:E2; try reflexivity.
  - apply in_names_In in E1. apply in_names_false in E2. tauto.
  - apply in_names_In in E2. apply in_names_false in E1. tauto.
Qed.
Lemma trel_add_taken n t t' : trel t t' -> n <> c -> n <> c' -> trel (add_taken n t) (add_taken n t').
Proof.
  intros H H1 H2. pose proof (trel_in_names n t t' H H1 H2) as E. destruct H as [HL HI].
  unfold add_taken. rewrite <- E. destruct (in_names n t); [split; assumption|].
  split; [rewrite !app_length; cbn [length]; lia|].
  intros x Hx1 Hx2. rewrite !in_app_iff. rewrite (HI x Hx1 Hx2). reflexivity.
Qed.

(** the inner loop looks up only counted forms of the group's name *)
Lemma free_name_sim : forall fuel g i j t t',
  trel t t' -> (forall i', i <= i' -> add_count g i' <> c /\ add_count g i' <> c') ->
  free_name fuel g i j t = free_name fuel g i j t'.
Proof.
  induction fuel as [|f IH]; intros g i j t t' Ht Hg; [reflexivity|]. cbn [free_name].
  destruct (Hg i ltac:(lia)) as [H1 H2]. rewrite (trel_in_names _ _ _ Ht H1 H2).
  destruct Ht as [HL HI]. unfold zlen. rewrite HL.
  rewrite (IH g (i + 1) (j + 1) t t'); [reflexivity|split; assumption|intros i' Hi'; apply Hg; lia].
Qed.

Definition grel (r r' : res (list (list Z) * list (list Z))) : Prop :=
  match r, r' with
  | Ok (a, t), Ok (a', t') => a = a' /\ trel t t'
  | Err e, Err e' => e = e'
  | OutOfFuel, OutOfFuel => True
  | _, _ => False
  end.
Lemma assign_group_sim : forall members fuel g i first t t' acc,
  trel t t' -> g <> c -> g <> c' ->
  (forall i', 2 <= i' -> add_count g i' <> c /\ add_count g i' <> c') ->
  (first = false -> 1 <= i) ->
  grel (assign_group fuel members g i first t acc) (assign_group fuel members g i first t' acc).
Proof.
  induction members as [|m IH]; intros fuel g i first t t' acc Ht H1 H2 Hg Hi; cbn [assign_group].
  - split; [reflexivity|assumption].
  - destruct first.
    + apply IH; auto; [now apply trel_add_taken|intros _; lia].
    + specialize (Hi eq_refl).
      rewrite (free_name_sim fuel g (i + 1) 0 t t' Ht) by (intros i' Hi'; apply Hg; lia).
      destruct (free_name fuel g (i + 1) 0 t') as [[nn i']| |] eqn:EF; cbn [bind grel]; auto.
      cbn [fst snd]. apply free_name_shape in EF as [E1 E2].
      destruct (Hg i' ltac:(lia)) as [N1 N2]. rewrite <- E2 in N1, N2.
      apply IH; auto; [now apply trel_add_taken|intros _; lia].
Qed.

(** related tables: the same entry (key neither [c] nor [c']), or the singleton entries of
    [c] and [c'] (still holding their name, or both already popped) *)
Definition tbl_erel (e e' : list Z * list (list Z)) : Prop :=
  (e = e' /\ fst e <> c /\ fst e <> c')
  \/ (fst e = c /\ fst e' = c' /\ ((snd e = [c] /\ snd e' = [c']) \/ (snd e = [] /\ snd e' = []))).
Definition arel (r r' : res (list (list Z * list (list Z)))) : Prop :=
  match r, r' with
  | Ok tb, Ok tb' => Forall2 tbl_erel tb tb'
  | Err e, Err e' => e = e'
  | OutOfFuel, OutOfFuel => True
  | _, _ => False
  end.
Lemma assign_all_sim : forall groups groups', lrel groups groups' ->
  forall cands cands' t t', lrel cands cands' -> trel t t' ->
  count_occ_name c cands = 1%nat ->
  (forall g, In g groups -> count_occ_name g cands <> 1%nat ->
     forall i, 2 <= i -> add_count g i <> c /\ add_count g i <> c') ->
  arel (assign_all groups cands t) (assign_all groups' cands' t').
Proof.
  intros groups groups' H. induction H as [|g g' groups groups' Hg _ IH];
    intros cands cands' t t' Hc Ht Hc1 Hcnt; cbn [assign_all]; [constructor|].
  rewrite <- (lrel_count _ _ _ _ Hg Hc).
  assert (Hcnt' : forall g0, In g0 groups -> count_occ_name g0 cands <> 1%nat ->
            forall i, 2 <= i -> add_count g0 i <> c /\ add_count g0 i <> c').
  { intros g0 H0. apply Hcnt. now right. }
  destruct (Nat.eqb_spec (count_occ_name g cands) 1) as [Hk|Hk].
  - specialize (IH cands cands' t t' Hc Ht Hc1 Hcnt').
    destruct (assign_all groups cands t) as [r| |], (assign_all groups' cands' t') as [r'| |];
      cbn [bind arel] in *; try contradiction; auto.
    constructor; [|assumption]. destruct Hg as [(-> & G1 & G2)|(-> & ->)].
    + left. cbn [fst]. auto.
    + right. cbn [fst snd]. auto.
  - destruct Hg as [(<- & G1 & G2)|(-> & ->)]; [|congruence].
    rewrite <- (lrel_length _ _ Hc). pose proof Ht as [HL _]. rewrite <- HL.
    pose proof (assign_group_sim (count_occ_name g cands) (S (length t + length cands + length cands)) g 0 true t t' []
                  Ht G1 G2 (Hcnt g ltac:(now left) Hk) ltac:(discriminate)) as HG.
    destruct (assign_group _ (count_occ_name g cands) g 0 true t []) as [[a t1]| |],
             (assign_group _ (count_occ_name g cands) g 0 true t' []) as [[a' t1']| |];
      cbn [bind grel arel] in *; try contradiction; auto.
    destruct HG as [<- Ht1]. cbn [fst snd].
    specialize (IH cands cands' t1 t1' Hc Ht1 Hc1 Hcnt').
    destruct (assign_all groups cands t1) as [r| |], (assign_all groups' cands' t1') as [r'| |];
      cbn [bind arel] in *; try contradiction; auto.
    constructor; [|assumption]. left. cbn [fst]. auto.
Qed.

(** handing the names back *)
Lemma pop_sim : forall tb tb', Forall2 tbl_erel tb tb' -> forall x x', erel x x' ->
  match pop_assigned x tb, pop_assigned x' tb' with
  | Some (v, r), Some (v', r') =>
      Forall2 tbl_erel r r' /\ ((x = c /\ x' = c' /\ v = c /\ v' = c') \/ (x = x' /\ x <> c /\ x <> c' /\ v = v'))
  | None, None => True
  | _, _ => False
  end.
Proof.
  intros tb tb' H. induction H as [|[k vs] [k' vs'] tb tb' He Htb IH]; intros x x' Hx; cbn [pop_assigned]; [exact I|].
  assert (Hk : erel k k').
  { destruct He as [(E & K1 & K2)|(K1 & K2 & _)]; cbn [fst] in *.
    - injection E as <- <-. left. auto.
    - right. auto. }
  rewrite <- (erel_eqb _ _ _ _ Hk Hx). destruct (str_eqb k x) eqn:E.
  - apply str_eqb_eq in E. subst k.
    destruct He as [(E & K1 & K2)|(K1 & K2 & [[V1 V2]|[V1 V2]])]; cbn [fst snd] in *.
    + injection E as <- <-. destruct Hx as [(<- & X1 & X2)|(-> & ->)]; [|congruence].
      destruct vs as [|v vs]; [exact I|]. split; [|right; auto].
      constructor; [|assumption]. left. cbn [fst]. auto.
    + subst x k' vs vs'. destruct Hx as [(_ & X1 & _)|(_ & ->)]; [congruence|].
      split; [|left; auto]. constructor; [|assumption]. right. cbn [fst snd]. auto.
    + subst vs vs'. exact I.
  - specialize (IH x x' Hx).
    destruct (pop_assigned x tb) as [[v r]|], (pop_assigned x' tb') as [[v' r']|]; try contradiction; auto.
    destruct IH as [IH1 IH2]. split; [|assumption]. constructor; assumption.
Qed.

Inductive drel : list (list Z) -> list (list Z) -> list (list Z) -> list (list Z) -> Prop :=
| d_nil : drel [] [] [] []
| d_id x v l l' o o' : x <> c -> x <> c' -> drel l l' o o' -> drel (x :: l) (x :: l') (v :: o) (v :: o')
| d_ch l l' o o' : drel l l' o o' -> drel (c :: l) (c' :: l') (c :: o) (c' :: o').

Lemma distribute_sim : forall l l', lrel l l' -> forall tb tb', Forall2 tbl_erel tb tb' ->
  drel l l' (distribute l tb) (distribute l' tb').
Proof.
  intros l l' H. induction H as [|x x' l l' Hx _ IH]; intros tb tb' Ht; cbn [distribute]; [constructor|].
  pose proof (pop_sim tb tb' Ht x x' Hx) as HP.
  destruct (pop_assigned x tb) as [[v r]|], (pop_assigned x' tb') as [[v' r']|]; try contradiction.
  - destruct HP as [Hr [(-> & -> & -> & ->)|(<- & X1 & X2 & <-)]].
    + apply d_ch. now apply IH.
    + apply d_id; auto.
  - destruct Hx as [(<- & X1 & X2)|(-> & ->)].
    + apply d_id; auto.
    + apply d_ch. now apply IH.
Qed.
Lemma drel_same : forall l l' o o', drel l l' o o' -> (forall x, In x l -> x <> c) -> l = l' /\ o = o'.
Proof.
  intros l l' o o' H. induction H as [|x v l l' o o' X1 X2 _ IH|l l' o o' _ IH]; intros Hn.
  - split; reflexivity.
  - destruct IH as [-> ->]; [intros y Hy; apply Hn; now right|]. split; reflexivity.
  - exfalso. apply (Hn c); [now left|reflexivity].
Qed.
Lemma drel_split : forall cp cq o o', drel (cp ++ c :: cq) (cp ++ c' :: cq) o o' ->
  (forall x, In x (cp ++ cq) -> x <> c) ->
  exists np nq, o = np ++ c :: nq /\ o' = np ++ c' :: nq /\ length np = length cp.
Proof.
  induction cp as [|x cp IH]; intros cq o o' H Hn; cbn [app] in *.
  - inversion H as [|x v l l' o1 o1' X1 X2 Hd|l l' o1 o1' Hd]; subst.
    + congruence.
    + destruct (drel_same _ _ _ _ Hd Hn) as [_ ->]. exists [], o1'. repeat split.
  - inversion H as [|x0 v l l' o1 o1' X1 X2 Hd|l l' o1 o1' Hd]; subst.
    + destruct (IH cq o1 o1' Hd ltac:(intros y Hy; apply Hn; now right)) as (np & nq & -> & -> & HL).
      exists (v :: np), nq. cbn [app length]. repeat split. now rewrite HL.
    + exfalso. apply (Hn c); [now left|reflexivity].
Qed.
End OneChange.

Definition res_same_shape {A} (P : A -> A -> Prop) (r r' : res A) : Prop :=
  match r, r' with
  | Ok a, Ok a' => P a a'
  | Err e, Err e' => e = e'
  | OutOfFuel, OutOfFuel => True
  | _, _ => False
  end.

(** The two runs go in lock step: same outcome (same exception if any), and on success the
    same names everywhere except [c] / [c'] at the changed position. *)
Lemma sanitize_cands_one_change cp cq c c' :
  ~ In c (cp ++ cq) -> ~ In c' (cp ++ cq) ->
  (forall g i, In g (cp ++ cq) -> (2 <= count_occ_name g (cp ++ cq))%nat -> 2 <= i ->
     add_count g i <> c /\ add_count g i <> c') ->
  res_same_shape (fun o o' => exists np nq, o = np ++ c :: nq /\ o' = np ++ c' :: nq /\ length np = length cp)
    (sanitize_cands (cp ++ c :: cq)) (sanitize_cands (cp ++ c' :: cq)).
Proof.
  intros Hc Hc' Hcnt. unfold sanitize_cands.
  set (cands := cp ++ c :: cq). set (cands' := cp ++ c' :: cq).
  assert (Hne : forall x, In x (cp ++ cq) -> x <> c /\ x <> c') by (intros x Hx; split; congruence).
  assert (Hsame : forall l, (forall x, In x l -> x <> c /\ x <> c') -> lrel c c' l l).
  { induction l as [|x l IH]; intros Hl; constructor.
    - left. destruct (Hl x ltac:(now left)). auto.
    - apply IH. intros y Hy. apply Hl. now right. }
  assert (Hl : lrel c c' cands cands').
  { apply Forall2_app; [apply Hsame; intros x Hx; apply Hne; apply in_app_iff; now left|].
    constructor; [right; auto|apply Hsame; intros x Hx; apply Hne; apply in_app_iff; now right]. }
  pose proof (lrel_distinct_first c c' _ _ Hl [] [] ltac:(constructor)) as Hg.
  assert (Hc1 : count_occ_name c cands = 1%nat).
  { unfold cands. rewrite count_occ_name_app, count_occ_name_cons, str_eqb_refl.
    rewrite (count_occ_name_zero c cp), (count_occ_name_zero c cq); [reflexivity| |];
      intros Hin; apply Hc; apply in_app_iff; auto. }
  pose proof (assign_all_sim c c' _ _ Hg cands cands' _ _ Hl (lrel_trel c c' _ _ Hg) Hc1) as HA.
  destruct (distinct_first_spec cands []) as [_ Gin].
  specialize (HA ltac:(
    intros g Hgin Hk i Hi; apply Gin in Hgin as [Hgin _];
    assert (Hgc : g <> c) by (intros ->; congruence);
    assert (Hg' : In g (cp ++ cq))
      by (unfold cands in Hgin; apply in_app_iff in Hgin as [Hgin|[Hgin|Hgin]];
          [apply in_app_iff; now left|congruence|apply in_app_iff; now right]);
    apply Hcnt; [exact Hg'| |exact Hi];
    pose proof (count_occ_name_pos g _ Hg') as Hp;
    unfold cands in Hk; rewrite count_occ_name_app, count_occ_name_cons in Hk;
    rewrite count_occ_name_app in *;
    destruct (str_eqb g c) eqn:E; [apply str_eqb_eq in E; congruence|]; lia)).
  destruct (assign_all (distinct_first cands []) cands (distinct_first cands [])) as [tb| |],
           (assign_all (distinct_first cands' []) cands' (distinct_first cands' [])) as [tb'| |];
    cbn [bind arel res_same_shape] in *; try contradiction; auto.
  pose proof (distribute_sim c c' _ _ Hl tb tb' HA) as HD.
  apply drel_split in HD; [exact HD|]. intros x Hx. now apply Hne.
Qed.

(** C14, hypothesis h2 made precise.  One element of a directory is replaced by another
    (its candidate name changes from [c] to [c']).  If [c] and [c'] are both different from
    every other candidate, and neither is a counted form "g (i)" / "stem (i) L" (i >= 2) of a
    candidate [g] that occurs more than once among the others, then the two runs have the
    same outcome and hand every other element the very same name. *)
Lemma sanitize_names_one_change_lemma :
  forall f pre e e' post,
    let cand := fun x : list Z * bool => f (fst x) (snd x) in
    let others := map cand (pre ++ post) in
    ~ In (cand e) others -> ~ In (cand e') others ->
    (forall g i, (2 <= count_occ_name g others)%nat -> 2 <= i ->
       add_count g i <> cand e /\ add_count g i <> cand e') ->
    res_same_shape
      (fun o o' => exists np nq, o = np ++ cand e :: nq /\ o' = np ++ cand e' :: nq /\ length np = length pre)
      (sanitize_names f (pre ++ e :: post)) (sanitize_names f (pre ++ e' :: post)).
Proof.
  intros f pre e e' post cand others H1 H2 H3.
  rewrite !sanitize_names_cands. fold cand. rewrite !map_app. cbn [map].
  unfold others in *. rewrite map_app in *.
  pose proof (sanitize_cands_one_change (map cand pre) (map cand post) (cand e) (cand e') H1 H2
                ltac:(intros g i _; apply H3)) as H.
  now rewrite map_length in H.
Qed.

Lemma sibling_names_stable_lemma :
  forall f pre e e' post names names',
    let cand := fun x : list Z * bool => f (fst x) (snd x) in
    let others := map cand (pre ++ post) in
    ~ In (cand e) others -> ~ In (cand e') others ->
    (forall g i, (2 <= count_occ_name g others)%nat -> 2 <= i ->
       add_count g i <> cand e /\ add_count g i <> cand e') ->
    sanitize_names f (pre ++ e :: post) = Ok names ->
    sanitize_names f (pre ++ e' :: post) = Ok names' ->
    forall j, j <> length pre -> nth_error names j = nth_error names' j.
Proof.
  intros f pre e e' post names names' cand others H1 H2 H3 R R' j Hj.
  pose proof (sanitize_names_one_change_lemma f pre e e' post H1 H2 H3) as H.
  rewrite R, R' in H. cbn [res_same_shape] in H. destruct H as (np & nq & -> & -> & HL).
  rewrite <- HL in Hj. clear - Hj. revert j Hj.
  induction np as [|x np IH]; intros [|j] Hj; cbn [app nth_error length] in *; try reflexivity; try lia.
  apply IH. lia.
Qed.

(** Each hypothesis is needed: (a) the new name equals another candidate; (b) the new name
    is the counted form the routine would have handed to a duplicate ("A (2)" among A, A).
    In both the name of ANOTHER element changes.  (By symmetry the same holds of the old
    name: swap the two runs.) *)
Lemma one_change_collision_refuted_lemma :
  (exists pre e e' post names names' j,
      sanitize_names (fun n _ => n) (pre ++ e :: post) = Ok names /\
      sanitize_names (fun n _ => n) (pre ++ e' :: post) = Ok names' /\
      ~ In (fst e) (map fst (pre ++ post)) /\ In (fst e') (map fst (pre ++ post)) /\
      j <> length pre /\ nth_error names j <> nth_error names' j)
  /\ (exists pre e e' post names names' j,
      sanitize_names (fun n _ => n) (pre ++ e :: post) = Ok names /\
      sanitize_names (fun n _ => n) (pre ++ e' :: post) = Ok names' /\
      ~ In (fst e) (map fst (pre ++ post)) /\ ~ In (fst e') (map fst (pre ++ post)) /\
      j <> length pre /\ nth_error names j <> nth_error names' j).
Proof.
  split.
  - (* B, A -> A, A : the second element becomes "A (2)" *)
    exists [], ([66], true), ([65], true), [([65], true)], [[66]; [65]], [[65]; [65;32;40;50;41]], 1%nat.
    vm_compute. repeat split; try reflexivity; try discriminate; intuition discriminate.
  - (* B, A, A -> "A (2)", A, A : the third element becomes "A (3)" *)
    exists [], ([66], true), ([65;32;40;50;41], true), [([65], true); ([65], true)],
      [[66]; [65]; [65;32;40;50;41]], [[65;32;40;50;41]; [65]; [65;32;40;51;41]], 2%nat.
    vm_compute. repeat split; try reflexivity; try discriminate; intuition discriminate.
Qed.

(** * T2: collisions among the output names of combine_stereo involve a merged pair *)
Lemma NoDup_concat_disjoint {A} : forall (L : list (list A)) p q s1 s2 i,
  NoDup (concat L) -> nth_error L p = Some s1 -> nth_error L q = Some s2 -> p <> q ->
  In i s1 -> In i s2 -> False.
Proof.
  induction L as [|s L IH]; intros p q s1 s2 i Hnd Hp Hq Hpq H1 H2; [destruct p; discriminate|].
  cbn [concat] in Hnd.
  assert (Hlater : forall r s', nth_error L r = Some s' -> In i s' -> In i (concat L)).
  { intros r s' Hr Hi. apply in_concat. exists s'. split; [eapply nth_error_In; eassumption|assumption]. }
  destruct p as [|p], q as [|q]; cbn [nth_error] in *.
  - congruence.
  - injection Hp as ->. eapply NoDup_app_disj; [exact Hnd|exact H1|eauto].
  - injection Hq as ->. eapply NoDup_app_disj; [exact Hnd|exact H2|eauto].
  - eapply (IH p q); eauto. eapply NoDup_app_r; eassumption.
Qed.

Definition single_source (o : list Z * list nat) : bool := (length (snd o) =? 1)%nat.

Section Collisions.
Context (names : list (list Z)).
Context (Hnd : NoDup names) (Hnt : Forall no_trail names).

Lemma combine_stereo_sources_nodup : NoDup (concat (map snd (combine_stereo names))).
Proof.
  eapply Permutation_NoDup; [symmetry; apply (combine_stereo_partition_lemma names Hnd Hnt)|apply seq_NoDup].
Qed.
Lemma combine_stereo_single x src :
  In (x, src) (combine_stereo names) -> length src = 1%nat ->
  exists i, src = [i] /\ (i < length names)%nat /\ x = nm names i.
Proof.
  intros H HL.
  destruct (combine_loop_shape names Hnt _ _ _ _ (todo_enum_ok names) H)
    as [(i & -> & Hi & -> & _)|(i & j & st & sp & -> & _)]; [|discriminate].
  exists i. auto.
Qed.
Lemma combine_stereo_src_len x src :
  In (x, src) (combine_stereo names) -> length src = 1%nat \/ length src = 2%nat.
Proof.
  intros H.
  destruct (combine_loop_shape names Hnt _ _ _ _ (todo_enum_ok names) H)
    as [(i & -> & _)|(i & j & st & sp & -> & _)]; [now left|now right].
Qed.

(** two outputs at different positions with the same name: one of them is a merged pair *)
Lemma output_collision_lemma p q x s1 s2 :
  p <> q ->
  nth_error (combine_stereo names) p = Some (x, s1) ->
  nth_error (combine_stereo names) q = Some (x, s2) ->
  length s1 = 2%nat \/ length s2 = 2%nat.
Proof.
  intros Hpq Hp Hq.
  pose proof (nth_error_In _ _ Hp) as I1. pose proof (nth_error_In _ _ Hq) as I2.
  destruct (combine_stereo_src_len _ _ I1) as [L1|L1]; [|now left].
  destruct (combine_stereo_src_len _ _ I2) as [L2|L2]; [|now right].
  exfalso.
  destruct (combine_stereo_single _ _ I1 L1) as (i & -> & Hi & Hx).
  destruct (combine_stereo_single _ _ I2 L2) as (j & -> & Hj & Hx').
  assert (i = j).
  { eapply (proj1 (NoDup_nth names []) Hnd); auto. fold (nm names i) (nm names j). congruence. }
  subst j.
  eapply (NoDup_concat_disjoint (map snd (combine_stereo names)) p q [i] [i] i combine_stereo_sources_nodup).
  - rewrite nth_error_map, Hp. reflexivity.
  - rewrite nth_error_map, Hq. reflexivity.
  - exact Hpq.
  - now left.
  - now left.
Qed.

(** equivalently: the single-source outputs carry pairwise distinct names *)
Lemma singles_nodup_gen : forall outs,
  NoDup (concat (map snd outs)) ->
  (forall x src, In (x, src) outs -> length src = 1%nat ->
     exists i, src = [i] /\ (i < length names)%nat /\ x = nm names i) ->
  NoDup (map fst (filter single_source outs)).
Proof.
  induction outs as [|[x src] outs IH]; intros Hn Hs; cbn [filter map]; [constructor|].
  cbn [map snd concat] in Hn.
  assert (IH' : NoDup (map fst (filter single_source outs))).
  { apply IH; [eapply NoDup_app_r; eassumption|]. intros y s Hy. apply Hs. now right. }
  unfold single_source at 1. cbn [snd]. destruct (Nat.eqb_spec (length src) 1) as [HL|HL]; [|exact IH'].
  cbn [map fst]. constructor; [|exact IH'].
  intros Hin. apply in_map_iff in Hin as ([y s] & Hy & Hys). cbn [fst] in Hy. subst y.
  apply filter_In in Hys as [Hys HL2]. unfold single_source in HL2. cbn [snd] in HL2. apply Nat.eqb_eq in HL2.
  destruct (Hs x src ltac:(now left) HL) as (i & -> & Hi & Hx).
  destruct (Hs x s ltac:(now right) HL2) as (j & -> & Hj & Hx').
  assert (i = j).
  { eapply (proj1 (NoDup_nth names []) Hnd); auto. fold (nm names i) (nm names j). congruence. }
  subst j. eapply (NoDup_app_disj [i]); [exact Hn|now left|].
  apply in_concat. exists [i]. split; [|now left]. apply in_map_iff. exists (x, [i]). split; [reflexivity|assumption].
Qed.
Lemma single_outputs_distinct_lemma :
  NoDup (map fst (filter single_source (combine_stereo names))).
Proof. apply singles_nodup_gen; [apply combine_stereo_sources_nodup|apply combine_stereo_single]. Qed.
End Collisions.

(** * T3: the lookup keys of the names `ls` prints are pairwise distinct, in general *)
Lemma NoDup_map_inj_on {A B} (f : A -> B) : forall l,
  NoDup l -> (forall a b, In a l -> In b l -> f a = f b -> a = b) -> NoDup (map f l).
Proof.
  induction l as [|x l IH]; intros Hn Hi; cbn [map]; [constructor|].
  inversion Hn as [|? ? Hx Hn']; subst. constructor.
  - intros Hc. apply in_map_iff in Hc as (y & Hy & Hyl).
    assert (y = x) by (apply Hi; [now right|now left|assumption]). subst y. contradiction.
  - apply IH; [assumption|]. intros a b Ha Hb. apply Hi; now right.
Qed.

Lemma strip_stripped l : stripped (strip l).
Proof. split; [apply strip_first|apply strip_last]. Qed.
Lemma make_safe_name_stripped x : stripped (make_safe_name x).
Proof. apply strip_stripped. Qed.
(** make_safe_name never outputs a parenthesis *)
Lemma make_safe_name_noparen x : ~ In 40 (make_safe_name x) /\ ~ In 41 (make_safe_name x).
Proof.
  unfold make_safe_name. split; intros H; apply strip_incl in H; apply replace_invalid_chars in H;
    destruct H as [H|H]; discriminate.
Qed.

(** a handed-out name is stripped and does not begin with "(", or it is one blank followed by
    a stripped string that begins with "(" (the counted forms of "" and of stereo-shaped
    names with an empty stem such as "-L") *)
Definition key_shape (n : list Z) : Prop :=
  (stripped n /\ hd 0 n <> 40) \/ (exists r, n = 32 :: r /\ stripped r /\ hd 0 r = 40).

Lemma stripped_ends a l z : is_space_c a = false -> is_space_c z = false -> stripped ((a :: l) ++ [z]).
Proof.
  intros Ha Hz. split.
  - intros c t H. cbn [app] in H. injection H as <- _. assumption.
  - intros c t H. rewrite rev_app_distr in H. cbn [rev app] in H. injection H as <- _. assumption.
Qed.
Lemma safe_key_shape g : stripped g -> ~ In 40 g -> key_shape g.
Proof.
  intros Hs Hp. left. split; [assumption|]. destruct g as [|a g]; cbn [hd]; [discriminate|].
  intros ->. apply Hp. now left.
Qed.
Lemma add_count_key_shape g k : stripped g -> ~ In 40 g -> key_shape (add_count g k).
Proof.
  intros [Hs1 Hs2] Hp. unfold add_count, count_str.
  destruct (stereo_match g) as [m|] eqn:EM.
  - destruct (stereo_match_shape _ _ EM) as (ws & Hg & _ & _ & _ & Hside).
    assert (Hsd : is_space_c (st_side m) = false) by (destruct Hside as [-> | ->]; reflexivity).
    destruct (st_stem m) as [|a st] eqn:ES.
    + right. exists (([40] ++ str_Z k ++ [41]) ++ [32] ++ [st_side m]). split; [reflexivity|]. split; [|reflexivity].
      replace (([40] ++ str_Z k ++ [41]) ++ [32] ++ [st_side m])
        with ((40 :: str_Z k ++ [41] ++ [32]) ++ [st_side m])
        by (cbn [app]; rewrite <- ?app_assoc; cbn [app]; rewrite <- ?app_assoc; reflexivity).
      apply stripped_ends; [reflexivity|assumption].
    + left.
      replace ((a :: st) ++ [32] ++ ([40] ++ str_Z k ++ [41]) ++ [32] ++ [st_side m])
        with ((a :: st ++ [32] ++ ([40] ++ str_Z k ++ [41]) ++ [32]) ++ [st_side m])
        by (cbn [app]; rewrite <- ?app_assoc; cbn [app]; rewrite <- ?app_assoc; reflexivity).
      split.
      * apply stripped_ends; [|assumption]. eapply Hs1. rewrite Hg. reflexivity.
      * cbn [app hd]. intros ->. apply Hp. rewrite Hg. now left.
  - destruct g as [|a g'].
    + right. exists ([40] ++ str_Z k ++ [41]). split; [reflexivity|]. split; [|reflexivity].
      replace ([40] ++ str_Z k ++ [41]) with ((40 :: str_Z k) ++ [41]) by reflexivity.
      apply stripped_ends; reflexivity.
    + left.
      replace ((a :: g') ++ [32] ++ [40] ++ str_Z k ++ [41])
        with ((a :: g' ++ [32] ++ [40] ++ str_Z k) ++ [41])
        by (cbn [app]; rewrite <- ?app_assoc; cbn [app]; rewrite <- ?app_assoc; reflexivity).
      split.
      * apply stripped_ends; [|reflexivity]. eapply Hs1. reflexivity.
      * cbn [app hd]. intros ->. apply Hp. now left.
Qed.

Lemma strip_blank_cons r : strip (32 :: r) = strip r.
Proof. reflexivity. Qed.
Lemma stripped_strip_id l : stripped l -> strip l = l.
Proof. intros [A B]. now apply strip_id. Qed.
Lemma key_shape_strip_inj a b : key_shape a -> key_shape b -> strip a = strip b -> a = b.
Proof.
  intros [[Sa Ha]|(ra & -> & Sa & Ha)] [[Sb Hb]|(rb & -> & Sb & Hb)] H;
    rewrite ?strip_blank_cons in H; rewrite ?(stripped_strip_id _ Sa), ?(stripped_strip_id _ Sb) in H; congruence.
Qed.

Lemma safe_names_key_shape elems names :
  make_safe_names elems = Ok names -> forall n, In n names -> key_shape n.
Proof.
  intros H n Hn. destruct (sanitize_names_shape _ _ _ H n Hn) as (e & He & [->|(k & Hk & ->)]).
  - apply safe_key_shape; [apply make_safe_name_stripped|apply make_safe_name_noparen].
  - apply add_count_key_shape; [apply make_safe_name_stripped|apply make_safe_name_noparen].
Qed.

(** For ANY raw sibling names: the keys `parse_path` compares (strip of the printed name)
    are pairwise distinct - also for the counted forms that begin with a blank. *)
Lemma keys_distinct_general_lemma elems names :
  make_safe_names elems = Ok names -> NoDup (map (sanitize_token false) names).
Proof.
  intros H. apply NoDup_map_inj_on.
  - exact (proj1 (sanitize_names_distinct_lemma _ _ _ H)).
  - intros a b Ha Hb. cbn [sanitize_token].
    apply key_shape_strip_inj; eapply safe_names_key_shape; eassumption.
Qed.

(** * T4: the same for AKAI images (normalisation: upper-case, strip, drop one final colon) *)
(** a character the AKAI normalisation leaves alone: not a lower-case letter, not ":" *)
Definition plain_c (c : Z) : bool := negb ((97 <=? c) && (c <=? 122)) && negb (c =? 58).
(** the AKAI display alphabet in ASCII: digits, blank, A-Z, # + - . *)
Definition akai_char (c : Z) : bool :=
  ((48 <=? c) && (c <=? 57)) || ((65 <=? c) && (c <=? 90)) || mem c [32; 35; 43; 45; 46].
Lemma akai_char_plain c : akai_char c = true -> plain_c c = true.
Proof. unfold akai_char, plain_c, mem. cbn [existsb]. lia. Qed.
(** what the AKAI string decoder yields is over that alphabet *)
Lemma akai_to_ascii_alphabet : forall l s, akai_to_ascii l = Ok s -> Forall (fun c => akai_char c = true) s.
Proof.
  unfold akai_to_ascii. induction l as [|b l IH]; intros s H; cbn [map_res] in H.
  - injection H as <-. constructor.
  - destruct (fast_akai_to_ascii_byte b) as [y| |] eqn:EB; cbn [bind] in H; try discriminate.
    destruct (map_res fast_akai_to_ascii_byte l) as [ys| |] eqn:EL; cbn [bind] in H; try discriminate.
    injection H as <-. constructor; [|now apply IH].
    unfold fast_akai_to_ascii_byte, map_zero, map_nine, map_A, map_Z, map_space, map_pound, map_plus, map_minus, map_period in EB.
    repeat match type of EB with (if ?b then _ else _) = _ => destruct b eqn:? end;
      try discriminate; injection EB as <-; unfold akai_char, mem; cbn [existsb]; lia.
Qed.

Lemma sanitize_token_akai_plain n :
  Forall (fun c => plain_c c = true) n -> sanitize_token true n = strip n.
Proof.
  intros H. unfold sanitize_token.
  assert (E : map upper_c n = n).
  { rewrite <- (map_id n) at 2. apply map_ext_in. intros ch Hc. rewrite Forall_forall in H.
    specialize (H ch Hc). unfold plain_c in H. unfold upper_c.
    destruct ((97 <=? ch) && (ch <=? 122)); [discriminate|reflexivity]. }
  rewrite E. destruct (rev (strip n)) as [|ch t] eqn:ER; [reflexivity|].
  assert (Hin : In ch n).
  { apply strip_incl. apply in_rev. rewrite ER. now left. }
  rewrite Forall_forall in H. specialize (H ch Hin). unfold plain_c in H.
  destruct (ch =? 58); [rewrite andb_false_r in H; discriminate|reflexivity].
Qed.

(** the characters of a safe name come from the raw name, or are blanks *)
Lemma drop_while_incl p : forall l ch, In ch (drop_while p l) -> In ch l.
Proof.
  induction l as [|x l IH]; intros ch H; cbn [drop_while] in H; [assumption|].
  destruct (p x); [right; auto|assumption].
Qed.
Lemma replace_invalid_sub : forall fuel pw l ch,
  In ch (replace_invalid fuel pw l) -> In ch l \/ ch = 32.
Proof.
  induction fuel as [|f IH]; intros pw l ch H; cbn [replace_invalid] in H; [destruct H|].
  destruct l as [|x t]; [destruct H|].
  destruct (negb (ok_safe x)).
  - destruct H as [<-|H]; [now right|]. apply IH in H as [H|H]; [|now right].
    left. right. eapply drop_while_incl; eassumption.
  - destruct ((x =? 58) && negb pw).
    + destruct H as [<-|H]; [now right|]. apply IH in H as [H|H]; [|now right].
      left. right. eapply drop_while_incl; eassumption.
    + destruct H as [<-|H]; [left; now left|]. apply IH in H as [H|H]; [left; now right|now right].
Qed.
Lemma make_safe_name_sub x ch : In ch (make_safe_name x) -> In ch x \/ ch = 32.
Proof.
  unfold make_safe_name. intros H. apply strip_incl in H. apply replace_invalid_sub in H as [H|H]; [|now right].
  left. unfold remove_quotes in H. now apply filter_In in H.
Qed.
Lemma make_safe_name_plain x :
  Forall (fun c => plain_c c = true) x -> Forall (fun c => plain_c c = true) (make_safe_name x).
Proof.
  intros H. apply Forall_forall. intros ch Hc. apply make_safe_name_sub in Hc as [Hc| ->]; [|reflexivity].
  rewrite Forall_forall in H. auto.
Qed.
Lemma dec_digits_plain : forall fuel z acc, 0 <= z ->
  Forall (fun c => plain_c c = true) acc -> Forall (fun c => plain_c c = true) (dec_digits fuel z acc).
Proof.
  induction fuel as [|f IH]; intros z acc Hz Ha; cbn [dec_digits]; [assumption|].
  assert (Hd : plain_c (48 + z mod 10) = true).
  { unfold plain_c. pose proof (Z.mod_pos_bound z 10 ltac:(lia)). lia. }
  destruct (z <? 10); [constructor; assumption|].
  apply IH; [apply Z.div_pos; lia|constructor; assumption].
Qed.
Lemma add_count_plain g k : 0 <= k ->
  Forall (fun c => plain_c c = true) g -> Forall (fun c => plain_c c = true) (add_count g k).
Proof.
  intros Hk Hg. unfold add_count.
  assert (Hc : Forall (fun c => plain_c c = true) (count_str k)).
  { unfold count_str, str_Z. destruct (k <? 0) eqn:E; [lia|].
    apply Forall_app. split; [repeat constructor|]. apply Forall_app. split; [|repeat constructor].
    apply dec_digits_plain; [assumption|constructor]. }
  destruct (stereo_match g) as [m|] eqn:EM.
  - destruct (stereo_match_shape _ _ EM) as (ws & Hs & _ & _ & _ & Hside).
    assert (Hstem : Forall (fun c => plain_c c = true) (st_stem m)).
    { rewrite Hs in Hg. now apply Forall_app in Hg. }
    apply Forall_app; split; [exact Hstem|]. apply Forall_app; split; [repeat constructor|].
    apply Forall_app; split; [exact Hc|]. apply Forall_app; split; [repeat constructor|].
    constructor; [|constructor]. destruct Hside as [-> | ->]; reflexivity.
  - apply Forall_app; split; [exact Hg|]. apply Forall_app; split; [repeat constructor|exact Hc].
Qed.
Lemma safe_names_plain elems names :
  Forall (fun e => Forall (fun c => plain_c c = true) (fst e)) elems ->
  make_safe_names elems = Ok names -> forall n, In n names -> Forall (fun c => plain_c c = true) n.
Proof.
  intros He H n Hn. rewrite Forall_forall in He.
  destruct (sanitize_names_shape _ _ _ H n Hn) as (e & Hin & [->|(k & Hk & ->)]).
  - apply make_safe_name_plain. auto.
  - apply add_count_plain; [lia|]. apply make_safe_name_plain. auto.
Qed.

(** For raw names without lower-case letters and colons (in particular: over the AKAI
    alphabet) the AKAI lookup keys of the printed names are pairwise distinct. *)
Lemma keys_distinct_plain_lemma elems names :
  Forall (fun e => Forall (fun c => plain_c c = true) (fst e)) elems ->
  make_safe_names elems = Ok names ->
  map (sanitize_token true) names = map (sanitize_token false) names
  /\ NoDup (map (sanitize_token true) names).
Proof.
  intros He H.
  assert (E : map (sanitize_token true) names = map (sanitize_token false) names).
  { apply map_ext_in. intros n Hn. apply sanitize_token_akai_plain. eapply safe_names_plain; eassumption. }
  split; [exact E|]. rewrite E. now apply keys_distinct_general_lemma with (elems := elems).
Qed.
Lemma keys_distinct_akai_lemma elems names :
  Forall (fun e => Forall (fun c => akai_char c = true) (fst e)) elems ->
  make_safe_names elems = Ok names -> NoDup (map (sanitize_token true) names).
Proof.
  intros He H. apply (keys_distinct_plain_lemma elems names); [|assumption].
  eapply Forall_impl; [|exact He]. intros e Hf. eapply Forall_impl; [|exact Hf].
  intros ch. apply akai_char_plain.
Qed.
