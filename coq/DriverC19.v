(** Dispatch table of C19 (de-emphasis filters): ids 700-749. *)
From SE Require Import Base Codecs Filters DriverBase.
From Coq Require Import Floats.PrimFloat Floats.SpecFloat Floats.FloatOps.

Definition varr (a : arr) : val :=
  match a with AF l => VL [VI 0; VL (map vfloat l)] | AI l => VL [VI 1; vlistZ l] end.
Definition unfloats (v : val) : list float := map unfloat (unVL v).
Definition unarr (v : val) : arr :=
  match v with
  | VL [VI 0; l] => AF (unfloats l)
  | VL [VI 1; l] => AI (unVLZ l)
  | _ => AF []
  end.
Definition vfloats (l : list float) : val := VL (map vfloat l).

(** filter spec: (0 chick k h m0) | (1 chick B A) | (2 preset) *)
Definition unfilt (v : val) : res filt :=
  match v with
  | VL [VI 0; VI c; VI k; h; VI m0] => f <- fir_mk (negb (c =? 0)) k (unarr h) m0 ;; Ok (FF f)
  | VL [VI 1; VI c; B; A] => Ok (FI (iir_mk (negb (c =? 0)) (unfloats B) (unfloats A)))
  | VL [VI 2; VI n] => preset n
  | _ => Err KeyErr
  end.
Definition unfop (v : val) : fop :=
  match v with
  | VL [VI 0; a] => OProc (unarr a)
  | VL [VI 1] => ORem
  | _ => OReset
  end.
Definition vstate (f : filt) : val :=
  match f with
  | FF g => VL [VI 0; varr (f_xprev g)]
  | FI g => VL [VI 1; vfloats (i_xprev g); vfloats (i_yprev g)]
  end.
Definition vcoeffs (f : filt) : val :=
  match f with
  | FF g => VL [VI 0; vbool (f_chick g); VI (f_k g); varr (f_h g); VI (f_m0 g)]
  | FI g => VL [VI 1; vbool (i_chick g); vfloats (i_B g); vfloats (i_A g)]
  end.

(** circular buffer op: (0 a) push | (1 A) inner_prod | (2) to_array *)
Fixpoint cbuf_ops (cb : cbuf) (ops : list val) : list val :=
  match ops with
  | [] => []
  | VL [VI 0; a] :: t => cbuf_ops (cb_push cb (unfloat a)) t
  | VL [VI 1; A] :: t => vfloats [cb_inner cb (unfloats A)] :: cbuf_ops cb t
  | _ :: t => vfloats (cb_fill cb (cb_N cb)) :: cbuf_ops cb t
  end.

Definition dispatch_c19 (id : Z) (a : val) : option val :=
  match id with
  | 700 (* filter_run_ops *) =>
      Some (vres (fun r => VL [VL (map varr (fst r)); vstate (snd r)])
                 (f <- unfilt (nth_arg a 0) ;; run_ops f (map unfop (unVL (nth_arg a 1)))))
  | 701 (* filter_stream *) =>
      Some (vres (fun r => VL [varr (fst (fst r)); varr (snd (fst r)); vstate (snd r)])
                 (f <- unfilt (nth_arg a 0) ;; stream f (map unarr (unVL (nth_arg a 1)))))
  | 702 (* preset_coeffs *) => Some (vres vcoeffs (preset (unVI a)))
  | 703 (* cbuf_run_ops *) =>
      Some (VL (cbuf_ops (cb_init (unfloats (nth_arg a 1)) (Z.to_nat (unVI (nth_arg a 0))))
                         (unVL (nth_arg a 2))))
  | 704 (* c_bound_and_fix *) => Some (VI (c_bound_and_fix (unfloat a)))
  | 705 (* c_bound_fix_int *) => Some (VI (c_fix_int (c_bound (unfloat a))))
  | 706 (* cast_i16 *) => Some (VI (cast_i16 (unfloat a)))
  | _ => None
  end.
