(** Model of the naming code of smpl_extract/structural.py: make_safe_name,
    make_export_name, _add_count_to_name, sanitize_names_general (with the taken-names fix),
    combine_stereo_routine, Traversable.parse_path's tokenizer and lookup; and
    Element.export_path.  Names are 7-bit character-code lists; the six regular expressions
    are hand-modelled (their semantics on ASCII text). *)
From SE Require Import Base Codecs Cue.

Definition is_word (c : Z) : bool :=
  ((48 <=? c) && (c <=? 57)) || ((65 <=? c) && (c <=? 90)) || ((97 <=? c) && (c <=? 122)) || (c =? 95).
Definition mem (c : Z) (l : list Z) : bool := existsb (Z.eqb c) l.

(** _INVALID_CHARS_REMOVE = [\'\<dq>\`]+  -> <dq><dq> *)
Definition remove_quotes (l : list Z) : list Z := filter (fun c => negb (mem c [39; 34; 96])) l.

(** _INVALID_CHARS_REPLACE = ([^\w\-=\:.@#&+ ]+|(?<!\w)\:+) -> <dq> <dq>
    scanning left to right; [prev_word] = the previous character is a word character *)
Definition ok_safe (c : Z) : bool := is_word c || mem c [45; 61; 58; 46; 64; 35; 38; 43; 32].
Fixpoint drop_while (p : Z -> bool) (l : list Z) : list Z :=
  match l with c :: t => if p c then drop_while p t else l | [] => [] end.
Fixpoint replace_invalid (fuel : nat) (prev_word : bool) (l : list Z) : list Z :=
  match fuel with
  | O => []
  | S f =>
    match l with
    | [] => []
    | c :: t =>
        if negb (ok_safe c) then
          (* a run of invalid characters becomes one blank; the character before the rest
             is the last one of the run, which is not a word character *)
          32 :: replace_invalid f false (drop_while (fun x => negb (ok_safe x)) t)
        else if (c =? 58) && negb prev_word then
          32 :: replace_invalid f false (drop_while (fun x => x =? 58) t)
        else c :: replace_invalid f (is_word c) t
    end
  end.
Definition make_safe_name (name : list Z) : list Z :=
  let s := remove_quotes name in strip (replace_invalid (S (length s)) false s).

(** _INVALID_FILE_NAME = [^\w\-\.# ]+ -> <dq> <dq> *)
Definition ok_file (c : Z) : bool := is_word c || mem c [45; 46; 35; 32].
Fixpoint replace_runs (fuel : nat) (ok : Z -> bool) (l : list Z) : list Z :=
  match fuel with
  | O => []
  | S f =>
    match l with
    | [] => []
    | c :: t => if ok c then c :: replace_runs f ok t
                else 32 :: replace_runs f ok (drop_while (fun x => negb (ok x)) t)
    end
  end.
Definition rstrip (l : list Z) : list Z := rev (lstrip (rev l)).
(** _SAFE_ENDING = (.+?)\s*\.?\s*$ on a stripped, newline-free string *)
Definition safe_ending (s : list Z) : list Z :=
  match rev s with
  | c :: (x :: r') => if c =? 46 then rev (lstrip (x :: r')) else s   (* drop one final dot, then blanks *)
  | _ => s
  end.
Definition make_export_name (name : list Z) (is_file : bool) : list Z :=
  let e := strip (replace_runs (S (length name)) ok_file name) in
  let e := safe_ending e in
  let e := match e with [] => [48] | _ => e end in
  let e := match e with c :: _ => if is_word c then e else 48 :: e | [] => e end in
  if is_file then e
  else match rev e with
       | c :: _ => if (c =? 46) || (c =? 45) then e ++ [48] else e
       | [] => e
       end.

(** _STEREO_FILENAME = (.*?)([\s-]+)(L|R)\s*$  (match at the start; [.] excludes newline) *)
Definition is_sep (c : Z) : bool := is_space_c c || (c =? 45).
Record stereo := { st_stem : list Z; st_sep : list Z; st_side : Z }.
Definition stereo_match (name : list Z) : option stereo :=
  match lstrip (rev name) with
  | side :: before =>
      if ((side =? 76) || (side =? 82)) then
        let '(sep_rev, stem_rev) := span is_sep before in
        match sep_rev with
        | [] => None
        | _ => if mem 10 stem_rev then None
               else Some {| st_stem := rev stem_rev; st_sep := rev sep_rev; st_side := side |}
        end
      else None
  | [] => None
  end.

(** _add_count_to_name *)
Definition count_str (i : Z) : list Z := [40] ++ str_Z i ++ [41].
Definition add_count (name : list Z) (i : Z) : list Z :=
  match stereo_match name with
  | Some m => st_stem m ++ [32] ++ count_str i ++ [32] ++ [st_side m]
  | None => name ++ [32] ++ count_str i
  end.

(** * sanitize_names_general
    [names]: the raw names in directory order with their is_file flag; result: the
    assigned name of every element, in the same order.  Python dicts keep insertion order:
    groups are processed in order of first occurrence. *)
Definition in_names (n : list Z) (l : list (list Z)) : bool := existsb (str_eqb n) l.
Fixpoint distinct_first (l : list (list Z)) (seen : list (list Z)) : list (list Z) :=
  match l with
  | [] => []
  | x :: t => if in_names x seen then distinct_first t seen else x :: distinct_first t (seen ++ [x])
  end.
(** the inner [while next_name in taken] loop: returns the free name and the counter *)
Fixpoint free_name (fuel : nat) (name : list Z) (i j : Z) (taken : list (list Z)) : res (list Z * Z) :=
  match fuel with
  | O => OutOfFuel
  | S f =>
      let nn := add_count name i in
      if in_names nn taken then
        (if j + 1 >? zlen taken then Err CouldNotDetermineName else free_name f name (i + 1) (j + 1) taken)
      else Ok (nn, i)
  end.
(** assign names to the [k] members of one group (k >= 2): first keeps the name *)
Definition add_taken (n : list Z) (taken : list (list Z)) : list (list Z) :=
  if in_names n taken then taken else taken ++ [n].
Fixpoint assign_group (fuel : nat) (members : nat) (name : list Z) (i : Z) (first : bool)
         (taken : list (list Z)) (acc : list (list Z)) : res (list (list Z) * list (list Z)) :=
  match members with
  | O => Ok (acc, taken)
  | S m =>
      if first then assign_group fuel m name 1 false (add_taken name taken) (acc ++ [name])
      else
        r <- free_name fuel name (i + 1) 0 taken ;;
        assign_group fuel m name (snd r) false (add_taken (fst r) taken) (acc ++ [fst r])
  end.
Definition count_occ_name (n : list Z) (l : list (list Z)) : nat := length (filter (str_eqb n) l).
(** process the groups in order; returns, per candidate name, the list of assigned names *)
Fixpoint assign_all (groups : list (list Z)) (cands : list (list Z)) (taken : list (list Z))
  : res (list (list Z * list (list Z))) :=
  match groups with
  | [] => Ok []
  | g :: rest =>
      let k := count_occ_name g cands in
      if (k =? 1)%nat then
        r <- assign_all rest cands taken ;; Ok ((g, [g]) :: r)
      else
        a <- assign_group (S (length taken + length cands + length cands)) k g 0 true taken [] ;;
        r <- assign_all rest cands (snd a) ;; Ok ((g, fst a) :: r)
  end.
(** hand the assigned names back to the elements in directory order *)
Fixpoint pop_assigned (g : list Z) (tbl : list (list Z * list (list Z)))
  : option (list Z * list (list Z * list (list Z))) :=
  match tbl with
  | [] => None
  | (k, vs) :: t =>
      if str_eqb k g then
        match vs with v :: vs' => Some (v, (k, vs') :: t) | [] => None end
      else match pop_assigned g t with Some (v, t') => Some (v, (k, vs) :: t') | None => None end
  end.
Fixpoint distribute (cands : list (list Z)) (tbl : list (list Z * list (list Z))) : list (list Z) :=
  match cands with
  | [] => []
  | c :: t => match pop_assigned c tbl with
              | Some (v, tbl') => v :: distribute t tbl'
              | None => c :: distribute t tbl
              end
  end.
Definition sanitize_names (f : list Z -> bool -> list Z) (elems : list (list Z * bool)) : res (list (list Z)) :=
  let cands := map (fun e => f (fst e) (snd e)) elems in
  let groups := distinct_first cands [] in
  tbl <- assign_all groups cands groups ;;
  Ok (distribute cands tbl).
Definition make_safe_names (elems : list (list Z * bool)) := sanitize_names (fun n _ => make_safe_name n) elems.
Definition make_export_names (elems : list (list Z * bool)) := sanitize_names make_export_name elems.

(** * combine_stereo_routine on the export names of one directory's samples
    Result: one entry per output file: (name, list of source indices in channel order). *)
Fixpoint last_index_of (n : list Z) (names : list (list Z)) (i : nat) (found : option nat) : option nat :=
  match names with
  | [] => found
  | x :: t => last_index_of n t (S i) (if str_eqb x n then Some i else found)
  end.
Fixpoint combine_loop (todo : list (nat * list Z)) (names : list (list Z)) (marked : list (list Z))
  : list (list Z * list nat) :=
  match todo with
  | [] => []
  | (i, name) :: rest =>
      if in_names name marked then combine_loop rest names marked
      else
        match stereo_match name with
        | Some m =>
            let alt := if st_side m =? 76 then 82 else 76 in
            let alt_name := st_stem m ++ st_sep m ++ [alt] in
            match last_index_of alt_name names 0 None with
            | Some j =>
                let pair := if alt =? 82 then [i; j] else [j; i] in
                (st_stem m, pair) :: combine_loop rest names (marked ++ [alt_name; name])
            | None => (name, [i]) :: combine_loop rest names (marked ++ [name])
            end
        | None => (name, [i]) :: combine_loop rest names (marked ++ [name])
        end
  end.
Definition combine_stereo (names : list (list Z)) : list (list Z * list nat) :=
  combine_loop (combine (seq 0 (length names)) names) names [].

(** * parse_path *)
(** _TOKENIZE_PATH_REGEX = (\\{1,2}|\/) : re.split; the tokens between separators (one or
    two backslashes, greedily, or one slash) *)
Fixpoint split_path (l cur : list Z) : list (list Z) :=
  match l with
  | [] => [cur]
  | c :: t =>
      if c =? 47 then cur :: split_path t []
      else if c =? 92 then
        match t with
        | d :: t' => if d =? 92 then cur :: split_path t' [] else cur :: split_path t []
        | [] => cur :: split_path t []
        end
      else split_path t (cur ++ [c])
  end.
Definition path_tokens (path : list Z) : list (list Z) :=
  let toks := split_path (strip path) [] in
  match rev toks with
  | last_tok :: r => match last_tok with [] => rev r | _ => toks end   (* one trailing empty token dropped *)
  | [] => toks
  end.
(** Traversable._sanitize_string and the AKAI image's override *)
Definition sanitize_token (akai : bool) (s : list Z) : list Z :=
  if akai then
    let r := strip (map upper_c s) in
    match rev r with c :: t => if c =? 58 then rev t else r | [] => r end
  else strip s.
(** index of the first child whose normalised safe name equals the normalised token *)
Fixpoint find_child (akai : bool) (tok : list Z) (children : list (list Z)) (i : nat) : option nat :=
  match children with
  | [] => None
  | c :: t => if str_eqb (sanitize_token akai c) tok then Some i else find_child akai tok t (S i)
  end.

(** * The directory tree as parse_path sees it: every node's children with their safe names *)
Inductive tree := Leaf | Dir (children : list (list Z * tree)).
(** Walk the tokens down from [t]: Some (child indices) = the node found; None =
    ErrorInvalidPath ("... was not found ...": no child with that name, or a leaf on the way). *)
Fixpoint walk (akai : bool) (tokens : list (list Z)) (t : tree) : option (list nat) :=
  match tokens with
  | [] => Some []
  | tok :: rest =>
      match t with
      | Leaf => None
      | Dir ch =>
          match find_child akai (sanitize_token akai tok) (map fst ch) 0 with
          | Some i =>
              match nth_error ch i with
              | Some (_, sub) => match walk akai rest sub with Some p => Some (i :: p) | None => None end
              | None => None
              end
          | None => None
          end
      end
  end.
Definition parse_path (akai : bool) (root : tree) (path : list Z) : option (list nat) :=
  walk akai (path_tokens path) root.
