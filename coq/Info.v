(** Model of what `ls <image> <item>` prints for a leaf item (C20).

    - a generic record-layout interpreter ([entry], [parse], [build]) standing for the
      fixed-width integer / padding primitives of `construct` (Int8ul, Int8sl, Int16ul,
      Int16sl, Int32ul, Padding, arrays of those);
    - smpl_extract/akai/sample.py: SampleHeaderConstruct (140 bytes), LoopEntryAdapter._decode,
      SampleAdapter._decode_element (active loops, rate default);
    - smpl_extract/akai/program.py: ProgramHeaderConstruct (72 bytes), KeygroupLinkConstruct /
      ProgramParser (the keygroup chain walk);
    - smpl_extract/akai/keygroup.py: KeygroupConstruct (38 + 28*n bytes for n zone slots, 150
      for n = 4), PaddedGeneral (zones with a non-empty name), SlicingGeneral (the first
      [num_active] entries of the three per-zone arrays), KeygroupAdapter;
    - smpl_extract/roland/s7xx/sample_entry.py: SampleParamEntryStruct (48 bytes);
    - smpl_extract/cdda/image.py: AudioTrack fields;
    - smpl_extract/elements.py LeafElement.itemize + util/dataclass.py itemize_general (the item
      tree) and smpl_extract/info.py InfoTree.print_tree (80 columns, 300 rows);
    - [unrender]: the reader of a printed listing used by the property oracle.

    str(float) of a tuning value is NOT modelled: it is the section variable [print_cents]
    (raw signed tuning byte -> printed text). *)
From SE Require Import Base Codecs Cue.
From Coq Require Import String Ascii.
Open Scope list_scope.
Open Scope Z_scope.

(** * Text helpers: strings are lists of character codes.  [! "text"] is the list of codes
    of a literal, computed when this file is compiled (Coq's [string] type is not used by any
    model function). *)
Definition zs (s : string) : list Z := map (fun a => Z.of_N (N_of_ascii a)) (list_ascii_of_string s).
Notation "'!' s" := (ltac:(let v := eval vm_compute in (zs s%string) in exact v))
  (at level 0, s at level 0, only parsing).
Definition name := list Z.
Fixpoint name_eqb (a b : list Z) : bool :=
  match a, b with
  | [], [] => true
  | x :: a', y :: b' => (x =? y) && name_eqb a' b'
  | _, _ => false
  end.
Definition sub_name (base : name) (i : nat) : name := base ++ [91] ++ str_Z (Z.of_nat i) ++ [93].

(** * Record layouts *)
Inductive entry :=
| Fld (name : name) (width : nat) (signed : bool) (big : bool)
| Pad (width : nat) (pattern : Z).
Definition layout := list entry.

Definition ewidth (e : entry) : nat := match e with Fld _ w _ _ => w | Pad w _ => w end.
Fixpoint lsize (L : layout) : nat := match L with [] => O | e :: t => (ewidth e + lsize t)%nat end.

Fixpoint le_val (l : list Z) : Z := match l with [] => 0 | b :: t => b + 256 * le_val t end.
Fixpoint le_bytes (n : nat) (v : Z) : list Z :=
  match n with O => [] | S n => v mod 256 :: le_bytes n (v / 256) end.
Definition wpow (w : nat) : Z := 256 ^ Z.of_nat w.

Definition field_decode (w : nat) (signed big : bool) (bs : list Z) : Z :=
  let u := le_val (if big then rev bs else bs) in
  if signed && (wpow w <=? 2 * u) then u - wpow w else u.
Definition field_encode (w : nat) (big : bool) (v : Z) : list Z :=
  let bs := le_bytes w (v mod wpow w) in if big then rev bs else bs.
Definition field_in_range (w : nat) (signed : bool) (v : Z) : Prop :=
  if signed then - wpow w <= 2 * v < wpow w else 0 <= v < wpow w.
Definition field_in_rangeb (w : nat) (signed : bool) (v : Z) : bool :=
  if signed then (- wpow w <=? 2 * v) && (2 * v <? wpow w) else (0 <=? v) && (v <? wpow w).

(** values of the (non padding) fields, in layout order *)
Fixpoint parse (L : layout) (bs : list Z) : list Z :=
  match L with
  | [] => []
  | Fld _ w s b :: t => field_decode w s b (firstn w bs) :: parse t (skipn w bs)
  | Pad w _ :: t => parse t (skipn w bs)
  end.
Fixpoint build (L : layout) (vs : list Z) : list Z :=
  match L with
  | [] => []
  | Fld _ w _ b :: t => field_encode w b (hd 0 vs) ++ build t (tl vs)
  | Pad w p :: t => repeat p w ++ build t vs
  end.
Fixpoint fields (L : layout) : list (name * nat * bool) :=
  match L with
  | [] => []
  | Fld n w s _ :: t => (n, w, s) :: fields t
  | Pad _ _ :: t => fields t
  end.
Definition names (L : layout) : list name := map (fun f => fst (fst f)) (fields L).
(** (offset, width, signed, big) of every field *)
Fixpoint offsets (L : layout) (off : nat) : list (nat * nat * bool * bool) :=
  match L with
  | [] => []
  | Fld _ w s b :: t => (off, w, s, b) :: offsets t (off + w)
  | Pad w _ :: t => offsets t (off + w)
  end.
Definition values_in_range (L : layout) (vs : list Z) : Prop :=
  Forall2 (fun f v => field_in_range (snd (fst f)) (snd f) v) (fields L) vs.

(** named access to a parsed record *)
Definition env := list (name * Z).
Definition parse_env (L : layout) (bs : list Z) : env := combine (names L) (parse L bs).
Fixpoint get (e : env) (n : name) : Z :=
  match e with [] => 0 | (k, v) :: t => if name_eqb k n then v else get t n end.
Definition get_arr (e : env) (base : name) (n : nat) : list Z :=
  map (fun i => get e (sub_name base i)) (seq 0 n).

Definition u8 (n : name) := Fld n 1 false false.
Definition s8 (n : name) := Fld n 1 true false.
Definition u16 (n : name) := Fld n 2 false false.
Definition s16 (n : name) := Fld n 2 true false.
Definition u32 (n : name) := Fld n 4 false false.
Definition arr (base : name) (n : nat) (mk : name -> entry) : layout :=
  map (fun i => mk (sub_name base i)) (seq 0 n).

(** * The item tree of itemize / itemize_general and its rendering *)
Inductive item :=
| IStr (s : list Z)
| IMap (l : list (list Z * item))
| ISeq (l : list item).
(** the same tree with the keys print_tree gives to sequence members: prev_key[i] *)
Inductive kitem :=
| KStr (s : list Z)
| KNode (l : list (list Z * kitem)).

Definition seq_key (prev : list Z) (i : Z) : list Z := prev ++ [91] ++ str_Z i ++ [93].

Fixpoint keyed (prev : list Z) (it : item) : kitem :=
  match it with
  | IStr s => KStr s
  | IMap l =>
      KNode ((fix go (l : list (list Z * item)) : list (list Z * kitem) :=
                match l with
                | [] => []
                | (k, v) :: t => (k, keyed k v) :: go t
                end) l)
  | ISeq l =>
      KNode ((fix go (i : Z) (l : list item) : list (list Z * kitem) :=
                match l with
                | [] => []
                | v :: t => (seq_key prev i, keyed (seq_key prev i) v) :: go (i + 1) t
                end) 0 l)
  end.

Record row := { r_depth : nat; r_key : list Z; r_val : option (list Z) }.

Definition NONE_TEXT : list Z := [78; 111; 110; 101].   (* (! "None") *)
Definition val_of (v : kitem) : option (list Z) :=
  match v with
  | KStr s => Some s
  | KNode [] => Some NONE_TEXT
  | KNode _ => None
  end.

(** build_inner: one row per key, children one level deeper right after their parent *)
Fixpoint rows (d : nat) (it : kitem) : list row :=
  match it with
  | KStr _ => []
  | KNode l =>
      (fix go (l : list (list Z * kitem)) : list row :=
         match l with
         | [] => []
         | (k, v) :: t => {| r_depth := d; r_key := k; r_val := val_of v |} :: rows (S d) v ++ go t
         end) l
  end.

Definition TOTAL_WIDTH : Z := 80.
Definition MAX_ROWS : Z := 300.
Definition line_of (r : row) : list Z :=
  repeat 32 (2 * r_depth r) ++ r_key r ++ [58] ++ match r_val r with None => [] | Some s => 32 :: s end.
Definition trunc_line (l : list Z) : list Z :=
  if TOTAL_WIDTH <? zlen l then firstn 77 l ++ [46; 46; 46] else l.
Definition EXCEEDED : list Z := (! "(...) exceeded 300 lines").
(** header = (safe_name, (! "  "), type_name) joined by (! " ") *)
Definition header_line (safe_name type_name : list Z) : list Z :=
  safe_name ++ [32; 32; 32; 32] ++ type_name.
Definition print_lines (hdr : list Z) (t : kitem) : list (list Z) :=
  let all := trunc_line hdr :: repeat 45 80 :: map (fun r => trunc_line (line_of r)) (rows 0 t) in
  if MAX_ROWS + 1 <? zlen all then firstn 301 all ++ [[]; EXCEEDED] else all.
(** the text written to stdout: every line terminated by a newline, plus print()'s own *)
Definition print_text (hdr : list Z) (t : kitem) : list Z :=
  flat_map (fun l => l ++ [10]) (print_lines hdr t) ++ [10].

(** ** Reading a listing back *)
Fixpoint split_lines_aux (cur : list Z) (l : list Z) : list (list Z) :=
  match l with
  | [] => match cur with [] => [] | _ => [rev cur] end
  | c :: t => if c =? 10 then rev cur :: split_lines_aux [] t else split_lines_aux (c :: cur) t
  end.
Definition split_lines (l : list Z) : list (list Z) := split_lines_aux [] l.

Fixpoint count_sp (l : list Z) : nat * list Z :=
  match l with
  | c :: t => if c =? 32 then let r := count_sp t in (S (fst r), snd r) else (O, l)
  | [] => (O, [])
  end.
Fixpoint split_colon (l : list Z) : option (list Z * list Z) :=
  match l with
  | [] => None
  | c :: t =>
      if c =? 58 then Some ([], t)
      else match split_colon t with Some (k, r) => Some (c :: k, r) | None => None end
  end.
Definition parse_line (l : list Z) : option row :=
  let r := count_sp l in
  match split_colon (snd r) with
  | None => None
  | Some (k, rest) =>
      Some {| r_depth := Nat.div2 (fst r); r_key := k;
              r_val := match rest with [] => None | _ :: s => Some s end |}
  end.
Definition kv := (list (list Z) * option (list Z))%type.
Fixpoint paths (stack : list (list Z)) (rs : list row) : list kv :=
  match rs with
  | [] => []
  | r :: t => let p := firstn (r_depth r) stack ++ [r_key r] in (p, r_val r) :: paths p t
  end.
Definition rows_of_lines (ls : list (list Z)) : list row :=
  flat_map (fun l => match parse_line l with Some r => [r] | None => [] end) ls.
Definition unrender (ls : list (list Z)) : list kv := paths [] (rows_of_lines (skipn 2 ls)).
Definition unrender_text (t : list Z) : list kv := unrender (split_lines t).

(** what a listing is expected to say: every (key path, value) of the tree, in order; a
    row that only opens a sub-tree has no value; an empty sub-tree reads (! "None") *)
Fixpoint flatten (p : list (list Z)) (it : kitem) : list kv :=
  match it with
  | KStr _ => []
  | KNode l =>
      (fix go (l : list (list Z * kitem)) : list kv :=
         match l with
         | [] => []
         | (k, v) :: t => (p ++ [k], val_of v) :: flatten (p ++ [k]) v ++ go t
         end) l
  end.

(** * Printers of single values *)
Definition TRUE_TEXT := (! "True").
Definition FALSE_TEXT := (! "False").
Definition show_bool (b : bool) : list Z := if b then TRUE_TEXT else FALSE_TEXT.
Definition show_note (raw : Z) : list Z := note_to_string (from_akai_byte raw).

(** AkaiLoopType.__str__ *)
Definition loop_type_text (v : Z) : list Z :=
  if v =? 0 then (! "Loop in release") else if v =? 1 then (! "Loop until release")
  else if v =? 2 then (! "No loop") else if v =? 3 then (! "Play until end")
  else (! "Loop as sample").
Definition sample_type_text (v : Z) : list Z := if v =? 1 then (! "S1000 Sample") else (! "S3000 Sample").
Definition priority_text (v : Z) : list Z :=
  if v =? 0 then (! "Low") else if v =? 1 then (! "Normal") else if v =? 2 then (! "High") else (! "Hold").
Definition reassign_text (v : Z) : list Z := if v =? 0 then (! "Oldest") else (! "Quietiest").
(** ZoneLoopTypeAdapter: stored byte -> AkaiLoopType value (default AS_SAMPLE) *)
Definition zone_loop_value (raw : Z) : Z :=
  if raw =? 1 then 0 else if raw =? 2 then 1 else if raw =? 3 then 2 else if raw =? 4 then 3 else 4.

(** how a stored field is shown *)
Inductive pkind :=
| PInt | PNote | PBool | PCents | POmni | POff
| PPriority | PReassign | PVoiceDb | PStereoDb | PZoneLoop.

(** AKAI padded string: 12 codes, trailing AKAI blanks (10) stripped, then converted;
    a code outside the AKAI character set is a ConstructError *)
Fixpoint rstrip_akai (l : list Z) : list Z :=
  match l with
  | [] => []
  | c :: t => match rstrip_akai t with
              | [] => if c =? 10 then [] else [c]
              | t' => c :: t'
              end
  end.
Definition decode_name (codes : list Z) : res (list Z) :=
  match akai_to_ascii (rstrip_akai codes) with
  | Ok s => Ok s
  | Err _ => Err ConstructErr
  | OutOfFuel => OutOfFuel
  end.

Section WithFloatPrinter.
(** str(parse_akai_tune_cents(raw)) for a signed tuning byte: opaque *)
Variable print_cents : Z -> list Z.

Definition show (k : pkind) (v : Z) : list Z :=
  match k with
  | PInt => str_Z v
  | PNote => show_note v
  | PBool => show_bool (negb (v =? 0))
  | PCents => print_cents v
  | POmni => if v =? 255 then (! "Omni") else str_Z v
  | POff => if v =? 255 then (! "Off") else str_Z v
  | PPriority => priority_text v
  | PReassign => reassign_text v
  | PVoiceDb => if v =? 0 then str_Z (-6) else if v =? 2 then str_Z 12 else str_Z 0
  | PStereoDb => if v =? 1 then str_Z 6 else str_Z 0
  | PZoneLoop => loop_type_text (zone_loop_value v)
  end.
Definition str_field (e : env) (n : name) (k : pkind) : list Z * item :=
  (n, IStr (show k (get e n))).

(** * AKAI sample header *)
Definition loop_layout (i : nat) : layout :=
  [u32 (sub_name (! "loop_start") i); u16 (sub_name (! "loop_length_fine") i);
   u32 (sub_name (! "loop_length_coarse") i); u16 (sub_name (! "loop_duration") i)].
Definition sample_layout : layout :=
  [u8 (! "id"); Pad 1 0; u8 (! "note_pitch")] ++ arr (! "sample_name") 12 u8 ++
  [Pad 4 0; u8 (! "loop_type"); s8 (! "pitch_offset_cents"); s8 (! "pitch_offset_semi"); Pad 4 0;
   u32 (! "samples_cnt"); u32 (! "play_start"); u32 (! "play_end")] ++
  flat_map loop_layout (seq 0 8) ++ [Pad 4 0; u16 (! "sampling_rate")].

Record loop_entry := { le_start : Z; le_end : Z; le_duration : Z; le_forever : bool }.
(** LoopEntryAdapter._decode *)
Definition decode_loop (loop_at coarse duration : Z) : loop_entry :=
  let s := (loop_at - 1) - coarse in
  {| le_start := if s <? 0 then 0 else s; le_end := loop_at; le_duration := duration;
     le_forever := duration >=? 9999 |}.

Record sample := {
  s_sample_name : list Z; s_type : Z; s_rate : Z; s_cnt : Z; s_start : Z; s_end : Z;
  s_note : Z; s_cents : Z; s_semi : Z; s_loop_type : Z; s_loops : list loop_entry }.

Definition LOOP_INACTIVE : Z := 2.
Definition DEFAULT_SAMPLE_RATE : Z := 44100.
Definition active_loops (loop_type : Z) (table : list loop_entry) : list loop_entry :=
  if loop_type =? LOOP_INACTIVE then [] else filter (fun l => 0 <? le_duration l) table.
Definition sample_rate_of (stored : Z) : Z := if stored =? 0 then DEFAULT_SAMPLE_RATE else stored.

Definition sample_of_env (e : env) : res sample :=
  if negb ((get e (! "id") =? 1) || (get e (! "id") =? 3)) then Err ConstructErr else
  nm <- decode_name (get_arr e (! "sample_name") 12) ;;
  if negb ((0 <=? get e (! "loop_type")) && (get e (! "loop_type") <=? 4)) then Err ConstructErr else
  let table := map (fun i => decode_loop (get e (sub_name (! "loop_start") i))
                                         (get e (sub_name (! "loop_length_coarse") i))
                                         (get e (sub_name (! "loop_duration") i))) (seq 0 8) in
  Ok {| s_sample_name := nm; s_type := get e (! "id"); s_rate := sample_rate_of (get e (! "sampling_rate"));
        s_cnt := get e (! "samples_cnt"); s_start := get e (! "play_start"); s_end := get e (! "play_end");
        s_note := get e (! "note_pitch"); s_cents := get e (! "pitch_offset_cents");
        s_semi := get e (! "pitch_offset_semi"); s_loop_type := get e (! "loop_type");
        s_loops := active_loops (get e (! "loop_type")) table |}.
Definition decode_sample (bs : list Z) : res sample :=
  if zlen bs <? Z.of_nat (lsize sample_layout) then Err ConstructErr
  else sample_of_env (parse_env sample_layout bs).

Definition loop_item (l : loop_entry) : item :=
  IMap [((! "loop_start"), IStr (str_Z (le_start l))); ((! "loop_end"), IStr (str_Z (le_end l)));
        ((! "loop_duration"), IStr (str_Z (le_duration l)));
        ((! "repeat_forever"), IStr (show_bool (le_forever l)))].
(** AkaiSample fields kept by LeafElement.itemize, in dataclass order *)
Definition sample_item (file_name : list Z) (s : sample) : item :=
  IMap [((! "file_name"), IStr file_name);
        ((! "sample_name"), IStr (s_sample_name s));
        ((! "sample_type"), IStr (sample_type_text (s_type s)));
        ((! "sample_rate"), IStr (str_Z (s_rate s)));
        ((! "bytes_per_sample"), IStr (str_Z 2));
        ((! "samples_cnt"), IStr (str_Z (s_cnt s)));
        ((! "start_sample"), IStr (str_Z (s_start s)));
        ((! "end_sample"), IStr (str_Z (s_end s)));
        ((! "note_pitch"), IStr (show_note (s_note s)));
        ((! "pitch_cents"), IStr (print_cents (s_cents s)));
        ((! "pitch_semi"), IStr (str_Z (s_semi s)));
        ((! "loop_type"), IStr (loop_type_text (s_loop_type s)));
        ((! "loop_entries"), ISeq (map loop_item (s_loops s)))].

(** * AKAI program header *)
Definition program_layout : layout :=
  [u8 (! "program_id"); u16 (! "first_keygroup_address")] ++ arr (! "program_name") 12 u8 ++
  [u8 (! "midi_program_number"); u8 (! "midi_channel"); u8 (! "polyphony"); u8 (! "priority"); u8 (! "low_key");
   u8 (! "high_key"); s8 (! "octave_shift"); u8 (! "aux_output_select"); u8 (! "mix_output_level");
   s8 (! "mix_output_pan"); u8 (! "volume"); s8 (! "vel_to_volume"); s8 (! "key_to_volume"); s8 (! "pres_to_volume");
   u8 (! "pan_lfo_rate"); u8 (! "pan_lfo_depth"); u8 (! "pan_lfo_delay"); s8 (! "key_to_pan"); u8 (! "lfo_rate");
   u8 (! "lfo_depth"); u8 (! "lfo_delay"); u8 (! "mod_to_lfo_depth"); u8 (! "pres_to_lfo_depth");
   u8 (! "vel_to_lfo_depth"); u8 (! "bend_to_pitch"); s8 (! "pres_to_pitch"); u8 (! "keygroup_crossfade");
   u8 (! "number_of_keygroups"); Pad 1 0] ++ arr (! "key_temperaments") 12 u8 ++
  [u8 (! "fx_output"); s8 (! "mod_to_pan"); u8 (! "stereo_coherence"); u8 (! "lfo_desync"); u8 (! "pitch_law");
   u8 (! "voice_reassign"); u8 (! "softped_to_volume"); u8 (! "softped_to_attack"); u8 (! "softped_to_filter");
   s8 (! "tune_cents"); s8 (! "tune_semitones"); s8 (! "key_to_lfo_rate"); s8 (! "key_to_lfo_depth");
   s8 (! "key_to_lfo_delay"); u8 (! "voice_output_scale_db"); u8 (! "stereo_output_scale_db")].

(** fields of ProgramHeaderCommon in dataclass order, split around key_temperaments *)
Definition program_view_a : list (name * pkind) :=
  [((! "program_id"), PInt)].
Definition program_view_b : list (name * pkind) :=
  [((! "midi_program_number"), PInt); ((! "midi_channel"), POmni); ((! "polyphony"), PInt);
   ((! "priority"), PPriority); ((! "low_key"), PNote); ((! "high_key"), PNote); ((! "octave_shift"), PInt);
   ((! "aux_output_select"), POff); ((! "mix_output_level"), PInt); ((! "mix_output_pan"), PInt);
   ((! "volume"), PInt); ((! "vel_to_volume"), PInt); ((! "key_to_volume"), PInt); ((! "pres_to_volume"), PInt);
   ((! "pan_lfo_rate"), PInt); ((! "pan_lfo_depth"), PInt); ((! "pan_lfo_delay"), PInt); ((! "key_to_pan"), PInt);
   ((! "lfo_rate"), PInt); ((! "lfo_depth"), PInt); ((! "lfo_delay"), PInt); ((! "mod_to_lfo_depth"), PInt);
   ((! "pres_to_lfo_depth"), PInt); ((! "vel_to_lfo_depth"), PInt); ((! "bend_to_pitch"), PInt);
   ((! "pres_to_pitch"), PInt); ((! "keygroup_crossfade"), PBool); ((! "number_of_keygroups"), PInt)].
Definition program_view_c : list (name * pkind) :=
  [((! "fx_output"), PBool); ((! "mod_to_pan"), PInt); ((! "stereo_coherence"), PBool); ((! "lfo_desync"), PBool);
   ((! "pitch_law"), PInt); ((! "voice_reassign"), PReassign); ((! "softped_to_volume"), PInt);
   ((! "softped_to_attack"), PInt); ((! "softped_to_filter"), PInt); ((! "tune_cents"), PCents);
   ((! "tune_semitones"), PInt); ((! "key_to_lfo_rate"), PInt); ((! "key_to_lfo_depth"), PInt);
   ((! "key_to_lfo_delay"), PInt); ((! "voice_output_scale_db"), PVoiceDb);
   ((! "stereo_output_scale_db"), PStereoDb)].

(** * AKAI keygroup *)
Definition zone_layout (i : nat) : layout :=
  arr (sub_name (! "zone_name") i) 12 u8 ++
  [u8 (sub_name (! "low_velocity") i); u8 (sub_name (! "high_velocity") i); s8 (sub_name (! "tune_cents") i);
   s8 (sub_name (! "tune_semitones") i); s8 (sub_name (! "loudness_offset") i);
   s8 (sub_name (! "filter_cutoff_offset") i); s8 (sub_name (! "pan_offset") i); u8 (sub_name (! "loop_mode") i);
   Pad 2 255; Pad 1 44; Pad 1 1].
Definition keygroup_head : layout :=
  [u8 (! "block_id"); u16 (! "next_keygroup_address"); u8 (! "low_key"); u8 (! "high_key"); s8 (! "tune_cents");
   s8 (! "tune_semitones"); u8 (! "filter_cutoff"); u8 (! "key_to_filter_cutoff");
   s8 (! "velocity_to_filter_cutoff"); s8 (! "pressure_to_filter_cutoff"); s8 (! "env2_to_filter_cutoff");
   u8 (! "env1_attack"); u8 (! "env1_decay"); u8 (! "env1_sustain"); u8 (! "env1_release");
   s8 (! "env1_velocity_to_attack"); s8 (! "env1_velocity_to_release"); s8 (! "env1_off_velocity_to_release");
   s8 (! "env1_key_to_decay_and_release"); u8 (! "env2_attack"); u8 (! "env2_decay"); u8 (! "env2_sustain");
   u8 (! "env2_release"); s8 (! "env2_velocity_to_attack"); s8 (! "env2_velocity_to_release");
   s8 (! "env2_off_velocity_to_release"); s8 (! "env2_key_to_decay_and_release");
   s8 (! "velocity_to_env2_to_filter_cutoff"); s8 (! "env2_to_pitch"); u8 (! "velocity_zone_crossfade");
   u8 (! "num_velocity_zones"); Pad 2 255].
(** [n] = the stored num_velocity_zones (4 in a well-formed file: 150 bytes) *)
Definition keygroup_layout (n : nat) : layout :=
  keygroup_head ++ flat_map zone_layout (seq 0 n) ++
  [s8 (! "beat_detune"); u8 (! "hold_attack_until_loop")] ++
  arr (! "enable_key_tracking") n u8 ++ arr (! "aux_out_offset") n u8 ++ arr (! "velocity_to_sample_start") n s16 ++
  [s8 (! "velocity_to_volume_offset"); Pad 1 0].
Definition NUM_ZONES_OFFSET : nat := 31%nat.

Definition keygroup_view_a : list (name * pkind) :=
  [((! "block_id"), PInt); ((! "low_key"), PNote); ((! "high_key"), PNote); ((! "tune_cents"), PCents);
   ((! "tune_semitones"), PInt); ((! "filter_cutoff"), PInt); ((! "key_to_filter_cutoff"), PInt);
   ((! "velocity_to_filter_cutoff"), PInt); ((! "pressure_to_filter_cutoff"), PInt);
   ((! "env2_to_filter_cutoff"), PInt); ((! "env1_attack"), PInt); ((! "env1_decay"), PInt);
   ((! "env1_sustain"), PInt); ((! "env1_release"), PInt); ((! "env1_velocity_to_attack"), PInt);
   ((! "env1_velocity_to_release"), PInt); ((! "env1_off_velocity_to_release"), PInt);
   ((! "env1_key_to_decay_and_release"), PInt); ((! "env2_attack"), PInt); ((! "env2_decay"), PInt);
   ((! "env2_sustain"), PInt); ((! "env2_release"), PInt); ((! "env2_velocity_to_attack"), PInt);
   ((! "env2_velocity_to_release"), PInt); ((! "env2_off_velocity_to_release"), PInt);
   ((! "env2_key_to_decay_and_release"), PInt); ((! "velocity_to_env2_to_filter_cutoff"), PInt);
   ((! "env2_to_pitch"), PInt); ((! "velocity_zone_crossfade"), PBool); ((! "beat_detune"), PInt);
   ((! "hold_attack_until_loop"), PBool); ((! "velocity_to_volume_offset"), PInt)].
Definition zone_view : list (name * pkind) :=
  [((! "low_velocity"), PInt); ((! "high_velocity"), PInt); ((! "tune_cents"), PCents); ((! "tune_semitones"), PInt);
   ((! "loudness_offset"), PInt); ((! "filter_cutoff_offset"), PInt); ((! "pan_offset"), PInt);
   ((! "loop_mode"), PZoneLoop)].

(** a stored zone slot: decoded name and the slot number *)
Record zone := { z_slot : nat; z_name : list Z }.
Record keygroup := { k_env : env; k_nzones : nat; k_next : Z; k_zones : list zone }.

Definition decode_zone_names (e : env) (n : nat) : res (list zone) :=
  map_res (fun i => nm <- decode_name (get_arr e (sub_name (! "zone_name") i) 12) ;;
                    Ok {| z_slot := i; z_name := nm |}) (seq 0 n).
(** PaddedGeneral's Filter: the slots with a non-empty name, stored order *)
Definition active_zones (zs_ : list zone) : list zone :=
  filter (fun z => match z_name z with [] => false | _ => true end) zs_.

(** KeygroupConstruct on the bytes starting at the current position *)
Definition decode_keygroup (bs : list Z) : res keygroup :=
  if zlen bs <=? Z.of_nat NUM_ZONES_OFFSET then Err ConstructErr else
  let n := Z.to_nat (nth NUM_ZONES_OFFSET bs 0) in
  let L := keygroup_layout n in
  if zlen bs <? Z.of_nat (lsize L) then Err ConstructErr else
  let e := parse_env L bs in
  zs_ <- decode_zone_names e n ;;
  Ok {| k_env := e; k_nzones := n; k_next := get e (! "next_keygroup_address");
        k_zones := active_zones zs_ |}.
Definition keygroup_size (k : keygroup) : Z := Z.of_nat (lsize (keygroup_layout (k_nzones k))).

(** the [j]-th LISTED zone: its own slot's record fields, and entry [j] of the three per-zone
    arrays (SlicingGeneral keeps the FIRST num_active entries, whichever slots are active) *)
Definition zone_item (e : env) (j : nat) (z : zone) : item :=
  IMap (((! "sample_name"), IStr (z_name z)) ::
        map (fun nk => ((fst nk), IStr (show (snd nk) (get e (sub_name (fst nk) (z_slot z)))))) zone_view ++
        [((! "enable_key_tracking"), IStr (show PBool (get e (sub_name (! "enable_key_tracking") j))));
         ((! "aux_out_offset"), IStr (show PInt (get e (sub_name (! "aux_out_offset") j))));
         ((! "velocity_to_sample_start"), IStr (show PInt (get e (sub_name (! "velocity_to_sample_start") j))))]).
Fixpoint zone_items (e : env) (j : nat) (l : list zone) : list item :=
  match l with [] => [] | z :: t => zone_item e j z :: zone_items e (S j) t end.
Definition keygroup_item (k : keygroup) : item :=
  IMap (map (fun nk => str_field (k_env k) (fst nk) (snd nk)) keygroup_view_a ++
        [((! "velocity_zones"), ISeq (zone_items (k_env k) 0 (k_zones k)))]).

(** * The keygroup chain (ProgramParser / KeygroupLinkConstruct) *)
(** [n] keygroups still to read, [idx] of the next one, [total] = number_of_keygroups,
    stream position [pos] in the file *)
Fixpoint keygroup_walk (n : nat) (idx total : Z) (file : list Z) (pos : Z) : res (list keygroup) :=
  match n with
  | O => Ok []
  | S n' =>
      k <- decode_keygroup (skipn (Z.to_nat pos) file) ;;
      let pos' := if (0 <? k_next k) && (idx <? total - 1) then k_next k
                  else pos + keygroup_size k in
      rest <- keygroup_walk n' (idx + 1) total file pos' ;;
      Ok (k :: rest)
  end.

Record program := { p_env : env; p_name : list Z; p_keygroups : list keygroup }.
Definition decode_program (file : list Z) : res program :=
  if zlen file <? Z.of_nat (lsize program_layout) then Err ConstructErr else
  let e := parse_env program_layout file in
  nm <- decode_name (get_arr e (! "program_name") 12) ;;
  if negb ((0 <=? get e (! "priority")) && (get e (! "priority") <=? 3)) then Err ConstructErr else
  if negb ((0 <=? get e (! "voice_reassign")) && (get e (! "voice_reassign") <=? 1)) then Err ConstructErr else
  let total := get e (! "number_of_keygroups") in
  let first := get e (! "first_keygroup_address") in
  let pos := if (0 <? first) && (0 <? total) then first else Z.of_nat (lsize program_layout) in
  ks <- keygroup_walk (Z.to_nat total) 0 total file pos ;;
  Ok {| p_env := e; p_name := nm; p_keygroups := ks |}.

Definition program_item (file_name : list Z) (p : program) : item :=
  let e := p_env p in
  IMap (map (fun nk => str_field e (fst nk) (snd nk)) program_view_a ++
        [((! "program_name"), IStr (p_name p))] ++
        map (fun nk => str_field e (fst nk) (snd nk)) program_view_b ++
        [((! "key_temperaments"), ISeq (map (fun v => IStr (str_Z v)) (get_arr e (! "key_temperaments") 12)))] ++
        map (fun nk => str_field e (fst nk) (snd nk)) program_view_c ++
        [((! "keygroups"), ISeq (map keygroup_item (p_keygroups p)));
         ((! "file_name"), IStr file_name)]).

(** * What `ls` prints *)
Definition ls_sample (file_name safe_name : list Z) (body : list Z) : res (list (list Z)) :=
  s <- decode_sample body ;;
  Ok (print_lines (header_line safe_name (sample_type_text (s_type s)))
                  (keyed [] (sample_item file_name s))).
Definition ls_program (file_name safe_name type_name : list Z) (body : list Z) : res (list (list Z)) :=
  p <- decode_program body ;;
  Ok (print_lines (header_line safe_name type_name) (keyed [] (program_item file_name p))).
End WithFloatPrinter.

(** * CDDA track (AudioTrack fields) *)
Definition SAMPLES_PER_FRAME : Z := 588.
Definition cdda_item (title : list Z) (num_audio_samples : Z) : item :=
  IMap [((! "title"), IStr title); ((! "num_channels"), IStr (str_Z 2));
        ((! "sample_rate"), IStr (str_Z 44100)); ((! "bytes_per_sample"), IStr (str_Z 2));
        ((! "num_audio_samples"), IStr (str_Z num_audio_samples))].
Definition window_title (w : window) : list Z :=
  match w_title w with
  | Some t => t
  | None => (! "Untitled Track ") ++ str_Z (w_number w)
  end.
Definition ls_cdda_track (safe_name : list Z) (w : window) : list (list Z) :=
  print_lines (header_line safe_name ((! "CDDA Track")))
              (keyed [] (cdda_item (window_title w) (w_samples w))).

(** * Roland S-7xx sample parameter record (48 bytes), function level *)
Definition roland_point_layout (n : name) : layout := [u32 n].
Definition roland_param_layout : layout :=
  arr (! "name") 16 u8 ++
  [u32 (! "start_sample"); u32 (! "sustain_loop_start"); u32 (! "sustain_loop_end"); u32 (! "release_loop_start");
   u32 (! "release_loop_end"); u8 (! "loop_mode"); u8 (! "sustain_loop_enable"); u8 (! "sustain_loop_tune");
   u8 (! "release_loop_tune"); u16 (! "cluster_top"); u16 (! "num_clusters"); u8 (! "sample_options");
   u8 (! "original_key"); Pad 2 0].
Definition point_fine (raw : Z) : Z := Z.land raw 255.
Definition point_address (raw : Z) : Z := Z.shiftr raw 8.
(** Bitwise(Struct(Nibble, Nibble)): first nibble = high half of the byte *)
Definition high_nibble (b : Z) : Z := Z.shiftr b 4.
Definition low_nibble (b : Z) : Z := Z.land b 15.
Definition roland_frequency (nib : Z) : res Z :=
  if nib =? 0 then Ok 48000 else if nib =? 1 then Ok 44100 else if nib =? 2 then Ok 24000
  else if nib =? 3 then Ok 22050 else if nib =? 4 then Ok 30000 else if nib =? 5 then Ok 15000
  else Err ConstructErr.
Definition roland_mode (nib : Z) : Z := if nib =? 1 then 1 else 0.           (* 0 mono, 1 stereo *)
Definition roland_loop_mode (raw : Z) : Z := if (0 <=? raw) && (raw <=? 6) then raw else 0.
(** -> [mode; frequency; loop mode; then (fine, address) of the five points] *)
Definition decode_roland_param (bs : list Z) : res (list Z) :=
  if zlen bs <? Z.of_nat (lsize roland_param_layout) then Err ConstructErr else
  let e := parse_env roland_param_layout bs in
  f <- roland_frequency (low_nibble (get e (! "sample_options"))) ;;
  Ok ([roland_mode (high_nibble (get e (! "sample_options"))); f; roland_loop_mode (get e (! "loop_mode"))] ++
      flat_map (fun n => [point_fine (get e n); point_address (get e n)])
               [(! "start_sample"); (! "sustain_loop_start"); (! "sustain_loop_end"); (! "release_loop_start");
                (! "release_loop_end")]).
