From SE Require Import Base Lazy.

Section MemoProofs.
  Variable node : Type.
  Variable node_eqb : node -> node -> bool.
  Hypothesis node_eqb_eq : forall a b, node_eqb a b = true <-> a = b.
  Variable value : Type.
  Variable output : Type.
  Variable realise : node -> value.

  Notation lookup := (lookup node node_eqb value).
  Notation get := (get node node_eqb value realise).
  Notation exec := (exec node node_eqb value output realise).
  Notation exec_all := (exec_all node node_eqb value output realise).
  Notation consistent := (consistent node node_eqb value realise).

  Lemma consistent_nil : consistent [].
  Proof. intros n v H. discriminate. Qed.

  Lemma get_spec s n : consistent s -> fst (get s n) = realise n /\ consistent (snd (get s n)).
  Proof.
    intros Hc. unfold Lazy.get. destruct (lookup s n) as [v|] eqn:E; cbn [fst snd].
    - split; [now apply Hc|assumption].
    - split; [reflexivity|]. intros m w H. cbn [Lazy.lookup] in H.
      destruct (node_eqb n m) eqn:Em.
      + apply node_eqb_eq in Em. subst m. now injection H as <-.
      + now apply Hc.
  Qed.

  (** the output of an operation does not depend on the memo state it starts from *)
  Lemma exec_independent : forall p s,
    consistent s -> fst (exec p s) = fst (exec p []) /\ consistent (snd (exec p s)).
  Proof.
    assert (G : forall p s, consistent s ->
              (forall s', consistent s' -> fst (exec p s) = fst (exec p s')) /\ consistent (snd (exec p s))).
    { induction p as [o|n k IH]; intros s Hc; cbn [Lazy.exec].
      - split; [reflexivity|assumption].
      - destruct (get s n) as [v s1] eqn:E.
        destruct (get_spec s n Hc) as [Hv Hc1]. rewrite E in Hv, Hc1. cbn [fst snd] in Hv, Hc1.
        destruct (IH v s1 Hc1) as [I1 I2]. split; [|assumption].
        intros s' Hc'. destruct (get s' n) as [v' s1'] eqn:E'.
        destruct (get_spec s' n Hc') as [Hv' Hc1']. rewrite E' in Hv', Hc1'. cbn [fst snd] in Hv', Hc1'.
        subst v v'. now apply I1. }
    intros p s Hc. destruct (G p s Hc) as [A B]. split; [apply A, consistent_nil|assumption].
  Qed.

  (** after ANY history, each operation answers as it would on a freshly opened image *)
  Lemma history_independent_lemma : forall ps s,
    consistent s ->
    fst (exec_all ps s) = map (fun p => fst (exec p [])) ps /\ consistent (snd (exec_all ps s)).
  Proof.
    induction ps as [|p t IH]; intros s Hc; cbn [Lazy.exec_all map].
    - split; [reflexivity|assumption].
    - destruct (exec p s) as [o s1] eqn:E.
      destruct (exec_independent p s Hc) as [Ho Hc1]. rewrite E in Ho, Hc1. cbn [fst snd] in Ho, Hc1.
      destruct (exec_all t s1) as [os s2] eqn:E2.
      destruct (IH s1 Hc1) as [Hos Hc2]. rewrite E2 in Hos, Hc2. cbn [fst snd] in *.
      split; [now rewrite Ho, Hos|assumption].
  Qed.
End MemoProofs.
