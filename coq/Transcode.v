(** Model of smpl_extract/transcoder.py (make_transcoder, PassthroughTranscoder,
    PipelineTranscoder, decode_frame, encode_frame, resize_buffer, get_buffer_sizes) and the
    parts of data_streams.py it uses, at the level of bytes.

    A sample is the list of its [width] bytes.  numpy reads samples in host order, the
    pipeline byte-swaps input channels whose stream order differs from the host's and
    byte-swaps the output when the destination (little endian) differs from the host's; the
    net effect on the BYTES of a sample - which is all that reaches the file - is: reversed
    iff the source stream is big endian, whatever the host order.  The padded tail that
    numpy's linear_ramp produces when channels of one block differ in length is modelled as
    zero samples: the property does not constrain those values and the correspondence run
    masks them. *)
From SE Require Import Base.

Record src := { sbytes : list Z; swidth : Z; schans : Z; sbig : bool }.
Definition nchan (s : src) : Z := Z.max 1 (schans s).
Definition frame_size (s : src) : Z := schans s * swidth s.

(** get_num_frames_possible / get_buffer_sizes ([target] = the default block size) *)
Definition nframes_possible (target : Z) (s : src) : Z := Z.max 1 (target / frame_size s).
Fixpoint list_min (d : Z) (l : list Z) : Z :=
  match l with [] => d | x :: t => match t with [] => x | _ => Z.min x (list_min d t) end end.
Definition buffer_sizes (target : Z) (ss : list src) : list Z :=
  let nf := list_min 1 (map (nframes_possible target) ss) in
  map (fun s => nf * frame_size s) ss.

(** resize_buffer *)
Definition resize_buffer (buf : list Z) (fs : Z) : list Z :=
  if zlen buf mod fs =? 0 then buf else firstn (Z.to_nat ((zlen buf / fs) * fs)) buf.

(** split a byte list into pieces of [n] bytes (last piece dropped if short) *)
Fixpoint pieces (fuel : nat) (n : nat) (l : list Z) : list (list Z) :=
  match fuel with
  | O => []
  | S f => if (length l <? n)%nat || (n =? 0)%nat then [] else firstn n l :: pieces f n (skipn n l)
  end.
Definition frames_of (s : src) (buf : list Z) : list (list Z) :=
  pieces (length buf) (Z.to_nat (frame_size s)) buf.
Definition samples_of (w : Z) (frame : list Z) : list (list Z) :=
  pieces (length frame) (Z.to_nat w) frame.

(** the little-endian bytes of a sample read from stream [s] *)
Definition le_sample (s : src) (b : list Z) : list Z := if sbig s then rev b else b.

(** one stream's block: its frames, each as the list of its channels' LE samples *)
Definition decode_block (s : src) (buf : list Z) : list (list (list Z)) :=
  map (fun fr => map (le_sample s) (samples_of (swidth s) fr)) (frames_of s (resize_buffer buf (frame_size s))).

Definition zero_sample (w : Z) : list Z := repeat 0 (Z.to_nat w).
(** frame [f] of the encoded block: every stream's channels side by side, a stream that
    ran short contributes padding *)
Definition out_frame (ss : list src) (blocks : list (list (list (list Z)))) (f : nat) : list Z :=
  concat (map (fun sb =>
                 match nth_error (snd sb) f with
                 | Some chans => concat chans
                 | None => concat (repeat (zero_sample (swidth (fst sb))) (Z.to_nat (nchan (fst sb))))
                 end) (combine ss blocks)).
Fixpoint list_max_nat (l : list nat) : nat := match l with [] => O | x :: t => Nat.max x (list_max_nat t) end.
Definition encode_block (ss : list src) (blocks : list (list (list (list Z)))) : list Z :=
  let n := list_max_nat (map (@length _) blocks) in
  concat (map (out_frame ss blocks) (seq 0 n)).

(** PipelineTranscoder: iterate blocks until some channel of a block is empty.
    State: the unread rest of every stream. *)
Fixpoint pipeline (fuel : nat) (ss : list src) (sizes : list Z) (rests : list (list Z)) (acc : list Z)
  : res (list Z) :=
  match fuel with
  | O => OutOfFuel
  | S f =>
      let bufs := map (fun rs => firstn (Z.to_nat (snd rs)) (fst rs)) (combine rests sizes) in
      let rests' := map (fun rs => skipn (Z.to_nat (snd rs)) (fst rs)) (combine rests sizes) in
      let blocks := map (fun sb => decode_block (fst sb) (snd sb)) (combine ss bufs) in
      if existsb (fun b => match b with [] => true | _ => false end) blocks then Ok acc
      else pipeline f ss sizes rests' (acc ++ encode_block ss blocks)
  end.

(** StreamEncoding.__eq__ against the destination (LE, signed, same width, [dchans]) *)
Definition enc_eq_dest (s : src) (dwidth dchans : Z) : bool :=
  negb (sbig s) && (swidth s =? dwidth) && Bool.eqb (schans s >? 1) (dchans >? 1)
  && (if schans s >? 1 then schans s =? dchans else true).

(** PassthroughTranscoder *)
Fixpoint passthrough (fuel : nat) (s : src) (size : Z) (rest : list Z) (acc : list Z) : res (list Z) :=
  match fuel with
  | O => OutOfFuel
  | S f =>
      let buf := resize_buffer (firstn (Z.to_nat size) rest) (frame_size s) in
      match buf with
      | [] => Ok acc
      | _ => passthrough f s size (skipn (Z.to_nat size) rest) (acc ++ buf)
      end
  end.

Definition total_len (ss : list src) : Z := fold_right (fun s a => zlen (sbytes s) + a) 0 ss.

(** make_transcoder + draining the iterator: the PCM bytes written to the data chunk *)
Definition transcode (target : Z) (ss : list src) (dwidth dchans : Z) : res (list Z) :=
  match ss with
  | [] => Err NoDataStream
  | s0 :: rest =>
      if negb (fold_right (fun s a => nchan s + a) 0 ss =? dchans) then Err IncompatibleNumberOfChannels
      else
        let sizes := buffer_sizes target ss in
        let fuel := S (S (Z.to_nat (total_len ss))) in
        match rest with
        | [] =>
            if enc_eq_dest s0 dwidth dchans
            then passthrough fuel s0 (hd 0 sizes) (sbytes s0) []
            else pipeline fuel ss sizes (map sbytes ss) []
        | _ => pipeline fuel ss sizes (map sbytes ss) []
        end
  end.
