(** Model of the byte-window views: smpl_extract/util/stream.py (StreamWrapper,
    StreamOffset, StreamReversed), util/sector.py (SectorStream), util/fat.py (FileStream),
    alcohol/mdf.py (MdfStream); alcohol/mdx.py's MdxStream is a StreamOffset.
    A view is a tower of wrappers over one base file; every wrapper keeps its own
    [position]/[true_size] and drives its parent through seek(addr, SEEK_SET), tell(), read(n).
    Operations return the new state ALSO when they raise (state changed before the raise
    persists, as in Python). *)
From SE Require Import Base.

Inductive smap := MPlain | MChain (secs : list Z) | MMdf.
Inductive kind :=
| KWrap                      (* StreamWrapper *)
| KOff (off : Z)             (* StreamOffset *)
| KSect (L : Z) (m : smap)   (* SectorStream / FileStream / MdfStream *)
| KRev (w : Z).              (* StreamReversed *)
Inductive view := Base | V (k : kind) (size : Z) (sub : view).
Inductive vstate := SBase (pos : Z) | SV (position true_size : Z) (sub : vstate).

Definition v_tell (s : vstate) : Z := match s with SBase p => p | SV p _ _ => p end.

(** [_translate_addr] (SectorStream inherits StreamWrapper's identity: its own
    [_translate_address] is dead code) *)
Definition translate (k : kind) (size true_size address : Z) : res Z :=
  match k with
  | KWrap | KSect _ _ => Ok address
  | KOff off => Ok (off + address)
  | KRev w =>
      if negb (true_size mod w =? 0) then Err BadReadSize
      else let ta := size - (address + true_size) in
           if ta <? 0 then Err BadReadSize     (* only for size <= 0: fix 4e95fab *)
           else if negb (ta mod w =? 0) then Err BadAlign else Ok ta
  end.

(** numpy: frombuffer / reshape [n/w, w] / flip axis 0 / flatten *)
Fixpoint chunks (fuel : nat) (w : nat) (l : list Z) : list (list Z) :=
  match fuel with
  | O => []
  | S f => match l with [] => [] | _ => firstn w l :: chunks f w (skipn w l) end
  end.
Definition rev_samples (w : Z) (l : list Z) : list Z :=
  concat (rev (chunks (length l) (Z.to_nat w) l)).

(** address of byte [offset] of sector number [index] in the parent *)
Definition sect_addr (L : Z) (m : smap) (index offset : Z) : res Z :=
  match m with
  | MPlain => Ok (index * L + offset)
  | MChain secs =>
      if (index <? 0) || (index >=? zlen secs) then Err IndexErr   (* negative: not reached *)
      else Ok (znth 0 secs index * L + offset)
  | MMdf => Ok (index * 2352 + 16 + offset)
  end.

Section Sect.
  (** the parent seen through seek(addr, SEEK_SET) and read(n) *)
  Variable St : Type.
  Variable p_seek : St -> Z -> res Z * St.
  Variable p_read : St -> Z -> res (list Z) * St.

  Definition read_sector (L : Z) (m : smap) (s : St) (index offset size : Z) : res (list Z) * St :=
    if offset + size >? L then (Err AttemptToReadBeyondBuffer, s) else
    match sect_addr L m index offset with
    | Ok a =>
        let '(r, s1) := p_seek s a in
        match r with
        | Ok _ => p_read s1 size
        | Err e => (Err e, s1)
        | OutOfFuel => (OutOfFuel, s1)
        end
    | Err e => (Err e, s)
    | OutOfFuel => (OutOfFuel, s)
    end.

  (** while remaining_size > sector_length: read a full sector *)
  Fixpoint sect_middle (fuel : nat) (L : Z) (m : smap) (s : St) (first i remaining : Z)
           (acc : list Z) : res (list Z * Z * Z) * St :=
    match fuel with
    | O => (OutOfFuel, s)
    | S f =>
        if remaining >? L then
          let '(r, s1) := read_sector L m s (first + i) 0 L in
          match r with
          | Ok b => sect_middle f L m s1 first (i + 1) (remaining - L) (acc ++ b)
          | Err e => (Err e, s1)
          | OutOfFuel => (OutOfFuel, s1)
          end
        else (Ok (acc, i, remaining), s)
    end.

  (** SectorStream._read (with the size <= 0 early return of the D3 fix) *)
  Definition sect_read (L : Z) (m : smap) (s : St) (pos size : Z) : res (list Z) * St :=
    if size <=? 0 then (Ok [], s) else
    let isi := pos / L in
    let iso := pos mod L in
    let irs := if iso + size <=? L then size else L - iso in
    let '(r, s1) := read_sector L m s isi iso irs in
    match r with
    | Err e => (Err e, s1)
    | OutOfFuel => (OutOfFuel, s1)
    | Ok b0 =>
        let '(r2, s2) := sect_middle (S (Z.to_nat (size / L))) L m s1 isi 1 (size - irs) b0 in
        match r2 with
        | Err e => (Err e, s2)
        | OutOfFuel => (OutOfFuel, s2)
        | Ok (acc, i, remaining) =>
            let '(r3, s3) :=
              if remaining >? 0 then
                let '(rf, sf) := read_sector L m s2 (isi + i) 0 remaining in
                match rf with
                | Ok bf => (Ok (acc ++ bf), sf)
                | Err e => (Err e, sf)
                | OutOfFuel => (OutOfFuel, sf)
                end
              else (Ok acc, s2) in
            match r3 with
            | Ok res_ => if zlen res_ =? size then (Ok res_, s3) else (Err SectorReadError, s3)
            | other => (other, s3)
            end
        end
    end.
End Sect.

(** io.BytesIO / BufferedReader as driven by the wrappers: seek(addr >= 0, SEEK_SET),
    tell(), read(n >= 0); seeking past the end is allowed, reading there returns b"". *)
Definition base_seek (s : vstate) (a : Z) : res Z * vstate :=
  if a <? 0 then (Err ValueErr, s) else (Ok a, SBase a).
Definition base_read (content : list Z) (s : vstate) (n : Z) : res (list Z) * vstate :=
  let p := v_tell s in
  let b := slice content p (p + n) in
  (Ok b, SBase (p + zlen b)).

(** the upper clamp applies only to a positive size: a size <= 0 means "not clipped", in seek as in read (fix of the size-0 hang) *)
Definition clamp_pos (size np : Z) : Z := if (0 <? size) && (np >? size) then size else if np <? 0 then 0 else np.

(** seek(offset, whence) of a view / of the base *)
Fixpoint v_seek (v : view) (s : vstate) (off whence : Z) : res Z * vstate :=
  match v, s with
  | Base, _ => if whence =? 0 then base_seek s off else (Err ValueErr, s)
  | V k size sub, SV pos ts ss =>
      let start := if whence =? 1 then pos else if whence =? 2 then size else 0 in
      let np := clamp_pos size (start + off) in
      match translate k size 0 np with
      | Ok ta =>
          let '(r, ss') := v_seek sub ss ta 0 in
          match r with
          | Ok _ => (Ok np, SV np 0 ss')
          | Err e => (Err e, SV pos 0 ss')
          | OutOfFuel => (OutOfFuel, SV pos 0 ss')
          end
      | Err e => (Err e, SV pos 0 ss)
      | OutOfFuel => (OutOfFuel, SV pos 0 ss)
      end
  | V _ _ _, SBase _ => (Err ValueErr, s)
  end.

(** read(size) for size >= 0 *)
Fixpoint v_read (v : view) (content : list Z) (s : vstate) (n : Z) : res (list Z) * vstate :=
  match v, s with
  | Base, _ => base_read content s n
  | V k size sub, SV pos ts0 ss =>
      let ts := if size >? 0 then Z.min (size - pos) n else n in
      let ts := if ts <? 0 then 0 else ts in
      let tp := v_tell ss in
      match translate k size ts pos with
      | Err e => (Err e, SV pos ts ss)
      | OutOfFuel => (OutOfFuel, SV pos ts ss)
      | Ok expected =>
          let '(rs, ss1) := if expected =? tp then (Ok 0, ss) else v_seek sub ss expected 0 in
          match rs with
          | Err e => (Err e, SV pos ts ss1)
          | OutOfFuel => (OutOfFuel, SV pos ts ss1)
          | Ok _ =>
              let '(rd, ss2) :=
                match k with
                | KSect L m =>
                    sect_read vstate (fun st a => v_seek sub st a 0) (fun st m_ => v_read sub content st m_)
                              L m ss1 pos ts
                | KRev w =>
                    let '(raw, st) := v_read sub content ss1 ts in
                    match raw with
                    | Ok b => if zlen b =? (ts / w) * w then (Ok (rev_samples w b), st)
                              else (Err ValueErr, st)
                    | other => (other, st)
                    end
                | _ => v_read sub content ss1 ts
                end in
              match rd with
              | Ok b => (Ok b, SV (pos + ts) ts ss2)
              | Err e => (Err e, SV pos ts ss2)
              | OutOfFuel => (OutOfFuel, SV pos ts ss2)
              end
          end
      end
  | V _ _ _, SBase _ => (Err ValueErr, s)
  end.

(** readall(): read(buffer_length) until an empty block *)
Fixpoint v_readall (fuel : nat) (v : view) (content : list Z) (s : vstate) (buflen : Z)
         (acc : list Z) : res (list Z) * vstate :=
  match fuel with
  | O => (OutOfFuel, s)
  | S f =>
      let '(r, s1) := v_read v content s buflen in
      match r with
      | Ok [] => (Ok acc, s1)
      | Ok b => v_readall f v content s1 buflen (acc ++ b)
      | other => (other, s1)
      end
  end.

Definition vsize (v : view) (content : list Z) : Z :=
  match v with Base => zlen content | V _ size _ => size end.

(** initial state: every wrapper at position 0, true_size = buffer_length, base cursor c *)
Fixpoint init_state (v : view) (c : Z) : vstate :=
  match v with Base => SBase c | V _ _ sub => SV 0 4096 (init_state sub c) end.

(** operations of the public file API *)
Inductive op := OSeek (off whence : Z) | OTell | ORead (n : Z).
Inductive out := OutPos (p : Z) | OutBytes (b : list Z) | OutErr (e : exn) | OutFuel.

Definition step (v : view) (content : list Z) (s : vstate) (o : op) : out * vstate :=
  match o with
  | OTell => (OutPos (v_tell s), s)
  | OSeek off wh =>
      let '(r, s') := v_seek v s off wh in
      (match r with Ok p => OutPos p | Err e => OutErr e | OutOfFuel => OutFuel end, s')
  | ORead n =>
      let '(r, s') :=
        if n <? 0 then v_readall (S (Z.to_nat ((vsize v content + zlen content) / 4096 + 1))) v content s 4096 []
        else v_read v content s n in
      (match r with Ok b => OutBytes b | Err e => OutErr e | OutOfFuel => OutFuel end, s')
  end.

Fixpoint run (v : view) (content : list Z) (s : vstate) (ops : list op) : list out * vstate :=
  match ops with
  | [] => ([], s)
  | o :: rest =>
      let '(r, s1) := step v content s o in
      let '(rs, s2) := run v content s1 rest in
      (r :: rs, s2)
  end.

(** MdfStream(parent): SectorStream of 2048-byte sectors whose size is computed from the
    parent's length at construction *)
Definition mdf_view (parent_len : Z) (sub : view) : view :=
  V (KSect 2048 MMdf) ((parent_len / 2352) * 2048) sub.
Definition chain_view (L : Z) (secs : list Z) (sub : view) : view :=
  V (KSect L (MChain secs)) (L * zlen secs) sub.
