(** Base definitions shared by every model: result type with the Python exception
    classes the code raises, integer-indexed list helpers, and the universal value type
    used by the extracted correspondence driver. *)
From Coq Require Export ZArith List Bool Lia ZifyBool.
Export ListNotations.
Open Scope Z_scope.

(** Python exception classes that are observable in the modelled code. *)
Inductive exn :=
| RequestedInvalidSector | InvalidFatDefinition | ConstructErr | IndexErr
| BadReadSize | BadAlign | SectorReadError | AttemptToReadBeyondBuffer
| InvalidCharacter | KeyErr | ValueErr | BadCueSheet | ReError
| NoDataStream | IncompatibleNumberOfChannels | CouldNotDetermineName
| ErrorInvalidPath | StructErr | OverflowErr | AssertionErr.

Inductive res (A : Type) :=
| Ok (a : A)
| Err (e : exn)
| OutOfFuel.
Arguments Ok {A} a.
Arguments Err {A} e.
Arguments OutOfFuel {A}.

Definition bind {A B} (r : res A) (f : A -> res B) : res B :=
  match r with Ok a => f a | Err e => Err e | OutOfFuel => OutOfFuel end.
Notation "x <- r ;; k" := (bind r (fun x => k)) (at level 61, r at next level, right associativity).

Definition is_ok {A} (r : res A) : bool := match r with Ok _ => true | _ => false end.

(** Lists indexed by Z, as Python lists indexed by non-negative ints. *)
Definition zlen {A} (l : list A) : Z := Z.of_nat (length l).
Definition znth {A} (d : A) (l : list A) (i : Z) : A := nth (Z.to_nat i) l d.
Fixpoint upd_nat {A} (l : list A) (i : nat) (v : A) : list A :=
  match l, i with
  | [], _ => []
  | _ :: t, O => v :: t
  | h :: t, S i => h :: upd_nat t i v
  end.
Definition upd {A} (l : list A) (i : Z) (v : A) : list A := upd_nat l (Z.to_nat i) v.

(** Python slice l[a:b] for 0 <= a (b may exceed the length). *)
Definition slice {A} (l : list A) (a b : Z) : list A :=
  firstn (Z.to_nat (b - a)) (skipn (Z.to_nat a) l).

Definition zrepeat {A} (x : A) (n : Z) : list A := repeat x (Z.to_nat n).

(** Universal value for the correspondence driver: ints and lists. *)
Inductive val := VI (z : Z) | VL (l : list val).

Definition vbool (b : bool) : val := VI (if b then 1 else 0).
Definition vlistZ (l : list Z) : val := VL (map VI l).
Definition exn_code (e : exn) : Z :=
  match e with
  | RequestedInvalidSector => 1 | InvalidFatDefinition => 2 | ConstructErr => 3
  | IndexErr => 4 | BadReadSize => 5 | BadAlign => 6 | SectorReadError => 7
  | AttemptToReadBeyondBuffer => 8 | InvalidCharacter => 9 | KeyErr => 10
  | ValueErr => 11 | BadCueSheet => 12 | ReError => 13 | NoDataStream => 14
  | IncompatibleNumberOfChannels => 15 | CouldNotDetermineName => 16
  | ErrorInvalidPath => 17 | StructErr => 18 | OverflowErr => 19 | AssertionErr => 20
  end.
(** A result is rendered as (0 v) | (1 code) | (2). *)
Definition vres {A} (f : A -> val) (r : res A) : val :=
  match r with
  | Ok a => VL [VI 0; f a]
  | Err e => VL [VI 1; VI (exn_code e)]
  | OutOfFuel => VL [VI 2]
  end.
Fixpoint unVI_list (l : list val) : list Z :=
  match l with
  | [] => []
  | VI z :: t => z :: unVI_list t
  | VL _ :: t => 0 :: unVI_list t
  end.
Definition unVL (v : val) : list val := match v with VL l => l | VI _ => [] end.
Definition unVI (v : val) : Z := match v with VI z => z | VL _ => 0 end.
Definition unVLZ (v : val) : list Z := unVI_list (unVL v).
Definition vbad : val := VL [VI 9].

(** Decimal rendering of a Python int (str(int)) as a list of character codes. *)
Fixpoint dec_digits (fuel : nat) (z : Z) (acc : list Z) : list Z :=
  match fuel with
  | O => acc
  | S f => let acc' := (48 + z mod 10) :: acc in
           if z <? 10 then acc' else dec_digits f (z / 10) acc'
  end.
Definition str_Z (z : Z) : list Z :=
  if z <? 0 then 45 :: dec_digits (S (Z.to_nat (Z.log2 (- z)))) (- z) []
  else dec_digits (S (Z.to_nat (Z.log2 z))) z [].
