From SE Require Import Base Codecs.
From Coq Require Import Floats.PrimFloat.

(** ** AKAI/ASCII bijection on bytes *)
Definition bytes256 : list Z := map Z.of_nat (seq 0 256).
Lemma in_bytes256 b : 0 <= b < 256 -> In b bytes256.
Proof.
  intros H. unfold bytes256. apply in_map_iff. exists (Z.to_nat b). split; [lia|].
  apply in_seq. lia.
Qed.

Definition exn_beq (a b : exn) : bool := exn_code a =? exn_code b.
Lemma exn_beq_eq a b : exn_beq a b = true -> a = b.
Proof. unfold exn_beq. destruct a, b; cbn; intros H; try reflexivity; discriminate. Qed.
Definition res_beq (r1 r2 : res Z) : bool :=
  match r1, r2 with
  | Ok a, Ok b => a =? b
  | Err a, Err b => exn_beq a b
  | OutOfFuel, OutOfFuel => true
  | _, _ => false
  end.
Lemma res_beq_eq r1 r2 : res_beq r1 r2 = true -> r1 = r2.
Proof.
  destruct r1, r2; cbn; intros H; try discriminate; try reflexivity.
  - apply Z.eqb_eq in H. now subst.
  - apply exn_beq_eq in H. now subst.
Qed.

Definition p_valid (b : Z) : bool :=
  if b <=? 40 then
    match fast_akai_to_ascii_byte b with
    | Ok a => res_beq (convert_byte a ASCII AKAI) (Ok b) && res_beq (convert_byte b AKAI ASCII) (Ok a)
    | _ => false
    end
  else true.
Definition p_invalid (b : Z) : bool :=
  if 40 <? b then
    res_beq (fast_akai_to_ascii_byte b) (Err InvalidCharacter)
    && res_beq (convert_byte b AKAI ASCII) (Err InvalidCharacter)
  else true.
Definition p_back (a : Z) : bool :=
  match convert_byte a ASCII AKAI with
  | Ok k => (0 <=? k) && (k <=? 40) && res_beq (fast_akai_to_ascii_byte k) (Ok a)
  | Err e => exn_beq e InvalidCharacter
  | OutOfFuel => false
  end.

Lemma p_valid_all : forallb p_valid bytes256 = true.   Proof. vm_compute. reflexivity. Qed.
Lemma p_invalid_all : forallb p_invalid bytes256 = true. Proof. vm_compute. reflexivity. Qed.
Lemma p_back_all : forallb p_back bytes256 = true.     Proof. vm_compute. reflexivity. Qed.

Lemma akai_valid_lemma :
  forall b, 0 <= b <= 40 ->
    exists a, fast_akai_to_ascii_byte b = Ok a /\ convert_byte a ASCII AKAI = Ok b
              /\ convert_byte b AKAI ASCII = Ok a.
Proof.
  intros b Hb.
  pose proof (proj1 (forallb_forall _ _) p_valid_all b (in_bytes256 b ltac:(lia))) as H.
  unfold p_valid in H. destruct (Z.leb_spec b 40); [|lia].
  destruct (fast_akai_to_ascii_byte b) as [a| |]; try discriminate.
  apply andb_prop in H as [H1 H2]. apply res_beq_eq in H1, H2. eauto.
Qed.

Lemma akai_invalid_lemma :
  forall b, 40 < b < 256 ->
    fast_akai_to_ascii_byte b = Err InvalidCharacter /\ convert_byte b AKAI ASCII = Err InvalidCharacter.
Proof.
  intros b Hb.
  pose proof (proj1 (forallb_forall _ _) p_invalid_all b (in_bytes256 b ltac:(lia))) as H.
  unfold p_invalid in H. destruct (Z.ltb_spec 40 b); [|lia].
  apply andb_prop in H as [H1 H2]. apply res_beq_eq in H1, H2. auto.
Qed.

Lemma ascii_back_lemma :
  forall a, 0 <= a < 256 ->
    (forall k, convert_byte a ASCII AKAI = Ok k -> 0 <= k <= 40 /\ fast_akai_to_ascii_byte k = Ok a)
    /\ (forall e, convert_byte a ASCII AKAI = Err e -> e = InvalidCharacter)
    /\ convert_byte a ASCII AKAI <> OutOfFuel.
Proof.
  intros a Ha.
  pose proof (proj1 (forallb_forall _ _) p_back_all a (in_bytes256 a Ha)) as H.
  unfold p_back in H. destruct (convert_byte a ASCII AKAI) as [k|e|]; try discriminate.
  - split; [|split]; [|discriminate|discriminate].
    intros k' Hk. injection Hk as <-.
    apply andb_prop in H as [H H3]. apply andb_prop in H as [H1 H2].
    apply res_beq_eq in H3. split; [lia|exact H3].
  - split; [|split]; [discriminate| |discriminate].
    intros e' He. injection He as <-. now apply exn_beq_eq.
Qed.

(** The images are exactly 41 distinct ASCII characters. *)
Definition akai_images : list Z :=
  flat_map (fun b => match fast_akai_to_ascii_byte b with Ok a => [a] | _ => [] end) bytes256.
Lemma akai_images_41 : length akai_images = 41%nat /\ NoDup akai_images.
Proof.
  split; [vm_compute; reflexivity|].
  assert (H : akai_images = [48;49;50;51;52;53;54;55;56;57;32;65;66;67;68;69;70;71;72;73;74;75;76;
      77;78;79;80;81;82;83;84;85;86;87;88;89;90;35;43;45;46]) by (vm_compute; reflexivity).
  rewrite H. repeat (constructor; [simpl; intuition discriminate|]). constructor.
Qed.

(** ** Strings of any length *)
Lemma akai_string_roundtrip_lemma :
  forall l, Forall (fun b => 0 <= b <= 40) l ->
    exists s, akai_to_ascii l = Ok s /\ ascii_to_akai s = Ok l.
Proof.
  induction l as [|b l IH]; intros HF.
  - exists []. split; reflexivity.
  - inversion HF as [|? ? Hb HF']; subst.
    destruct (IH HF') as [s [H1 H2]].
    destruct (akai_valid_lemma b Hb) as (a & Ha & A2 & _).
    exists (a :: s). unfold akai_to_ascii, ascii_to_akai in *. cbn [map_res].
    rewrite Ha. cbn [bind]. rewrite H1. cbn [bind]. split; [reflexivity|].
    rewrite A2. cbn [bind]. rewrite H2. reflexivity.
Qed.

Lemma ascii_string_roundtrip_lemma :
  forall s l, Forall (fun a => 0 <= a < 256) s -> ascii_to_akai s = Ok l -> akai_to_ascii l = Ok s.
Proof.
  induction s as [|a s IH]; intros l HF H.
  - cbn in H. injection H as <-. reflexivity.
  - inversion HF as [|? ? Ha HF']; subst.
    unfold ascii_to_akai in H. cbn [map_res] in H.
    destruct (convert_byte a ASCII AKAI) eqn:E; cbn [bind] in H; try discriminate.
    destruct (map_res (fun b => convert_byte b ASCII AKAI) s) eqn:E2; cbn [bind] in H; try discriminate.
    injection H as <-.
    destruct (ascii_back_lemma a Ha) as (C & _).
    destruct (C _ E) as [_ C2].
    unfold akai_to_ascii. cbn [map_res]. rewrite C2. cbn [bind].
    fold (akai_to_ascii a1). rewrite (IH a1 HF' E2). reflexivity.
Qed.

Lemma akai_string_invalid_lemma :
  forall l, Forall (fun b => 0 <= b < 256) l -> Exists (fun b => 40 < b) l ->
    akai_to_ascii l = Err InvalidCharacter.
Proof.
  induction l as [|b l IH]; intros HF HE.
  - inversion HE.
  - inversion HF as [|? ? Hb HF']; subst.
    unfold akai_to_ascii. cbn [map_res].
    destruct (Z_lt_le_dec 40 b) as [Hgt|Hle].
    + destruct (akai_invalid_lemma b ltac:(lia)) as [B1 _].
      rewrite B1. reflexivity.
    + inversion HE as [? ? Hx|? ? HE']; subst; [lia|].
      destruct (akai_valid_lemma b ltac:(lia)) as (a & Ha & _).
      rewrite Ha. cbn [bind].
      fold (akai_to_ascii l). rewrite (IH HF' HE'). reflexivity.
Qed.

(** ** Note numbers: every integer, not only bytes *)
Lemma note_number_roundtrip_lemma : forall z, to_int_a0 (from_int_a0 z) = z.
Proof.
  intros z. unfold to_int_a0, from_int_a0.
  pose proof (Z.mod_pos_bound z 12 ltac:(lia)) as Hm.
  pose proof (Z.div_mod z 12 ltac:(lia)) as Hd.
  set (r := z mod 12) in *. set (q := z / 12) in *.
  assert (Hc : r = 0 \/ r = 1 \/ r = 2 \/ r = 3 \/ r = 4 \/ r = 5 \/ r = 6 \/ r = 7 \/ r = 8 \/ r = 9 \/ r = 10 \/ r = 11) by lia.
  destruct Hc as [H|[H|[H|[H|[H|[H|[H|[H|[H|[H|[H|H]]]]]]]]]]]; rewrite H in *; cbv [scale_table inv_table degree sharp octave Z.eqb Pos.eqb]; lia.
Qed.

Lemma akai_byte_roundtrip_lemma : forall b, to_akai_byte (from_akai_byte b) = b.
Proof. intros. unfold to_akai_byte, from_akai_byte. rewrite note_number_roundtrip_lemma. lia. Qed.
Lemma midi_byte_roundtrip_lemma : forall b, to_midi_byte (from_midi_byte b) = b.
Proof. intros. unfold to_midi_byte, from_midi_byte. rewrite note_number_roundtrip_lemma. lia. Qed.

(** ** Note text: 7 degrees x sharp x octaves 0..9 *)
Definition all_notes : list note :=
  flat_map (fun d => flat_map (fun s => map (fun o => {| degree := d; sharp := s; octave := o |})
                                            [0;1;2;3;4;5;6;7;8;9]) [false; true]) [0;1;2;3;4;5;6].
Definition note_eqb (a b : note) :=
  (degree a =? degree b) && Bool.eqb (sharp a) (sharp b) && (octave a =? octave b).
Definition note_text_ok (n : note) : bool :=
  match note_from_string (note_to_string n) with Ok m => note_eqb m n | _ => false end.
Lemma note_text_all : forallb note_text_ok all_notes = true.
Proof. vm_compute. reflexivity. Qed.

Lemma note_text_roundtrip_lemma :
  forall d s o, 0 <= d <= 6 -> 0 <= o <= 9 ->
    note_from_string (note_to_string {| degree := d; sharp := s; octave := o |})
    = Ok {| degree := d; sharp := s; octave := o |}.
Proof.
  intros d s o Hd Ho.
  assert (Hin : In {| degree := d; sharp := s; octave := o |} all_notes).
  { unfold all_notes. apply in_flat_map. exists d. split.
    { simpl. lia. }
    apply in_flat_map. exists s. split.
    { destruct s; simpl; auto. }
    apply in_map_iff. exists o. split; [reflexivity|]. simpl. lia. }
  pose proof (proj1 (forallb_forall _ _) note_text_all _ Hin) as H.
  unfold note_text_ok in H.
  destruct (note_from_string _) as [m| |]; try discriminate.
  unfold note_eqb in H. cbn [degree sharp octave] in H.
  apply andb_prop in H as [H H3]. apply andb_prop in H as [H1 H2].
  apply Z.eqb_eq in H1, H3. apply Bool.eqb_prop in H2.
  destruct m as [md ms mo]; cbn [degree sharp octave] in *; subst. reflexivity.
Qed.

(** ** Tuning byte -> cents -> byte over all 256 signed bytes *)
Definition sbytes : list Z := map (fun n => Z.of_nat n - 128) (seq 0 256).
Lemma tune_all : forallb (fun x => build_tune_cents (parse_tune_cents x) =? x) sbytes = true.
Proof. vm_compute. reflexivity. Qed.
Lemma tune_roundtrip_lemma : forall x, -128 <= x <= 127 -> build_tune_cents (parse_tune_cents x) = x.
Proof.
  intros x Hx.
  assert (Hin : In x sbytes).
  { unfold sbytes. apply in_map_iff. exists (Z.to_nat (x + 128)). split; [lia|]. apply in_seq. lia. }
  pose proof (proj1 (forallb_forall _ _) tune_all _ Hin) as H. cbv beta in H.
  now apply Z.eqb_eq in H.
Qed.
