(** Theorems about the whole-image Roland S-7xx model (RolandImage.v), for the image given as a
    list of bytes ([dense_rd]):

    - the closed-form content of a sample's data stream ([stream_content]) is, for a window
      inside the chained file and clusters inside the image, the window the layer theorems of
      C02 speak about ([window_bytes] of the logical content of [roland_file_view]);
    - a sample whose directory entry, parameter record and FAT chain are those a serialiser of
      ONE sample entry writes is parsed into the sample file whose data is that window, which is
      also what the layer model over the DECODED table ([Roland.roland_sample_pcm]) returns;
    - the export terminates: no fuel is ever exhausted, for any image;
    - the sparse reader of the extracted driver reads the image its runs denote. *)
From Coq Require Import Sorting.Sorted.
From SE Require Import Base Codecs Fat FatProofs Stream StreamProofs StreamRevProofs Transcode TranscodeProofs
     TranscodeUnbounded Names NamesProofs Roland RolandProofs RolandChainProofs ContainerProofs AkaiProofs
     AkaiSpec AkaiCompose RolandImage RolandFatProofs.
From SE Require AkaiImage.
Ltac Zify.zify_post_hook ::= Z.to_euclidean_division_equations.

(** * Lists *)
Lemma znth_zrange_map {B} (d : B) (f : Z -> B) a b i :
  0 <= i < b - a -> znth d (map f (zrange a b)) i = f (a + i).
Proof.
  intros H. replace a with (0 + a) at 1 by lia. replace b with ((b - a) + a) by lia.
  rewrite zrange_shift, map_map. rewrite znth_map_zrange by lia. f_equal. lia.
Qed.
Lemma znth_slice {A} (d : A) (l : list A) a b i :
  0 <= a -> b <= zlen l -> 0 <= i < b - a -> znth d (slice l a b) i = znth d l (a + i).
Proof.
  intros Ha Hb Hi. replace b with (a + (b - a)) by lia.
  rewrite (slice_map_znth d) by lia. now rewrite znth_zrange_map by lia.
Qed.
Lemma slice_as_map {A} (d : A) (l : list A) a b :
  0 <= a <= b -> b <= zlen l -> slice l a b = map (znth d l) (zrange a b).
Proof. intros Ha Hb. replace b with (a + (b - a)) by lia. apply slice_map_znth; lia. Qed.

(** equal-sized pieces laid one after the other: byte x is byte (x mod L) of piece (x / L) *)
Lemma znth_concat_const {A} (d : A) L : 0 < L -> forall (ls : list (list A)) x,
  Forall (fun c => zlen c = L) ls -> 0 <= x < L * zlen ls ->
  znth d (concat ls) x = znth d (znth [] ls (x / L)) (x mod L).
Proof.
  intros HL. induction ls as [|c ls IH]; intros x HF Hx.
  - change (zlen (@nil (list A))) with 0 in Hx. lia.
  - inversion HF as [|? ? Hc HF']; subst. cbn [concat]. rewrite zlen_cons in Hx.
    destruct (Z_lt_ge_dec x (zlen c)) as [Hlt|Hge].
    + rewrite znth_app_l by lia. rewrite Z.div_small, Z.mod_small by lia. reflexivity.
    + rewrite znth_app_r by lia. rewrite IH by (try assumption; nia).
      replace (x - zlen c) with (x + (-1) * zlen c) by lia.
      rewrite Z.div_add, Z.mod_add by lia.
      assert (1 <= x / zlen c) by (apply Z.div_le_lower_bound; lia).
      assert (E : znth [] (c :: ls) (x / zlen c) = znth [] ls (x / zlen c + -1)).
      { unfold znth. replace (Z.to_nat (x / zlen c)) with (S (Z.to_nat (x / zlen c + -1))) by lia. reflexivity. }
      rewrite E. reflexivity.
Qed.
Lemma zlen_concat_all {A} L (ls : list (list A)) :
  Forall (fun c => zlen c = L) ls -> zlen (concat ls) = L * zlen ls.
Proof.
  induction 1 as [|c ls Hc _ IH]; [unfold zlen; cbn; lia|].
  cbn [concat]. rewrite zlen_app, zlen_cons, IH, Hc. lia.
Qed.
Lemma zlen_slice_in {A} (l : list A) a b : 0 <= a <= b -> b <= zlen l -> zlen (slice l a b) = b - a.
Proof. intros. rewrite slice_zlen by lia. lia. Qed.
Lemma in_firstn {A} (x : A) : forall n l, In x (firstn n l) -> In x l.
Proof. induction n as [|n IH]; intros [|y l] H; cbn in *; try contradiction. destruct H; [now left|right; auto]. Qed.
Lemma in_skipn {A} (x : A) : forall n l, In x (skipn n l) -> In x l.
Proof. induction n as [|n IH]; intros [|y l] H; cbn in *; try contradiction; auto. Qed.
Lemma in_slice {A} (x : A) l a b : In x (slice l a b) -> In x l.
Proof. unfold slice. intros H. eapply in_skipn, in_firstn, H. Qed.

(** * The chained file, read through a reader of the image *)
(** [rd] reads the image [img]: the bytes [off, off + n), clipped at the end.  Both readers of
    the development do: [dense_rd img] (by definition) and the driver's [sparse_image_rd] over
    runs that denote [img] ([sparse_reads_lemma] below). *)
Definition reads (img : list Z) (rd : Z -> Z -> list Z) : Prop :=
  forall off n, 0 <= off -> rd off n = slice img off (off + n).
Lemma dense_reads img : reads img (dense_rd img).
Proof. intros off n _. reflexivity. Qed.

Section Dense.
Context (img : list Z) (rd : Z -> Z -> list Z) (Hrd : reads img rd).
Notation ilen := (zlen img).
Notation L := CLUSTER_SIZE.
Notation doff := DATA_FAT_OFFSET.

Definition inside (c : Z) : Prop := 0 <= c /\ (c + 1) * L <= ilen - doff.

Lemma cluster_bytes_len c : inside c -> zlen (cluster_bytes rd c) = L.
Proof.
  intros [H0 H1]. unfold cluster_bytes. rewrite Hrd by (unfold cluster_offset, CLUSTER_SIZE, DATA_FAT_OFFSET; lia).
  unfold cluster_offset. rewrite zlen_slice_in; unfold CLUSTER_SIZE, DATA_FAT_OFFSET in *; lia.
Qed.
Lemma cluster_bytes_znth c i : inside c -> 0 <= i < L ->
  znth 0 (cluster_bytes rd c) i = znth 0 img (doff + c * L + i).
Proof.
  intros [H0 H1] Hi. unfold cluster_bytes. rewrite Hrd by (unfold cluster_offset, CLUSTER_SIZE, DATA_FAT_OFFSET; lia).
  unfold cluster_offset.
  rewrite znth_slice by (unfold CLUSTER_SIZE, DATA_FAT_OFFSET in *; lia). reflexivity.
Qed.

(** byte x of the logical content of the chained file *)
Lemma file_logical_znth secs x : Forall inside secs -> 0 <= x < L * zlen secs ->
  znth 0 (logical (roland_file_view L doff ilen secs) img) x
  = znth 0 img (doff + znth 0 secs (x / L) * L + x mod L).
Proof.
  intros HF Hx. unfold roland_file_view.
  rewrite roland_file_bytes_lemma by (unfold CLUSTER_SIZE in *; lia).
  assert (Hk : 0 <= x / L < zlen secs) by (unfold CLUSTER_SIZE in *; nia).
  pose proof (Forall_znth inside 0 secs (x / L) HF Hk) as [Hc0 Hc1].
  cbn [logical addr]. rewrite znth_map_zrange; [f_equal; lia|].
  unfold CLUSTER_SIZE in *. nia.
Qed.

Lemma file_bytes_logical secs a b : Forall inside secs -> 0 <= a < b -> b <= L * zlen secs ->
  file_bytes rd secs a b = slice (logical (roland_file_view L doff ilen secs) img) a b.
Proof.
  intros HF Hab Hb. unfold file_bytes.
  set (k0 := a / L). set (k1 := (b - 1) / L).
  assert (HL : 0 < L) by reflexivity.
  assert (Hk0 : 0 <= k0 <= k1) by (unfold k0, k1, CLUSTER_SIZE in *; nia).
  assert (Hk1 : k1 < zlen secs) by (unfold k1, CLUSTER_SIZE in *; nia).
  set (touched := slice secs k0 (k1 + 1)).
  assert (Htl : zlen touched = k1 + 1 - k0) by (unfold touched; apply zlen_slice_in; lia).
  assert (Hti : forall j, 0 <= j < k1 + 1 - k0 -> znth 0 touched j = znth 0 secs (k0 + j)).
  { intros j Hj. unfold touched. apply znth_slice; lia. }
  assert (HFt : Forall inside touched).
  { apply Forall_forall. intros c Hc. rewrite Forall_forall in HF. apply HF.
    unfold touched in Hc. eapply in_slice, Hc. }
  set (CC := concat (map (cluster_bytes rd) touched)).
  assert (HFc : Forall (fun c => zlen c = L) (map (cluster_bytes rd) touched)).
  { apply Forall_forall. intros c Hc. apply in_map_iff in Hc as (x & <- & Hx).
    apply cluster_bytes_len. rewrite Forall_forall in HFt. now apply HFt. }
  assert (Hcc : zlen CC = L * (k1 + 1 - k0)).
  { unfold CC. rewrite (zlen_concat_all L) by assumption. rewrite map_zlen. lia. }
  assert (Hb' : b - k0 * L <= zlen CC) by (rewrite Hcc; unfold k1, k0, CLUSTER_SIZE in *; nia).
  assert (Ha' : 0 <= a - k0 * L) by (unfold k0, CLUSTER_SIZE in *; nia).
  rewrite (slice_as_map 0) by lia.
  replace (zrange (a - k0 * L) (b - k0 * L)) with (zrange (a + - (k0 * L)) (b + - (k0 * L))) by (f_equal; lia).
  rewrite zrange_shift, map_map.
  unfold roland_file_view, chain_view. cbn [logical].
  replace b with (a + (b - a)) at 2 by lia.
  rewrite slice_map_zrange by lia. replace (a + (b - a)) with b by lia.
  apply map_ext_zrange. intros x Hx.
  change (map (fun a0 => znth 0 (logical (V (KOff doff) (ilen - doff) Base) img) (addr (KSect L (MChain secs)) (L * zlen secs) a0))
              (zrange 0 (L * zlen secs)))
    with (logical (roland_file_view L doff ilen secs) img) in *.
  transitivity (znth 0 img (doff + znth 0 secs (x / L) * L + x mod L)).
  - unfold CC. rewrite (znth_concat_const 0 L HL) by (try assumption; rewrite map_zlen, Htl; unfold k0, k1, CLUSTER_SIZE in *; nia).
    set (j := (x + - (k0 * L)) / L).
    assert (Hj : 0 <= j < k1 + 1 - k0) by (unfold j, k0, k1, CLUSTER_SIZE in *; nia).
    assert (Ej : znth [] (map (cluster_bytes rd) touched) j = cluster_bytes rd (znth 0 touched j)).
    { unfold znth. rewrite (nth_indep _ [] (cluster_bytes rd 0)) by (rewrite map_length; unfold zlen in Htl; lia).
      now rewrite map_nth. }
    rewrite Ej, Hti by lia.
    rewrite cluster_bytes_znth.
    + assert (E1 : k0 + j = x / L).
      { unfold j. replace (x + - (k0 * L)) with (x + (- k0) * L) by lia. rewrite Z.div_add by lia. lia. }
      assert (E2 : (x + - (k0 * L)) mod L = x mod L).
      { replace (x + - (k0 * L)) with (x + (- k0) * L) by lia. apply Z.mod_add. lia. }
      rewrite E1, E2. reflexivity.
    + apply (Forall_znth inside 0 secs (k0 + j) HF). lia.
    + unfold CLUSTER_SIZE. lia.
  - cbn [addr sbase].
    pose proof (file_logical_znth secs x HF ltac:(lia)) as E.
    unfold roland_file_view, chain_view in E. cbn [logical] in E.
    rewrite znth_map_zrange in E by lia. cbn [addr sbase] in E. symmetry. exact E.
Qed.

(** no byte is missing when the clusters lie inside the image *)
Lemma cluster_have_inside c : inside c -> cluster_have ilen c = L.
Proof.
  intros [H0 H1]. unfold cluster_have, cluster_offset. unfold CLUSTER_SIZE, DATA_FAT_OFFSET in *. lia.
Qed.
Lemma first_gap_none : forall l pos lo hi, Forall inside l -> first_gap ilen l pos lo hi = hi.
Proof.
  induction l as [|c t IH]; intros pos lo hi HF; cbn [first_gap]; [reflexivity|].
  inversion HF; subst. destruct (hi <=? pos); [reflexivity|].
  rewrite cluster_have_inside by assumption. rewrite Z.ltb_irrefl. cbn [andb]. now apply IH.
Qed.
Lemma last_gap_none : forall l pos lo hi acc, Forall inside l -> last_gap ilen l pos lo hi acc = acc.
Proof.
  induction l as [|c t IH]; intros pos lo hi acc HF; cbn [last_gap]; [reflexivity|].
  inversion HF; subst. destruct (hi <=? pos); [reflexivity|].
  rewrite cluster_have_inside by assumption. rewrite Z.ltb_irrefl. cbn [andb]. now apply IH.
Qed.
Lemma Forall_skipn {A} (P : A -> Prop) n l : Forall P l -> Forall P (skipn n l).
Proof. rewrite !Forall_forall. intros H x Hx. eapply H, in_skipn, Hx. Qed.

Lemma rev_samples_fast_eq w l : rev_samples_fast w l = rev_samples w l.
Proof. unfold rev_samples_fast, rev_samples. now rewrite <- rev_alt. Qed.

(** The content of the exported data stream, in closed form, IS the window of C02's layer
    theorems: for every loop mode, any chain (any cluster order) inside the image, any window
    inside the chained file. *)
Lemma stream_content_window_lemma : forall secs mode p,
  secs <> [] -> Forall inside secs ->
  0 <= p_start p -> p_start p <= roland_end mode p ->
  2 * (roland_end mode p + 1) <= L * zlen secs ->
  stream_content ilen rd secs (get_params mode p)
  = Ok (window_bytes mode p (logical (roland_file_view L doff ilen secs) img)).
Proof.
  intros secs mode p Hne HF H0 H1 H2.
  destruct (roland_window_lemma mode p) as (Eo & Es & Er).
  unfold stream_content. destruct secs as [|s0 srest]; [congruence|].
  set (secs := s0 :: srest) in *.
  rewrite Eo, Es, Er. unfold window_bytes.
  set (lo := 2 * p_start p). set (hi := 2 * (roland_end mode p + 1)).
  replace (lo + 2 * (roland_end mode p - p_start p + 1)) with hi by (unfold lo, hi; lia).
  assert (Hlh : 0 <= lo < hi) by (unfold lo, hi; lia).
  assert (Hsz : 2 * (roland_end mode p - p_start p + 1) >? 0 = true) by lia.
  rewrite Hsz.
  destruct (roland_reversed mode).
  - destruct (Z.leb_spec hi (L * zlen secs)); [|lia].
    rewrite last_gap_none by (now apply Forall_skipn).
    destruct (Z.ltb_spec (-1) lo); [|lia].
    destruct (Z.leb_spec (hi - lo) 0); [lia|].
    replace (hi - (hi - lo)) with lo by lia.
    rewrite rev_samples_fast_eq, file_bytes_logical by (try assumption; lia). reflexivity.
  - replace (Z.min hi (L * zlen secs)) with hi by lia.
    destruct (Z.leb_spec hi lo); [lia|].
    rewrite first_gap_none by (now apply Forall_skipn).
    destruct (Z.geb_spec hi hi); [|lia].
    destruct (Z.leb_spec (hi - lo) 0); [lia|].
    replace (lo + (hi - lo)) with hi by lia.
    rewrite file_bytes_logical by (try assumption; lia). reflexivity.
Qed.
End Dense.

(** * A serialiser of ONE sample entry (specification) *)
(** a name field: the characters, padded with NULs to 16 bytes *)
Definition name16 (nm : list Z) : list Z := nm ++ zrepeat 0 (16 - zlen nm).
(** at most 16 seven-bit characters, the last one not NUL (PaddedString strips trailing NULs) *)
Definition name_ok (nm : list Z) : Prop :=
  zlen nm <= 16 /\ Forall (fun c => 0 <= c < 128) nm /\ last nm 1 <> 0.

(** the fields of a directory entry the reader does not use *)
Record dir_rest := { df_attr : Z; df_fwd : Z; df_bwd : Z; df_link : Z; df_reserved : Z; df_nclusters : Z }.
(** 32 bytes: name[16], type, attributes, forward / backward link, link id, reserved (u32),
    first cluster, number of clusters *)
Definition ser_dirent (nm : list Z) (ty : Z) (x : dir_rest) (first_cluster : Z) : list Z :=
  name16 nm ++ [ty; df_attr x] ++ le16 (df_fwd x) ++ le16 (df_bwd x) ++ le16 (df_link x) ++
  le32 (df_reserved x) ++ le16 first_cluster ++ le16 (df_nclusters x).
(** the sample parameter record: name[16], 5 x u32 loop point (address * 256 + fine), loop mode
    byte, 3 bytes, u16 cluster_top, u16 number of clusters, options byte (sample mode * 16 +
    frequency code), original key, 2 pad *)
Record sample_fields := {
  sf_name : list Z; sf_start : Z; sf_sus_start : Z; sf_sus_end : Z; sf_rel_start : Z; sf_rel_end : Z;
  sf_mode : Z; sf_b37 : Z; sf_b38 : Z; sf_b39 : Z; sf_top : Z; sf_nclusters : Z; sf_options : Z; sf_key : Z }.
Definition ser_sample_param (f : sample_fields) : list Z :=
  name16 (sf_name f) ++ le32 (sf_start f) ++ le32 (sf_sus_start f) ++ le32 (sf_sus_end f) ++
  le32 (sf_rel_start f) ++ le32 (sf_rel_end f) ++ [sf_mode f; sf_b37 f; sf_b38 f; sf_b39 f] ++
  le16 (sf_top f) ++ le16 (sf_nclusters f) ++ [sf_options f; sf_key f; 0; 0].
(** the five loop points the reader uses: the address part of the stored words *)
Definition sample_points (f : sample_fields) : rpoints :=
  {| p_start := sf_start f / 256; p_sus_start := sf_sus_start f / 256; p_sus_end := sf_sus_end f / 256;
     p_rel_start := sf_rel_start f / 256; p_rel_end := sf_rel_end f / 256 |}.

Lemma zlen_name16 nm : zlen nm <= 16 -> zlen (name16 nm) = 16.
Proof. intros H. unfold name16. rewrite zlen_app, zlen_zrepeat by lia. lia. Qed.
Lemma zlen_ser_dirent nm ty x fc : zlen nm <= 16 -> zlen (ser_dirent nm ty x fc) = 32.
Proof.
  intros H. unfold ser_dirent. rewrite !zlen_app, zlen_name16, !zlen_le16, zlen_le32 by assumption. reflexivity.
Qed.
Lemma zlen_ser_sample_param f : zlen (sf_name f) <= 16 -> zlen (ser_sample_param f) = 48.
Proof.
  intros H. unfold ser_sample_param. rewrite !zlen_app, zlen_name16, !zlen_le16, !zlen_le32 by assumption. reflexivity.
Qed.

Lemma rstrip0_zeros k : rstrip0 (repeat 0 k) = [].
Proof. induction k as [|k IH]; [reflexivity|]. cbn [repeat rstrip0]. now rewrite IH. Qed.
Lemma rstrip0_name : forall nm k, last nm 1 <> 0 -> rstrip0 (nm ++ repeat 0 k) = nm.
Proof.
  induction nm as [|c t IH]; intros k Hl; [apply rstrip0_zeros|].
  cbn [app rstrip0]. destruct t as [|c' t'].
  - cbn [app]. rewrite rstrip0_zeros. cbn [last] in Hl. destruct (Z.eqb_spec c 0); [contradiction|reflexivity].
  - rewrite IH by exact Hl. reflexivity.
Qed.
Lemma pstring_name16 nm rest : name_ok nm -> pstring (firstn 16 (name16 nm ++ rest)) = Some nm.
Proof.
  intros (Hlen & Hch & Hlast).
  rewrite firstn_here by (pose proof (zlen_name16 nm Hlen) as E; unfold zlen in E; lia).
  unfold pstring, name16, zrepeat. rewrite rstrip0_name by assumption.
  replace (forallb (fun c => c <? 128) nm) with true; [reflexivity|].
  symmetry. apply forallb_forall. rewrite Forall_forall in Hch. intros c Hc. specialize (Hch c Hc). lia.
Qed.

(** what the reader finds in the two records *)
Lemma dirent_fields nm ty x fc rest : name_ok nm ->
  let b := ser_dirent nm ty x fc ++ rest in
  pstring (firstn 16 b) = Some nm /\ u8 b 16 = ty /\ u16 b 28 = fc.
Proof.
  intros Hn b. pose proof Hn as (Hlen & _ & _). pose proof (zlen_name16 nm Hlen) as E16.
  unfold b, ser_dirent. rewrite <- !app_assoc. split; [now apply pstring_name16|]. split.
  - unfold u8. rewrite (u8_shift (name16 nm) 16 16 0) by (assumption || lia). reflexivity.
  - unfold u16. rewrite (u16_shift (name16 nm) 16 28 12) by (assumption || lia).
    rewrite (u16_shift [ty; df_attr x] 2 12 10) by (reflexivity || lia).
    rewrite (u16_shift (le16 (df_fwd x)) 2 10 8) by (reflexivity || lia).
    rewrite (u16_shift (le16 (df_bwd x)) 2 8 6) by (reflexivity || lia).
    rewrite (u16_shift (le16 (df_link x)) 2 6 4) by (reflexivity || lia).
    rewrite (u16_shift (le32 (df_reserved x)) 4 4 0) by (reflexivity || lia).
    apply u16_le16.
Qed.
Lemma sample_param_fields f rest : name_ok (sf_name f) ->
  let b := ser_sample_param f ++ rest in
  pstring (firstn 16 b) = Some (sf_name f) /\
  u32 b 16 = sf_start f /\ u32 b 20 = sf_sus_start f /\ u32 b 24 = sf_sus_end f /\
  u32 b 28 = sf_rel_start f /\ u32 b 32 = sf_rel_end f /\
  u8 b 36 = sf_mode f /\ u16 b 40 = sf_top f /\ u8 b 44 = sf_options f.
Proof.
  intros Hn b. pose proof Hn as (Hlen & _ & _). pose proof (zlen_name16 _ Hlen) as E16.
  unfold b, ser_sample_param. rewrite <- !app_assoc. split; [now apply pstring_name16|].
  unfold u32, u16, u8.
  repeat split.
  - rewrite (u32_shift (name16 (sf_name f)) 16 16 0) by (assumption || lia). apply u32_le32.
  - rewrite (u32_shift (name16 (sf_name f)) 16 20 4) by (assumption || lia).
    rewrite (u32_shift (le32 (sf_start f)) 4 4 0) by (reflexivity || lia). apply u32_le32.
  - rewrite (u32_shift (name16 (sf_name f)) 16 24 8) by (assumption || lia).
    rewrite (u32_shift (le32 (sf_start f)) 4 8 4) by (reflexivity || lia).
    rewrite (u32_shift (le32 (sf_sus_start f)) 4 4 0) by (reflexivity || lia). apply u32_le32.
  - rewrite (u32_shift (name16 (sf_name f)) 16 28 12) by (assumption || lia).
    rewrite (u32_shift (le32 (sf_start f)) 4 12 8) by (reflexivity || lia).
    rewrite (u32_shift (le32 (sf_sus_start f)) 4 8 4) by (reflexivity || lia).
    rewrite (u32_shift (le32 (sf_sus_end f)) 4 4 0) by (reflexivity || lia). apply u32_le32.
  - rewrite (u32_shift (name16 (sf_name f)) 16 32 16) by (assumption || lia).
    rewrite (u32_shift (le32 (sf_start f)) 4 16 12) by (reflexivity || lia).
    rewrite (u32_shift (le32 (sf_sus_start f)) 4 12 8) by (reflexivity || lia).
    rewrite (u32_shift (le32 (sf_sus_end f)) 4 8 4) by (reflexivity || lia).
    rewrite (u32_shift (le32 (sf_rel_start f)) 4 4 0) by (reflexivity || lia). apply u32_le32.
  - rewrite (u8_shift (name16 (sf_name f)) 16 36 20) by (assumption || lia).
    rewrite (u8_shift (le32 (sf_start f)) 4 20 16) by (reflexivity || lia).
    rewrite (u8_shift (le32 (sf_sus_start f)) 4 16 12) by (reflexivity || lia).
    rewrite (u8_shift (le32 (sf_sus_end f)) 4 12 8) by (reflexivity || lia).
    rewrite (u8_shift (le32 (sf_rel_start f)) 4 8 4) by (reflexivity || lia).
    rewrite (u8_shift (le32 (sf_rel_end f)) 4 4 0) by (reflexivity || lia). reflexivity.
  - rewrite (u16_shift (name16 (sf_name f)) 16 40 24) by (assumption || lia).
    rewrite (u16_shift (le32 (sf_start f)) 4 24 20) by (reflexivity || lia).
    rewrite (u16_shift (le32 (sf_sus_start f)) 4 20 16) by (reflexivity || lia).
    rewrite (u16_shift (le32 (sf_sus_end f)) 4 16 12) by (reflexivity || lia).
    rewrite (u16_shift (le32 (sf_rel_start f)) 4 12 8) by (reflexivity || lia).
    rewrite (u16_shift (le32 (sf_rel_end f)) 4 8 4) by (reflexivity || lia).
    rewrite (u16_shift [sf_mode f; sf_b37 f; sf_b38 f; sf_b39 f] 4 4 0) by (reflexivity || lia). apply u16_le16.
  - rewrite (u8_shift (name16 (sf_name f)) 16 44 28) by (assumption || lia).
    rewrite (u8_shift (le32 (sf_start f)) 4 28 24) by (reflexivity || lia).
    rewrite (u8_shift (le32 (sf_sus_start f)) 4 24 20) by (reflexivity || lia).
    rewrite (u8_shift (le32 (sf_sus_end f)) 4 20 16) by (reflexivity || lia).
    rewrite (u8_shift (le32 (sf_rel_start f)) 4 16 12) by (reflexivity || lia).
    rewrite (u8_shift (le32 (sf_rel_end f)) 4 12 8) by (reflexivity || lia).
    rewrite (u8_shift [sf_mode f; sf_b37 f; sf_b38 f; sf_b39 f] 4 8 4) by (reflexivity || lia).
    rewrite (u8_shift (le16 (sf_top f)) 2 4 2) by (reflexivity || lia).
    rewrite (u8_shift (le16 (sf_nclusters f)) 2 2 0) by (reflexivity || lia). reflexivity.
Qed.

(** a read of exactly the bytes a record occupies *)
Lemma rd_opt_record img rd off n rec : reads img rd ->
  0 <= off -> 0 < n -> zlen rec = n -> slice img off (off + n) = rec ->
  rd_opt (zlen img) rd off n = Some rec.
Proof.
  intros Hrd Ho Hn Hl Hs. unfold rd_opt. rewrite (Hrd off n Ho).
  assert (off + n <= zlen img).
  { pose proof (slice_zlen img off (off + n) Ho) as E. rewrite Hs, Hl in E. lia. }
  destruct (Z.leb_spec 0 off); [|lia]. destruct (Z.leb_spec (off + n) (zlen img)); [|lia].
  cbn [andb]. now rewrite Hs.
Qed.

(** One sample entry as the serialiser writes it - directory entry [ser_dirent] at the
    sample's directory position, parameter record [ser_sample_param] at its parameter position,
    a raw FAT chain [c] from the entry's first cluster in an accepted table, clusters inside the
    image, window inside the chain after [cluster_top] - is parsed into the sample file whose
    name is the directory name, whose rate is the one of the frequency code and whose data
    stream holds exactly the window of the loop mode over the chain minus its leading clusters. *)
Lemma parse_sample_serialised_lemma : forall img rd fat ver s dn ty x f c rate,
  reads img rd ->
  0 <= s < 8192 ->
  slice img (dir_offset KSample s) (dir_offset KSample s + 32) = ser_dirent dn ty x (hd 0 c) ->
  slice img (par_offset KSample s) (par_offset KSample s + 48) = ser_sample_param f ->
  name_ok dn -> name_ok (sf_name f) ->
  frequency_of_code (sf_options f mod 16) = Ok rate ->
  fat_table fat -> raw_fat_check fat = Ok ver -> raw_roland_chain fat c ->
  0 <= sf_top f < zlen c ->
  Forall (fun k => (k + 1) * CLUSTER_SIZE <= zlen img - DATA_FAT_OFFSET) c ->
  let p := sample_points f in
  let mode := loop_mode_of_byte (sf_mode f) in
  0 <= p_start p -> p_start p <= roland_end mode p ->
  2 * (roland_end mode p + 1) <= CLUSTER_SIZE * (zlen c - sf_top f) ->
  let file := roland_file_view CLUSTER_SIZE DATA_FAT_OFFSET (zlen img) (skipn (Z.to_nat (sf_top f)) c) in
  parse_sample (zlen img) rd fat s
  = Ok (Some {| rs_index := s; rs_name := dn; rs_rate := rate;
                rs_data := Ok (window_bytes mode p (logical file img)) |})
  /\ roland_sample_pcm CLUSTER_SIZE DATA_FAT_OFFSET fat img (hd 0 c) (sf_top f) mode p
     = Ok (window_bytes mode p (logical file img)).
Proof.
  intros img rd fat ver s dn ty x f c rate Hrd Hs Hdir Hpar Hdn Hpn Hfreq Hft Hchk Hc Htop Hin p mode H0 H1 H2 file.
  destruct (proj1 (raw_fat_check_exact_lemma fat ver Hft) Hchk) as [links Hdec].
  pose proof Hc as (Hne & HFc & _).
  assert (Hhd : 0 <= hd 0 c).
  { destruct c as [|c0 ct]; [congruence|]. inversion HFc; subst. cbn [hd]. lia. }
  set (secs := skipn (Z.to_nat (sf_top f)) c) in *.
  assert (Hlen : zlen secs = zlen c - sf_top f) by (unfold secs, zlen in *; rewrite skipn_length; lia).
  assert (Hsecs : secs <> []).
  { intros E. rewrite E in Hlen. change (zlen (@nil Z)) with 0 in Hlen. lia. }
  assert (Hins : Forall (inside img) secs).
  { apply Forall_skipn. apply Forall_forall. intros k Hk. rewrite Forall_forall in HFc, Hin.
    specialize (HFc k Hk). specialize (Hin k Hk). split; lia. }
  split.
  - unfold parse_sample.
    assert (Hv : (0 <=? s) && index_valid KSample s = true) by (cbn [index_valid max_num]; lia).
    rewrite Hv. unfold parse_dirent.
    pose proof Hdn as (Hdl & _ & _). pose proof Hpn as (Hpl & _ & _).
    rewrite (rd_opt_record img rd (dir_offset KSample s) DIR_ENTRY_SIZE (ser_dirent dn ty x (hd 0 c)) Hrd);
      [|unfold dir_offset; cbn [dir_area]; unfold DIR_ENTRY_SIZE; lia|unfold DIR_ENTRY_SIZE; lia
       |now apply zlen_ser_dirent|exact Hdir].
    destruct (dirent_fields dn ty x (hd 0 c) [] Hdn) as (D1 & D2 & D3). rewrite app_nil_r in D1, D2, D3.
    rewrite D1.
    rewrite (rd_opt_record img rd (par_offset KSample s) (par_size KSample) (ser_sample_param f) Hrd);
      [|unfold par_offset; cbn [par_area par_size]; lia|cbn [par_size]; lia
       |now apply zlen_ser_sample_param|exact Hpar].
    destruct (sample_param_fields f [] Hpn) as (P0 & P1 & P2 & P3 & P4 & P5 & P6 & P7 & P8).
    rewrite app_nil_r in P0, P1, P2, P3, P4, P5, P6, P7, P8.
    rewrite P0, P8, Hfreq. cbn [de_fat de_name]. rewrite D3, P7.
    rewrite (raw_get_file_decoded_lemma fat ver links (hd 0 c) (sf_top f) Hft Hdec Hhd).
    destruct Hft as [HN _].
    rewrite (roland_chain_resolved_lemma fat ver links c (sf_top f) Hdec Hc) by lia. cbn [bind].
    rewrite P1, P2, P3, P4, P5, P6. unfold point_address. fold (sample_points f). fold p. fold mode. fold secs.
    rewrite (stream_content_window_lemma img rd Hrd secs mode p Hsecs Hins H0 H1) by (rewrite Hlen; exact H2).
    reflexivity.
  - assert (Hd : 0 <= DATA_FAT_OFFSET < zlen img).
    { destruct c as [|c0 ct]; [congruence|]. inversion Hin; subst. inversion HFc; subst.
      unfold DATA_FAT_OFFSET, CLUSTER_SIZE in *. lia. }
    apply (roland_sample_pcm_lemma CLUSTER_SIZE DATA_FAT_OFFSET fat img ver links c (sf_top f) mode p Hdec Hc);
      try assumption. reflexivity.
Qed.

(** * From the data stream to the exported file *)
(** the window is a whole number of 16-bit words *)
Lemma window_bytes_len mode p file content :
  0 <= p_start p -> p_start p <= roland_end mode p + 1 ->
  2 * (roland_end mode p + 1) <= zlen (logical file content) ->
  zlen (window_bytes mode p (logical file content)) = 2 * (roland_end mode p - p_start p + 1).
Proof.
  intros H0 H1 H2. rewrite <- (roland_sample_bytes_lemma mode p file content H0 H1 H2).
  destruct (roland_window_lemma mode p) as (_ & Es & _).
  unfold roland_sample_view. destruct (w_rev _); rewrite logical_len; lia.
Qed.
(** a sample that is not paired with another one is written as a mono file holding exactly
    its data stream (PassthroughTranscoder on whole frames) *)
Lemma export_single_lemma : forall prefix smps nm i s b,
  nth_error smps i = Some s -> rs_data s = Ok b -> zlen b mod 2 = 0 ->
  export_outputs prefix smps [(nm, [i])]
  = Ok [{| AkaiImage.w_path := prefix ++ [nm]; AkaiImage.w_rate := rs_rate s;
           AkaiImage.w_channels := 1; AkaiImage.w_pcm := b |}].
Proof.
  intros prefix smps nm i s b Hn Hd Hb. cbn [export_outputs bind map cat_options]. rewrite Hn.
  cbn [cat_options all_data]. rewrite Hd. cbn [map].
  change (zlen [s]) with 1.
  pose proof (transcode_single_le_lemma 4096 2 (src_of_bytes b) ltac:(lia) eq_refl ltac:(cbn; lia) eq_refl) as T.
  cbn [schans src_of_bytes] in T. rewrite T. unfold whole_frames, frame_size. cbn [sbytes schans swidth src_of_bytes].
  replace (Z.to_nat (zlen b / (1 * 2) * (1 * 2))) with (length b) by (unfold zlen in *; lia).
  now rewrite firstn_all.
Qed.

(** * Termination: no loop of the whole-image model ever runs out of fuel *)
Lemma map_res_total {A B} (f : A -> res B) l : (forall x, f x <> OutOfFuel) -> map_res f l <> OutOfFuel.
Proof.
  intros Hf. induction l as [|x t IH]; cbn [map_res]; [discriminate|].
  specialize (Hf x). destruct (f x); cbn [bind]; [|discriminate|congruence].
  destruct (map_res f t); cbn [bind]; [discriminate|discriminate|congruence].
Qed.
Lemma raw_get_file_total fat entry top : raw_get_file fat entry top <> OutOfFuel.
Proof.
  unfold raw_get_file, raw_get_path.
  destruct (entry >=? zlen fat); cbn [bind]; [discriminate|].
  destruct ((2 <=? entry) && (entry <? zlen fat - 9)); cbn [bind]; [|discriminate].
  destruct (raw_walk _ _ _ _ _); cbn [bind]; discriminate.
Qed.
Section Total.
Context (ilen : Z) (rd : Z -> Z -> list Z).
Lemma parse_sample_total fat s : parse_sample ilen rd fat s <> OutOfFuel.
Proof.
  unfold parse_sample. destruct ((0 <=? s) && index_valid KSample s); [|discriminate].
  destruct (parse_dirent _ _ _ _); [|discriminate]. destruct (rd_opt _ _ _ _); [|discriminate].
  destruct (pstring _); [|discriminate]. destruct (frequency_of_code _); try discriminate.
  pose proof (raw_get_file_total fat (de_fat d) (u16 l 40)) as H.
  destruct (raw_get_file _ _ _); cbn [bind]; [discriminate|discriminate|congruence].
Qed.
Lemma patch_samples_img_total fat ptrs : patch_samples_img ilen rd fat ptrs <> OutOfFuel.
Proof.
  unfold patch_samples_img.
  pose proof (map_res_total (parse_sample ilen rd fat) (patch_sample_numbers ilen rd ptrs) (parse_sample_total fat)) as H.
  destruct (map_res _ _); cbn [bind]; [discriminate|discriminate|congruence].
Qed.
Lemma parse_perf_total fat p : parse_perf ilen rd fat p <> OutOfFuel.
Proof.
  unfold parse_perf. destruct (parse_node _ _ _ _) as [[nm ptrs]|]; [|discriminate].
  match goal with |- context [map_res ?f ?l] =>
    pose proof (map_res_total f l (fun pa => patch_samples_img_total fat (snd pa))) as H;
    destruct (map_res f l) end; cbn [bind]; [discriminate|discriminate|congruence].
Qed.
Lemma parse_perfs_total fat ptrs : parse_perfs ilen rd fat ptrs <> OutOfFuel.
Proof.
  unfold parse_perfs. pose proof (map_res_total (parse_perf ilen rd fat) ptrs (parse_perf_total fat)) as H.
  destruct (map_res _ _); cbn [bind]; [discriminate|discriminate|congruence].
Qed.
Lemma roland_tree_total : roland_tree ilen rd <> OutOfFuel.
Proof.
  unfold roland_tree. destruct (fat_words _ _) as [fat|]; [|discriminate].
  destruct (raw_fat_check_errors_lemma fat) as [H _].
  destruct (raw_fat_check fat); cbn [bind]; [|discriminate|congruence].
  apply map_res_total. intros v. pose proof (parse_perfs_total fat (snd (snd v))) as H2.
  destruct (parse_perfs _ _ _ _); cbn [bind]; [discriminate|discriminate|congruence].
Qed.
Lemma routines_total elems : routines elems <> OutOfFuel.
Proof.
  unfold routines, make_safe_names, make_export_names.
  pose proof (sanitize_names_total_lemma (fun n _ => make_safe_name n) elems) as H1.
  pose proof (sanitize_names_total_lemma make_export_name elems) as H2.
  destruct (sanitize_names (fun n _ => make_safe_name n) elems); cbn [bind]; [assumption|discriminate|congruence].
Qed.
Lemma export_outputs_total : forall outs prefix smps, export_outputs prefix smps outs <> OutOfFuel.
Proof.
  induction outs as [|[nm srcs] t IH]; intros prefix smps; cbn [export_outputs]; [discriminate|].
  specialize (IH prefix smps). destruct (export_outputs prefix smps t); cbn [bind]; [|discriminate|congruence].
  destruct (cat_options _) as [|s0 ss]; [discriminate|].
  destruct (all_data _) as [bs|]; [|discriminate].
  pose proof (transcode_total_lemma 4096 (map src_of_bytes bs) 2 (zlen (s0 :: ss))) as H.
  destruct (transcode _ _ _ _); [discriminate|discriminate|congruence].
Qed.
Lemma export_perf_total vn pn p : export_perf vn pn p <> OutOfFuel.
Proof.
  unfold export_perf.
  match goal with |- context [routines ?e] => pose proof (routines_total e) as H; destruct (routines e) end;
    cbn [bind]; [|discriminate|congruence].
  apply export_outputs_total.
Qed.
Lemma export_perfs_total : forall ps vn pnames, export_perfs vn ps pnames <> OutOfFuel.
Proof.
  induction ps as [|p pt IH]; intros vn pnames; cbn [export_perfs]; [discriminate|].
  destruct pnames as [|pn nt]; [discriminate|].
  pose proof (export_perf_total vn pn p) as H. destruct (export_perf vn pn p); cbn [bind]; [|discriminate|congruence].
  specialize (IH vn nt). destruct (export_perfs vn pt nt); cbn [bind]; [discriminate|discriminate|congruence].
Qed.
Lemma export_vols_total : forall vs vnames, export_vols vs vnames <> OutOfFuel.
Proof.
  induction vs as [|v vt IH]; intros vnames; cbn [export_vols]; [discriminate|].
  destruct vnames as [|vn nt]; [discriminate|].
  match goal with |- context [routines ?e] => pose proof (routines_total e) as H; destruct (routines e) end;
    cbn [bind]; [|discriminate|congruence].
  match goal with |- context [export_perfs ?a ?b ?c] => pose proof (export_perfs_total b a c) as H2;
    destruct (export_perfs a b c) end; cbn [bind]; [|discriminate|congruence].
  specialize (IH nt). destruct (export_vols vt nt); cbn [bind]; [discriminate|discriminate|congruence].
Qed.
Lemma roland_export_gen_total : roland_export_gen ilen rd <> OutOfFuel.
Proof.
  unfold roland_export_gen. pose proof roland_tree_total as H.
  destruct (roland_tree ilen rd) as [vs| |]; cbn [bind]; [|discriminate|congruence].
  match goal with |- context [routines ?e] => pose proof (routines_total e) as H1; destruct (routines e) end;
    cbn [bind]; [|discriminate|congruence].
  apply export_vols_total.
Qed.
Lemma roland_ls_gen_total : roland_ls_gen ilen rd <> OutOfFuel.
Proof.
  unfold roland_ls_gen. pose proof roland_tree_total as H.
  destruct (roland_tree ilen rd); cbn [bind]; [discriminate|discriminate|congruence].
Qed.
(** the only exception that aborts the export of an image is ConstructError (short FAT area,
    rejected table), a get_file error (not reached: RolandFatProofs) or CouldNotDetermineName *)
End Total.

(** * The sparse reader of the extracted driver *)
From SE Require CueProofs.
(** the image a list of runs (offset, length, bytes) denotes from position [pos] up to [len] *)
Fixpoint dense_from (runs : list (Z * Z * list Z)) (pos len : Z) : list Z :=
  match runs with
  | [] => zrepeat 0 (len - pos)
  | (o, n, bs) :: t => zrepeat 0 (o - pos) ++ bs ++ dense_from t (o + n) len
  end.
(** increasing, non-overlapping, inside the image, stored lengths right *)
Fixpoint runs_ok (runs : list (Z * Z * list Z)) (pos len : Z) : Prop :=
  match runs with
  | [] => pos <= len
  | (o, n, bs) :: t => pos <= o /\ zlen bs = n /\ runs_ok t (o + n) len
  end.

Lemma zlen_dense_from : forall runs pos len, runs_ok runs pos len -> zlen (dense_from runs pos len) = len - pos.
Proof.
  induction runs as [|[[o n] bs] t IH]; intros pos len H; cbn [dense_from runs_ok] in *.
  - apply zlen_zrepeat. lia.
  - destruct H as (H1 & H2 & H3). rewrite !zlen_app, zlen_zrepeat, IH by (assumption || lia). lia.
Qed.
Lemma runs_ok_le : forall runs pos len, runs_ok runs pos len -> pos <= len.
Proof.
  induction runs as [|[[o n] bs] t IH]; intros pos len H; cbn [runs_ok] in *; [assumption|].
  destruct H as (H1 & H2 & H3). apply IH in H3. pose proof (zlen_nonneg bs). lia.
Qed.
Lemma slice_zrepeat {A} (x : A) m a k : 0 <= a -> 0 <= k -> a + k <= m -> slice (zrepeat x m) a (a + k) = zrepeat x k.
Proof.
  intros Ha Hk Hm. apply (nth_ext _ _ x x).
  - pose proof (slice_zlen (zrepeat x m) a (a + k) Ha) as E. rewrite zlen_zrepeat in E by lia.
    pose proof (zlen_zrepeat x k Hk). unfold zlen in *. lia.
  - intros i Hi.
    assert (Hl : zlen (slice (zrepeat x m) a (a + k)) = k).
    { rewrite slice_zlen, zlen_zrepeat by lia. lia. }
    change (nth i (slice (zrepeat x m) a (a + k)) x) with (znth x (slice (zrepeat x m) a (a + k)) (Z.of_nat i)) at 1
      || idtac.
    unfold zrepeat at 2. rewrite nth_repeat.
    assert (E : nth i (slice (zrepeat x m) a (a + k)) x = znth x (slice (zrepeat x m) a (a + k)) (Z.of_nat i))
      by (unfold znth; now rewrite Nat2Z.id).
    rewrite E, znth_slice by (try rewrite zlen_zrepeat; unfold zlen in *; lia).
    unfold znth, zrepeat. apply nth_repeat.
Qed.
Lemma sparse_rd_zero : forall runs off, sparse_rd runs off 0 = [].
Proof. intros [|[[o n] bs] t] off; reflexivity. Qed.
Lemma slice_empty {A} (l : list A) a : slice l a a = [].
Proof. unfold slice. now rewrite Z.sub_diag. Qed.

Lemma sparse_rd_dense : forall runs pos len off n,
  runs_ok runs pos len -> pos <= off -> 0 <= n -> off + n <= len ->
  sparse_rd runs off n = slice (dense_from runs pos len) (off - pos) (off - pos + n).
Proof.
  induction runs as [|[[o ln] bs] t IH]; intros pos len off n Hok Hp Hn Hl; cbn [sparse_rd dense_from runs_ok] in *.
  - symmetry. apply slice_zrepeat; lia.
  - destruct Hok as (H1 & H2 & H3).
    pose proof (zlen_nonneg bs) as Hbs. pose proof (runs_ok_le _ _ _ H3) as Hle.
    set (Zs := zrepeat 0 (o - pos)). assert (HZ : zlen Zs = o - pos) by (apply zlen_zrepeat; lia).
    set (D' := dense_from t (o + ln) len). assert (HD' : zlen D' = len - (o + ln)) by (now apply zlen_dense_from).
    destruct (Z.leb_spec n 0) as [Hn0|Hn0].
    { replace n with 0 by lia. rewrite Z.add_0_r. now rewrite slice_empty. }
    destruct (Z.leb_spec (o + ln) off) as [Hbefore|Hnb].
    { rewrite (IH (o + ln) len off n H3) by lia.
      rewrite slice_app_r by lia. rewrite slice_app_r by lia. f_equal; lia. }
    destruct (Z.leb_spec (off + n) o) as [Hafter|Hna].
    { rewrite slice_app_l by lia. symmetry. apply slice_zrepeat; lia. }
    set (z := Z.max 0 (o - off)). set (a := off + z). set (k := Z.min (o + ln) (off + n) - a).
    assert (Ha : o <= a /\ off <= a) by (unfold a, z; lia).
    assert (Hk : 0 <= k /\ a + k <= o + ln /\ a + k <= off + n) by (unfold k, a, z; lia).
    rewrite <- (CueProofs.slice_app _ (off - pos) (a - pos) (off - pos + n)) by lia.
    rewrite <- (CueProofs.slice_app _ (a - pos) (a + k - pos) (off - pos + n)) by lia.
    f_equal; [|f_equal].
    + (* zeros before the run *)
      destruct (Z_le_gt_dec off o) as [Hoo|Hoo].
      * rewrite slice_app_l by (unfold a, z in *; lia). unfold Zs.
        replace (a - pos) with (off - pos + z) by (unfold a; lia).
        symmetry. apply slice_zrepeat; unfold z; lia.
      * replace z with 0 by (unfold z; lia). replace (a - pos) with (off - pos) by (unfold a, z; lia).
        now rewrite slice_empty.
    + (* the part inside the run *)
      rewrite slice_app_r by lia. rewrite slice_app_l by lia. f_equal; lia.
    + (* the rest *)
      destruct (Z.eq_dec (a + k) (off + n)) as [E|Ne].
      * replace (off + n - (a + k)) with 0 by lia. rewrite sparse_rd_zero.
        replace (off - pos + n) with (a + k - pos) by lia. now rewrite slice_empty.
      * assert (Ek : a + k = o + ln) by (unfold k in *; lia).
        rewrite (IH (o + ln) len (a + k) (off + n - (a + k)) H3) by lia.
        rewrite slice_app_r by lia. rewrite slice_app_r by lia. f_equal; lia.
Qed.

Lemma runs_okb_ok : forall runs pos len, runs_okb runs pos len = true -> runs_ok runs pos len.
Proof.
  induction runs as [|[[o n] bs] t IH]; intros pos len H; cbn [runs_okb runs_ok] in *; [lia|].
  apply Bool.andb_true_iff in H as [H H3]. apply Bool.andb_true_iff in H as [H1 H2].
  split; [lia|]. split; [lia|]. now apply IH.
Qed.

(** the driver's reader reads the image its runs denote *)
Lemma sparse_reads_lemma : forall len runs, runs_ok runs 0 len ->
  zlen (dense_from runs 0 len) = len /\ reads (dense_from runs 0 len) (sparse_image_rd len runs).
Proof.
  intros len runs Hok. pose proof (zlen_dense_from runs 0 len Hok) as Hlen. split; [lia|].
  intros off n Ho. unfold sparse_image_rd.
  destruct (Z_le_gt_dec (Z.min n (len - off)) 0) as [Hneg|Hpos].
  - (* nothing to read *)
    assert (E : sparse_rd runs off (Z.min n (len - off)) = []).
    { destruct runs as [|[[o ln] bs] t]; cbn [sparse_rd].
      - unfold zrepeat. replace (Z.to_nat _) with O by lia. reflexivity.
      - destruct (Z.leb_spec (Z.min n (len - off)) 0); [reflexivity|lia]. }
    rewrite E. symmetry.
    destruct (Z_le_gt_dec n 0).
    + unfold slice. replace (Z.to_nat (off + n - off)) with O by lia. reflexivity.
    + apply slice_past_end. lia.
  - rewrite (sparse_rd_dense runs 0 len off (Z.min n (len - off)) Hok) by lia.
    rewrite Z.sub_0_r.
    destruct (Z_le_gt_dec n (len - off)).
    + f_equal. lia.
    + replace (off + Z.min n (len - off)) with (zlen (dense_from runs 0 len)) by lia.
      symmetry. apply slice_clip; lia.
Qed.

(** * The table the model reads from an image of bytes is a table of the real format *)
Lemma words_props : forall n l, length l = (2 * n)%nat -> Forall (fun b => 0 <= b) l ->
  length (AkaiImage.words l) = n /\ Forall (fun v => 0 <= v) (AkaiImage.words l).
Proof.
  induction n as [|n IH]; intros l Hl HF.
  - destruct l; [|discriminate]. split; [reflexivity|constructor].
  - destruct l as [|a [|b t]]; try (cbn in Hl; lia).
    inversion HF as [|? ? Ha HF']; subst. inversion HF' as [|? ? Hb HF'']; subst.
    cbn [AkaiImage.words]. destruct (IH t) as [E1 E2]; [cbn in Hl; lia|assumption|].
    split; [cbn [length]; now rewrite E1|constructor; [lia|assumption]].
Qed.
Lemma rd_opt_some img rd off n b : reads img rd -> rd_opt (zlen img) rd off n = Some b ->
  0 <= off /\ off + n <= zlen img /\ b = slice img off (off + n).
Proof.
  intros Hrd H. unfold rd_opt in H.
  destruct (Z.leb_spec 0 off); [|discriminate]. destruct (Z.leb_spec (off + n) (zlen img)); [|discriminate].
  cbn [andb] in H. injection H as <-. split; [assumption|]. split; [assumption|]. now apply Hrd.
Qed.
Lemma words_table : forall (n : nat) b, zlen b = 2 * Z.of_nat n -> Forall (fun x => 0 <= x) b ->
  zlen (AkaiImage.words b) = Z.of_nat n /\ Forall (fun v => 0 <= v) (AkaiImage.words b).
Proof.
  intros n b Hlen HF. destruct (words_props n b) as [E1 E2]; [unfold zlen in Hlen; lia|assumption|].
  split; [unfold zlen; now rewrite E1|assumption].
Qed.
Lemma fat_words_table_lemma : forall img rd fat, reads img rd -> Forall (fun b => 0 <= b) img ->
  fat_words (zlen img) rd = Some fat -> fat_table fat.
Proof.
  intros img rd fat Hrd Hb H. unfold fat_words in H.
  destruct (rd_opt _ _ _ _) as [b|] eqn:E; [|discriminate]. injection H as <-.
  apply (rd_opt_some img rd _ _ b Hrd) in E as (H0 & H1 & ->).
  assert (Hn : exists n, Z.of_nat n = FAT_ENTRIES) by (exists (Z.to_nat FAT_ENTRIES); apply Z2Nat.id; unfold FAT_ENTRIES; lia).
  destruct Hn as [n Hn]. unfold fat_table. rewrite <- Hn in *.
  apply words_table.
  - rewrite zlen_slice_in; lia.
  - apply Forall_forall. intros x Hx. rewrite Forall_forall in Hb. eapply Hb, in_slice, Hx.
Qed.
