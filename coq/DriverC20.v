(** Dispatch table of the C20 model functions (ids 800-849). *)
From SE Require Import Base Codecs Cue DriverBase Info.

Definition vkv (p : kv) : val := VL [VL (map vlistZ (fst p)); vopt (snd p)].
Definition vlines (l : list (list Z)) : val := VL (map vlistZ l).
Definition cents_table (a : val) : Z -> list Z :=
  fun x => unVLZ (nth (Z.to_nat (x + 128)) (unVL a) (VL [])).

Fixpoint unitem (fuel : nat) (v : val) : item :=
  match fuel with
  | O => IStr []
  | S f =>
      match v with
      | VL [VI 1; VL l] => IMap (map (fun kvp => (unVLZ (nth_arg kvp 0), unitem f (nth_arg kvp 1))) l)
      | VL [VI 2; VL l] => ISeq (map (unitem f) l)
      | VL [VI 0; s] => IStr (unVLZ s)
      | _ => IStr []
      end
  end.

Definition layout_by_id (id : Z) : layout :=
  if id =? 0 then sample_layout else if id =? 1 then program_layout
  else if id =? 2 then keygroup_layout 4 else if id =? 3 then roland_param_layout
  else keygroup_layout (Z.to_nat (id - 10)).

Definition dispatch_c20 (id : Z) (a : val) : option val :=
  match id with
  | 800 (* ls_sample *) =>
      Some (vres vlines (ls_sample (cents_table (nth_arg a 0)) (unVLZ (nth_arg a 1)) (unVLZ (nth_arg a 2))
                                   (unVLZ (nth_arg a 3))))
  | 801 (* ls_program *) =>
      Some (vres vlines (ls_program (cents_table (nth_arg a 0)) (unVLZ (nth_arg a 1)) (unVLZ (nth_arg a 2))
                                    (unVLZ (nth_arg a 3)) (unVLZ (nth_arg a 4))))
  | 802 (* sample_pairs *) =>
      Some (vres (fun s => VL (map vkv (flatten [] (keyed [] (sample_item (cents_table (nth_arg a 0)) (unVLZ (nth_arg a 1)) s)))))
                 (decode_sample (unVLZ (nth_arg a 2))))
  | 803 (* program_pairs *) =>
      Some (vres (fun p => VL (map vkv (flatten [] (keyed [] (program_item (cents_table (nth_arg a 0)) (unVLZ (nth_arg a 1)) p)))))
                 (decode_program (unVLZ (nth_arg a 2))))
  | 804 (* keygroup_pairs *) =>
      Some (vres (fun k => VL (map vkv (flatten [] (keyed [] (keygroup_item (cents_table (nth_arg a 0)) k)))))
                 (decode_keygroup (unVLZ (nth_arg a 1))))
  | 805 (* unrender_text *) => Some (VL (map vkv (unrender_text (unVLZ a))))
  | 806 (* print_item_text *) =>
      Some (vlistZ (print_text (unVLZ (nth_arg a 0)) (keyed [] (unitem 12 (nth_arg a 1)))))
  | 807 (* ls_cdda_track *) =>
      Some (vres (fun c => let ws := cdda_windows c (unVI (nth_arg a 1)) in
                           match nth_error ws (Z.to_nat (unVI (nth_arg a 2))) with
                           | Some w => VL [VI 1; vlines (ls_cdda_track (unVLZ (nth_arg a 3)) w)]
                           | None => VL [VI 0]
                           end)
                 (parse_cue_sheet (unlines (nth_arg a 0))))
  | 808 (* decode_roland_param *) => Some (vres vlistZ (decode_roland_param (unVLZ a)))
  | 809 (* layout_offsets *) =>
      Some (VL (map (fun o => VL [VI (Z.of_nat (fst (fst (fst o)))); VI (Z.of_nat (snd (fst (fst o))));
                                  vbool (snd (fst o)); vbool (snd o)])
                    (offsets (layout_by_id (unVI a)) 0)))
  | 810 (* layout_parse *) => Some (vlistZ (parse (layout_by_id (unVI (nth_arg a 0))) (unVLZ (nth_arg a 1))))
  | 811 (* layout_build *) => Some (vlistZ (build (layout_by_id (unVI (nth_arg a 0))) (unVLZ (nth_arg a 1))))
  | 812 (* item_pairs *) => Some (VL (map vkv (flatten [] (keyed [] (unitem 12 a)))))
  | _ => None
  end.
