(** Unbounded theorems about the AKAI segment-allocation-table decoder ([Fat.akai_decode]):
    a raw chain whose sectors are each linked exactly once resolves to exactly itself,
    for every table (of at most 0xC000 words, so that the EOF word is never an in-range
    link), whatever else the table holds; and a maximal run of reserved-flag words
    resolves to exactly the run (tables of at most 0x4000 words). *)
From SE Require Import Base Fat FatProofs.

(** * Small list / table facts *)
Lemma znth_repeat {A} (d x : A) n i : znth d (repeat x n) i = x \/ znth d (repeat x n) i = d.
Proof.
  unfold znth. generalize (Z.to_nat i). induction n as [|n IH]; intros [|k]; cbn; auto.
Qed.
Lemma znth_repeat_same {A} (d : A) n i : znth d (repeat d n) i = d.
Proof. destruct (znth_repeat d d n i); assumption. Qed.

Lemma in_app_mid {A} (a b : list A) x : In x (a ++ x :: b).
Proof. apply in_or_app. right. now left. Qed.

Lemma NoDup_app_disj {A} (a b : list A) x : NoDup (a ++ b) -> In x a -> In x b -> False.
Proof.
  induction a as [|h t IH]; cbn; intros H Ha Hb; [assumption|].
  inversion H as [|? ? Hn Ht]; subst. destruct Ha as [->|Ha].
  - apply Hn. apply in_or_app. now right.
  - now apply IH.
Qed.
Lemma NoDup_app_l {A} (a b : list A) : NoDup (a ++ b) -> NoDup a.
Proof.
  induction a as [|h t IH]; cbn; intros H; [constructor|].
  inversion H as [|? ? Hn Ht]; subst. constructor; [|now apply IH].
  intros Hi. apply Hn. apply in_or_app. now left.
Qed.
Lemma NoDup_app_r {A} (a b : list A) : NoDup (a ++ b) -> NoDup b.
Proof. induction a as [|h t IH]; cbn; intros H; [assumption|]. inversion H; subst. now apply IH. Qed.

Lemma znth_in_range_In (block : list Z) i : 0 <= i < zlen block -> In (znth 0 block i) block.
Proof. unfold znth, zlen. intros H. apply nth_In. lia. Qed.

(** * What [add_links] writes *)
Lemma add_links_from_other : forall rest prev tbl t,
  add_links_from prev rest tbl = Ok t -> 0 <= prev -> Forall (fun x => 0 <= x) rest ->
  forall y, 0 <= y -> ~ In y (prev :: rest) -> znth dlink t y = znth dlink tbl y.
Proof.
  induction rest as [|l rest IH]; intros prev tbl t H Hp Hr y Hy Hn; cbn [add_links_from] in H.
  - destruct (prev <? zlen tbl); [|discriminate]. injection H as <-.
    apply znth_upd_other; try assumption. intros ->. apply Hn. now left.
  - destruct (prev <? zlen tbl); [|discriminate].
    inversion Hr as [|? ? Hl Hr']; subst.
    rewrite (IH _ _ _ H Hl Hr' y Hy).
    + apply znth_upd_other; try assumption. intros ->. apply Hn. now left.
    + intros Hi. apply Hn. now right.
Qed.
Lemma add_links_other links tbl t :
  add_links links tbl = Ok t -> Forall (fun x => 0 <= x) links ->
  forall y, 0 <= y -> ~ In y links -> znth dlink t y = znth dlink tbl y.
Proof.
  destruct links as [|p rest]; cbn [add_links]; intros H HF y Hy Hn; [now injection H as <-|].
  inversion HF; subst. eapply add_links_from_other; eassumption.
Qed.

Lemma add_links_from_ok : forall rest prev tbl,
  prev < zlen tbl -> Forall (fun x => x < zlen tbl) rest ->
  exists t, add_links_from prev rest tbl = Ok t.
Proof.
  induction rest as [|l rest IH]; intros prev tbl Hp Hr; cbn [add_links_from];
    destruct (Z.ltb_spec prev (zlen tbl)); try lia; [eauto|].
  inversion Hr; subst. apply IH; rewrite zlen_upd; assumption.
Qed.
Lemma add_links_ok links tbl :
  Forall (fun x => x < zlen tbl) links -> exists t, add_links links tbl = Ok t.
Proof.
  destruct links as [|p rest]; cbn [add_links]; intros HF; [eauto|].
  inversion HF; subst. now apply add_links_from_ok.
Qed.

(** a segment of the link table: consecutive sectors linked, the last one holding [e] *)
Inductive Seg (t : list link) (e : link) : list Z -> Prop :=
| seg_last x : 0 <= x < zlen t -> znth dlink t x = e -> Seg t e [x]
| seg_cons x y r :
    0 <= x < zlen t -> znth dlink t x = {| lnext := y; lend := false |} ->
    Seg t e (y :: r) -> Seg t e (x :: y :: r).

Lemma add_links_from_seg : forall rest prev tbl t,
  add_links_from prev rest tbl = Ok t -> 0 <= prev -> Forall (fun x => 0 <= x) rest ->
  NoDup (prev :: rest) -> Seg t dlink (prev :: rest).
Proof.
  induction rest as [|l rest IH]; intros prev tbl t H Hp Hr Hnd; cbn [add_links_from] in H.
  - destruct (Z.ltb_spec prev (zlen tbl)); [|discriminate]. injection H as <-.
    constructor; [rewrite zlen_upd; lia|]. apply znth_upd_same. lia.
  - destruct (Z.ltb_spec prev (zlen tbl)); [|discriminate].
    inversion Hr as [|? ? Hl Hr']; subst. inversion Hnd as [|? ? Hni Hnd']; subst.
    constructor.
    + apply add_links_from_length in H. rewrite upd_length in H. unfold zlen in *. lia.
    + rewrite (add_links_from_other _ _ _ _ H Hl Hr' prev Hp Hni). apply znth_upd_same. lia.
    + eapply IH; eassumption.
Qed.
Lemma add_links_seg links tbl t :
  add_links links tbl = Ok t -> links <> [] -> Forall (fun x => 0 <= x) links -> NoDup links ->
  Seg t dlink links.
Proof.
  destruct links as [|p rest]; cbn [add_links]; intros H Hne HF Hnd; [congruence|].
  inversion HF; subst. eapply add_links_from_seg; eassumption.
Qed.

Lemma seg_ext t t' e l :
  Seg t e l -> zlen t' = zlen t -> (forall y, In y l -> znth dlink t' y = znth dlink t y) ->
  Seg t' e l.
Proof.
  intros HS Hlen. induction HS as [x Hx He|x y r Hx He HS IH]; intros Hext.
  - constructor; [lia|]. rewrite Hext; [assumption|now left].
  - constructor; [lia| |].
    + rewrite Hext; [assumption|now left].
    + apply IH. intros z Hz. apply Hext. now right.
Qed.

Lemma seg_in_range t e l x : Seg t e l -> In x l -> 0 <= x < zlen t.
Proof. intros HS. induction HS; cbn; intros [->|Hi]; try lia; try contradiction; auto. Qed.

Lemma seg_upd_last t e e' : forall l x,
  Seg t e (l ++ [x]) -> NoDup (l ++ [x]) -> Seg (upd t x e') e' (l ++ [x]).
Proof.
  induction l as [|a l IH]; intros x HS Hnd; cbn [app] in *.
  - inversion HS; subst. constructor; [rewrite zlen_upd; assumption|]. apply znth_upd_same. assumption.
  - inversion Hnd as [|? ? Hni Hnd']; subst.
    destruct (l ++ [x]) as [|y r] eqn:E; [destruct l; discriminate|].
    inversion HS as [|? ? ? Ha Hea HS']; subst.
    constructor; [rewrite zlen_upd; assumption| |].
    + assert (0 <= x < zlen t).
      { eapply seg_in_range; [exact HS'|]. rewrite <- E. apply in_app_mid. }
      rewrite znth_upd_other; try lia; [assumption|].
      intros ->. apply Hni. rewrite <- E. apply in_app_mid.
    + rewrite <- E. apply IH; rewrite E; assumption.
Qed.

Lemma seg_chain_end t e : forall l, Seg t e l -> lend e = true ->
  match l with [] => False | h :: _ => Chain t h l end.
Proof.
  intros l HS He. induction HS as [x Hx Hex|x y r Hx Hex HS IH].
  - apply chain_end; [assumption|]. now rewrite Hex.
  - apply chain_step; [assumption|now rewrite Hex|]. rewrite Hex. exact IH.
Qed.
Lemma seg_chain_app t v suf : forall l, Seg t {| lnext := v; lend := false |} l ->
  Chain t v suf -> match l with [] => False | h :: _ => Chain t h (l ++ suf) end.
Proof.
  intros l HS Hc. induction HS as [x Hx Hex|x y r Hx Hex HS IH].
  - cbn [app]. apply chain_step; [assumption|now rewrite Hex|]. now rewrite Hex.
  - cbn [app]. apply chain_step; [assumption|now rewrite Hex|]. rewrite Hex. exact IH.
Qed.

Lemma chain_ext t t' s c :
  Chain t s c -> zlen t' = zlen t -> (forall y, In y c -> znth dlink t' y = znth dlink t y) ->
  Chain t' s c.
Proof.
  intros HC Hlen. induction HC as [x Hx He|x r Hx He HC IH]; intros Hext.
  - apply chain_end; [lia|]. rewrite Hext; [assumption|now left].
  - assert (E : znth dlink t' x = znth dlink t x) by (apply Hext; now left).
    apply chain_step; [lia|now rewrite E|]. rewrite E. apply IH.
    intros z Hz. apply Hext. now right.
Qed.

(** * The decoder never raises: every walked sector is inside the table *)
Definition inr (size x : Z) : Prop := 0 <= x < size.

Lemma forall_inr_app size l x : Forall (inr size) l -> inr size x -> Forall (inr size) (l ++ [x]).
Proof. intros Hl Hx. apply Forall_app. split; [assumption|]. constructor; [assumption|constructor]. Qed.
Lemma inr_lt size l : Forall (inr size) l -> Forall (fun x => x < size) l.
Proof. apply Forall_impl. unfold inr. intros; lia. Qed.
Lemma inr_nonneg size l : Forall (inr size) l -> Forall (fun x => 0 <= x) l.
Proof. apply Forall_impl. unfold inr. intros; lia. Qed.

Lemma akai_walk_no_err block size (Hb : Forall (fun w => 0 <= w) block) :
  forall fuel st links sub e,
    zlen (a_links st) = size -> Forall (inr size) links -> 0 <= sub ->
    akai_walk fuel block size st links sub <> Err e.
Proof.
  induction fuel as [|fuel IH]; intros st links sub e Hlen Hl Hsub; [discriminate|].
  cbn [akai_walk].
  assert (HA : forall l, Forall (inr size) l -> exists t, add_links l (a_links st) = Ok t).
  { intros l Hl'. apply add_links_ok. rewrite Hlen. now apply inr_lt. }
  destruct (Z.geb_spec sub size) as [Hge|Hlt].
  { destruct (a_prev_dir st && _); [|discriminate].
    destruct (HA links Hl) as [t ->]. discriminate. }
  assert (Hs : Forall (inr size) (links ++ [sub])) by (apply forall_inr_app; [assumption|unfold inr; lia]).
  destruct (negb _ && a_prev_dir st && _).
  { destruct (HA links Hl) as [t ->]. discriminate. }
  destruct (_ || _).
  { destruct (negb _ && negb _ && negb _); [|discriminate].
    destruct (HA _ Hs) as [t ->]. discriminate. }
  destruct (_ =? SAT_EOF).
  { destruct (HA _ Hs) as [t ->]. discriminate. }
  apply IH; cbn [a_links]; try assumption.
  pose proof (znth_nonneg block sub Hb). destruct (is_dir_word _); lia.
Qed.

Lemma akai_outer_no_err block size (Hb : Forall (fun w => 0 <= w) block) :
  forall n i st e, zlen (a_links st) = size -> 0 <= i ->
    akai_outer n block size i st <> Err e.
Proof.
  induction n as [|n IH]; intros i st e Hlen Hi; cbn [akai_outer]; [discriminate|].
  destruct (znth false (a_dirty st) i); [apply IH; [assumption|lia]|].
  destruct (akai_walk _ _ _ _ _ _) as [st'|e'|] eqn:EW; cbn [bind]; [|exfalso|discriminate].
  - apply IH; [|lia]. apply akai_walk_len in EW as [_ E2]. unfold zlen in *. lia.
  - eapply akai_walk_no_err; [exact Hb|exact Hlen|constructor|exact Hi|exact EW].
Qed.

Lemma akai_decode_ok block : Forall (fun w => 0 <= w) block -> exists t, akai_decode block = Ok t.
Proof.
  intros Hb. destruct (akai_decode_total_lemma block Hb) as [Hf _].
  unfold akai_decode in *.
  destruct (akai_outer _ _ _ _ _) as [st|e|] eqn:E; cbn [bind] in *; [eauto| |congruence].
  exfalso. eapply akai_outer_no_err; [exact Hb| |reflexivity|exact E].
  cbn [a_links]. apply repeat_zlen.
Qed.

(** * Raw chains as a relation *)
Inductive RawChain (block : list Z) : list Z -> Prop :=
| rc_end x : inr (zlen block) x -> znth 0 block x = SAT_EOF -> RawChain block [x]
| rc_step x y r :
    inr (zlen block) x -> znth 0 block x = y ->
    y <> SAT_FREE -> is_dir_word y = false -> y <> SAT_EOF ->
    RawChain block (y :: r) -> RawChain block (x :: y :: r).

Lemma existsb_eqb_false x l : existsb (Z.eqb x) l = false -> ~ In x l.
Proof.
  intros H Hi. assert (existsb (Z.eqb x) l = true); [|congruence].
  apply existsb_exists. exists x. split; [assumption|apply Z.eqb_refl].
Qed.
Lemma existsb_eqb_notin x l : ~ In x l -> existsb (Z.eqb x) l = false.
Proof.
  intros Hn. destruct (existsb (Z.eqb x) l) eqn:E; [|reflexivity].
  apply existsb_exists in E as (y & Hy & Hxy). apply Z.eqb_eq in Hxy. subst. contradiction.
Qed.
Lemma NoDup_snoc {A} (l : list A) x : NoDup l -> ~ In x l -> NoDup (l ++ [x]).
Proof.
  induction l as [|h t IH]; cbn; intros Hnd Hn; [constructor; [auto|constructor]|].
  inversion Hnd; subst. constructor.
  - intros Hi. apply in_app_or in Hi as [Hi|[->|[]]]; [contradiction|]. apply Hn. now left.
  - apply IH; [assumption|]. intros Hi. apply Hn. now right.
Qed.

Lemma raw_chain_spec block : forall fuel seen cur c,
  raw_chain fuel block seen cur = Some c ->
  exists r, c = seen ++ cur :: r /\ RawChain block (cur :: r) /\ (NoDup seen -> NoDup c).
Proof.
  induction fuel as [|fuel IH]; intros seen cur c H; [discriminate|].
  cbn [raw_chain] in H.
  destruct (Z.ltb_spec cur 0); [discriminate|].
  destruct (Z.geb_spec cur (zlen block)); [discriminate|]. cbn [orb] in H.
  destruct (existsb (Z.eqb cur) seen) eqn:Eseen; [discriminate|].
  apply existsb_eqb_false in Eseen.
  destruct (Z.eqb_spec (znth 0 block cur) SAT_FREE) as [|Hfree]; [discriminate|]. cbn [orb] in H.
  destruct (is_dir_word (znth 0 block cur)) eqn:Edir; [discriminate|].
  destruct (Z.eqb_spec (znth 0 block cur) SAT_EOF) as [Heof|Hneof].
  - injection H as <-. exists []. split; [reflexivity|]. split.
    + constructor; [unfold inr; lia|assumption].
    + intros Hnd. now apply NoDup_snoc.
  - apply IH in H as (r & -> & Hrc & Hnd). exists (znth 0 block cur :: r).
    split; [now rewrite <- app_assoc|]. split.
    + constructor; try assumption; [unfold inr; lia|reflexivity].
    + intros Hs. apply Hnd. now apply NoDup_snoc.
Qed.

Lemma rc_suffix block : forall a b, RawChain block (a ++ b) -> b <> [] -> RawChain block b.
Proof.
  induction a as [|x a IH]; intros b H Hb; cbn [app] in H; [assumption|].
  remember (x :: a ++ b) as l eqn:El.
  destruct H as [x' Hx He|x' y r Hx Hw Hf Hd He Hrc]; injection El as E1 E2.
  - destruct a; [destruct b; [congruence|discriminate]|discriminate].
  - apply IH; [|assumption]. rewrite <- E2. assumption.
Qed.
Lemma rc_inv_last block x : RawChain block [x] -> znth 0 block x = SAT_EOF.
Proof. inversion 1; assumption. Qed.
Lemma rc_inv_step block x y r : RawChain block (x :: y :: r) ->
  znth 0 block x = y /\ y <> SAT_FREE /\ is_dir_word y = false /\ y <> SAT_EOF.
Proof. inversion 1; subst; auto. Qed.
Lemma rc_inr block l : RawChain block l -> Forall (inr (zlen block)) l.
Proof. induction 1; constructor; auto. Qed.
Lemma rc_word block l : RawChain block l -> forall x, In x l ->
  is_dir_word (znth 0 block x) = false /\ znth 0 block x <> SAT_FREE.
Proof.
  induction 1 as [x Hx He|x y r Hx Hw Hf Hd He Hrc IH]; intros z [->|Hz]; try contradiction; auto.
  - rewrite He. split; [reflexivity|discriminate].
  - rewrite Hw. auto.
Qed.
Lemma rc_pred block l : RawChain block l ->
  forall v, In v (tl l) -> exists p, In p l /\ znth 0 block p = v.
Proof.
  induction 1 as [x Hx He|x y r Hx Hw Hf Hd He Hrc IH]; cbn [tl]; intros v Hv; [contradiction|].
  destruct Hv as [->|Hv].
  - exists x. split; [now left|assumption].
  - destruct (IH v Hv) as (p & Hp & Hpv). exists p. split; [now right|assumption].
Qed.

(** * Consequences of [linked_once] *)
Lemma count_word_ge1 : forall block a w, (a < length block)%nat -> nth a block 0 = w ->
  (1 <= count_word block w)%nat.
Proof.
  unfold count_word. induction block as [|h t IH]; intros [|a] w Ha Hn; cbn [length] in Ha; try lia;
    cbn [nth filter] in *.
  - subst. rewrite Z.eqb_refl. cbn [length]. lia.
  - specialize (IH a w ltac:(lia) Hn). destruct (w =? h); cbn [length]; lia.
Qed.
Lemma count_word_unique : forall block a b w, count_word block w = 1%nat ->
  (a < length block)%nat -> (b < length block)%nat -> nth a block 0 = w -> nth b block 0 = w -> a = b.
Proof.
  unfold count_word. induction block as [|h t IH]; intros [|a] [|b] w Hc Ha Hb Hna Hnb;
    cbn [length] in Ha, Hb; try lia; cbn [nth filter] in *.
  - subst h. rewrite Z.eqb_refl in Hc. cbn [length] in Hc.
    pose proof (count_word_ge1 t b w ltac:(lia) Hnb) as G. unfold count_word in G. lia.
  - subst h. rewrite Z.eqb_refl in Hc. cbn [length] in Hc.
    pose proof (count_word_ge1 t a w ltac:(lia) Hna) as G. unfold count_word in G. lia.
  - f_equal. apply (IH a b w); try lia; try assumption.
    destruct (w =? h); cbn [length] in Hc; [|assumption].
    pose proof (count_word_ge1 t a w ltac:(lia) Hna) as G. unfold count_word in G. lia.
Qed.

(** a sector outside the chain never links into it *)
Lemma linked_once_closed block c :
  RawChain block c -> linked_once block c = true ->
  forall sub, inr (zlen block) sub -> ~ In sub c -> ~ In (znth 0 block sub) c.
Proof.
  intros Hrc Hlo sub Hsub Hn Hv. unfold inr in Hsub.
  destruct c as [|h t]; [contradiction|]. cbn [linked_once] in Hlo.
  apply andb_true_iff in Hlo as [Hh Ht]. apply Nat.eqb_eq in Hh.
  destruct Hv as [Hv|Hv].
  - pose proof (count_word_ge1 block (Z.to_nat sub) h) as G. unfold znth in Hv.
    unfold zlen in Hsub. specialize (G ltac:(lia) (eq_sym Hv)). lia.
  - rewrite forallb_forall in Ht. pose proof (Ht _ Hv) as H1. apply Nat.eqb_eq in H1.
    destruct (rc_pred block _ Hrc _ Hv) as (p & Hp & Hpv).
    pose proof (rc_inr block _ Hrc) as Hin. rewrite Forall_forall in Hin.
    pose proof (Hin p Hp) as Hpr. unfold inr, zlen in *. unfold znth in *.
    assert (Z.to_nat p = Z.to_nat sub).
    { eapply count_word_unique; [exact H1| | |exact Hpv|reflexivity]; lia. }
    assert (p = sub) by lia. subst. contradiction.
Qed.

Definition ChainL (t : list link) (l : list Z) : Prop :=
  match l with [] => False | h :: _ => Chain t h l end.
Lemma seg_chainL_end t e l : Seg t e l -> lend e = true -> ChainL t l.
Proof. intros HS He. pose proof (seg_chain_end t e l HS He) as H. destruct l; exact H. Qed.
Lemma seg_chainL_app t v suf l :
  Seg t {| lnext := v; lend := false |} l -> Chain t v suf -> ChainL t (l ++ suf).
Proof. intros HS Hc. pose proof (seg_chain_app t v suf l HS Hc) as H. destruct l; [contradiction|exact H]. Qed.

Lemma add_links_outside (P : Z -> Prop) links tbl t :
  add_links links tbl = Ok t -> Forall (fun x => 0 <= x /\ ~ P x) links ->
  forall x, 0 <= x -> P x -> znth dlink t x = znth dlink tbl x.
Proof.
  intros H HF x Hx HP. eapply add_links_other; try eassumption.
  - revert HF. apply Forall_impl. tauto.
  - intros Hi. rewrite Forall_forall in HF. destruct (HF x Hi). contradiction.
Qed.

Notation dirty st x := (znth false (a_dirty st) x).

(** * The chain theorem *)
Section ChainProof.
Context (block c : list Z).
Notation size := (zlen block).
Context (Hb : Forall (fun w => 0 <= w) block)
        (Hnd : NoDup c) (Hrc : RawChain block c)
        (Hclosed : forall sub, inr size sub -> ~ In sub c -> ~ In (znth 0 block sub) c)
        (Hsize : size <= 49152).

Lemma c_inr x : In x c -> inr size x.
Proof. pose proof (rc_inr block c Hrc) as H. rewrite Forall_forall in H. apply H. Qed.

(** a walk outside the chain leaves the chain's flags and links alone *)
Lemma walk_outside : forall fuel st links sub st',
  akai_walk fuel block size st links sub = Ok st' ->
  Forall (fun x => 0 <= x /\ ~ In x c) links -> 0 <= sub ->
  (~ In sub c \/ in_run st links = true) ->
  forall x, In x c ->
    dirty st' x = dirty st x /\ znth dlink (a_links st') x = znth dlink (a_links st) x.
Proof.
  induction fuel as [|fuel IH]; intros st links sub st' H Hl Hsub Hdisj x Hx; [discriminate|].
  pose proof (c_inr x Hx) as Hxr. unfold inr in Hxr.
  cbn [akai_walk] in H.
  destruct (Z.geb_spec sub size) as [Hge|Hlt].
  { destruct (a_prev_dir st && _); [|injection H as <-; auto].
    destruct (add_links links (a_links st)) as [t| |] eqn:EA; cbn [bind] in H; try discriminate.
    injection H as <-. cbn [a_dirty a_links]. split; [reflexivity|].
    eapply (add_links_outside (fun z => In z c)); try eassumption. lia. }
  set (v := znth 0 block sub) in *.
  destruct (negb (is_dir_word v) && a_prev_dir st && negb match links with [] => true | _ => false end) eqn:B1.
  { destruct (add_links links (a_links st)) as [t| |] eqn:EA; cbn [bind] in H; try discriminate.
    injection H as <-. cbn [a_dirty a_links]. split; [reflexivity|].
    eapply (add_links_outside (fun z => In z c)); try eassumption. lia. }
  assert (Hout : ~ In sub c).
  { destruct Hdisj as [Hd|Hd]; [assumption|]. intros Hi.
    destruct (rc_word block c Hrc sub Hi) as [Hw _]. fold v in Hw. rewrite Hw in B1.
    unfold in_run in Hd. cbn [negb andb] in B1. congruence. }
  assert (Hne : x <> sub) by (intros ->; contradiction).
  assert (Hs : Forall (fun x => 0 <= x /\ ~ In x c) (links ++ [sub])).
  { apply Forall_app. split; [assumption|]. constructor; [auto|constructor]. }
  destruct ((v =? SAT_FREE) || ((v <? size) && dirty st v)).
  { destruct (negb _ && negb _ && negb _).
    - destruct (add_links (links ++ [sub]) (a_links st)) as [t| |] eqn:EA; cbn [bind] in H; try discriminate.
      injection H as <-. cbn [a_dirty a_links]. rewrite !znth_upd_other by lia.
      split; [reflexivity|].
      eapply (add_links_outside (fun z => In z c)); try eassumption. lia.
    - injection H as <-. cbn [a_dirty a_links]. rewrite !znth_upd_other by lia. auto. }
  destruct (v =? SAT_EOF).
  { destruct (add_links (links ++ [sub]) (a_links st)) as [t| |] eqn:EA; cbn [bind] in H; try discriminate.
    injection H as <-. cbn [a_dirty a_links]. rewrite !znth_upd_other by lia.
    split; [reflexivity|].
    eapply (add_links_outside (fun z => In z c)); try eassumption. lia. }
  pose proof (znth_nonneg block sub Hb) as Hv0. fold v in Hv0.
  eapply IH with (x := x) in H; try assumption.
  - cbn [a_dirty a_links] in H. rewrite znth_upd_other in H by lia. exact H.
  - destruct (is_dir_word v); lia.
  - destruct (is_dir_word v) eqn:Ed.
    + right. unfold in_run. cbn [a_prev_dir]. destruct links; reflexivity.
    + left. apply Hclosed; [unfold inr; lia|assumption].
Qed.

(** a walk along the chain: from [sub], over the clean sectors [mid], to the EOF word or to
    the first dirty sector of the already decoded suffix [suf] *)
Lemma walk_chain : forall fuel st links sub mid st' pre suf,
  akai_walk fuel block size st links sub = Ok st' ->
  zlen (a_dirty st) = size -> zlen (a_links st) = size ->
  c = pre ++ links ++ sub :: mid ++ suf ->
  Forall (fun x => dirty st x = false) (sub :: mid) ->
  Forall (fun x => dirty st x = true) suf ->
  (suf = [] \/ ChainL (a_links st) suf) ->
  in_run st links = false ->
  (forall x, 0 <= x -> ~ In x (sub :: mid) -> dirty st' x = dirty st x)
  /\ Forall (fun x => dirty st' x = true) (sub :: mid)
  /\ ChainL (a_links st') (links ++ sub :: mid ++ suf).
Proof.
  induction fuel as [|fuel IH]; intros st links sub mid st' pre suf H Hld Hll Hc Hmid Hsuf Hch Hrun;
    [discriminate|].
  assert (Hnd2 : NoDup (links ++ sub :: mid ++ suf)) by (rewrite Hc in Hnd; eapply NoDup_app_r; eassumption).
  assert (Hnd3 : NoDup (sub :: mid ++ suf)) by (eapply NoDup_app_r; eassumption).
  assert (N1 : ~ In sub links).
  { intros Hi. eapply (NoDup_app_disj links); [exact Hnd2|exact Hi|now left]. }
  assert (N2 : forall z, In z (mid ++ suf) -> z <> sub /\ ~ In z links).
  { intros z Hz. split.
    - intros ->. inversion Hnd3; contradiction.
    - intros Hi. eapply (NoDup_app_disj links); [exact Hnd2|exact Hi|now right]. }
  assert (N3 : NoDup (links ++ [sub])).
  { change (sub :: mid ++ suf) with ([sub] ++ mid ++ suf) in Hnd2. rewrite app_assoc in Hnd2.
    eapply NoDup_app_l; eassumption. }
  assert (Hinc : forall z, In z (links ++ sub :: mid ++ suf) -> inr size z).
  { intros z Hz. apply c_inr. rewrite Hc. apply in_or_app. now right. }
  assert (Hsr : inr size sub) by (apply Hinc, in_app_mid).
  assert (Hlr : Forall (fun x => 0 <= x) (links ++ [sub])).
  { apply Forall_forall. intros z Hz. assert (inr size z); [|unfold inr in *; lia].
    apply Hinc. apply in_app_or in Hz as [Hz|[->|[]]]; [apply in_or_app; now left|apply in_app_mid]. }
  assert (Hrcs : RawChain block (sub :: mid ++ suf)).
  { rewrite Hc, app_assoc in Hrc. eapply rc_suffix; [exact Hrc|discriminate]. }
  unfold inr in Hsr.
  cbn [akai_walk] in H.
  destruct (Z.geb_spec sub size) as [Hge|_]; [lia|].
  set (v := znth 0 block sub) in *.
  assert (B1 : negb (is_dir_word v) && a_prev_dir st && negb match links with [] => true | _ => false end = false).
  { unfold in_run in Hrun. destruct (negb (is_dir_word v)); cbn [andb]; [exact Hrun|reflexivity]. }
  rewrite B1 in H. clear B1.
  destruct (mid ++ suf) as [|y r] eqn:Emr.
  - (* the last sector: EOF word *)
    apply app_eq_nil in Emr as [-> ->].
    pose proof (rc_inv_last _ _ Hrcs) as Heof. fold v in Heof.
    assert (B2 : (v =? SAT_FREE) || ((v <? size) && dirty st v) = false).
    { rewrite Heof. unfold SAT_EOF, SAT_FREE. destruct (Z.ltb_spec 49152 size); [lia|reflexivity]. }
    rewrite B2 in H. rewrite Heof, Z.eqb_refl in H.
    destruct (add_links (links ++ [sub]) (a_links st)) as [t| |] eqn:EA; cbn [bind] in H; try discriminate.
    injection H as <-. cbn [a_dirty a_links]. split; [|split].
    + intros x Hx Hn. apply znth_upd_other; [lia|lia|]. intros ->. apply Hn. now left.
    + constructor; [|constructor]. apply znth_upd_same. lia.
    + apply (seg_chainL_end _ dlink); [|reflexivity].
      apply (add_links_seg _ _ _ EA); try assumption. destruct links; discriminate.
  - destruct (rc_inv_step _ _ _ _ Hrcs) as (Hw & Hfree & Hdir & Hneof). fold v in Hw. subst y.
    assert (Hyr : inr size v) by (apply Hinc; apply in_or_app; right; right; now left).
    unfold inr in Hyr.
    destruct (N2 v ltac:(now left)) as [Hvs Hvl].
    destruct mid as [|y' mid'].
    + (* join the decoded suffix *)
      cbn [app] in Emr. subst suf.
      pose proof (Forall_inv Hsuf) as Hdv. cbn beta in Hdv.
      destruct Hch as [Hch|Hch]; [discriminate|]. cbn [ChainL] in Hch.
      assert (B2 : (v =? SAT_FREE) || ((v <? size) && dirty st v) = true).
      { rewrite Hdv. destruct (Z.ltb_spec v size); [|lia]. apply orb_true_r. }
      rewrite B2 in H.
      assert (B3 : negb (v =? SAT_FREE) && negb (v =? sub) && negb (existsb (Z.eqb v) links) = true).
      { rewrite (existsb_eqb_notin v links Hvl).
        destruct (Z.eqb_spec v SAT_FREE); [contradiction|]. destruct (Z.eqb_spec v sub); [contradiction|reflexivity]. }
      rewrite B3 in H.
      destruct (add_links (links ++ [sub]) (a_links st)) as [t| |] eqn:EA; cbn [bind] in H; try discriminate.
      injection H as <-. cbn [a_dirty a_links]. split; [|split].
      * intros x Hx Hn. apply znth_upd_other; [lia|lia|]. intros ->. apply Hn. now left.
      * constructor; [|constructor]. apply znth_upd_same. lia.
      * change (links ++ sub :: v :: r) with (links ++ [sub] ++ v :: r). rewrite app_assoc.
        pose proof (add_links_length _ _ _ EA) as Hlen.
        eapply seg_chainL_app.
        -- apply (seg_upd_last t dlink); [|assumption].
           apply (add_links_seg _ _ _ EA); try assumption. destruct links; discriminate.
        -- eapply chain_ext; [exact Hch|rewrite zlen_upd; unfold zlen; lia|].
           intros z Hz. destruct (N2 z Hz) as [Hzs Hzl].
           assert (inr size z) by (apply Hinc; apply in_or_app; right; now right). unfold inr in *.
           rewrite znth_upd_other by lia.
           eapply add_links_other; try eassumption; [lia|].
           intros Hi. apply in_app_or in Hi as [Hi|[->|[]]]; contradiction.
    + (* step to the next clean sector *)
      cbn [app] in Emr. injection Emr as -> <-.
      pose proof (Forall_inv_tail Hmid) as Hmid'. pose proof (Forall_inv Hmid') as Hdv. cbn beta in Hdv.
      assert (B2 : (v =? SAT_FREE) || ((v <? size) && dirty st v) = false).
      { rewrite Hdv, andb_false_r. destruct (Z.eqb_spec v SAT_FREE); [contradiction|reflexivity]. }
      rewrite B2 in H.
      destruct (Z.eqb_spec v SAT_EOF) as [|_]; [contradiction|].
      rewrite Hdir in H.
      assert (Hup : forall z, In z (v :: mid' ++ suf) -> dirty st z = znth false (upd (a_dirty st) sub true) z).
      { intros z Hz. destruct (N2 z Hz) as [Hzs _].
        assert (inr size z) by (apply Hinc; apply in_or_app; right; now right). unfold inr in *.
        rewrite znth_upd_other by lia. reflexivity. }
      apply IH with (mid := mid') (pre := pre) (suf := suf) in H; cbn [a_dirty a_links].
      * destruct H as (Hun & Hdm & HcL). split; [|split].
        -- intros x Hx Hn. rewrite Hun; [|assumption|intros Hi; apply Hn; now right].
           cbn [a_dirty]. apply znth_upd_other; [lia|lia|]. intros ->. apply Hn. now left.
        -- constructor; [|assumption]. rewrite Hun; [|lia|].
           ++ cbn [a_dirty]. apply znth_upd_same. lia.
           ++ intros Hi. destruct (N2 sub); [|congruence].
              change (v :: mid' ++ suf) with ((v :: mid') ++ suf). apply in_or_app. now left.
        -- rewrite <- app_assoc in HcL. exact HcL.
      * now rewrite zlen_upd.
      * assumption.
      * rewrite <- app_assoc. exact Hc.
      * apply Forall_forall. intros z Hz. rewrite <- Hup.
        -- rewrite Forall_forall in Hmid'. now apply Hmid'.
        -- change (v :: mid' ++ suf) with ((v :: mid') ++ suf). apply in_or_app. now left.
      * apply Forall_forall. intros z Hz. rewrite <- Hup.
        -- rewrite Forall_forall in Hsuf. now apply Hsuf.
        -- change (v :: mid' ++ suf) with ((v :: mid') ++ suf). apply in_or_app. now right.
      * assumption.
      * unfold in_run. cbn [a_prev_dir]. reflexivity.
Qed.

(** outer-loop invariant: the clean chain sectors [pre] are all at or beyond [i]; the dirty
    ones form a suffix [suf] of the chain whose decoded links follow the chain to its end *)
Definition Inv (i : Z) (st : akai_st) : Prop :=
  zlen (a_dirty st) = size /\ zlen (a_links st) = size /\
  exists pre suf, c = pre ++ suf
    /\ Forall (fun x => dirty st x = false /\ i <= x) pre
    /\ Forall (fun x => dirty st x = true) suf
    /\ (suf = [] \/ ChainL (a_links st) suf).

Lemma outer_inv : forall n i st st',
  akai_outer n block size i st = Ok st' -> 0 <= i -> Inv i st -> Inv (i + Z.of_nat n) st'.
Proof.
  induction n as [|n IH]; intros i st st' H Hi HI; cbn [akai_outer] in H.
  { injection H as <-. replace (i + Z.of_nat 0) with i by lia. exact HI. }
  replace (i + Z.of_nat (S n)) with ((i + 1) + Z.of_nat n) by lia.
  destruct HI as (Hld & Hll & pre & suf & Hc & Hpre & Hsuf & Hch).
  destruct (dirty st i) eqn:Ed.
  { apply IH in H; [exact H|lia|]. split; [assumption|]. split; [assumption|].
    exists pre, suf. repeat split; try assumption.
    revert Hpre. apply Forall_impl. intros x [Hx1 Hx2]. split; [assumption|].
    assert (x <> i) by congruence. lia. }
  destruct (akai_walk (akai_walk_fuel size) block size st [] i) as [st1| |] eqn:EW; cbn [bind] in H;
    try discriminate.
  apply IH in H; [exact H|lia|]. clear H IH.
  pose proof (akai_walk_len _ _ _ _ _ _ _ EW) as [L1 L2].
  split; [unfold zlen in *; lia|]. split; [unfold zlen in *; lia|].
  destruct (in_dec Z.eq_dec i c) as [Hic|Hic].
  - (* the walk starts on the chain *)
    assert (Hip : In i pre).
    { rewrite Hc in Hic. apply in_app_or in Hic as [Hic|Hic]; [assumption|].
      rewrite Forall_forall in Hsuf. rewrite (Hsuf i Hic) in Ed. discriminate. }
    apply in_split in Hip as (p1 & p2 & ->).
    rewrite <- app_assoc in Hc. cbn [app] in Hc.
    assert (Hnd' : NoDup (p1 ++ i :: p2 ++ suf)) by (rewrite <- Hc; exact Hnd).
    apply Forall_app in Hpre as [Hp1 Hp2].
    eapply (walk_chain _ st [] i p2 st1 p1 suf) in EW; try assumption.
    + destruct EW as (Hun & Hdm & HcL). cbn [app] in HcL.
      assert (Hc0 : forall x, In x c -> 0 <= x) by (intros x Hx; apply c_inr in Hx; unfold inr in Hx; lia).
      exists p1, (i :: p2 ++ suf). repeat split; try assumption.
      * apply Forall_forall. intros x Hx. rewrite Forall_forall in Hp1. destruct (Hp1 x Hx) as [Hx1 Hx2].
        assert (Hni : ~ In x (i :: p2)).
        { intros Hi'. eapply (NoDup_app_disj p1); [exact Hnd'|exact Hx|].
          change (i :: p2 ++ suf) with ((i :: p2) ++ suf). apply in_or_app. now left. }
        rewrite Hun; [|apply Hc0; rewrite Hc; apply in_or_app; now left|assumption].
        split; [assumption|]. assert (x <> i) by (intros ->; apply Hni; now left). lia.
      * change (i :: p2 ++ suf) with ((i :: p2) ++ suf). apply Forall_app. split; [assumption|].
        apply Forall_forall. intros x Hx. rewrite Hun.
        -- rewrite Forall_forall in Hsuf. now apply Hsuf.
        -- apply Hc0. rewrite Hc. apply in_or_app. right. right. apply in_or_app. now right.
        -- intros Hi'. apply NoDup_app_r in Hnd'.
           change (i :: p2 ++ suf) with ((i :: p2) ++ suf) in Hnd'.
           eapply (NoDup_app_disj (i :: p2)); eassumption.
      * right. exact HcL.
    + revert Hp2. apply Forall_impl. tauto.
    + unfold in_run. apply andb_false_r.
  - (* the walk starts outside the chain *)
    pose proof (walk_outside _ _ _ _ _ EW ltac:(constructor) Hi ltac:(now left)) as Hun.
    exists pre, suf. repeat split; try assumption.
    + apply Forall_forall. intros x Hx. rewrite Forall_forall in Hpre. destruct (Hpre x Hx) as [Hx1 Hx2].
      assert (Hxc : In x c) by (rewrite Hc; apply in_or_app; now left).
      destruct (Hun x Hxc) as [-> _]. split; [assumption|].
      assert (x <> i) by (intros ->; contradiction). lia.
    + apply Forall_forall. intros x Hx. rewrite Forall_forall in Hsuf.
      assert (Hxc : In x c) by (rewrite Hc; apply in_or_app; now right).
      destruct (Hun x Hxc) as [-> _]. now apply Hsuf.
    + destruct Hch as [Hch|Hch]; [now left|right].
      destruct suf as [|h t]; [exact Hch|]. cbn [ChainL] in *.
      eapply chain_ext; [exact Hch|unfold zlen in *; lia|].
      intros y Hy. apply Hun. rewrite Hc. apply in_or_app. now right.
Qed.
End ChainProof.

Lemma NoDup_inr_length size (l : list Z) :
  NoDup l -> Forall (inr (Z.of_nat size)) l -> (length l <= size)%nat.
Proof.
  intros Hnd HF.
  rewrite <- (seq_length size 0), <- (map_length Z.of_nat).
  apply NoDup_incl_length; [assumption|].
  intros x Hx. rewrite Forall_forall in HF. specialize (HF x Hx). unfold inr in HF.
  apply in_map_iff. exists (Z.to_nat x). split; [lia|]. apply in_seq. lia.
Qed.

(** The unbounded chain theorem.  [zlen block <= 49152] keeps the EOF word 0xC000 from being
    an in-range link (the real table has 11386 entries); see [akai_decode_chain_statement_refuted]
    for why it cannot be dropped. *)
Lemma akai_decode_chain_lemma :
  forall block s c,
    Forall (fun w => 0 <= w < 65536) block ->
    zlen block <= 49152 ->
    raw_chain (S (length block)) block [] s = Some c ->
    linked_once block c = true ->
    akai_get_segment block s = Ok c.
Proof.
  intros block s c Hw Hsize Hraw Hlo.
  assert (Hb : Forall (fun w => 0 <= w) block) by (revert Hw; apply Forall_impl; intros; lia).
  apply raw_chain_spec in Hraw as (r & Hc & Hrc & Hnd). cbn [app] in Hc.
  specialize (Hnd ltac:(constructor)). rewrite <- Hc in Hrc.
  pose proof (linked_once_closed block c Hrc Hlo) as Hclosed.
  destruct (akai_decode_ok block Hb) as [t Ht].
  unfold akai_get_segment. rewrite Ht. cbn [bind].
  unfold akai_decode in Ht.
  destruct (akai_outer _ _ _ _ _) as [st| |] eqn:EO; cbn [bind] in Ht; try discriminate.
  injection Ht as <-.
  apply (outer_inv block c Hb Hnd Hrc Hclosed Hsize) in EO; [|lia|].
  - destruct EO as (_ & _ & pre & suf & Hps & Hpre & _ & Hch).
    assert (pre = []) as ->.
    { destruct pre as [|x pre]; [reflexivity|]. exfalso.
      apply Forall_inv in Hpre. cbn beta in Hpre.
      assert (Hx : In x c) by (rewrite Hps; now left).
      apply (c_inr block c Hrc) in Hx. unfold inr, zlen in *. lia. }
    cbn [app] in Hps. subst suf.
    destruct Hch as [Hch|Hch]; [subst c; discriminate|].
    rewrite Hc in Hch. cbn [ChainL] in Hch. rewrite <- Hc in Hch.
    apply get_path_follows_lemma; [exact Hch|].
    pose proof (NoDup_inr_length (length block) c Hnd (rc_inr block c Hrc)). unfold zlen. lia.
  - split; [cbn [a_dirty]; apply repeat_zlen|]. split; [cbn [a_links]; apply repeat_zlen|].
    exists c, []. rewrite app_nil_r. repeat split; auto.
    apply Forall_forall. intros x Hx. cbn [a_dirty]. split; [apply znth_repeat_same|].
    apply (c_inr block c Hrc) in Hx. unfold inr in Hx. lia.
Qed.

(** * Directory runs *)
Fixpoint zseq (a : Z) (n : nat) : list Z :=
  match n with O => [] | S n => a :: zseq (a + 1) n end.
Lemma zseq_length a n : length (zseq a n) = n.
Proof. revert a. induction n as [|n IH]; intros a; cbn; auto. Qed.
Lemma zseq_In n : forall a x, In x (zseq a n) <-> a <= x < a + Z.of_nat n.
Proof.
  induction n as [|n IH]; intros a x; cbn [zseq In]; [lia|].
  rewrite IH. lia.
Qed.
Lemma zseq_snoc n : forall a, zseq a n ++ [a + Z.of_nat n] = zseq a (S n).
Proof.
  induction n as [|n IH]; intros a.
  - cbn. f_equal. lia.
  - change (zseq a (S n)) with (a :: zseq (a + 1) n). cbn [app].
    replace (a + Z.of_nat (S n)) with ((a + 1) + Z.of_nat n) by lia. rewrite IH. reflexivity.
Qed.
Lemma zseq_split k : forall a n, (k < n)%nat ->
  zseq a n = zseq a k ++ (a + Z.of_nat k) :: zseq (a + Z.of_nat k + 1) (n - k - 1).
Proof.
  induction k as [|k IH]; intros a n Hk.
  - destruct n as [|n]; [lia|]. cbn [zseq app]. replace (a + Z.of_nat 0) with a by lia.
    replace (S n - 0 - 1)%nat with n by lia. reflexivity.
  - destruct n as [|n]; [lia|]. cbn [zseq app]. f_equal.
    rewrite (IH (a + 1) n) by lia.
    replace (a + 1 + Z.of_nat k) with (a + Z.of_nat (S k)) by lia.
    replace (S n - S k - 1)%nat with (n - k - 1)%nat by lia. reflexivity.
Qed.

(** the entry [add_links] leaves at a sector that occurs once in the list *)
Lemma add_links_from_at : forall a prev rest tbl t x b,
  add_links_from prev rest tbl = Ok t -> prev :: rest = a ++ x :: b ->
  Forall (fun z => 0 <= z) (prev :: rest) -> ~ In x b ->
  znth dlink t x = match b with [] => dlink | y :: _ => {| lnext := y; lend := false |} end.
Proof.
  induction a as [|p a IH]; intros prev rest tbl t x b H E HF Hb; cbn [app] in E.
  - injection E as -> ->. inversion HF as [|? ? Hx HF']; subst.
    destruct b as [|y b]; cbn [add_links_from] in H.
    + destruct (Z.ltb_spec x (zlen tbl)); [|discriminate]. injection H as <-.
      apply znth_upd_same. lia.
    + destruct (Z.ltb_spec x (zlen tbl)); [|discriminate].
      inversion HF'; subst.
      rewrite (add_links_from_other _ _ _ _ H) by assumption.
      apply znth_upd_same. lia.
  - injection E as -> ->. inversion HF as [|? ? Hp HF']; subst.
    destruct (a ++ x :: b) as [|l rest'] eqn:E'; [destruct a; discriminate|].
    cbn [add_links_from] in H. destruct (p <? zlen tbl); [|discriminate].
    eapply IH; [exact H|symmetry; exact E'|exact HF'|exact Hb].
Qed.
Lemma add_links_at a x b tbl t :
  add_links (a ++ x :: b) tbl = Ok t -> Forall (fun z => 0 <= z) (a ++ x :: b) -> ~ In x b ->
  znth dlink t x = match b with [] => dlink | y :: _ => {| lnext := y; lend := false |} end.
Proof.
  destruct (a ++ x :: b) as [|p rest] eqn:E; [destruct a; discriminate|].
  cbn [add_links]. intros H HF Hb. exact (add_links_from_at a p rest tbl t x b H (eq_sym E) HF Hb).
Qed.

Lemma is_dir_word_ge v : is_dir_word v = true -> 16384 <= v /\ v <> SAT_EOF.
Proof. unfold is_dir_word, SAT_RES_STD, SAT_RES_V2, SAT_EOF. lia. Qed.

Lemma znth_upd_true d j x : 0 <= x -> 0 <= j ->
  znth false d x = true -> znth false (upd d j true) x = true.
Proof.
  intros Hx Hj H. destruct (Z.eq_dec j x) as [->|Hne].
  - apply znth_upd_same. split; [assumption|].
    unfold znth, zlen in *. destruct (Nat.lt_ge_cases (Z.to_nat x) (length d)); [lia|].
    rewrite nth_overflow in H by assumption. discriminate.
  - now rewrite znth_upd_other.
Qed.

Section RunProof.
Context (block : list Z) (s e : Z).
Notation size := (zlen block).
Context (Hb : Forall (fun w => 0 <= w) block) (Hsize : size <= 16384)
        (Hse : 0 <= s < e) (Hes : e <= size)
        (Hdir : forall j, s <= j < e -> is_dir_word (znth 0 block j) = true)
        (Hend : e = size \/ is_dir_word (znth 0 block e) = false)
        (Hstart : s = 0 \/ is_dir_word (znth 0 block (s - 1)) = false).

(** the link a decoded run sector must hold *)
Definition G (t : list link) (j : Z) : Prop :=
  znth dlink t j = if j + 1 <? e then {| lnext := j + 1; lend := false |} else dlink.

(** a walk that entered the run at [m] and stands at [sub] runs to its end and installs it *)
Lemma walk_in_run : forall fuel st l0 m sub st',
  akai_walk fuel block size st (l0 ++ zseq m (Z.to_nat (sub - m))) sub = Ok st' ->
  zlen (a_dirty st) = size ->
  s <= m -> m <= sub <= e -> m < e ->
  (m < sub -> a_prev_dir st = true) ->
  (forall x, 0 <= x -> ~ (sub <= x < e) -> dirty st' x = dirty st x)
  /\ (forall x, sub <= x < e -> dirty st' x = true)
  /\ add_links (l0 ++ zseq m (Z.to_nat (e - m))) (a_links st) = Ok (a_links st').
Proof.
  induction fuel as [|fuel IH]; intros st l0 m sub st' H Hld Hsm Hms Hme Hpd; [discriminate|].
  cbn [akai_walk] in H.
  destruct (Z.eq_dec sub e) as [->|Hne].
  - specialize (Hpd Hme).
    assert (Hnn : negb match l0 ++ zseq m (Z.to_nat (e - m)) with [] => true | _ => false end = true).
    { destruct (Z.to_nat (e - m)) eqn:En; [lia|]. cbn [zseq]. destruct l0; reflexivity. }
    rewrite Hpd, Hnn in H.
    destruct (Z.geb_spec e size) as [Hge|Hlt].
    + cbn [andb] in H.
      destruct (add_links _ (a_links st)) as [t| |] eqn:EA; cbn [bind] in H; try discriminate.
      injection H as <-. cbn [a_dirty a_links]. split; [auto|]. split; [intros; lia|reflexivity].
    + destruct Hend as [->|Hed]; [lia|]. rewrite Hed in H. cbn [negb andb] in H.
      destruct (add_links _ (a_links st)) as [t| |] eqn:EA; cbn [bind] in H; try discriminate.
      injection H as <-. cbn [a_dirty a_links]. split; [auto|]. split; [intros; lia|reflexivity].
  - destruct (Z.geb_spec sub size) as [Hge|_]; [lia|].
    set (v := znth 0 block sub) in *.
    assert (Hd : is_dir_word v = true) by (apply Hdir; lia).
    destruct (is_dir_word_ge v Hd) as [Hv Hveof].
    rewrite Hd in H. cbn [negb andb] in H.
    assert (B2 : (v =? SAT_FREE) || ((v <? size) && dirty st v) = false).
    { unfold SAT_FREE. destruct (Z.eqb_spec v 0); [lia|]. destruct (Z.ltb_spec v size); [lia|reflexivity]. }
    rewrite B2 in H. destruct (Z.eqb_spec v SAT_EOF) as [|_]; [contradiction|].
    assert (E : (l0 ++ zseq m (Z.to_nat (sub - m))) ++ [sub] = l0 ++ zseq m (Z.to_nat (sub + 1 - m))).
    { rewrite <- app_assoc. f_equal.
      replace (Z.to_nat (sub + 1 - m)) with (S (Z.to_nat (sub - m))) by lia.
      rewrite <- zseq_snoc. do 2 f_equal. lia. }
    rewrite E in H. apply IH in H; cbn [a_dirty a_links a_prev_dir]; try lia; try (now rewrite zlen_upd); auto.
    cbn [a_dirty a_links] in H. destruct H as (Hun & Hdd & HA). split; [|split].
    + intros x Hx Hn. rewrite Hun by lia. apply znth_upd_other; lia.
    + intros x Hx. destruct (Z.eq_dec x sub) as [->|Hxs]; [|apply Hdd; lia].
      rewrite Hun by lia. apply znth_upd_same. lia.
    + exact HA.
Qed.

Definition RPost (st : akai_st) (links : list Z) (sub : Z) (st' : akai_st) : Prop :=
  exists m, s <= m <= e /\ (m < e -> dirty st m = false)
    /\ (forall j, s <= j < m ->
          dirty st' j = dirty st j /\ znth dlink (a_links st') j = znth dlink (a_links st) j)
    /\ (forall j, m <= j < e -> dirty st' j = true /\ G (a_links st') j)
    /\ (forall x, 0 <= x -> dirty st x = true -> dirty st' x = true)
    /\ (links = [] -> sub < size -> dirty st' sub = true).

Lemma rpost_terminal st links sub st' :
  (forall j, s <= j < e ->
     dirty st' j = dirty st j /\ znth dlink (a_links st') j = znth dlink (a_links st) j) ->
  (forall x, 0 <= x -> dirty st x = true -> dirty st' x = true) ->
  (links = [] -> sub < size -> dirty st' sub = true) ->
  RPost st links sub st'.
Proof.
  intros H1 H2 H3. exists e. split; [lia|]. split; [intros; lia|]. split; [intros; apply H1; lia|].
  split; [intros; lia|]. split; assumption.
Qed.

Lemma walk_run : forall fuel st links sub st',
  akai_walk fuel block size st links sub = Ok st' ->
  zlen (a_dirty st) = size ->
  Forall (fun x => 0 <= x /\ ~ (s <= x < e)) links -> 0 <= sub ->
  (s <= sub < e -> dirty st sub = false) ->
  RPost st links sub st'.
Proof.
  induction fuel as [|fuel IH]; intros st links sub st' H Hld Hl Hsub Hpre; [discriminate|].
  assert (Hl0 : Forall (fun x => 0 <= x) links) by (revert Hl; apply Forall_impl; tauto).
  assert (Hcase : s <= sub < e \/ ~ (s <= sub < e)) by lia.
  destruct Hcase as [Hin|Hout].
  - (* the walk enters the run here *)
    replace links with (links ++ zseq sub (Z.to_nat (sub - sub))) in H
      by (rewrite Z.sub_diag; cbn [Z.to_nat zseq]; apply app_nil_r).
    apply walk_in_run in H; try lia.
    destruct H as (Hun & Hd & HA).
    assert (HF : Forall (fun z => 0 <= z) (links ++ zseq sub (Z.to_nat (e - sub)))).
    { apply Forall_app. split; [assumption|]. apply Forall_forall. intros z Hz. apply zseq_In in Hz. lia. }
    exists sub. split; [lia|]. split; [intros _; apply Hpre; lia|]. split; [|split; [|split]].
    + intros j Hj. split; [apply Hun; lia|].
      eapply add_links_other; [exact HA|exact HF|lia|].
      intros Hi. apply in_app_or in Hi as [Hi|Hi].
      * rewrite Forall_forall in Hl. destruct (Hl j Hi). lia.
      * apply zseq_In in Hi. lia.
    + intros j Hj. split; [apply Hd; lia|]. unfold G.
      rewrite (zseq_split (Z.to_nat (j - sub)) sub (Z.to_nat (e - sub))) in HA, HF by lia.
      replace (sub + Z.of_nat (Z.to_nat (j - sub))) with j in HA, HF by lia.
      rewrite app_assoc in HA, HF.
      rewrite (add_links_at _ _ _ _ _ HA HF).
      * destruct (Z.ltb_spec (j + 1) e).
        -- destruct (Z.to_nat (e - sub) - Z.to_nat (j - sub) - 1)%nat eqn:En; [lia|reflexivity].
        -- destruct (Z.to_nat (e - sub) - Z.to_nat (j - sub) - 1)%nat eqn:En; [reflexivity|lia].
      * intros Hi. apply zseq_In in Hi. lia.
    + intros x Hx Hdx. assert (Hc : sub <= x < e \/ ~ (sub <= x < e)) by lia.
      destruct Hc; [apply Hd; lia|]. now rewrite Hun.
    + intros _ _. apply Hd. lia.
  - (* outside the run *)
    cbn [akai_walk] in H.
    assert (HO : forall l t, add_links l (a_links st) = Ok t ->
                 Forall (fun x => 0 <= x /\ ~ (s <= x < e)) l ->
                 forall j, s <= j < e -> znth dlink t j = znth dlink (a_links st) j).
    { intros l t EA HF j Hj. eapply (add_links_outside (fun x => s <= x < e)); try eassumption. lia. }
    destruct (Z.geb_spec sub size) as [Hge|Hlt].
    { destruct (a_prev_dir st && _).
      - destruct (add_links links (a_links st)) as [t| |] eqn:EA; cbn [bind] in H; try discriminate.
        injection H as <-. apply rpost_terminal; cbn [a_dirty a_links].
        + intros j Hj. split; [reflexivity|eauto].
        + auto.
        + intros; lia.
      - injection H as <-. apply rpost_terminal; [auto|auto|intros; lia]. }
    set (v := znth 0 block sub) in *.
    destruct (negb (is_dir_word v) && a_prev_dir st && negb match links with [] => true | _ => false end) eqn:B1.
    { destruct (add_links links (a_links st)) as [t| |] eqn:EA; cbn [bind] in H; try discriminate.
      injection H as <-. apply rpost_terminal; cbn [a_dirty a_links].
      + intros j Hj. split; [reflexivity|eauto].
      + auto.
      + intros ->. rewrite andb_false_r in B1. discriminate. }
    assert (Hs : Forall (fun x => 0 <= x /\ ~ (s <= x < e)) (links ++ [sub])).
    { apply Forall_app. split; [assumption|]. constructor; [auto|constructor]. }
    assert (Hsz : 0 <= sub < zlen (a_dirty st)) by (clear - Hsub Hlt Hld; lia).
    assert (Hmark : forall j, s <= j < e -> znth false (upd (a_dirty st) sub true) j = dirty st j).
    { intros j Hj. apply znth_upd_other; clear - Hj Hout Hsub Hse; lia. }
    assert (Hmono : forall x, 0 <= x -> dirty st x = true -> znth false (upd (a_dirty st) sub true) x = true).
    { intros x Hx Hdx. now apply znth_upd_true. }
    assert (Hself : znth false (upd (a_dirty st) sub true) sub = true) by (apply znth_upd_same; exact Hsz).
    assert (Hnostep : is_dir_word v = true -> ~ (s <= sub + 1 < e)).
    { intros Ed Hin. assert (E : sub = s - 1) by (clear - Hin Hout; lia).
      unfold v in Ed. rewrite E in Ed.
      destruct Hstart as [H0|H0]; [clear - H0 Hsub E; lia|congruence]. }
    destruct ((v =? SAT_FREE) || ((v <? size) && dirty st v)) eqn:B2.
    { destruct (negb _ && negb _ && negb _).
      - destruct (add_links (links ++ [sub]) (a_links st)) as [t| |] eqn:EA; cbn [bind] in H; try discriminate.
        injection H as <-. apply rpost_terminal; cbn [a_dirty a_links]; [|exact Hmono|auto].
        intros j Hj. split; [auto|]. rewrite znth_upd_other by (clear - Hj Hout Hsub Hse; lia). eauto.
      - injection H as <-. apply rpost_terminal; cbn [a_dirty a_links]; [|exact Hmono|auto].
        intros j Hj. split; [auto|reflexivity]. }
    assert (Hvd : s <= v < e -> dirty st v = false).
    { intros Hin. apply orb_false_elim in B2 as [_ B2].
      destruct (Z.ltb_spec v size) as [|Hge]; [exact B2|]. clear - Hin Hes Hge. lia. }
    clear B1 B2.
    destruct (v =? SAT_EOF).
    { destruct (add_links (links ++ [sub]) (a_links st)) as [t| |] eqn:EA; cbn [bind] in H; try discriminate.
      injection H as <-. apply rpost_terminal; cbn [a_dirty a_links]; [|exact Hmono|auto].
      intros j Hj. split; [auto|eauto]. }
    pose proof (znth_nonneg block sub Hb) as Hv0. fold v in Hv0.
    apply IH in H; cbn [a_dirty a_links]; try assumption.
    + destruct H as (m & Hm & Hmd & Hlow & Hhigh & Hmn & _). cbn [a_dirty a_links] in *.
      exists m. split; [assumption|]. split; [|split; [|split; [|split]]].
      * intros Hme. rewrite <- Hmark by (clear - Hm Hme; lia). auto.
      * intros j Hj. destruct (Hlow j Hj) as [E1 E2]. rewrite E1, E2.
        split; [apply Hmark; clear - Hj Hm; lia|reflexivity].
      * assumption.
      * intros x Hx Hdx. apply Hmn; auto.
      * intros _ _. apply Hmn; [exact Hsub|assumption].
    + now rewrite zlen_upd.
    + destruct (is_dir_word v); [clear - Hsub; lia|exact Hv0].
    + destruct (is_dir_word v) eqn:Ed.
      * (* a run step cannot land on the first sector of our run *)
        intros Hin. exfalso. exact (Hnostep eq_refl Hin).
      * intros Hin. rewrite Hmark by exact Hin. exact (Hvd Hin).
Qed.

(** outer-loop invariant: the clean run sectors [s,k) are all at or beyond [i]; the dirty
    ones [k,e) hold their final links *)
Definition InvR (i : Z) (st : akai_st) : Prop :=
  zlen (a_dirty st) = size /\ zlen (a_links st) = size /\
  exists k, s <= k <= e
    /\ (forall j, s <= j < k -> dirty st j = false /\ i <= j)
    /\ (forall j, k <= j < e -> dirty st j = true /\ G (a_links st) j).

Lemma outer_inv_run : forall n i st st',
  akai_outer n block size i st = Ok st' -> 0 <= i -> InvR i st -> InvR (i + Z.of_nat n) st'.
Proof.
  induction n as [|n IH]; intros i st st' H Hi HI; cbn [akai_outer] in H.
  { injection H as <-. replace (i + Z.of_nat 0) with i by lia. exact HI. }
  replace (i + Z.of_nat (S n)) with ((i + 1) + Z.of_nat n) by lia.
  destruct HI as (Hld & Hll & k & Hk & Hlow & Hhigh).
  destruct (dirty st i) eqn:Ed.
  { apply IH in H; [exact H|lia|]. split; [assumption|]. split; [assumption|].
    exists k. split; [assumption|]. split; [|assumption].
    intros j Hj. destruct (Hlow j Hj) as [H1 H2]. split; [assumption|].
    assert (j <> i) by congruence. lia. }
  destruct (akai_walk (akai_walk_fuel size) block size st [] i) as [st1| |] eqn:EW; cbn [bind] in H;
    try discriminate.
  apply IH in H; [exact H|lia|]. clear H IH.
  pose proof (akai_walk_len _ _ _ _ _ _ _ EW) as [L1 L2].
  split; [unfold zlen in *; lia|]. split; [unfold zlen in *; lia|].
  apply walk_run in EW; [|assumption|constructor|assumption|auto].
  destruct EW as (m & Hm & Hmd & Hl & Hh & Hmn & Hfirst). specialize (Hfirst eq_refl).
  assert (Hni : forall j, s <= j < e -> i <= j -> dirty st1 j = false -> i + 1 <= j).
  { intros j Hj Hij Hdj. assert (j <> i); [|lia]. intros ->. rewrite Hfirst in Hdj; [discriminate|lia]. }
  destruct (Z.ltb_spec m e) as [Hme|Hme].
  - assert (Hmk : m < k).
    { destruct (Z.ltb_spec m k); [assumption|]. destruct (Hhigh m ltac:(lia)) as [Hd1 _].
      rewrite (Hmd Hme) in Hd1. discriminate. }
    exists m. split; [lia|]. split; [|assumption].
    intros j Hj. destruct (Hl j Hj) as [E1 _]. destruct (Hlow j ltac:(lia)) as [D1 D2].
    assert (dirty st1 j = false) by congruence. split; [assumption|]. apply Hni; [lia|assumption|assumption].
  - assert (m = e) by lia. subst m.
    exists k. split; [assumption|]. split.
    + intros j Hj. destruct (Hl j ltac:(lia)) as [E1 _]. destruct (Hlow j Hj) as [D1 D2].
      assert (dirty st1 j = false) by congruence. split; [assumption|]. apply Hni; [lia|assumption|assumption].
    + intros j Hj. destruct (Hl j ltac:(lia)) as [E1 E2]. destruct (Hhigh j Hj) as [D1 D2].
      split; [congruence|]. unfold G in *. now rewrite E2.
Qed.

Lemma chain_of_G t : e <= zlen t -> forall n a,
  a + Z.of_nat (S n) = e -> s <= a -> (forall j, a <= j < e -> G t j) -> Chain t a (zseq a (S n)).
Proof.
  intros Ht. induction n as [|n IH]; intros a Ha Hsa HG.
  - cbn [zseq]. apply chain_end; [lia|]. rewrite (HG a ltac:(lia)).
    destruct (Z.ltb_spec (a + 1) e); [lia|reflexivity].
  - change (zseq a (S (S n))) with (a :: zseq (a + 1) (S n)).
    assert (Ea : znth dlink t a = {| lnext := a + 1; lend := false |}).
    { rewrite (HG a ltac:(lia)). destruct (Z.ltb_spec (a + 1) e); [reflexivity|lia]. }
    apply chain_step; [lia|now rewrite Ea|]. rewrite Ea. cbn [lnext].
    apply IH; [lia|lia|]. intros j Hj. apply HG. lia.
Qed.

Lemma run_resolves : akai_get_segment block s = Ok (zseq s (Z.to_nat (e - s))).
Proof.
  destruct (akai_decode_ok block Hb) as [t Ht].
  unfold akai_get_segment. rewrite Ht. cbn [bind].
  unfold akai_decode in Ht.
  destruct (akai_outer _ _ _ _ _) as [st| |] eqn:EO; cbn [bind] in Ht; try discriminate.
  injection Ht as <-.
  apply outer_inv_run in EO; [|lia|].
  - destruct EO as (_ & Hll & k & Hk & Hlow & Hhigh).
    assert (k = s).
    { destruct (Z.eq_dec k s); [assumption|]. destruct (Hlow s ltac:(lia)) as [_ Hc]. unfold zlen in *. lia. }
    subst k.
    destruct (Z.to_nat (e - s)) as [|n] eqn:En; [lia|].
    apply get_path_follows_lemma.
    + apply chain_of_G; [lia|lia|lia|]. intros j Hj. apply Hhigh. lia.
    + unfold zlen in *. rewrite zseq_length. lia.
  - split; [cbn [a_dirty]; apply repeat_zlen|]. split; [cbn [a_links]; apply repeat_zlen|].
    exists e. split; [lia|]. split; [|intros; lia].
    intros j Hj. cbn [a_dirty]. split; [apply znth_repeat_same|lia].
Qed.
End RunProof.

Lemma run_from_spec block : forall fuel cur,
  0 <= cur <= zlen block -> zlen block - cur <= Z.of_nat fuel ->
  exists n, run_from fuel block cur = zseq cur n
    /\ cur + Z.of_nat n <= zlen block
    /\ (forall j, cur <= j < cur + Z.of_nat n -> is_dir_word (znth 0 block j) = true)
    /\ (cur + Z.of_nat n = zlen block \/ is_dir_word (znth 0 block (cur + Z.of_nat n)) = false).
Proof.
  induction fuel as [|fuel IH]; intros cur Hc Hf; cbn [run_from].
  - exists O. cbn [zseq]. repeat split; try lia.
  - destruct (Z.ltb_spec cur (zlen block)) as [Hlt|Hge]; cbn [andb].
    + destruct (is_dir_word (znth 0 block cur)) eqn:Ed.
      * destruct (IH (cur + 1) ltac:(lia) ltac:(lia)) as (n & E & Hn & Hd & He).
        exists (S n). cbn [zseq]. rewrite E. split; [reflexivity|]. split; [lia|]. split.
        -- intros j Hj. destruct (Z.eq_dec j cur) as [->|]; [assumption|]. apply Hd. lia.
        -- replace (cur + Z.of_nat (S n)) with (cur + 1 + Z.of_nat n) by lia. exact He.
      * exists O. cbn [zseq]. replace (cur + Z.of_nat 0) with cur by lia.
        split; [reflexivity|]. split; [lia|]. split; [intros; lia|now right].
    + exists O. cbn [zseq]. repeat split; try lia.
Qed.

(** The unbounded directory-run theorem.  [zlen block <= 16384] keeps the reserved flags
    0x4000/0x8000 from being in-range links (the real table has 11386 entries). *)
Lemma akai_decode_dir_run_lemma :
  forall block s,
    Forall (fun w => 0 <= w < 65536) block ->
    zlen block <= 16384 ->
    0 <= s < zlen block ->
    is_dir_word (znth 0 block s) = true ->
    (s = 0 \/ is_dir_word (znth 0 block (s - 1)) = false) ->
    akai_get_segment block s = Ok (run_from (length block) block s).
Proof.
  intros block s Hw Hsize Hs Hd Hstart.
  assert (Hb : Forall (fun w => 0 <= w) block) by (revert Hw; apply Forall_impl; intros; lia).
  destruct (run_from_spec block (length block) s ltac:(lia) ltac:(unfold zlen in *; lia))
    as (n & E & Hn & Hdir & Hend).
  destruct n as [|n].
  { exfalso. replace (s + Z.of_nat 0) with s in Hend by lia. destruct Hend; [lia|congruence]. }
  rewrite E.
  rewrite (run_resolves block s (s + Z.of_nat (S n)) Hb Hsize); try assumption; try lia.
  do 2 f_equal. lia.
Qed.

(** * The size bounds cannot be dropped
    In a table of more than 0xC000 words the EOF word is itself an in-range link (and in one
    of more than 0x4000 words so is the reserved flag): when that sector is already dirty
    the decoder joins it.  The decoder's behaviour over a prefix of free words is computed
    in closed form, so the witnesses need no long evaluation. *)
Section FreePrefix.
Context (n : nat) (rest : list Z).
Notation fblock := (repeat 0 n ++ rest).
Notation N := (length fblock).
Definition fstate (len k : nat) : akai_st :=
  {| a_links := repeat dlink len;
     a_dirty := repeat true k ++ repeat false (len - k);
     a_prev_dir := match k with O => true | S _ => false end |}.

Lemma upd_nat_app_mid {A} (a : list A) b c v k : k = length a -> upd_nat (a ++ b :: c) k v = a ++ v :: c.
Proof. intros ->. induction a as [|h t IH]; cbn; [reflexivity|now rewrite IH]. Qed.
Lemma repeat_shift {A} (a : A) k x : repeat a k ++ a :: x = repeat a (S k) ++ x.
Proof. induction k as [|k IH]; cbn; [reflexivity|]. cbn in IH. now rewrite IH. Qed.

Lemma fblock_len : N = (n + length rest)%nat.
Proof. now rewrite app_length, repeat_length. Qed.

Lemma free_step k f : (k < n)%nat ->
  akai_walk (S f) fblock (zlen fblock) (fstate N k) [] (Z.of_nat k) = Ok (fstate N (S k)).
Proof.
  intros Hk. pose proof fblock_len as HN. cbn [akai_walk].
  destruct (Z.geb_spec (Z.of_nat k) (zlen fblock)) as [Hge|_]; [unfold zlen in Hge; lia|].
  assert (Hv : znth 0 fblock (Z.of_nat k) = 0).
  { unfold znth. rewrite Nat2Z.id, app_nth1 by (rewrite repeat_length; lia). apply nth_repeat. }
  rewrite Hv. change (is_dir_word 0) with false. change (0 =? SAT_FREE) with true.
  rewrite andb_false_r. cbn [orb negb andb].
  unfold fstate. cbn [a_links a_dirty]. do 2 f_equal.
  unfold upd. rewrite Nat2Z.id.
  replace (N - k)%nat with (S (N - S k)) by lia.
  rewrite <- repeat_shift. cbn [repeat].
  apply upd_nat_app_mid. now rewrite repeat_length.
Qed.

Lemma free_dirty k : (k < n)%nat -> znth false (a_dirty (fstate N k)) (Z.of_nat k) = false.
Proof.
  intros Hk. pose proof fblock_len as HN. unfold znth, fstate. cbn [a_dirty].
  rewrite Nat2Z.id, app_nth2 by (rewrite repeat_length; lia).
  rewrite repeat_length. replace (N - k)%nat with (S (N - S k)) by lia.
  replace (k - k)%nat with O by lia. reflexivity.
Qed.

Lemma outer_free_prefix : forall k m, (k <= n)%nat ->
  akai_outer (k + m) fblock (zlen fblock) 0 (fstate N 0)
  = akai_outer m fblock (zlen fblock) (Z.of_nat k) (fstate N k).
Proof.
  induction k as [|k IH]; intros m Hk; [reflexivity|].
  replace (S k + m)%nat with (k + S m)%nat by lia. rewrite IH by lia.
  cbn [akai_outer]. rewrite free_dirty by lia.
  unfold akai_walk_fuel.
  destruct (Z.to_nat (2 * zlen fblock + 3)) as [|f] eqn:Ef; [unfold zlen in Ef; lia|].
  rewrite free_step by lia. cbn [bind]. f_equal. lia.
Qed.

Lemma decode_free_prefix :
  akai_decode fblock =
  (st <- akai_outer (length rest) fblock (zlen fblock) (Z.of_nat n) (fstate N n) ;; Ok (a_links st)).
Proof.
  unfold akai_decode. rewrite <- (outer_free_prefix n (length rest)) by lia.
  rewrite <- fblock_len. unfold fstate. rewrite Nat.sub_0_r. reflexivity.
Qed.
End FreePrefix.

Lemma Forall_repeat {A} (P : A -> Prop) x n : P x -> Forall P (repeat x n).
Proof. intros H. induction n; cbn; constructor; assumption. Qed.

Lemma chain_size_bound_needed_get :
  akai_get_segment (repeat 0 (Z.to_nat 49152) ++ [SAT_EOF; SAT_EOF]) 49153 = Ok [49153; 49152].
Proof.
  unfold akai_get_segment. rewrite decode_free_prefix. vm_compute. reflexivity.
Qed.

Lemma akai_decode_chain_statement_refuted_lemma : ~ akai_decode_chain_statement.
Proof.
  intros H.
  specialize (H (repeat 0 (Z.to_nat 49152) ++ [SAT_EOF; SAT_EOF]) 49153 [49153]).
  rewrite chain_size_bound_needed_get in H.
  assert (E : Ok [49153; 49152] = Ok [49153]); [|discriminate].
  apply H.
  - apply Forall_app. split; [apply Forall_repeat; lia|].
    repeat constructor; unfold SAT_EOF; lia.
  - vm_compute. reflexivity.
  - vm_compute. reflexivity.
Qed.

Lemma akai_dir_run_bound_needed_lemma :
  exists block s,
    Forall (fun w => 0 <= w < 65536) block /\ 0 <= s < zlen block /\
    is_dir_word (znth 0 block s) = true /\
    (s = 0 \/ is_dir_word (znth 0 block (s - 1)) = false) /\
    akai_get_segment block s <> Ok (run_from (length block) block s).
Proof.
  exists (repeat 0 (Z.to_nat 16385) ++ [SAT_RES_STD]), 16385.
  split; [|split; [|split; [|split]]].
  - apply Forall_app. split; [apply Forall_repeat; lia|].
    repeat constructor; unfold SAT_RES_STD; lia.
  - vm_compute. split; [discriminate|reflexivity].
  - vm_compute. reflexivity.
  - right. vm_compute. reflexivity.
  - unfold akai_get_segment. rewrite decode_free_prefix. vm_compute. discriminate.
Qed.
