(** Dispatch table of property C02 (Roland S-7xx): ids 850-899. *)
From SE Require Import Base Fat Stream Roland RolandImage DriverBase.

Definition unpoints (v : val) : rpoints :=
  match unVLZ v with
  | [a; b; c; d; e] => {| p_start := a; p_sus_start := b; p_sus_end := c; p_rel_start := d; p_rel_end := e |}
  | _ => {| p_start := 0; p_sus_start := 0; p_sus_end := 0; p_rel_start := 0; p_rel_end := 0 |}
  end.
Definition vloop (l : rloop) : val := VL [VI (l_start l); VI (l_end l); vbool (l_forever l); vbool (l_alt l)].
Definition vparams (w : rparams) : val :=
  VL [VI (w_off w); VI (w_size w); vbool (w_rev w); VL (map vloop (w_loops w))].
Definition unkind (z : Z) : rkind :=
  if z =? 0 then KVolume else if z =? 1 then KPerformance else if z =? 2 then KPatch
  else if z =? 3 then KPartial else KSample.
Definition untable (v : val) : list (Z * list Z) :=
  map (fun e => (unVI (nth_arg e 0), unVLZ (nth_arg e 1))) (unVL v).
Definition undisk (a : val) : rdisk :=
  {| d_num_perf := unVI (nth_arg a 0); d_volumes := map unVLZ (unVL (nth_arg a 1));
     d_perf_dir := unVLZ (nth_arg a 2); d_perf := untable (nth_arg a 3);
     d_patch := untable (nth_arg a 4); d_partial := untable (nth_arg a 5) |}.

(** a (large, mostly zero) image travels as (len (off (bytes...)) (off (bytes...)) ...) with
    increasing, non-overlapping runs (harness/model.py enc_image); it is NOT expanded: the
    whole-image model reads it through [sparse_image_rd] *)
Definition unruns (v : val) : Z * list (Z * Z * list Z) :=
  match unVL v with
  | VI len :: runs =>
      (len, map (fun r => let bs := unVLZ (nth 1 (unVL r) (VI 0)) in
                          (unVI (nth 0 (unVL r) (VI 0)), zlen bs, bs)) runs)
  | _ => (0, [])
  end.
Definition vstr := vlistZ.

Definition dispatch_c02 (id : Z) (a : val) : option val :=
  match id with
  | 850 (* roland_params *) =>
      Some (vparams (get_params (loop_mode_of_byte (unVI (nth_arg a 0))) (unpoints (nth_arg a 1))))
  | 851 (* roland_sample_read *) =>
      (* mode byte, points, content, block size (<0: readall) *)
      let v := roland_sample_view (loop_mode_of_byte (unVI (nth_arg a 0))) (unpoints (nth_arg a 1)) Base in
      let n := unVI (nth_arg a 3) in
      Some (VL (map vout (fst (run v (unVLZ (nth_arg a 2)) (init_state v 0)
                                   (if n <? 0 then [ORead (-1)] else [ORead n; ORead n; ORead n; ORead (-1)])))))
  | 852 (* roland_offsets *) =>
      let k := unkind (unVI (nth_arg a 0)) in let i := unVI (nth_arg a 1) in
      Some (VL [vbool (index_valid k i); VI (dir_offset k i); VI (par_offset k i)])
  | 853 (* roland_ptr_filter *) => Some (vlistZ (ptr_filter (unVLZ a)))
  | 854 (* roland_listing *) =>
      Some (VL (map (fun vp => VL [VI (fst vp);
                                    VL (map (fun ps => VL [VI (fst ps); vlistZ (snd ps)]) (snd vp))])
                    (roland_listing (undisk a))))
  | 855 (* roland_sample_pcm *) =>
      (* L, doff, fat, image, entry, top, mode byte, points *)
      Some (vres vlistZ (roland_sample_pcm (unVI (nth_arg a 0)) (unVI (nth_arg a 1)) (unVLZ (nth_arg a 2))
                                           (unVLZ (nth_arg a 3)) (unVI (nth_arg a 4)) (unVI (nth_arg a 5))
                                           (loop_mode_of_byte (unVI (nth_arg a 6))) (unpoints (nth_arg a 7))))
  | 856 (* roland_frequency *) => Some (vres VI (frequency_of_code (unVI a)))
  | 857 (* roland_point *) => Some (VL [VI (point_fine (unVI a)); VI (point_address (unVI a))])
  | 858 (* roland_cluster_offset *) => Some (VI (cluster_offset (unVI a)))
  | 859 (* roland_export *) =>
      let '(len, runs) := unruns a in
      if negb (runs_okb runs 0 len) then Some vbad else
      Some (vres (fun l => VL (map vwav l)) (roland_export_gen len (sparse_image_rd len runs)))
  | 860 (* roland_ls *) =>
      let '(len, runs) := unruns a in
      if negb (runs_okb runs 0 len) then Some vbad else
      Some (vres (fun l => VL (map (fun v => VL [VI (fst (fst v)); vstr (snd (fst v));
                   VL (map (fun p => VL [vstr (fst (fst p)); VL (map vstr (snd (fst p))); VL (map vstr (snd p))]) (snd v))]) l))
                 (roland_ls_gen len (sparse_image_rd len runs)))
  | 861 (* sparse_read *) =>
      (* image, list of (off n) *)
      let '(len, runs) := unruns (nth_arg a 0) in
      Some (VL (map (fun q => vlistZ (sparse_image_rd len runs (unVI (nth_arg q 0)) (unVI (nth_arg q 1))))
                    (unVL (nth_arg a 1))))
  | 862 (* raw_fat_check *) => Some (vres VI (raw_fat_check (unVLZ a)))
  | 863 (* raw_get_file *) =>
      Some (vres vlistZ (raw_get_file (unVLZ (nth_arg a 0)) (unVI (nth_arg a 1)) (unVI (nth_arg a 2))))
  | 865 (* raw_get_files *) =>
      let fat := unVLZ (nth_arg a 0) in
      Some (VL (map (fun q => vres vlistZ (raw_get_file fat (unVI (nth_arg q 0)) (unVI (nth_arg q 1))))
                    (unVL (nth_arg a 1))))
  | _ => None
  end.
