(** A well-formed view at the BOTTOM of a tower can be replaced by a plain file holding its
    logical content: the tower above it cannot tell the difference.  Used for the 2352-byte
    sector wrapper (MdfStream), whose size is computed from the length of the file under it and
    therefore differs between the complete and the cut image: the cut wrapped image behaves,
    for everything above the wrapper, as the raw image cut at a sector boundary
    (TruncProofs.mdf_cut_lemma), to which the theorems of TruncProofs.v apply. *)
From SE Require Import Base Stream Transcode FatProofs StreamProofs Trunc TruncProofs.

(** [plug w B]: the tower [w] with the view [B] in place of the base file *)
Fixpoint plug (w B : view) : view :=
  match w with Base => B | V k size sub => V k size (plug sub B) end.

(** what the simulation needs of the upper tower: non-negative addresses, no reversal *)
Fixpoint shape_ok (w : view) : Prop :=
  match w with
  | Base => True
  | V k size sub =>
      0 < size /\ shape_ok sub /\
      match k with
      | KWrap => True
      | KOff off => 0 <= off
      | KSect L m => 0 < L /\ match m with MChain secs => Forall (fun s => 0 <= s) secs | _ => True end
      | KRev _ => False
      end
  end.

Lemma wf_shape_ok : forall w content, wf w content -> shape_ok w.
Proof.
  induction w as [|k size sub IH]; intros content Hwf; [exact I|].
  cbn [wf] in Hwf. destruct Hwf as (Hs & Hk & Hsub). cbn [shape_ok].
  split; [assumption|]. split; [eapply IH; eassumption|].
  destruct k as [|off|L m|w]; cbn [kind_ok] in Hk; try tauto; try lia.
  destruct m as [|secs|]; [tauto| |lia].
  destruct Hk as (HL & _ & HF). split; [assumption|].
  eapply Forall_impl; [|exact HF]. cbv beta. intros; lia.
Qed.

Lemma logical_plug : forall w B X, logical (plug w B) X = logical w (logical B X).
Proof.
  induction w as [|k size sub IH]; intros B X; [reflexivity|]. cbn [plug logical]. now rewrite IH.
Qed.
Lemma wf_plug : forall w B X, wf (plug w B) X <-> wf w (logical B X) /\ wf B X.
Proof.
  induction w as [|k size sub IH]; intros B X; cbn [plug wf]; [tauto|].
  rewrite IH, logical_plug. tauto.
Qed.
Lemma has_sect_plug : forall w B, has_sect w = true -> has_sect (plug w B) = true.
Proof.
  induction w as [|k size sub IH]; intros B H; [discriminate|].
  destruct k; cbn [plug has_sect] in *; auto.
Qed.

(** * The sector read loop over two parents that behave alike *)
Section SectSim.
  Variables St St0 : Type.
  Variable p_seek : St -> Z -> res Z * St.
  Variable p_read : St -> Z -> res (list Z) * St.
  Variable q_seek : St0 -> Z -> res Z * St0.
  Variable q_read : St0 -> Z -> res (list Z) * St0.
  Variable Rp : St -> St0 -> Prop.
  Hypothesis Hs : forall s s0 a, Rp s s0 -> 0 <= a ->
    exists x x0 s' s0', p_seek s a = (Ok x, s') /\ q_seek s0 a = (Ok x0, s0') /\ Rp s' s0'.
  Hypothesis Hr : forall s s0 n, Rp s s0 -> 0 <= n ->
    exists r s' s0', p_read s n = (r, s') /\ q_read s0 n = (r, s0') /\ Rp s' s0'.
  Variable L : Z.
  Variable m : smap.
  Hypothesis HL : 0 < L.
  Hypothesis Hm : match m with MChain secs => Forall (fun s => 0 <= s) secs | _ => True end.

  Lemma sect_addr_nonneg i o a : 0 <= i -> 0 <= o -> sect_addr L m i o = Ok a -> 0 <= a.
  Proof.
    intros Hi Ho. unfold sect_addr. destruct m as [|secs|].
    - intros [= <-]. nia.
    - destruct (_ || _) eqn:E; [discriminate|]. intros [= <-].
      assert (0 <= znth 0 secs i).
      { unfold znth. destruct (nth_in_or_default (Z.to_nat i) secs 0) as [Hin| ->]; [|lia].
        rewrite Forall_forall in Hm. now apply Hm. }
      nia.
    - intros [= <-]. lia.
  Qed.

  Ltac same3 := solve [eexists _, _, _; split; [reflexivity|]; split; [reflexivity|]; assumption].

  Lemma read_sector_sim s s0 i o k : Rp s s0 -> 0 <= i -> 0 <= o -> 0 <= k ->
    exists r s' s0', read_sector St p_seek p_read L m s i o k = (r, s')
                     /\ read_sector St0 q_seek q_read L m s0 i o k = (r, s0') /\ Rp s' s0'.
  Proof.
    intros HR Hi Ho Hk. unfold read_sector. destruct (o + k >? L); [same3|].
    destruct (sect_addr L m i o) as [a|e|] eqn:EA; [|same3|same3].
    pose proof (sect_addr_nonneg i o a Hi Ho EA) as Ha.
    destruct (Hs s s0 a HR Ha) as (x & x0 & s1 & s10 & -> & -> & HR1).
    apply Hr; assumption.
  Qed.

  Lemma sect_middle_sim first : 0 <= first -> forall fuel s s0 i remaining acc,
    Rp s s0 -> 0 <= i ->
    exists r s' s0', sect_middle St p_seek p_read fuel L m s first i remaining acc = (r, s')
                     /\ sect_middle St0 q_seek q_read fuel L m s0 first i remaining acc = (r, s0') /\ Rp s' s0'
                     /\ (forall acc' i' rem', r = Ok (acc', i', rem') -> 0 <= i').
  Proof.
    intros Hf. induction fuel as [|fuel IH]; intros s s0 i rem acc HR Hi; cbn [sect_middle].
    { eexists _, _, _. split; [reflexivity|]. split; [reflexivity|]. split; [assumption|discriminate]. }
    destruct (rem >? L).
    2:{ eexists _, _, _. split; [reflexivity|]. split; [reflexivity|]. split; [assumption|].
        intros ? ? ? [= _ <- _]. assumption. }
    destruct (read_sector_sim s s0 (first + i) 0 L HR ltac:(lia) ltac:(lia) ltac:(lia))
      as (r & s1 & s10 & -> & -> & HR1).
    destruct r as [b|e|].
    - apply IH; [assumption|lia].
    - eexists _, _, _. split; [reflexivity|]. split; [reflexivity|]. split; [assumption|discriminate].
    - eexists _, _, _. split; [reflexivity|]. split; [reflexivity|]. split; [assumption|discriminate].
  Qed.

  Lemma sect_read_sim s s0 pos size : Rp s s0 -> 0 <= pos ->
    exists r s' s0', sect_read St p_seek p_read L m s pos size = (r, s')
                     /\ sect_read St0 q_seek q_read L m s0 pos size = (r, s0') /\ Rp s' s0'.
  Proof.
    intros HR Hp. unfold sect_read. destruct (Z.leb_spec size 0); [same3|].
    pose proof (Z.div_pos pos L Hp HL) as Hd. pose proof (Z.mod_pos_bound pos L HL) as Hmod.
    set (irs := if pos mod L + size <=? L then size else L - pos mod L).
    assert (Hirs : 0 <= irs) by (unfold irs; destruct (Z.leb_spec (pos mod L + size) L); lia).
    destruct (read_sector_sim s s0 (pos / L) (pos mod L) irs HR Hd ltac:(lia) Hirs)
      as (r & s1 & s10 & -> & -> & HR1).
    destruct r as [b0|e|]; [|same3|same3].
    destruct (sect_middle_sim (pos / L) Hd (S (Z.to_nat (size / L))) s1 s10 1 (size - irs) b0 HR1 ltac:(lia))
      as (r2 & s2 & s20 & -> & -> & HR2 & Hi2).
    destruct r2 as [[[acc i] rem]|e|]; [|same3|same3].
    specialize (Hi2 acc i rem eq_refl).
    destruct (Z.gtb_spec rem 0) as [Hrem|Hrem].
    - destruct (read_sector_sim s2 s20 (pos / L + i) 0 rem HR2 ltac:(lia) ltac:(lia) ltac:(lia))
        as (r3 & s3 & s30 & -> & -> & HR3).
      destruct r3 as [bf|e|]; [|same3|same3].
      destruct (zlen (acc ++ bf) =? size); same3.
    - destruct (zlen acc =? size); same3.
  Qed.
End SectSim.

(** * The tower over the view [B] and the tower over a file holding [B]'s content *)
Section Plug.
  Variable kB : kind.
  Variable sizeB : Z.
  Variable subB : view.
  Variable X : list Z.
  Let B := V kB sizeB subB.
  Hypothesis HB : wf B X.
  Let LB := logical B X.

  (** related states: the same positions in the upper tower; at the bottom the view [B] is
      where the plain file's cursor is, clipped at its end *)
  Fixpoint Rst (w : view) (S S0 : vstate) : Prop :=
    match w, S0 with
    | Base, SBase a => good B S /\ 0 <= a /\ v_tell S = Z.min a (zlen LB)
    | V k size sub, SV p0 t0 ss0 =>
        match S with
        | SV p t ss => p = p0 /\ t = t0 /\ 0 <= p /\ Rst sub ss ss0
        | SBase _ => False
        end
    | _, _ => False
    end.

  Lemma LB_len : zlen LB = sizeB.
  Proof. unfold LB, B. apply logical_len. destruct HB. lia. Qed.

  Lemma Rst_tell_V k size sub S S0 : Rst (V k size sub) S S0 -> v_tell S = v_tell S0.
  Proof. destruct S, S0; cbn; tauto. Qed.

  Lemma seek_sim : forall w S S0 off wh,
    shape_ok w -> Rst w S S0 -> (w = Base -> wh = 0 /\ 0 <= off) ->
    exists x x0 S' S0', v_seek (plug w B) S off wh = (Ok x, S') /\ v_seek w S0 off wh = (Ok x0, S0')
                        /\ Rst w S' S0' /\ (w <> Base -> x = x0).
  Proof.
    induction w as [|k size sub IH]; intros S S0 off wh Hsh HR Hbase.
    - destruct (Hbase eq_refl) as [-> Hoff]. destruct S0 as [a|]; [|cbn in HR; tauto].
      cbn [Rst] in HR. destruct HR as (Hg & Ha & Ht).
      destruct (view_filelike B X HB) as [Hs _]. destruct (Hs S off Hg Hoff) as (r & s' & E & G & T).
      cbn [plug]. rewrite E. cbn [v_seek]. unfold base_seek. cbn [Z.eqb]. destruct (Z.ltb_spec off 0); [lia|].
      exists r, off, s', (SBase off). split; [reflexivity|]. split; [reflexivity|].
      split; [|congruence]. cbn [Rst]. fold LB in T. split; [assumption|]. split; [assumption|].
      pose proof LB_len as Hlen.
      assert (0 <= v_tell s' <= sizeB) by (unfold B in G; destruct s'; cbn in G |- *; [tauto|lia]). lia.
    - destruct S0 as [|p0 t0 ss0]; [cbn in HR; tauto|]. destruct S as [|p t ss]; [cbn in HR; tauto|].
      cbn [Rst] in HR. destruct HR as (-> & -> & Hp & HRs).
      cbn [shape_ok] in Hsh. destruct Hsh as (Hsize & Hshs & Hk).
      cbn [plug v_seek]. fold (seek_target size p0 off wh).
      pose proof (seek_target_range size p0 off wh Hsize) as Hnp. set (np := seek_target size p0 off wh) in *.
      assert (Ht : exists ta, translate k size 0 np = Ok ta /\ 0 <= ta).
      { destruct k as [|o|L m|w]; cbn [translate] in *; try tauto; eexists; (split; [reflexivity|lia]). }
      destruct Ht as (ta & -> & Hta).
      destruct (IH ss ss0 ta 0 Hshs HRs ltac:(auto)) as (x & x0 & ss' & ss0' & -> & -> & HR' & _).
      exists np, np, (SV np 0 ss'), (SV np 0 ss0'). cbn [Rst]. repeat split; auto; lia.
  Qed.

  (** "seek the parent if its cursor is elsewhere" on both sides *)
  Lemma fetch_sim sub ss ss0 e : shape_ok sub -> Rst sub ss ss0 -> 0 <= e ->
    exists x x0 ss1 ss10,
      (if e =? v_tell ss then (Ok 0, ss) else v_seek (plug sub B) ss e 0) = (Ok x, ss1)
      /\ (if e =? v_tell ss0 then (Ok 0, ss0) else v_seek sub ss0 e 0) = (Ok x0, ss10)
      /\ Rst sub ss1 ss10.
  Proof.
    intros Hsh HR He. destruct sub as [|k size sub'].
    - destruct ss0 as [a|]; [|cbn in HR; tauto]. pose proof HR as (Hg & Ha & Ht). cbn [v_tell].
      destruct (Z.eqb_spec e (v_tell ss)) as [E1|E1]; destruct (Z.eqb_spec e a) as [E2|E2].
      + eexists _, _, _, _. split; [reflexivity|]. split; [reflexivity|]. assumption.
      + cbn [v_seek]. unfold base_seek. cbn [Z.eqb]. destruct (Z.ltb_spec e 0); [lia|].
        eexists _, _, _, _. split; [reflexivity|]. split; [reflexivity|].
        cbn [Rst]. split; [assumption|]. split; [assumption|]. lia.
      + destruct (seek_sim Base ss (SBase a) e 0 I HR ltac:(auto)) as (x & x0 & s' & s0' & E & E0 & HR' & _).
        rewrite E. subst a. cbn [v_seek] in E0. unfold base_seek in E0. cbn [Z.eqb] in E0.
        destruct (Z.ltb_spec e 0); [lia|]. injection E0 as <- <-.
        eexists _, _, _, _. split; [reflexivity|]. split; [reflexivity|]. assumption.
      + destruct (seek_sim Base ss (SBase a) e 0 I HR ltac:(auto)) as (x & x0 & s' & s0' & E & E0 & HR' & _).
        rewrite E, E0.
        eexists _, _, _, _. split; [reflexivity|]. split; [reflexivity|]. assumption.
    - rewrite (Rst_tell_V _ _ _ _ _ HR). destruct (e =? v_tell ss0).
      + eexists _, _, _, _. split; [reflexivity|]. split; [reflexivity|]. assumption.
      + destruct (seek_sim (V k size sub') ss ss0 e 0 Hsh HR ltac:(discriminate)) as (x & x0 & s' & s0' & E & E0 & HR' & _).
        cbn [plug] in *. rewrite E, E0. eexists _, _, _, _. split; [reflexivity|]. split; [reflexivity|]. assumption.
  Qed.

  Lemma read_sim : forall w S S0 n,
    shape_ok w -> Rst w S S0 -> 0 <= n ->
    exists r S' S0', v_read (plug w B) X S n = (r, S') /\ v_read w LB S0 n = (r, S0') /\ Rst w S' S0'.
  Proof.
    induction w as [|k size sub IH]; intros S S0 n Hsh HR Hn.
    - destruct S0 as [a|]; [|cbn in HR; tauto]. cbn [Rst] in HR. destruct HR as (Hg & Ha & Ht).
      destruct (view_filelike B X HB) as [_ Hr]. destruct (Hr S n Hg Hn) as (s' & E & G & T).
      cbn [plug]. rewrite E. cbn [v_read]. unfold base_read. cbn [v_tell]. fold LB in T |- *.
      pose proof LB_len as Hlen. pose proof (good_tell_nonneg _ _ Hg) as Hp.
      destruct (Z_le_gt_dec a (zlen LB)) as [Hle|Hgt].
      + replace (v_tell S) with a in * by lia.
        eexists _, _, _. split; [reflexivity|]. split; [reflexivity|]. cbn [Rst].
        split; [assumption|]. pose proof (zlen_nonneg (slice LB a (a + n))).
        split; [lia|]. rewrite T. rewrite slice_zlen by lia. lia.
      + replace (v_tell S) with (zlen LB) in * by lia.
        rewrite (slice_past_end LB (zlen LB)) in * by lia. rewrite (slice_past_end LB a) by lia.
        eexists _, _, _. split; [reflexivity|]. split; [reflexivity|]. cbn [Rst].
        assert (Hz : zlen (@nil Z) = 0) by reflexivity. rewrite Hz in *.
        split; [assumption|]. split; [lia|]. lia.
    - destruct S0 as [|pos ts0 ss0]; [cbn in HR; tauto|]. destruct S as [|p t ss]; [cbn in HR; tauto|].
      cbn [Rst] in HR. destruct HR as (-> & -> & Hp & HRs).
      cbn [shape_ok] in Hsh. destruct Hsh as (Hsize & Hshs & Hk).
      cbn [plug v_read].
      set (ts := if (if size >? 0 then Z.min (size - pos) n else n) <? 0 then 0
                 else if size >? 0 then Z.min (size - pos) n else n).
      assert (Hts : 0 <= ts) by (unfold ts; destruct (Z.ltb_spec (if size >? 0 then Z.min (size - pos) n else n) 0); lia).
      assert (He : exists e, translate k size ts pos = Ok e /\ 0 <= e).
      { destruct k as [|o|L m|w]; cbn [translate] in *; try tauto; eexists; (split; [reflexivity|lia]). }
      destruct He as (e & -> & He).
      destruct (fetch_sim sub ss ss0 e Hshs HRs He) as (x & x0 & ss1 & ss10 & -> & -> & HR1).
      assert (Hfin : forall (r : res (list Z)) ss2 ss20, Rst sub ss2 ss20 ->
                exists r' S' S0',
                  match r with
                  | Ok b => (Ok b, SV (pos + ts) ts ss2)
                  | Err e0 => (Err e0, SV pos ts ss2)
                  | OutOfFuel => (OutOfFuel, SV pos ts ss2)
                  end = (r', S') /\
                  match r with
                  | Ok b => (Ok b, SV (pos + ts) ts ss20)
                  | Err e0 => (Err e0, SV pos ts ss20)
                  | OutOfFuel => (OutOfFuel, SV pos ts ss20)
                  end = (r', S0') /\ Rst (V k size sub) S' S0').
      { intros r ss2 ss20 HR2. destruct r; eexists _, _, _; (split; [reflexivity|]); (split; [reflexivity|]);
          cbn [Rst]; repeat split; auto; lia. }
      destruct k as [|o|L m|w].
      + destruct (IH ss1 ss10 ts Hshs HR1 Hts) as (r & ss2 & ss20 & -> & -> & HR2). now apply Hfin.
      + destruct (IH ss1 ss10 ts Hshs HR1 Hts) as (r & ss2 & ss20 & -> & -> & HR2). now apply Hfin.
      + destruct Hk as [HL Hm].
        destruct (sect_read_sim vstate vstate
                    (fun st a => v_seek (plug sub B) st a 0) (fun st m_ => v_read (plug sub B) X st m_)
                    (fun st a => v_seek sub st a 0) (fun st m_ => v_read sub LB st m_)
                    (Rst sub)
                    (fun s s0 a HRa Ha => let '(ex_intro _ x (ex_intro _ x0 (ex_intro _ s' (ex_intro _ s0' (conj E (conj E0 (conj HR' _)))))))
                                             := seek_sim sub s s0 a 0 Hshs HRa ltac:(auto) in
                                         ex_intro _ x (ex_intro _ x0 (ex_intro _ s' (ex_intro _ s0' (conj E (conj E0 HR'))))))
                    (fun s s0 k HRa Hk0 => IH s s0 k Hshs HRa Hk0)
                    L m HL Hm ss1 ss10 pos ts HR1 Hp) as (r & ss2 & ss20 & -> & -> & HR2).
        now apply Hfin.
      + tauto.
  Qed.

  (** the block loop cannot tell the difference either *)
  Lemma drain_sim enc w bs fs : shape_ok w -> 0 <= bs -> forall fuel S S0 acc,
    Rst w S S0 ->
    fst (drain fuel enc (plug w B) X S bs fs acc) = fst (drain fuel enc w LB S0 bs fs acc).
  Proof.
    intros Hsh Hbs. induction fuel as [|fuel IH]; intros S S0 acc HR; [reflexivity|].
    cbn [drain]. destruct (read_sim w S S0 bs Hsh HR Hbs) as (r & S' & S0' & -> & -> & HR').
    destruct r as [b|e|]; [|destruct e; reflexivity|reflexivity].
    destruct (resize_buffer b fs); [reflexivity|]. now apply IH.
  Qed.

  (** every good state of the plugged tower has a related state of the plain one *)
  Fixpoint flat (w : view) (S : vstate) : vstate :=
    match w, S with
    | Base, _ => SBase (v_tell S)
    | V _ _ sub, SV p t ss => SV p t (flat sub ss)
    | V _ _ _, SBase _ => S
    end.
  Lemma Rst_flat : forall w S, good (plug w B) S -> Rst w S (flat w S) /\ good w (flat w S).
  Proof.
    induction w as [|k size sub IH]; intros S Hg.
    - cbn [plug] in Hg. cbn [flat Rst good]. pose proof LB_len as Hlen.
      assert (0 <= v_tell S <= sizeB) by (unfold B in Hg; destruct S; cbn in Hg |- *; [tauto|lia]).
      repeat split; try assumption; lia.
    - destruct S as [|p t ss]; cbn [plug good] in Hg; [tauto|]. destruct Hg as [Hp Hgs].
      destruct (IH ss Hgs) as [HR Hg0]. cbn [flat Rst good]. repeat split; auto; lia.
  Qed.
  Lemma flat_tell k size sub S : good (plug (V k size sub) B) S -> v_tell (flat (V k size sub) S) = v_tell S.
  Proof. destruct S; cbn; tauto. Qed.
End Plug.

(** * A tower over the MdfStream of a cut file *)
(** [w] over the wrapper of the complete file versus the same [w] over the wrapper that is
    built over the cut file (smaller: whole 2352-byte sectors only). *)
Lemma mdf_stack_blocks_prefix_lemma k size sub content c enc bs fs S S' fuel :
  let cut := cut_at c content in
  let M := mdf_view (zlen content) Base in
  let M' := mdf_view (zlen cut) Base in
  let w := V k size sub in
  2352 <= zlen cut -> wf (plug w M) content ->
  good (plug w M) S -> good (plug w M') S' -> v_tell S' = v_tell S ->
  1 <= fs -> 1 <= bs -> (has_sect w = true \/ enc_mono fs enc) ->
  (drain_fuel (plug w M) content S bs <= fuel)%nat ->
  exists D D' T,
    fst (drain fuel enc (plug w M) content S bs fs []) = Ok D
    /\ fst (drain fuel enc (plug w M') cut S' bs fs []) = Ok D'
    /\ D = D' ++ T
    /\ (cov w ((zlen cut / 2352) * 2048) (v_tell S) size = true -> D' = D).
Proof.
  intros cut M M' w Hlen Hwf Hg Hg' Htell Hfs Hbs Hm Hfuel.
  pose proof (mdf_cut_lemma content c Hlen) as (HwfM & HwfM' & HL'). fold cut in HwfM', HL'.
  subst M M'. unfold mdf_view in *.
  apply wf_plug in Hwf. destruct Hwf as [Hwfw _].
  set (M := V (KSect 2048 MMdf) (zlen content / 2352 * 2048) Base) in *.
  set (M' := V (KSect 2048 MMdf) (zlen cut / 2352 * 2048) Base) in *.
  set (L := logical M content) in *. set (c' := zlen cut / 2352 * 2048) in *.
  pose proof (wf_shape_ok w L Hwfw) as Hsh.
  destruct (Rst_flat _ _ _ content HwfM w S Hg) as [HR Hgf].
  destruct (Rst_flat _ _ _ cut HwfM' w S' Hg') as [HR' Hgf'].
  pose proof (flat_tell _ _ _ k size sub S Hg) as Ht.
  pose proof (flat_tell _ _ _ k size sub S' Hg') as Ht'.
  pose proof (drain_sim _ _ _ content HwfM enc w bs fs Hsh ltac:(lia) fuel S _ [] HR) as Es.
  pose proof (drain_sim _ _ _ cut HwfM' enc w bs fs Hsh ltac:(lia) fuel S' _ [] HR') as Es'.
  fold M in Es. fold M' in Es'. fold L in Es. rewrite HL' in Es'. rewrite Es, Es'.
  assert (Hp : v_tell S <= size) by (destruct S; cbn in Hg |- *; [tauto|lia]).
  destruct (drain_sync k size sub L c' enc bs fs Hwfw ltac:(lia) ltac:(lia) Hm fuel _ _ [] Hgf Hgf')
    as (D & D' & T & s1 & s2 & E1 & E2 & HD & HT).
  { unfold w in *. rewrite Ht', Ht. exact Htell. }
  { unfold w in *. rewrite Ht. pose proof (drain_fuel_enough size (v_tell S) bs ltac:(lia) Hp).
    unfold drain_fuel in Hfuel. cbn [plug vsize] in Hfuel. lia. }
  unfold w in *. cbn [app] in E1, E2. rewrite E1, E2.
  exists D, D', T. repeat split; try assumption.
  intros Hc. rewrite Ht in HT. rewrite HD, (HT Hc). now rewrite app_nil_r.
Qed.

(** the general statements: reads and block loops of a tower over a well-formed bottom view
    are those of the tower over a plain file holding the bottom view's content *)
Lemma bottom_view_read_lemma kB sizeB subB X w S n :
  wf (V kB sizeB subB) X -> shape_ok w -> good (plug w (V kB sizeB subB)) S -> 0 <= n ->
  fst (v_read (plug w (V kB sizeB subB)) X S n)
  = fst (v_read w (logical (V kB sizeB subB) X) (flat w S) n)
  /\ good w (flat w S).
Proof.
  intros HB Hsh Hg Hn. destruct (Rst_flat _ _ _ X HB w S Hg) as [HR Hgf].
  destruct (read_sim _ _ _ X HB w S _ n Hsh HR Hn) as (r & S' & S0' & -> & -> & _). auto.
Qed.
Lemma bottom_view_drain_lemma kB sizeB subB X enc w bs fs fuel S acc :
  wf (V kB sizeB subB) X -> shape_ok w -> good (plug w (V kB sizeB subB)) S -> 0 <= bs ->
  fst (drain fuel enc (plug w (V kB sizeB subB)) X S bs fs acc)
  = fst (drain fuel enc w (logical (V kB sizeB subB) X) (flat w S) bs fs acc).
Proof.
  intros HB Hsh Hg Hbs. destruct (Rst_flat _ _ _ X HB w S Hg) as [HR _].
  now apply drain_sim.
Qed.
