(** Specification side of the composed AKAI theorem (C01): a LOGICAL image (partitions x
    volumes - each in a volume-table SLOT of its own, the other slots inactive - x directory
    entries: sample files with their header fields and PCM bytes, and GHOSTS, i.e. directory
    slots that are not sample files), an ALLOCATION (which sectors, in chain order, every
    entry and every volume directory occupies), the validity predicate relating them, a total
    SERIALISER producing the image bytes in the on-disc format (written from the format
    description, following harness/akai_writer.py - it shares nothing with the parser model
    but the constants), and the EXPECTED export.
    No proofs here: the composed theorem is in AkaiCompose.v. *)
From SE Require Import Base Codecs Fat Cue Names Transcode AkaiImage.

(** * Little-endian fields *)
Definition le16 (v : Z) : list Z := [v mod 256; v / 256].
Definition le24 (v : Z) : list Z := [v mod 256; (v / 256) mod 256; v / 65536].
Definition le32 (v : Z) : list Z := le16 (v mod 65536) ++ le16 (v / 65536).
Definition s8_byte (v : Z) : Z := v mod 256.          (* two's complement of -128..127 *)

(** * AKAI character set: digits, blank, A-Z, # + - . *)
Definition akai_valid_char (c : Z) : bool :=
  ((48 <=? c) && (c <=? 57)) || ((65 <=? c) && (c <=? 90)) || mem c [32; 35; 43; 45; 46].
Definition to_akai_char (c : Z) : Z :=
  if (48 <=? c) && (c <=? 57) then c - 48
  else if (65 <=? c) && (c <=? 90) then c - 54
  else if c =? 32 then 10
  else if c =? 35 then 37
  else if c =? 43 then 38
  else if c =? 45 then 39
  else 40.
(** 12 AKAI-coded bytes, right-padded with the AKAI blank *)
Definition akai_pad_name (n : list Z) : list Z := map to_akai_char n ++ zrepeat 10 (12 - zlen n).

(** * The logical image *)
Record lsample := {
  ls_name : list Z;                    (* directory name: character codes *)
  ls_type : Z;                         (* directory type byte: 115 (S1000) | 243 (S3000) *)
  ls_id : Z;                           (* header id: 1 | 3 *)
  ls_note : Z;
  ls_sname : list Z;                   (* the name inside the header *)
  ls_loop_type : Z;
  ls_cents : Z; ls_semi : Z;           (* signed bytes *)
  ls_count : Z; ls_start : Z; ls_end : Z;
  ls_loops : list (Z * Z * Z * Z);     (* 8 x (at, fine, coarse, duration) *)
  ls_rate : Z;
  ls_pcm : list Z }.                   (* 2 * count bytes *)
(** a GHOST: a directory slot that is not a sample file - a deleted entry (type byte 0), an
    entry of a type the tool does not know (0xF8, 0x74, ...), or a drum / QL / effects file
    (100 / 113 / 120), which the tool lists internally but never exports.  Program files
    (112 / 240) are NOT covered: the tool parses their content. *)
Record lghost := {
  lg_raw_name : list Z;                (* the 12 stored name bytes, as they are: any bytes *)
  lg_type : Z;                         (* directory type byte: not 115 | 243 | 112 | 240 *)
  lg_size : Z;                         (* the directory's 3-byte size field: any value *)
  lg_data : list Z }.                  (* the bytes its chain holds (may be empty) *)
Inductive lentry := LSample (f : lsample) | LGhost (g : lghost).
Fixpoint samples_of (es : list lentry) : list lsample :=
  match es with
  | [] => []
  | LSample f :: t => f :: samples_of t
  | LGhost _ :: t => samples_of t
  end.
(** a volume: its directory slots in directory order; [lv_files] are the samples among them *)
Record lvolume := { lv_name : list Z; lv_type : Z; lv_entries : list lentry }.
Definition lv_files (V : lvolume) : list lsample := samples_of (lv_entries V).
(** a partition: [lp_slots] gives, for each volume in order, its slot (0..99) in the volume
    table; every other slot of the table is inactive *)
Record lpartition := { lp_sectors : Z; lp_slots : list Z; lp_vols : list lvolume }.
Definition limage := list lpartition.

(** * The allocation: sectors in chain order *)
(** [av_files]: one sector list per directory ENTRY (sample or ghost), in directory order *)
Record avolume := { av_dir : list Z; av_files : list (list Z) }.
Definition apartition := list avolume.          (* one per volume, in order *)
Definition allocation := list apartition.       (* one per partition, in order *)

(** * File contents *)
Definition loop_bytes (l : Z * Z * Z * Z) : list Z :=
  let '(a, fine, coarse, dur) := l in le32 a ++ le16 fine ++ le32 coarse ++ le16 dur.
Definition sample_header (f : lsample) : list Z :=
  [ls_id f; 0; ls_note f] ++ akai_pad_name (ls_sname f) ++ [0; 0; 0; 0] ++
  [ls_loop_type f; s8_byte (ls_cents f); s8_byte (ls_semi f)] ++ [0; 0; 0; 0] ++
  le32 (ls_count f) ++ le32 (ls_start f) ++ le32 (ls_end f) ++
  concat (map loop_bytes (ls_loops f)) ++ [0; 0; 0; 0] ++ le16 (ls_rate f).
Definition file_body (f : lsample) : list Z := sample_header f ++ ls_pcm f.

(** the four fields of a directory entry, and the bytes its chain holds *)
Definition entry_name_bytes (e : lentry) : list Z :=
  match e with LSample f => akai_pad_name (ls_name f) | LGhost g => lg_raw_name g end.
Definition entry_type (e : lentry) : Z := match e with LSample f => ls_type f | LGhost g => lg_type g end.
Definition entry_size (e : lentry) : Z :=
  match e with LSample f => zlen (file_body f) | LGhost g => lg_size g end.
Definition entry_body (e : lentry) : list Z := match e with LSample f => file_body f | LGhost g => lg_data g end.

(** 24-byte directory entry (an entry without sectors has first sector 0) *)
Definition dir_entry (e : lentry) (secs : list Z) : list Z :=
  entry_name_bytes e ++ [0; 0; 0; 0] ++ [entry_type e] ++ le24 (entry_size e) ++
  le16 (hd 0 secs) ++ [0; 0].
Definition END_ENTRY : list Z := zrepeat 0 8 ++ le16 TABLE_END_FLAG ++ zrepeat 0 14.
Definition dir_table (V : lvolume) (AV : avolume) : list Z :=
  concat (map (fun ea => dir_entry (fst ea) (snd ea)) (combine (lv_entries V) (av_files AV))) ++ END_ENTRY.

(** * Placement: what lies in every sector, and the allocation-table word of every sector *)
Record item := { it_dir : bool; it_secs : list Z; it_data : list Z }.
Definition vol_items (V : lvolume) (AV : avolume) : list item :=
  {| it_dir := true; it_secs := av_dir AV; it_data := dir_table V AV |} ::
  map (fun ea => {| it_dir := false; it_secs := snd ea; it_data := entry_body (fst ea) |})
      (combine (lv_entries V) (av_files AV)).
Definition part_items (P : lpartition) (AP : apartition) : list item :=
  concat (map (fun va => vol_items (fst va) (snd va)) (combine (lp_vols P) AP)).

Fixpoint index_of (s : Z) (l : list Z) : option nat :=
  match l with
  | [] => None
  | x :: t => if x =? s then Some O else option_map S (index_of s t)
  end.
(** the content zero-filled to [n] bytes *)
Definition pad_to (c : list Z) (n : Z) : list Z := c ++ zrepeat 0 (n - zlen c).
(** the [i]-th sector-sized piece of an item's content *)
Definition item_chunk (it : item) (i : nat) : list Z :=
  slice (pad_to (it_data it) (SECTOR * zlen (it_secs it))) (Z.of_nat i * SECTOR) ((Z.of_nat i + 1) * SECTOR).
Fixpoint sector_data (items : list item) (s : Z) : list Z :=
  match items with
  | [] => zrepeat 0 SECTOR
  | it :: t => match index_of s (it_secs it) with
               | Some i => item_chunk it i
               | None => sector_data t s
               end
  end.
(** a file chain links each sector to the next and ends with the EOF mark; a directory run
    is flagged with the reserved mark; everything else is free *)
Fixpoint sat_word (items : list item) (s : Z) : Z :=
  match items with
  | [] => SAT_FREE
  | it :: t => match index_of s (it_secs it) with
               | Some i => if it_dir it then SAT_RES_STD else nth (S i) (it_secs it) SAT_EOF
               | None => sat_word t s
               end
  end.

Fixpoint zfrom (a : Z) (n : nat) : list Z :=
  match n with O => [] | S k => a :: zfrom (a + 1) k end.

(** the three header sectors are flagged reserved (as formatted discs have them) *)
Definition sat_words (items : list item) : list Z :=
  map (fun s => if s <? 3 then SAT_RES_STD else sat_word items s) (zfrom 0 (Z.to_nat SAT_ENTRIES)).

(** * The partition *)
Definition vol_entry_bytes (V : lvolume) (AV : avolume) : list Z :=
  akai_pad_name (lv_name V) ++ le16 (lv_type V) ++ le16 (hd 0 (av_dir AV)).
Definition EMPTY_VOL_ENTRY : list Z := akai_pad_name [] ++ [0; 0; 0; 0].
(** the volume stored in slot [i] of the table, if any *)
Fixpoint slot_lookup {A} (i : Z) (slots : list Z) (vas : list A) : option A :=
  match slots, vas with
  | s :: st, va :: vt => if s =? i then Some va else slot_lookup i st vt
  | _, _ => None
  end.
Definition vol_slot_bytes (P : lpartition) (AP : apartition) (i : Z) : list Z :=
  match slot_lookup i (lp_slots P) (combine (lp_vols P) AP) with
  | Some va => vol_entry_bytes (fst va) (snd va)
  | None => EMPTY_VOL_ENTRY
  end.
(** 100 slots: the volume's entry where a volume sits, an inactive entry (type 0) elsewhere *)
Definition vol_table (P : lpartition) (AP : apartition) : list Z :=
  concat (map (vol_slot_bytes P AP) (zfrom 0 100)).
Definition checksum_bytes (n : Z) : list Z :=
  let x := n / 128 - 1 in [if x mod 2 =? 0 then 85 else 213; (x / 2 + 186) mod 256].
Definition part_header (P : lpartition) (AP : apartition) : list Z :=
  le16 (lp_sectors P) ++ [0; 0] ++ MAGIC ++ checksum_bytes (lp_sectors P) ++ [47; 0] ++
  vol_table P AP ++ concat (map le16 (sat_words (part_items P AP))).
(** header (24574 bytes, zero-filled to 3 sectors), then sectors 3 .. size-1 *)
Definition partition_bytes (P : lpartition) (AP : apartition) : list Z :=
  part_header P AP ++ [0; 0] ++
  concat (map (sector_data (part_items P AP)) (zfrom 3 (Z.to_nat (lp_sectors P - 3)))).

Definition akai_serialise (L : limage) (A : allocation) : list Z :=
  concat (map (fun pa => partition_bytes (fst pa) (snd pa)) (combine L A)).

(** * Validity *)
Definition is_byte (x : Z) : Prop := 0 <= x < 256.
(** a name that reads back as written: valid characters, at most 12, no trailing blank *)
Definition name_ok (n : list Z) : Prop :=
  zlen n <= 12 /\ Forall (fun c => akai_valid_char c = true) n /\ last n 0 <> 32.
Definition loop_ok (l : Z * Z * Z * Z) : Prop :=
  let '(a, fine, coarse, dur) := l in
  0 <= a < 4294967296 /\ 0 <= fine < 65536 /\ 0 <= coarse < 4294967296 /\ 0 <= dur < 65536.
Definition sample_ok (f : lsample) : Prop :=
  name_ok (ls_name f) /\ name_ok (ls_sname f) /\
  (ls_type f = 115 \/ ls_type f = 243) /\ (ls_id f = 1 \/ ls_id f = 3) /\
  is_byte (ls_note f) /\ 0 <= ls_loop_type f <= 4 /\
  -128 <= ls_cents f < 128 /\ -128 <= ls_semi f < 128 /\
  0 <= ls_start f < ls_end f /\ ls_end f <= ls_count f /\
  zlen (ls_pcm f) = 2 * ls_count f /\ Forall is_byte (ls_pcm f) /\
  SAMPLE_HDR + 2 * ls_count f < 16777216 /\       (* the directory's size field has 3 bytes *)
  length (ls_loops f) = 8%nat /\ Forall loop_ok (ls_loops f) /\
  0 <= ls_rate f < 65536.

(** all sectors a partition's items occupy, and those of its directories *)
Definition all_secs (items : list item) : list Z := concat (map it_secs items).
Definition dir_secs (items : list item) : list Z :=
  concat (map it_secs (filter it_dir items)).

Definition file_alloc_ok (f : lsample) (secs : list Z) : Prop :=
  sample_ok f /\ secs <> [] /\ zlen (file_body f) <= SECTOR * zlen secs.
(** a ghost: 12 name BYTES of any value whose bytes 8-9 do not spell the end-of-table mark
    (valid AKAI text never does), a type byte that is neither a sample's nor a program's, any
    3-byte size, any content that fits its sectors (no sector at all is allowed); a drum / QL /
    effects file (types the tool follows the chain of) has at least one sector *)
Definition ghost_ok (g : lghost) : Prop :=
  zlen (lg_raw_name g) = 12 /\ Forall is_byte (lg_raw_name g) /\
  znth 0 (lg_raw_name g) 8 + 256 * znth 0 (lg_raw_name g) 9 <> TABLE_END_FLAG /\
  is_byte (lg_type g) /\ ~ In (lg_type g) [115; 243; 112; 240] /\
  0 <= lg_size g < 16777216 /\ Forall is_byte (lg_data g).
Definition ghost_alloc_ok (g : lghost) (secs : list Z) : Prop :=
  ghost_ok g /\ zlen (lg_data g) <= SECTOR * zlen secs /\
  (In (lg_type g) [100; 113; 120] -> secs <> []).
Definition entry_alloc_ok (e : lentry) (secs : list Z) : Prop :=
  match e with LSample f => file_alloc_ok f secs | LGhost g => ghost_alloc_ok g secs end.
(** the slots of the volumes: strictly increasing, inside 0..99 *)
Fixpoint increasing_from (lo : Z) (l : list Z) : Prop :=
  match l with [] => True | s :: t => lo <= s /\ increasing_from (s + 1) t end.
Definition slots_ok (slots : list Z) : Prop :=
  increasing_from 0 slots /\ Forall (fun s => s < 100) slots.
Definition vol_alloc_ok (items : list item) (V : lvolume) (AV : avolume) : Prop :=
  name_ok (lv_name V) /\ (lv_type V = 1 \/ lv_type V = 3) /\
  length (av_files AV) = length (lv_entries V) /\
  (* the directory is a run of consecutive sectors, long enough for the table, not adjacent
     to another reserved-flag run (or to the header's): they would read as one run *)
  (exists d k, av_dir AV = zfrom d (S k) /\ 4 <= d /\
               24 * (zlen (lv_entries V) + 1) <= SECTOR * Z.of_nat (S k) /\
               ~ In (d - 1) (dir_secs items) /\ ~ In (d + Z.of_nat (S k)) (dir_secs items)) /\
  Forall (fun ea => entry_alloc_ok (fst ea) (snd ea)) (combine (lv_entries V) (av_files AV)).
Definition part_alloc_ok (P : lpartition) (AP : apartition) : Prop :=
  3 <= lp_sectors P <= SAT_ENTRIES /\
  length AP = length (lp_vols P) /\
  length (lp_slots P) = length (lp_vols P) /\ slots_ok (lp_slots P) /\
  NoDup (all_secs (part_items P AP)) /\
  Forall (fun s => 3 <= s < lp_sectors P) (all_secs (part_items P AP)) /\
  Forall (fun va => vol_alloc_ok (part_items P AP) (fst va) (snd va)) (combine (lp_vols P) AP).
Definition image_alloc_ok (L : limage) (A : allocation) : Prop :=
  length A = length L /\ Forall (fun pa => part_alloc_ok (fst pa) (snd pa)) (combine L A).

(** * Plain sibling names: distinct after export-name sanitising, and no left/right pair
    (a name matching the stereo pattern is allowed as long as its partner is absent) *)
Definition stereo_partner (m : stereo) : list Z :=
  st_stem m ++ st_sep m ++ [if st_side m =? 76 then 82 else 76].
Definition plain_names (names : list (list Z)) : Prop :=
  NoDup names /\
  forall n m, In n names -> stereo_match n = Some m -> ~ In (stereo_partner m) names.
Definition volume_plain (V : lvolume) : Prop :=
  plain_names (map (fun f => make_export_name (ls_name f) true) (lv_files V)).
Definition partition_plain (P : lpartition) : Prop :=
  NoDup (map (fun V => make_export_name (lv_name V) false) (lp_vols P)) /\
  Forall volume_plain (lp_vols P).
Definition image_plain (L : limage) : Prop := Forall partition_plain L.

(** * The expected export *)
Definition sample_window (f : lsample) : list Z := slice (ls_pcm f) (2 * ls_start f) (2 * ls_end f).
Definition expected_file (pn vn : list Z) (f : lsample) : wavfile :=
  {| w_path := [pn; vn; make_export_name (ls_name f) true];
     w_rate := if ls_rate f =? 0 then 44100 else ls_rate f;
     w_channels := 1;
     w_pcm := sample_window f |}.
Definition expected_volume (pn : list Z) (V : lvolume) : list wavfile :=
  map (expected_file pn (make_export_name (lv_name V) false)) (lv_files V).
Definition expected_partition (pn : list Z) (P : lpartition) : list wavfile :=
  concat (map (expected_volume pn) (lp_vols P)).
Definition expected (pnames : list (list Z)) (L : limage) : list wavfile :=
  concat (map (fun np => expected_partition (fst np) (snd np)) (combine pnames L)).
(** the partition names: "A:", "B:", ... through the export-name sanitiser *)
Definition partition_export_names (n : nat) : res (list (list Z)) :=
  make_export_names (map (fun i => (partition_name i, false)) (seq 0 n)).
Definition partition_letters (n : nat) : list (list Z) := map (fun i => [65 + Z.of_nat i]) (seq 0 n).

(** * The first version of this specification as a special case: the volumes PACKED into
    slots 0 .. n-1 of the volume table, and sample files only.  [image_alloc_ok_v1] is that
    version's validity predicate (word for word, [lv_files] being all there was in a volume);
    for such images the serialiser above writes what that version's serialiser wrote:
    the volume entries first, then 100-n inactive entries; one directory entry per file. *)
Definition volume_ghost_free (V : lvolume) : Prop := lv_entries V = map LSample (lv_files V).
Definition partition_v1 (P : lpartition) : Prop :=
  lp_slots P = zfrom 0 (length (lp_vols P)) /\ Forall volume_ghost_free (lp_vols P).
Definition image_v1 (L : limage) : Prop := Forall partition_v1 L.
Definition vol_alloc_ok_v1 (items : list item) (V : lvolume) (AV : avolume) : Prop :=
  name_ok (lv_name V) /\ (lv_type V = 1 \/ lv_type V = 3) /\
  length (av_files AV) = length (lv_files V) /\
  (exists d k, av_dir AV = zfrom d (S k) /\ 4 <= d /\
               24 * (zlen (lv_files V) + 1) <= SECTOR * Z.of_nat (S k) /\
               ~ In (d - 1) (dir_secs items) /\ ~ In (d + Z.of_nat (S k)) (dir_secs items)) /\
  Forall (fun fa => file_alloc_ok (fst fa) (snd fa)) (combine (lv_files V) (av_files AV)).
Definition part_alloc_ok_v1 (P : lpartition) (AP : apartition) : Prop :=
  3 <= lp_sectors P <= SAT_ENTRIES /\
  length AP = length (lp_vols P) /\ (length (lp_vols P) <= 100)%nat /\
  NoDup (all_secs (part_items P AP)) /\
  Forall (fun s => 3 <= s < lp_sectors P) (all_secs (part_items P AP)) /\
  Forall (fun va => vol_alloc_ok_v1 (part_items P AP) (fst va) (snd va)) (combine (lp_vols P) AP).
Definition image_alloc_ok_v1 (L : limage) (A : allocation) : Prop :=
  length A = length L /\ Forall (fun pa => part_alloc_ok_v1 (fst pa) (snd pa)) (combine L A).
Definition vol_table_v1 (P : lpartition) (AP : apartition) : list Z :=
  concat (map (fun va => vol_entry_bytes (fst va) (snd va)) (combine (lp_vols P) AP)) ++
  concat (repeat EMPTY_VOL_ENTRY (100 - length (lp_vols P))).
Definition dir_entry_v1 (f : lsample) (secs : list Z) : list Z :=
  akai_pad_name (ls_name f) ++ [0; 0; 0; 0] ++ [ls_type f] ++ le24 (zlen (file_body f)) ++
  le16 (hd 0 secs) ++ [0; 0].
Definition dir_table_v1 (V : lvolume) (AV : avolume) : list Z :=
  concat (map (fun fa => dir_entry_v1 (fst fa) (snd fa)) (combine (lv_files V) (av_files AV))) ++ END_ENTRY.

(** * A small example: one partition of 9 sectors, one volume "VOL 1" (directory in sector 4),
    two files: "KICK" (3 words, window 1..3, stored 0 rate) in sector 6, and "SNARE.1"
    (4100 words, two sectors stored BACKWARDS: 8 then 7). *)
Definition ex_loops : list (Z * Z * Z * Z) := repeat (0, 0, 0, 0) 8.
Definition ex_kick : lsample :=
  {| ls_name := [75; 73; 67; 75]; ls_type := 243; ls_id := 3; ls_note := 60; ls_sname := [75; 73; 67; 75];
     ls_loop_type := 2; ls_cents := -3; ls_semi := 2; ls_count := 3; ls_start := 1; ls_end := 3;
     ls_loops := ex_loops; ls_rate := 0; ls_pcm := [1; 2; 3; 4; 5; 6] |}.
Definition ex_snare : lsample :=
  {| ls_name := [83; 78; 65; 82; 69; 46; 49]; ls_type := 115; ls_id := 1; ls_note := 62; ls_sname := [83; 78];
     ls_loop_type := 2; ls_cents := 0; ls_semi := 0; ls_count := 4100; ls_start := 0; ls_end := 4100;
     ls_loops := ex_loops; ls_rate := 22050;
     ls_pcm := map (fun i => Z.of_nat i mod 251) (seq 0 (Z.to_nat 8200)) |}.
Definition ex_logical : limage :=
  [{| lp_sectors := 9; lp_slots := [0];
      lp_vols := [{| lv_name := [86; 79; 76; 32; 49]; lv_type := 3; lv_entries := [LSample ex_kick; LSample ex_snare] |}] |}].
Definition ex_alloc : allocation := [[{| av_dir := [4]; av_files := [[6]; [8; 7]] |}]].

(** * A second example, with holes in the volume table and ghosts: one partition of 40 sectors,
    three volumes in slots 0, 2 and 99.
    "FIRST" (directory in sector 5): "KICK" in sector 9; a DELETED entry (type 0, garbage name
    bytes, 300 bytes left behind in sector 11); "SNARE.1" stored backwards in sectors 14 then 13.
    "THIRD" (directory in sectors 20-21): a DRUM file (type 100) also named "KICK", 10 bytes in
    sector 30 with a size field of 5000; then the sample "KICK" in sector 25.
    "LAST" (directory in sector 38): an entry of unknown type 0xF8 without any sector. *)
Definition ghost_named (n : list Z) (ty size : Z) (data : list Z) : lghost :=
  {| lg_raw_name := akai_pad_name n; lg_type := ty; lg_size := size; lg_data := data |}.
Definition ex_deleted : lghost :=
  {| lg_raw_name := [200; 255; 0; 41; 10; 10; 99; 7; 71; 214; 1; 2]; lg_type := 0; lg_size := 300;
     lg_data := map (fun i => (7 * Z.of_nat i) mod 256) (seq 0 300) |}.
Definition ex_drum : lghost := ghost_named [75; 73; 67; 75] 100 5000 [1; 2; 3; 4; 5; 6; 7; 8; 9; 10].
Definition ex_unknown : lghost := ghost_named [88] 248 0 [].
Definition ex2_logical : limage :=
  [{| lp_sectors := 40; lp_slots := [0; 2; 99];
      lp_vols := [{| lv_name := [70; 73; 82; 83; 84]; lv_type := 3;
                     lv_entries := [LSample ex_kick; LGhost ex_deleted; LSample ex_snare] |};
                  {| lv_name := [84; 72; 73; 82; 68]; lv_type := 1;
                     lv_entries := [LGhost ex_drum; LSample ex_kick] |};
                  {| lv_name := [76; 65; 83; 84]; lv_type := 3; lv_entries := [LGhost ex_unknown] |}] |}].
Definition ex2_alloc : allocation :=
  [[{| av_dir := [5]; av_files := [[9]; [11]; [14; 13]] |};
    {| av_dir := [20; 21]; av_files := [[30]; [25]] |};
    {| av_dir := [38]; av_files := [[]] |}]].
