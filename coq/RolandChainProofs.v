(** Unbounded theorems for C02 that were open after the first round:
    - the Roland S-7xx FAT decoder ([Fat.roland_decode], model of FatAreaAdapter._decode)
      installs EVERY raw cluster chain of an accepted table, whatever else the table holds
      (chains entered at a cluster that is not their lowest, chains that share a tail with
      other chains, any cluster order): [roland_decode_chain_lemma], and its composition with
      get_file [roland_chain_resolved_lemma];
    - readall() of the exported stream for the two REVERSE loop modes returns the window with
      its 16-bit words in reverse order: [roland_reverse_reads_lemma] (instance of the C08
      theorems about the reversed view);
    - the pseudo volume of orphan performances is present whenever an orphan exists:
      [roland_orphan_volume_present_lemma]. *)
From Coq Require Import Sorting.Sorted.
From SE Require Import Base Fat FatProofs AkaiChainProofs Stream StreamProofs StreamRevProofs
                       Roland RolandProofs.

(** * Tables of flags and links, indexed by Z *)
Lemma nth_upd_nat_true : forall (l : list bool) i j,
  nth j l false = true -> nth j (upd_nat l i true) false = true.
Proof. induction l as [|h t IH]; intros [|i] [|j] H; cbn in *; auto. Qed.
Lemma upd_true_mono d i y : znth false d y = true -> znth false (upd d i true) y = true.
Proof. unfold znth, upd. apply nth_upd_nat_true. Qed.
Lemma upd_true_inv d i y :
  znth false (upd d i true) y = true -> Z.to_nat i = Z.to_nat y \/ znth false d y = true.
Proof.
  unfold znth, upd. intros H. destruct (Nat.eq_dec (Z.to_nat i) (Z.to_nat y)) as [E|N]; [now left|right].
  now rewrite nth_upd_nat_other in H by assumption.
Qed.
Lemma znth_upd_other_pos {A} (d : A) l i j v : 0 < j -> i <> j -> znth d (upd l i v) j = znth d l j.
Proof. unfold znth, upd. intros Hj Hij. apply nth_upd_nat_other. lia. Qed.

(** * Raw chains and what the decoder writes for them *)
Section RawLinks.
Context (fat : list Z).
Notation N := (zlen fat).
Notation word x := (znth 0 fat x).

(** the link the decoder installs for cluster [x]: end of chain when the word is an end
    mark (>= 0xfff8), otherwise a link to the cluster the word names *)
Definition rawlink (x : Z) : link :=
  if word x >=? FAT_END then dlink else {| lnext := word x; lend := false |}.

(** [rpl T l]: consecutive elements of [l] follow the raw words (which are not end marks);
    the last element satisfies [T] *)
Fixpoint rpl (T : Z -> Prop) (l : list Z) : Prop :=
  match l with
  | [] => True
  | a :: l' =>
      match l' with
      | [] => T a
      | b :: _ => word a = b /\ b < FAT_END /\ rpl T l'
      end
  end.
Definition Topen : Z -> Prop := fun _ => True.
Definition Tend : Z -> Prop := fun a => FAT_END <= word a.

Lemma rpl_snoc : forall l a b,
  rpl Topen (l ++ [a]) -> word a = b -> b < FAT_END -> rpl Topen ((l ++ [a]) ++ [b]).
Proof.
  induction l as [|x l IH]; intros a b H Hw Hb.
  - cbn. unfold Topen. auto.
  - cbn [app] in *. destruct (l ++ [a]) as [|y r] eqn:E; [destruct l; discriminate|].
    cbn [app]. cbn [rpl] in H. destruct H as (H1 & H2 & H3).
    change (rpl Topen (x :: y :: r ++ [b])) with (word x = y /\ y < FAT_END /\ rpl Topen ((y :: r) ++ [b])).
    split; [assumption|]. split; [assumption|]. rewrite <- E. apply IH; [rewrite E|..]; assumption.
Qed.
Lemma rpl_close : forall l a, rpl Topen (l ++ [a]) -> FAT_END <= word a -> rpl Tend (l ++ [a]).
Proof.
  induction l as [|x l IH]; intros a H Ha.
  - exact Ha.
  - cbn [app] in *. destruct (l ++ [a]) as [|y r] eqn:E; [destruct l; discriminate|].
    cbn [rpl] in *. destruct H as (H1 & H2 & H3). split; [assumption|]. split; [assumption|].
    change (rpl Tend (y :: r)). rewrite <- E. apply IH; [rewrite E|]; assumption.
Qed.

(** what [add_links] leaves in the table when it is handed a raw path that ends on an end
    mark: the raw link of every cluster on the path, everything else untouched (repetitions
    on the path would be harmless: the value written for a cluster depends on its word only) *)
Lemma add_links_from_raw : forall rest prev tbl t,
  add_links_from prev rest tbl = Ok t -> rpl Tend (prev :: rest) ->
  forall y, 0 < y ->
    (In y (prev :: rest) -> znth dlink t y = rawlink y) /\
    (~ In y (prev :: rest) -> znth dlink t y = znth dlink tbl y).
Proof.
  induction rest as [|l rest IH]; intros prev tbl t H Hp y Hy; cbn [add_links_from] in H.
  - destruct (Z.ltb_spec prev (zlen tbl)) as [Hlt|]; [|discriminate]. injection H as <-.
    cbn [rpl] in Hp. unfold Tend in Hp. split.
    + intros [->|[]]. rewrite znth_upd_same by lia. unfold rawlink.
      destruct (Z.geb_spec (word y) FAT_END); [reflexivity|lia].
    + intros Hn. apply znth_upd_other_pos; [assumption|]. intros ->. apply Hn. now left.
  - destruct (Z.ltb_spec prev (zlen tbl)) as [Hlt|]; [|discriminate].
    cbn [rpl] in Hp. destruct Hp as (Hw & Hl & Hp).
    destruct (IH _ _ _ H Hp y Hy) as [IH1 IH2].
    destruct (in_dec Z.eq_dec y (l :: rest)) as [Hi|Hni].
    + split; [intros _; now apply IH1|]. intros Hn. exfalso. apply Hn. now right.
    + rewrite (IH2 Hni). split.
      * intros [->|Hi]; [|contradiction]. rewrite znth_upd_same by lia. unfold rawlink.
        destruct (Z.geb_spec (word y) FAT_END); [lia|now rewrite Hw].
      * intros Hn. apply znth_upd_other_pos; [assumption|]. intros ->. apply Hn. now left.
Qed.
Lemma add_links_raw links tbl t :
  add_links links tbl = Ok t -> rpl Tend links ->
  forall y, 0 < y ->
    (In y links -> znth dlink t y = rawlink y) /\ (~ In y links -> znth dlink t y = znth dlink tbl y).
Proof.
  destruct links as [|p rest]; cbn [add_links]; intros H Hp y Hy.
  - injection H as <-. split; [intros []|reflexivity].
  - eapply add_links_from_raw; eassumption.
Qed.

(** a raw chain: clusters inside the part of the table the decoder scans, below the flag
    values, each holding the number of the next one, the last holding an end mark *)
Inductive RChain : list Z -> Prop :=
| rchain_last x : 2 <= x < N - 9 -> x < FAT_END -> FAT_END <= word x -> RChain [x]
| rchain_step x y r :
    2 <= x < N - 9 -> x < FAT_END -> word x = y -> RChain (y :: r) -> RChain (x :: y :: r).

Lemma rchain_range c : RChain c -> forall x, In x c -> 2 <= x < N - 9 /\ x < FAT_END.
Proof.
  induction 1 as [x Hx Hf He|x y r Hx Hf Hw Hc IH]; intros z [<-|Hz]; auto; contradiction.
Qed.
(** the word of a chain member is an end mark or the next member *)
Lemma rchain_word c : RChain c -> forall x, In x c ->
  FAT_END <= word x \/ (word x < FAT_END /\ In (word x) c).
Proof.
  induction 1 as [x Hx Hf He|x y r Hx Hf Hw Hc IH]; intros z [<-|Hz].
  - now left.
  - contradiction.
  - right. rewrite Hw. split; [|right; now left].
    apply (rchain_range _ Hc y). now left.
  - destruct (IH z Hz) as [H|[H1 H2]]; [now left|right]. split; [assumption|now right].
Qed.
(** a table that holds the raw link of every member holds the chain *)
Lemma rchain_chain links c :
  RChain c -> zlen links = N -> (forall x, In x c -> znth dlink links x = rawlink x) ->
  Chain links (hd 0 c) c.
Proof.
  intros Hc Hlen. induction Hc as [x Hx Hf He|x y r Hx Hf Hw Hc IH]; intros Hins; cbn [hd].
  - apply chain_end; [lia|]. rewrite Hins by now left. unfold rawlink.
    destruct (Z.geb_spec (word x) FAT_END); [reflexivity|lia].
  - assert (Hy : y < FAT_END) by (apply (rchain_range _ Hc y); now left).
    assert (E : znth dlink links x = {| lnext := y; lend := false |}).
    { rewrite Hins by now left. unfold rawlink.
      destruct (Z.geb_spec (word x) FAT_END); [lia|now rewrite Hw]. }
    apply chain_step; [lia|now rewrite E|]. rewrite E. cbn [lnext].
    apply IH. intros z Hz. apply Hins. now right.
Qed.

(** the chain that starts at a cluster is unique, and every suffix of a chain is a chain:
    hence a chain has no repetition (it could not reach its end mark otherwise) *)
Lemma rchain_unique : forall r r' x, RChain (x :: r) -> RChain (x :: r') -> r = r'.
Proof.
  induction r as [|y r IH]; intros r' x H H'.
  - inversion H as [? _ _ He|]; subst. inversion H' as [|? ? ? _ _ Hw Hc]; subst; [reflexivity|].
    pose proof (rchain_range _ Hc (word x) ltac:(now left)). lia.
  - inversion H as [|? ? ? _ _ Hw Hc]; subst.
    inversion H' as [? _ _ He|? ? ? _ _ Hw' Hc']; subst.
    + pose proof (rchain_range _ Hc (word x) ltac:(now left)). lia.
    + f_equal. eapply IH; eassumption.
Qed.
Lemma rchain_suffix c : RChain c -> forall x, In x c ->
  exists pre suf, c = pre ++ x :: suf /\ RChain (x :: suf).
Proof.
  induction 1 as [x Hx Hf He|x y r Hx Hf Hw Hc IH]; intros z [<-|Hz].
  - exists [], []. split; [reflexivity|now constructor].
  - contradiction.
  - exists [], (y :: r). split; [reflexivity|now constructor].
  - destruct (IH z Hz) as (pre & suf & E & Hs). exists (x :: pre), suf. rewrite E. auto.
Qed.
Lemma rchain_nodup c : RChain c -> NoDup c.
Proof.
  induction 1 as [x Hx Hf He|x y r Hx Hf Hw Hc IH].
  - constructor; [intros []|constructor].
  - constructor; [|assumption]. intros Hi.
    destruct (rchain_suffix _ Hc x Hi) as (pre & suf & E & Hs).
    assert (Hx' : RChain (x :: y :: r)) by now constructor.
    pose proof (rchain_unique _ _ _ Hs Hx') as ->.
    apply (f_equal (@length Z)) in E. rewrite app_length in E. cbn [length] in E. lia.
Qed.
Lemma rchain_length c : RChain c -> zlen c <= N.
Proof.
  intros Hc. pose proof (rchain_nodup c Hc) as Hnd.
  pose proof (NoDup_inr_length (length fat) c Hnd) as H.
  unfold zlen. enough (length c <= length fat)%nat by lia. apply H.
  apply Forall_forall. intros x Hx. pose proof (rchain_range c Hc x Hx). unfold inr, zlen in *. lia.
Qed.

(** * The inner walk *)
Section Walk.
Context (c : list Z) (Hc : RChain c).
Notation Inst links x := (znth dlink links x = rawlink x).
Notation dirty st x := (znth false (r_dirty st) x).

(** state of the walk: [sl] is the raw path walked so far, about to visit [sub]; every member
    of [c] that was visited is installed or is on the pending path; once the path holds a
    member of [c], the walk stays on [c] *)
Definition WPre (st : rol_st) (sl : list Z) (sub : Z) : Prop :=
  zlen (r_links st) = N /\ zlen (r_dirty st) = N /\
  rpl Topen (sl ++ [sub]) /\
  (forall x, In x c -> dirty st x = true -> Inst (r_links st) x \/ In x sl) /\
  (forall x, In x c -> In x sl -> In sub c).
(** after the walk: every visited member of [c] is installed; visited stays visited; the
    cluster the walk was about to visit is visited *)
Definition WPost (st : rol_st) (sub : Z) (st' : rol_st) : Prop :=
  zlen (r_links st') = N /\ zlen (r_dirty st') = N /\
  (forall x, In x c -> dirty st' x = true -> Inst (r_links st') x) /\
  (forall y, dirty st y = true -> dirty st' y = true) /\
  (0 <= sub < N -> dirty st' sub = true).

Lemma walk_inv : forall fuel st sl sub st',
  roland_walk fuel fat N st sl sub = Ok st' -> WPre st sl sub -> WPost st sub st'.
Proof.
  induction fuel as [|fuel IH]; intros st sl sub st' H (Hl & Hd & Hp & Hi & Hon); [discriminate|].
  cbn [roland_walk] in H.
  destruct (Z.geb_spec sub N) as [Hge|Hlt].
  { injection H as <-. split; [assumption|]. split; [assumption|]. split; [|split; [auto|lia]].
    intros x Hx Hdx. destruct (Hi x Hx Hdx) as [?|Hsl]; [assumption|].
    pose proof (rchain_range c Hc sub (Hon x Hx Hsl)). lia. }
  set (st1 := {| r_links := r_links st; r_dirty := upd (r_dirty st) sub true |}) in *.
  assert (Hmono1 : forall y, dirty st y = true -> dirty st1 y = true)
    by (intros y Hy; cbn [st1 r_dirty]; now apply upd_true_mono).
  assert (Hsub1 : 0 <= sub < N -> dirty st1 sub = true)
    by (intros Hs; cbn [st1 r_dirty]; apply znth_upd_same; lia).
  (* a member of c that is dirty after the mark was dirty before or is [sub] *)
  assert (Hd1 : forall x, In x c -> dirty st1 x = true -> x = sub \/ dirty st x = true).
  { intros x Hx Hdx. cbn [st1 r_dirty] in Hdx. apply upd_true_inv in Hdx as [E|?]; [left|now right].
    pose proof (rchain_range c Hc x Hx).
    destruct (Z_lt_ge_dec sub 0) as [Hneg|Hnn]; lia. }
  destruct (Z.eqb_spec (word sub) FAT_ERROR) as [|Hne]; [discriminate|].
  destruct (Z.eqb_spec (word sub) FAT_RESERVED) as [Hres|Hnres];
    [|destruct (Z.eqb_spec (word sub) FAT_FREE) as [Hfree|Hnfree]]; cbn [orb] in H.
  1,2: destruct sl as [|a sl]; [|discriminate]; injection H as <-;
    (split; [assumption|]); (split; [cbn [st1 r_dirty]; now rewrite zlen_upd|]);
    (split; [|split; assumption]);
    intros x Hx Hdx; destruct (Hd1 x Hx Hdx) as [->|Hdx'];
    [ destruct (rchain_word c Hc sub Hx) as [He|[_ Hin]];
      [ unfold FAT_END, FAT_RESERVED, FAT_FREE in *; lia
      | pose proof (rchain_range c Hc _ Hin); unfold FAT_RESERVED, FAT_FREE in *; lia ]
    | destruct (Hi x Hx Hdx') as [?|[]]; assumption ].
  destruct (Z.gtb_spec (zlen (sl ++ [sub])) N) as [|Hlen]; [discriminate|].
  destruct (Z.geb_spec (word sub) FAT_END) as [Hend|Hnend].
  - (* end mark: the path is installed *)
    destruct (add_links (sl ++ [sub]) (r_links st1)) as [t| |] eqn:EA; cbn [bind] in H; try discriminate.
    injection H as <-. cbn [r_links r_dirty].
    pose proof (add_links_length _ _ _ EA) as Hlt'. cbn [st1 r_links] in Hlt'.
    pose proof (add_links_raw _ _ _ EA (rpl_close _ _ Hp Hend)) as Hraw.
    unfold WPost. cbn [r_links r_dirty].
    split; [unfold zlen in *; lia|]. split; [now rewrite zlen_upd|]. split; [|split; assumption].
    intros x Hx Hdx. pose proof (rchain_range c Hc x Hx) as Hr.
    destruct (Hraw x ltac:(lia)) as [R1 R2].
    destruct (in_dec Z.eq_dec x (sl ++ [sub])) as [Hin|Hnin]; [now apply R1|].
    rewrite (R2 Hnin). cbn [st1 r_links].
    destruct (Hd1 x Hx Hdx) as [->|Hdx']; [exfalso; apply Hnin, in_or_app; right; now left|].
    destruct (Hi x Hx Hdx') as [?|Hsl]; [assumption|].
    exfalso. apply Hnin, in_or_app. now left.
  - (* a link: one more step *)
    apply IH in H.
    + destruct H as (P1 & P2 & P3 & P4 & P5). split; [assumption|]. split; [assumption|].
      split; [assumption|]. split; [auto|]. intros Hs. apply P4. now apply Hsub1.
    + split; [assumption|]. split; [cbn [st1 r_dirty]; now rewrite zlen_upd|].
      split; [apply rpl_snoc; [assumption|reflexivity|lia]|]. split.
      * intros x Hx Hdx. destruct (Hd1 x Hx Hdx) as [->|Hdx'].
        -- right. apply in_or_app. right. now left.
        -- destruct (Hi x Hx Hdx') as [?|Hsl]; [now left|right]. apply in_or_app. now left.
      * intros x Hx Hin. assert (Hsc : In sub c).
        { apply in_app_or in Hin as [Hin|[<-|[]]]; [eapply Hon; eassumption|assumption]. }
        destruct (rchain_word c Hc sub Hsc) as [?|[_ ?]]; [lia|assumption].
Qed.

(** * The outer loop *)
Definition OInv (i : Z) (st : rol_st) : Prop :=
  zlen (r_links st) = N /\ zlen (r_dirty st) = N /\
  (forall x, In x c -> dirty st x = true -> Inst (r_links st) x) /\
  (forall x, In x c -> x < i -> dirty st x = true).

Lemma outer_inv : forall n i st st',
  roland_outer n fat N i st = Ok st' -> OInv i st -> OInv (i + Z.of_nat n) st'.
Proof.
  induction n as [|n IH]; intros i st st' H (Hl & Hd & Hi & Hlow); cbn [roland_outer] in H.
  - injection H as <-. replace (i + Z.of_nat 0) with i by lia. repeat split; assumption.
  - replace (i + Z.of_nat (S n)) with ((i + 1) + Z.of_nat n) by lia.
    destruct (znth false (r_dirty st) i) eqn:Ed.
    + apply IH in H; [assumption|]. repeat split; try assumption.
      intros x Hx Hlt. destruct (Z.eq_dec x i) as [->|]; [assumption|apply Hlow; [assumption|lia]].
    + destruct (roland_walk (roland_walk_fuel N) fat N st [] i) as [st1| |] eqn:EW; cbn [bind] in H;
        try discriminate.
      apply walk_inv in EW.
      * destruct EW as (P1 & P2 & P3 & P4 & P5). apply IH in H; [assumption|].
        repeat split; try assumption.
        intros x Hx Hlt. destruct (Z.eq_dec x i) as [->|].
        -- apply P5. pose proof (rchain_range c Hc i Hx). lia.
        -- apply P4, Hlow; [assumption|lia].
      * split; [assumption|]. split; [assumption|]. split; [exact I|]. split.
        -- intros x Hx Hdx. left. now apply Hi.
        -- intros x _ [].
Qed.
End Walk.

(** * The decoder installs every raw chain of an accepted table *)
Lemma roland_decode_rchain ver links c :
  roland_decode fat = Ok (ver, links) -> RChain c ->
  zlen links = N /\ forall x, In x c -> znth dlink links x = rawlink x.
Proof.
  intros H Hc. unfold roland_decode in H.
  destruct (negb _); [discriminate|].
  destruct (roland_version _ _) as [v| |]; cbn [bind] in H; try discriminate.
  destruct (roland_outer _ _ _ _ _) as [st| |] eqn:EO; cbn [bind] in H; try discriminate.
  injection H as <- <-.
  apply (outer_inv c Hc) in EO.
  - destruct EO as (Hl & _ & Hi & Hlow). split; [assumption|].
    intros x Hx. apply Hi; [assumption|]. apply Hlow; [assumption|].
    pose proof (rchain_range c Hc x Hx). lia.
  - split; [cbn [r_links]; apply repeat_zlen|].
    split; [cbn [r_dirty]; rewrite !zlen_upd; apply repeat_zlen|]. split.
    + intros x Hx Hdx. exfalso. pose proof (rchain_range c Hc x Hx). cbn [r_dirty] in Hdx.
      apply upd_true_inv in Hdx as [?|Hdx]; [lia|].
      apply upd_true_inv in Hdx as [?|Hdx]; [lia|].
      rewrite znth_repeat_same in Hdx. discriminate.
    + intros x Hx Hlt. pose proof (rchain_range c Hc x Hx). lia.
Qed.
End RawLinks.

(** the chain of the property statement, by positions *)
Definition raw_roland_chain (fat : list Z) (c : list Z) : Prop :=
  c <> [] /\
  Forall (fun x => 2 <= x < zlen fat - 9 /\ x < FAT_END) c /\
  (forall i, 0 <= i < zlen c - 1 -> znth 0 fat (znth 0 c i) = znth 0 c (i + 1)) /\
  FAT_END <= znth 0 fat (znth 0 c (zlen c - 1)).

Lemma znth_cons_0 {A} (d x : A) l : znth d (x :: l) 0 = x.
Proof. reflexivity. Qed.
Lemma znth_cons_S {A} (d x : A) l i : 0 <= i -> znth d (x :: l) (i + 1) = znth d l i.
Proof. intros H. unfold znth. replace (Z.to_nat (i + 1)) with (S (Z.to_nat i)) by lia. reflexivity. Qed.

Lemma raw_roland_chain_rchain fat c : raw_roland_chain fat c -> RChain fat c.
Proof.
  intros (Hne & HF & Hstep & Hend). induction c as [|x c IH]; [congruence|].
  inversion HF as [|? ? [Hx Hf] HF']; subst.
  destruct c as [|y r].
  - constructor; try assumption.
  - constructor; try assumption.
    + pose proof (zlen_nonneg r).
      exact (Hstep 0 ltac:(rewrite !zlen_cons; lia)).
    + apply IH; [discriminate|assumption| |].
      * intros i Hi. specialize (Hstep (i + 1)). rewrite (zlen_cons x) in Hstep.
        rewrite 2!(znth_cons_S 0 x (y :: r)) in Hstep by lia. apply Hstep. lia.
      * rewrite (zlen_cons x) in Hend. pose proof (zlen_nonneg r). rewrite zlen_cons in *.
        replace (1 + (1 + zlen r) - 1) with ((1 + zlen r - 1) + 1) in Hend by lia.
        rewrite znth_cons_S in Hend by lia. exact Hend.
Qed.

(** Every raw chain of an accepted table is installed in the decoded link table. *)
Lemma roland_decode_chain_lemma : forall fat ver links c,
  roland_decode fat = Ok (ver, links) -> raw_roland_chain fat c -> Chain links (hd 0 c) c.
Proof.
  intros fat ver links c H Hc. apply raw_roland_chain_rchain in Hc.
  destruct (roland_decode_rchain fat ver links c H Hc) as [Hl Hi].
  eapply rchain_chain; eassumption.
Qed.

(** a raw chain has no repeated cluster and is no longer than the table *)
Lemma raw_roland_chain_nodup_lemma : forall fat c,
  raw_roland_chain fat c -> NoDup c /\ zlen c <= zlen fat.
Proof.
  intros fat c Hc. apply raw_roland_chain_rchain in Hc. split;
    [eapply rchain_nodup|eapply rchain_length]; eassumption.
Qed.

(** ... and get_file through the decoded table returns it minus the [cluster_top] leading
    clusters: raw FAT words -> cluster list of the sample file. *)
Lemma roland_chain_resolved_lemma : forall fat ver links c top,
  roland_decode fat = Ok (ver, links) -> raw_roland_chain fat c -> 0 <= top ->
  roland_get_file (zlen fat) links (hd 0 c) top = Ok (skipn (Z.to_nat top) c).
Proof.
  intros fat ver links c top H Hc Ht.
  apply roland_get_file_chain_lemma; [|apply (raw_roland_chain_nodup_lemma fat c Hc)|assumption].
  eapply roland_decode_chain_lemma; eassumption.
Qed.

(** * readall() and block reads of the exported stream in the two reverse loop modes *)
Lemma roland_reverse_wf mode p file content :
  roland_reversed mode = true -> wf file content ->
  0 <= p_start p -> p_start p <= roland_end mode p ->
  2 * (roland_end mode p + 1) <= zlen (logical file content) ->
  let size := 2 * (roland_end mode p - p_start p + 1) in
  let off := V (KOff (2 * p_start p)) size file in
  roland_sample_view mode p file = V (KRev 2) size off /\
  wf_rev 2 size off content /\
  rev_samples 2 (logical off content) = window_bytes mode p (logical file content).
Proof.
  intros Hr Hwf H0 H1 H2 size off.
  unfold roland_sample_view, window_bytes.
  destruct (roland_window_lemma mode p) as (Eo & Es & Er). rewrite Eo, Es, Er, Hr.
  fold size. fold off. split; [reflexivity|].
  assert (Hsz : 0 < size) by (unfold size; lia).
  assert (Hwfo : wf off content).
  { unfold off. cbn [wf kind_ok]. unfold size in *. repeat split; try lia. assumption. }
  split.
  - unfold wf_rev. split; [lia|]. split; [assumption|]. split.
    + unfold size. rewrite Z.mul_comm. apply Z.mod_mul. lia.
    + split; [|assumption]. unfold off. symmetry. apply logical_len. lia.
  - unfold off. rewrite logical_off by (unfold size; lia). f_equal. f_equal. unfold size. lia.
Qed.

(** readall() of the fresh stream: the whole window, 16-bit words in reverse time order *)
Lemma roland_reverse_reads_lemma : forall mode p file content,
  roland_reversed mode = true -> wf file content ->
  0 <= p_start p -> p_start p <= roland_end mode p ->
  2 * (roland_end mode p + 1) <= zlen (logical file content) ->
  read_all (roland_sample_view mode p file) content = Ok (window_bytes mode p (logical file content)).
Proof.
  intros mode p file content Hr Hwf H0 H1 H2.
  destruct (roland_reverse_wf mode p file content Hr Hwf H0 H1 H2) as (Ev & Hrev & Ew).
  rewrite Ev. unfold read_all.
  set (size := 2 * (roland_end mode p - p_start p + 1)) in *.
  set (off := V (KOff (2 * p_start p)) size file) in *.
  destruct (init_good_rev 2 size off content 0 Hrev ltac:(lia)) as [Hg Ha].
  destruct (rev_readall_step_lemma 2 size off content _ (-1) Hrev Hg ltac:(lia) Ha
              (or_introl eq_refl)) as (s' & E & _ & _).
  rewrite E. cbn [fst out_res]. rewrite slice_full, Ew. reflexivity.
Qed.

(** any history of tell / seek(off, _) / read(n >= 0) with off and n whole numbers of 16-bit
    words (what the transcoder issues), from any word-aligned good state: the ordinary
    read-only file over the reversed window *)
Lemma roland_reverse_history_lemma : forall mode p file content ops s,
  roland_reversed mode = true -> wf file content ->
  0 <= p_start p -> p_start p <= roland_end mode p ->
  2 * (roland_end mode p + 1) <= zlen (logical file content) ->
  good (roland_sample_view mode p file) s -> v_tell s mod 2 = 0 -> Forall (op_aligned 2) ops ->
  fst (run (roland_sample_view mode p file) content s ops)
  = ref_run (window_bytes mode p (logical file content)) (v_tell s) ops.
Proof.
  intros mode p file content ops s Hr Hwf H0 H1 H2.
  destruct (roland_reverse_wf mode p file content Hr Hwf H0 H1 H2) as (Ev & Hrev & Ew).
  rewrite Ev, <- Ew. intros Hg Ha Hops.
  now apply reversed_view_aligned_ops_lemma.
Qed.

(** * The pseudo volume of orphan performances is present *)
Lemma ins_sorted x : forall l, StronglySorted Z.lt l -> StronglySorted Z.lt (ins x l).
Proof.
  induction l as [|h t IH]; intros Hs; cbn [ins].
  - repeat constructor.
  - apply StronglySorted_inv in Hs as [Ht Hh].
    destruct (Z.ltb_spec x h) as [Hlt|Hge].
    + constructor; [constructor; assumption|]. constructor; [assumption|].
      revert Hh. apply Forall_impl. intros; lia.
    + destruct (Z.eqb_spec x h) as [->|Hne]; [constructor; assumption|].
      constructor; [now apply IH|]. apply Forall_forall. intros y Hy.
      apply In_ins in Hy as [->|Hy]; [lia|]. rewrite Forall_forall in Hh. now apply Hh.
Qed.
Lemma sort_dedupe_sorted l : StronglySorted Z.lt (sort_dedupe l).
Proof.
  unfold sort_dedupe. induction l as [|h t IH]; cbn [fold_right]; [constructor|now apply ins_sorted].
Qed.
Lemma sorted_lt_nodup l : StronglySorted Z.lt l -> NoDup l.
Proof.
  induction 1 as [|h t Hs IH Hh]; constructor; [|assumption].
  intros Hi. rewrite Forall_forall in Hh. specialize (Hh h Hi). lia.
Qed.
Lemma listed_perfs_nodup d : NoDup (listed_perfs d).
Proof. apply sorted_lt_nodup, sort_dedupe_sorted. Qed.

(** the counting test of VolumeEntriesList._parse (number of distinct listed pointers <
    num_performances) succeeds whenever some directory entry is listed by no volume, provided
    the listed pointers all name directory entries and num_performances is at least the
    number of directory entries *)
Lemma roland_orphan_volume_present_general_lemma : forall d,
  zlen (d_perf_dir d) <= d_num_perf d ->
  (forall p, In p (listed_perfs d) -> In p (d_perf_dir d)) ->
  orphan_perfs d <> [] -> In (ORPHAN_VOLUME, orphan_perfs d) (roland_volumes d).
Proof.
  intros d Hn Hincl Hne. unfold roland_volumes.
  destruct (orphan_perfs d) as [|p t] eqn:Eo; [congruence|]. clear Hne.
  assert (Hp : In p (orphan_perfs d)) by (rewrite Eo; now left).
  unfold orphan_perfs in Hp. apply filter_In in Hp as [Hdir Hnl].
  apply negb_true_iff in Hnl.
  assert (Hnin : ~ In p (listed_perfs d)) by (intros Hi; apply memZ_In in Hi; congruence).
  assert (Hlen : (length (p :: listed_perfs d) <= length (d_perf_dir d))%nat).
  { apply NoDup_incl_length; [constructor; [assumption|apply listed_perfs_nodup]|].
    intros y [<-|Hy]; [assumption|now apply Hincl]. }
  cbn [length] in Hlen.
  destruct (Z.ltb_spec (zlen (listed_perfs d)) (d_num_perf d)) as [_|Hge];
    [|unfold zlen in *; lia].
  apply in_or_app. right. now left.
Qed.
Lemma roland_orphan_volume_present_lemma : forall d,
  NoDup (d_perf_dir d) -> d_num_perf d = zlen (d_perf_dir d) ->
  (forall p, In p (listed_perfs d) -> In p (d_perf_dir d)) ->
  orphan_perfs d <> [] -> In (ORPHAN_VOLUME, orphan_perfs d) (roland_volumes d).
Proof.
  intros d _ Hn. apply roland_orphan_volume_present_general_lemma. lia.
Qed.
(** conversely (at most 128 real volumes) the pseudo volume number 128 appears only through
    that test, and then lists exactly the orphans *)
Lemma roland_orphan_volume_only_lemma : forall d ps,
  zlen (d_volumes d) <= ORPHAN_VOLUME ->
  In (ORPHAN_VOLUME, ps) (roland_volumes d) ->
  ps = orphan_perfs d /\ zlen (listed_perfs d) < d_num_perf d.
Proof.
  intros d ps Hv. unfold roland_volumes.
  assert (Hnum : forall (l : list (list Z)) i x, In x (number_from i l) -> i <= fst x < i + zlen l).
  { induction l as [|h t IH]; intros i x; cbn [number_from]; [intros []|].
    rewrite zlen_cons. pose proof (zlen_nonneg t). intros [<-|Hx]; [cbn [fst]; lia|].
    apply IH in Hx. lia. }
  assert (Hvols : ~ In (ORPHAN_VOLUME, ps)
                    (map (fun iv => (fst iv, children_of KPerformance (snd iv))) (number_from 0 (d_volumes d)))).
  { intros Hi. apply in_map_iff in Hi as (iv & E & Hi). injection E as E _.
    apply Hnum in Hi. unfold ORPHAN_VOLUME in *. lia. }
  destruct (Z.ltb_spec (zlen (listed_perfs d)) (d_num_perf d)) as [Hlt|Hge]; [|contradiction].
  intros Hi. apply in_app_or in Hi as [Hi|[E|[]]]; [contradiction|].
  injection E as <-. auto.
Qed.

(** * readall() of the exported stream, every loop mode; raw FAT words + image -> PCM bytes *)
Lemma roland_readall_lemma : forall mode p file content,
  wf file content ->
  0 <= p_start p -> p_start p <= roland_end mode p ->
  2 * (roland_end mode p + 1) <= zlen (logical file content) ->
  read_all (roland_sample_view mode p file) content = Ok (window_bytes mode p (logical file content)).
Proof.
  intros mode p file content Hwf H0 H1 H2.
  destruct (roland_reversed mode) eqn:Hr; [now apply roland_reverse_reads_lemma|].
  rewrite <- roland_sample_bytes_lemma by lia.
  unfold roland_sample_view, read_all.
  destruct (roland_window_lemma mode p) as (Eo & Es & Er). rewrite Er, Hr, Eo, Es.
  set (size := 2 * (roland_end mode p - p_start p + 1)).
  assert (Hwfv : wf (V (KOff (2 * p_start p)) size file) content).
  { cbn [wf kind_ok]. unfold size. repeat split; try lia. assumption. }
  set (v := V (KOff (2 * p_start p)) size file) in *.
  pose proof (init_good v content 0 Hwfv ltac:(lia)) as Hg.
  destruct (readall_step_lemma (KOff (2 * p_start p)) size file content (init_state v 0) (-1)
              Hwfv Hg ltac:(lia)) as (s' & E & _ & _).
  fold v in E. rewrite E. cbn [fst out_res]. f_equal.
  replace (v_tell (init_state v 0)) with 0 by reflexivity. apply slice_full.
Qed.

(** The exported PCM bytes of one sample from the raw image: for every accepted FAT, every raw
    chain [c] (any cluster order, shared tails, entered anywhere), every [cluster_top] inside
    the chain, every loop mode and window inside the remaining clusters, readall() of the
    stream SampleFile.to_generalized builds returns the window of the file made of the
    clusters [c] minus the first [cluster_top], in chain order (words reversed for modes 5, 6). *)
Lemma roland_sample_pcm_lemma : forall L doff fat image ver links c top mode p,
  roland_decode fat = Ok (ver, links) -> raw_roland_chain fat c ->
  0 < L -> 0 <= doff < zlen image -> 0 <= top < zlen c ->
  Forall (fun x => (x + 1) * L <= zlen image - doff) c ->
  0 <= p_start p -> p_start p <= roland_end mode p ->
  2 * (roland_end mode p + 1) <= L * (zlen c - top) ->
  let file := roland_file_view L doff (zlen image) (skipn (Z.to_nat top) c) in
  roland_sample_pcm L doff fat image (hd 0 c) top mode p
  = Ok (window_bytes mode p (logical file image)).
Proof.
  intros L doff fat image ver links c top mode p Hdec Hc HL Hd Ht Hwin H0 H1 H2 file.
  unfold roland_sample_pcm, roland_sample_stream. rewrite Hdec. cbn [bind snd].
  rewrite (roland_chain_resolved_lemma fat ver links c top Hdec Hc) by lia. cbn [bind].
  fold file.
  set (secs := skipn (Z.to_nat top) c) in *.
  assert (Hlen : zlen secs = zlen c - top).
  { unfold secs, zlen in *. rewrite skipn_length. lia. }
  assert (Hwf : wf file image).
  { apply roland_file_wf_lemma; try lia.
    - intros E. rewrite E in Hlen. change (zlen (@nil Z)) with 0 in Hlen. lia.
    - apply Forall_forall. intros x Hx.
      assert (Hxc : In x c) by (unfold secs in Hx; rewrite <- (firstn_skipn (Z.to_nat top) c); apply in_or_app; now right).
      destruct Hc as (_ & HF & _). rewrite Forall_forall in HF, Hwin.
      pose proof (HF x Hxc). pose proof (Hwin x Hxc). lia. }
  apply roland_readall_lemma; try assumption.
  unfold file, roland_file_view, chain_view. rewrite logical_len by nia. rewrite Hlen. lia.
Qed.

Lemma raw_roland_chain_unfold_lemma : forall fat c,
  raw_roland_chain fat c <->
  c <> [] /\
  Forall (fun x => 2 <= x < zlen fat - 9 /\ x < FAT_END) c /\
  (forall i, 0 <= i < zlen c - 1 -> znth 0 fat (znth 0 c i) = znth 0 c (i + 1)) /\
  FAT_END <= znth 0 fat (znth 0 c (zlen c - 1)).
Proof. intros. reflexivity. Qed.
