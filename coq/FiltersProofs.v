(** Lemmas about the filter model (Filters.v): circular buffer = sliding window, IIR and FIR
    block independence, D9 refutations, reset, saturation. *)
From SE Require Import Base Codecs Filters.
From Coq Require Import Floats.PrimFloat Floats.SpecFloat Floats.FloatOps.
From Coq Require Import Arith.

(** * Small list facts *)
Lemma firstn_len_app {A} (l r : list A) : firstn (length l) (l ++ r) = l.
Proof. induction l; cbn; [destruct r; reflexivity | f_equal; exact IHl]. Qed.
Lemma skipn_len_app {A} (l r : list A) : skipn (length l) (l ++ r) = r.
Proof. induction l; cbn; [reflexivity | exact IHl]. Qed.
Lemma skipn_nth_cons {A} (d : A) : forall (l : list A) i, (i < length l)%nat ->
  skipn i l = nth i l d :: skipn (S i) l.
Proof.
  induction l as [|a l IH]; intros i Hi; cbn in Hi; [lia|].
  destruct i as [|i]; [reflexivity|]. cbn [skipn nth]. rewrite (IH i) by lia. reflexivity.
Qed.
Lemma upd_nat_app {A} (l1 : list A) x l2 v : upd_nat (l1 ++ x :: l2) (length l1) v = l1 ++ v :: l2.
Proof. induction l1; cbn; [reflexivity | f_equal; exact IHl1]. Qed.

(** * Circular buffer as a window (newest first) *)
Definition cb_ok (cb : cbuf) : Prop := length (cb_arr cb) = cb_N cb /\ (cb_pos cb < cb_N cb)%nat.
Definition win (cb : cbuf) : list float :=
  skipn (cb_pos cb) (cb_arr cb) ++ firstn (cb_pos cb) (cb_arr cb).
Definition wpush (w : list float) (a : float) : list float := a :: removelast w.
Definition wdot (A w : list float) : float :=
  fold_left (fun y p => (y + fst p * snd p)%float) (combine A w) 0%float.
Definition wrap_idx (cb : cbuf) (i : nat) : nat :=
  if (cb_pos cb + i <? cb_N cb)%nat then (cb_pos cb + i)%nat else (cb_pos cb + i - cb_N cb)%nat.

Lemma win_length cb : cb_ok cb -> length (win cb) = cb_N cb.
Proof.
  intros [HL HP]. unfold win. rewrite app_length, skipn_length, firstn_length_le by lia. lia.
Qed.

Lemma win_nth cb i : cb_ok cb -> (i < cb_N cb)%nat ->
  nth i (win cb) 0%float = nth (wrap_idx cb i) (cb_arr cb) 0%float.
Proof.
  intros [HL HP] Hi. unfold win, wrap_idx.
  assert (Hl1 : length (firstn (cb_pos cb) (cb_arr cb)) = cb_pos cb) by (apply firstn_length_le; lia).
  assert (Hl2 : length (skipn (cb_pos cb) (cb_arr cb)) = (cb_N cb - cb_pos cb)%nat) by (rewrite skipn_length; lia).
  pose proof (firstn_skipn (cb_pos cb) (cb_arr cb)) as Hd.
  remember (firstn (cb_pos cb) (cb_arr cb)) as l1. remember (skipn (cb_pos cb) (cb_arr cb)) as l2.
  rewrite <- Hd.
  destruct (cb_pos cb + i <? cb_N cb)%nat eqn:E.
  - apply Nat.ltb_lt in E. rewrite app_nth1 by lia.
    rewrite <- Hl1 at 1. rewrite app_nth2_plus. reflexivity.
  - apply Nat.ltb_ge in E. rewrite app_nth2 by lia. rewrite Hl2.
    rewrite (app_nth1 l1) by lia. f_equal. lia.
Qed.

Lemma wrap_idx_next cb i : cb_ok cb -> (S i < cb_N cb)%nat ->
  cb_next cb (wrap_idx cb i) = wrap_idx cb (S i).
Proof.
  intros [HL HP] Hi. unfold cb_next, wrap_idx.
  destruct (cb_pos cb + i <? cb_N cb)%nat eqn:E1; destruct (cb_pos cb + S i <? cb_N cb)%nat eqn:E2;
  match goal with |- context [(?a <=? ?b)%nat] => destruct (a <=? b)%nat eqn:E3 end;
  try apply Nat.ltb_lt in E1; try apply Nat.ltb_ge in E1; try apply Nat.ltb_lt in E2; try apply Nat.ltb_ge in E2;
  try apply Nat.leb_le in E3; try apply Nat.leb_gt in E3; lia.
Qed.

Lemma wrap_idx_0 cb : cb_ok cb -> wrap_idx cb 0 = cb_pos cb.
Proof.
  intros [HL HP]. unfold wrap_idx. rewrite Nat.add_0_r.
  destruct (cb_pos cb <? cb_N cb)%nat eqn:E; [reflexivity | apply Nat.ltb_ge in E; lia].
Qed.

Lemma cb_inner_go_spec cb : cb_ok cb -> forall A i y, (i + length A <= cb_N cb)%nat ->
  cb_inner_go cb A (wrap_idx cb i) y =
  fold_left (fun y p => (y + fst p * snd p)%float) (combine A (skipn i (win cb))) y.
Proof.
  intros Hok. induction A as [|a t IH]; intros i y Hi; [reflexivity|].
  cbn [length] in Hi. cbn [cb_inner_go].
  rewrite (skipn_nth_cons 0%float (win cb) i) by (rewrite win_length by assumption; lia).
  cbn [combine fold_left fst snd]. rewrite win_nth by (assumption || lia).
  destruct t as [|b t'].
  - reflexivity.
  - cbn [length] in Hi. rewrite wrap_idx_next by (assumption || lia). apply IH. cbn [length]. lia.
Qed.

Lemma cb_inner_spec cb A : cb_ok cb -> (length A <= cb_N cb)%nat -> cb_inner cb A = wdot A (win cb).
Proof.
  intros Hok HA. unfold cb_inner, wdot. rewrite <- (wrap_idx_0 cb Hok).
  rewrite cb_inner_go_spec by (assumption || lia). reflexivity.
Qed.

Lemma cb_fill_go_spec cb : cb_ok cb -> forall n i, (i + n <= cb_N cb)%nat ->
  cb_fill_go cb n (wrap_idx cb i) = firstn n (skipn i (win cb)).
Proof.
  intros Hok. induction n as [|n IH]; intros i Hi; [reflexivity|].
  cbn [cb_fill_go]. rewrite (skipn_nth_cons 0%float (win cb) i) by (rewrite win_length by assumption; lia).
  cbn [firstn]. rewrite win_nth by (assumption || lia). f_equal.
  destruct n as [|n'].
  - reflexivity.
  - rewrite wrap_idx_next by (assumption || lia). apply IH. lia.
Qed.

Lemma cb_fill_spec cb n : cb_ok cb -> (n <= cb_N cb)%nat -> cb_fill cb n = firstn n (win cb).
Proof.
  intros Hok Hn. unfold cb_fill. rewrite <- (wrap_idx_0 cb Hok).
  rewrite cb_fill_go_spec by (assumption || lia). reflexivity.
Qed.

Lemma cb_push_spec cb a : cb_ok cb ->
  cb_ok (cb_push cb a) /\ cb_N (cb_push cb a) = cb_N cb /\ win (cb_push cb a) = wpush (win cb) a.
Proof.
  intros [HL HP]. unfold cb_push, cb_ok, win, wpush. cbn [cb_arr cb_N cb_pos].
  destruct (cb_pos cb) as [|q] eqn:Epos; cbn [Nat.eqb].
  - (* wrap to N-1 *)
    destruct (nth_split (cb_arr cb) 0%float (n := (cb_N cb - 1)%nat)) as (l1 & l2 & Harr & Hl1); [lia|].
    assert (l2 = []) as ->.
    { apply (f_equal (@length float)) in Harr. rewrite app_length in Harr. cbn [length] in Harr.
      destruct l2; [reflexivity | cbn [length] in Harr; lia]. }
    pose proof (f_equal (@length _) Harr) as HLen. rewrite app_length in HLen. cbn [length] in HLen.
    rewrite Harr, <- Hl1, upd_nat_app.
    repeat split.
    + rewrite !app_length. cbn [length]. lia.
    + lia.
    + rewrite skipn_len_app, firstn_len_app. cbn [skipn firstn]. rewrite app_nil_r.
      rewrite removelast_last. reflexivity.
  - destruct (nth_split (cb_arr cb) 0%float (n := q)) as (l1 & l2 & Harr & Hl1); [lia|].
    replace (S q - 1)%nat with q by lia.
    pose proof (f_equal (@length _) Harr) as HLen. rewrite app_length in HLen. cbn [length] in HLen.
    rewrite Harr, <- Hl1, upd_nat_app.
    repeat split.
    + rewrite !app_length. cbn [length]. lia.
    + lia.
    + rewrite skipn_len_app, firstn_len_app.
      replace (l1 ++ nth (length l1) (cb_arr cb) 0%float :: l2)
        with ((l1 ++ [nth (length l1) (cb_arr cb) 0%float]) ++ l2) by (rewrite <- app_assoc; reflexivity).
      replace (S (length l1)) with (length (l1 ++ [nth (length l1) (cb_arr cb) 0%float]))
        by (rewrite app_length; cbn; lia).
      rewrite skipn_len_app, firstn_len_app. rewrite app_assoc, removelast_last. reflexivity.
Qed.

Lemma cb_init_spec x N : (0 < N \/ 0 < length x)%nat ->
  cb_ok (cb_init x N) /\ cb_N (cb_init x N) = Nat.max N (length x) /\
  win (cb_init x N) = x ++ repeat 0%float (N - length x).
Proof.
  intros H. unfold cb_init, cb_ok, win. cbn [cb_arr cb_N cb_pos skipn firstn].
  destruct (N <? length x)%nat eqn:E; [apply Nat.ltb_lt in E | apply Nat.ltb_ge in E];
  rewrite app_length, repeat_length, app_nil_r; repeat split; try lia.
  replace (length x - length x)%nat with (N - length x)%nat by lia. reflexivity.
Qed.

(** after any sequence of pushes the buffer shows its N most recent pushes, newest first *)
Lemma wpush_firstn a n (l : list float) : (0 < n <= length l)%nat ->
  wpush (firstn n l) a = firstn n (a :: l).
Proof.
  intros Hn. unfold wpush. destruct n as [|n]; [lia|]. cbn [firstn]. f_equal.
  apply removelast_firstn. lia.
Qed.

Lemma pushes_window : forall pushes cb w0, cb_ok cb -> win cb = w0 ->
  let cb' := fold_left cb_push pushes cb in
  cb_ok cb' /\ cb_N cb' = cb_N cb /\ win cb' = firstn (cb_N cb) (rev pushes ++ w0).
Proof.
  induction pushes as [|a t IH]; intros cb w0 Hok Hw; cbn [fold_left rev].
  - split; [assumption | split; [reflexivity|]]. cbn [app]. subst w0. rewrite <- (win_length cb Hok). symmetry. apply firstn_all.
  - destruct (cb_push_spec cb a Hok) as (Hok' & HN' & Hw').
    destruct (IH (cb_push cb a) (wpush w0 a) Hok') as (H1 & H2 & H3); [rewrite Hw', Hw; reflexivity|].
    split; [assumption | split; [lia|]]. rewrite H3, HN'.
    assert (HL : length w0 = cb_N cb) by (rewrite <- Hw; apply win_length; assumption).
    destruct Hok as [_ HP].
    rewrite <- app_assoc. cbn [app].
    rewrite !firstn_app. f_equal.
    destruct (cb_N cb - length (rev t))%nat as [|m] eqn:Em; [reflexivity|].
    unfold wpush. cbn [firstn]. f_equal.
    rewrite removelast_firstn_len. rewrite firstn_firstn. f_equal. lia.
Qed.

(** * IIR kernel over windows *)
Fixpoint wloop (post : float -> float) (B At : list float) (k : float)
         (xw yw : list float) (x : list float) : list float * list float * list float :=
  match x with
  | [] => ([], xw, yw)
  | v :: t =>
      let xw' := wpush xw v in
      let y := post ((wdot B xw' - wdot At yw) / k)%float in
      let yw' := wpush yw y in
      let '(o, a, b) := wloop post B At k xw' yw' t in
      (y :: o, a, b)
  end.

Lemma iir_loop_refines post B At k : forall x xw yw,
  cb_ok xw -> cb_ok yw -> (length B <= cb_N xw)%nat -> (length At <= cb_N yw)%nat ->
  let '(o, xw', yw') := iir_loop post B At k xw yw x in
  cb_ok xw' /\ cb_ok yw' /\ cb_N xw' = cb_N xw /\ cb_N yw' = cb_N yw /\
  wloop post B At k (win xw) (win yw) x = (o, win xw', win yw').
Proof.
  induction x as [|v t IH]; intros xw yw Hx Hy HB HA.
  - cbn. repeat split; try (apply Hx || apply Hy).
  - cbn [iir_loop wloop].
    destruct (cb_push_spec xw v Hx) as (Hx1 & HN1 & Hw1).
    rewrite cb_inner_spec by (assumption || lia).
    rewrite (cb_inner_spec yw At) by (assumption || lia).
    rewrite Hw1.
    set (y := post ((wdot B (wpush (win xw) v) - wdot At (win yw)) / k)%float).
    destruct (cb_push_spec yw y Hy) as (Hy1 & HM1 & Hv1).
    specialize (IH (cb_push xw v) (cb_push yw y) Hx1 Hy1 ltac:(lia) ltac:(lia)).
    destruct (iir_loop post B At k (cb_push xw v) (cb_push yw y) t) as [[o a] b].
    destruct IH as (H1 & H2 & H3 & H4 & H5).
    rewrite Hw1, Hv1 in H5. rewrite H5.
    split; [assumption|]. split; [assumption|]. split; [lia|]. split; [lia|]. reflexivity.
Qed.

Lemma wpush_length w a : w <> [] -> length (wpush w a) = length w.
Proof.
  intros H. unfold wpush. cbn [length]. destruct w as [|b w]; [contradiction|].
  rewrite removelast_firstn_len, firstn_length_le; cbn [length]; lia.
Qed.

Lemma wloop_lengths post B At k : forall x xw yw, xw <> [] -> yw <> [] ->
  let '(o, a, b) := wloop post B At k xw yw x in
  length o = length x /\ length a = length xw /\ length b = length yw.
Proof.
  induction x as [|v t IH]; intros xw yw Hx Hy; [cbn; auto|].
  cbn [wloop].
  set (y := post ((wdot B (wpush xw v) - wdot At yw) / k)%float).
  specialize (IH (wpush xw v) (wpush yw y) ltac:(discriminate) ltac:(discriminate)).
  destruct (wloop post B At k (wpush xw v) (wpush yw y) t) as [[o a] b].
  destruct IH as (H1 & H2 & H3). rewrite wpush_length in H2, H3 by assumption.
  cbn [length]. auto.
Qed.

Lemma wloop_app post B At k : forall x1 x2 xw yw,
  wloop post B At k xw yw (x1 ++ x2) =
  let '(o1, a, b) := wloop post B At k xw yw x1 in
  let '(o2, c, d) := wloop post B At k a b x2 in
  (o1 ++ o2, c, d).
Proof.
  induction x1 as [|v t IH]; intros x2 xw yw.
  - cbn. destruct (wloop post B At k xw yw x2) as [[o c] d]. reflexivity.
  - cbn [app wloop]. rewrite IH.
    destruct (wloop post B At k _ _ t) as [[o1 a] b].
    destruct (wloop post B At k a b x2) as [[o2 c] d]. reflexivity.
Qed.

(** the oldest entry of the x window is dropped before it is ever read *)
Lemma wloop_oldest_irrelevant post B At k x xw xw2 yw :
  removelast xw = removelast xw2 -> x <> [] ->
  wloop post B At k xw yw x = wloop post B At k xw2 yw x.
Proof.
  intros H Hx. destruct x as [|v t]; [contradiction|]. cbn [wloop]. unfold wpush. rewrite H. reflexivity.
Qed.

(** iir_core in terms of windows *)
Definition iir_core_w (post : float -> float) (B A xp yp x : list float)
  : res (list float * list float * list float) :=
  if negb (iir_pre B A xp yp) then Err AssertionErr
  else
    let '(o, a, b) := wloop post B (tl A) (hd 0%float A) (xp ++ [0%float]) yp x in
    Ok (o, firstn (length xp) a, firstn (length yp) b).

Lemma iir_pre_facts B A xp yp : iir_pre B A xp yp = true ->
  (length xp + 1 = length B /\ length yp = length A - 1 /\ 1 <= length yp /\ length (tl A) = length yp)%nat.
Proof.
  unfold iir_pre. intros H.
  apply andb_prop in H; destruct H as [H He]. apply andb_prop in H; destruct H as [H Hd].
  apply andb_prop in H; destruct H as [H Hc]. apply andb_prop in H; destruct H as [Ha Hb].
  apply Nat.leb_le in Ha. apply Nat.leb_le in Hb. apply Nat.eqb_eq in Hd. apply Nat.eqb_eq in He.
  destruct A as [|a0 A']; cbn [length tl] in *; lia.
Qed.

Lemma iir_core_refines post B A xp yp x : iir_core post B A xp yp x = iir_core_w post B A xp yp x.
Proof.
  unfold iir_core, iir_core_w. destruct (iir_pre B A xp yp) eqn:Hpre; cbn [negb]; [|reflexivity].
  destruct (iir_pre_facts _ _ _ _ Hpre) as (HB & HA & Hy1 & HAt).
  destruct (cb_init_spec xp (length xp + 1)) as (Hx & HNx & Hwx); [lia|].
  destruct (cb_init_spec yp (length yp)) as (Hy & HNy & Hwy); [lia|].
  pose proof (iir_loop_refines post B (tl A) (hd 0%float A) x _ _ Hx Hy ltac:(lia) ltac:(lia)) as R.
  destruct (iir_loop post B (tl A) (hd 0%float A) _ _ x) as [[o xw'] yw'].
  destruct R as (H1 & H2 & H3 & H4 & H5).
  rewrite Hwx, Hwy in H5.
  replace (length xp + 1 - length xp)%nat with 1%nat in H5 by lia.
  replace (length yp - length yp)%nat with 0%nat in H5 by lia.
  cbn [repeat] in H5. rewrite app_nil_r in H5. rewrite H5.
  rewrite !cb_fill_spec by (assumption || lia). reflexivity.
Qed.

Lemma iir_core_w_app post B A xp yp x1 x2 :
  iir_core_w post B A xp yp (x1 ++ x2) =
  r1 <- iir_core_w post B A xp yp x1 ;;
  r2 <- iir_core_w post B A (snd (fst r1)) (snd r1) x2 ;;
  Ok (fst (fst r1) ++ fst (fst r2), snd (fst r2), snd r2).
Proof.
  unfold iir_core_w. destruct (iir_pre B A xp yp) eqn:Hpre; cbn [negb bind]; [|reflexivity].
  destruct (iir_pre_facts _ _ _ _ Hpre) as (HB & HA & Hy1 & HAt).
  rewrite wloop_app.
  pose proof (wloop_lengths post B (tl A) (hd 0%float A) x1 (xp ++ [0%float]) yp) as L1.
  destruct (wloop post B (tl A) (hd 0%float A) (xp ++ [0%float]) yp x1) as [[o1 a] b].
  destruct L1 as (Lo & La & Lb); [destruct xp; discriminate | destruct yp; [cbn in Hy1; lia | discriminate] |].
  rewrite app_length in La. cbn [length] in La.
  cbn [bind fst snd].
  assert (Hfb : firstn (length yp) b = b) by (rewrite <- Lb; apply firstn_all).
  assert (Hpre2 : iir_pre B A (firstn (length xp) a) (firstn (length yp) b) = true).
  { unfold iir_pre in *. rewrite Hfb, Lb. rewrite firstn_length_le by lia. exact Hpre. }
  rewrite Hpre2. cbn [negb]. rewrite Hfb. rewrite firstn_length_le by lia. rewrite Lb.
  assert (Hrl : removelast (firstn (length xp) a ++ [0%float]) = removelast a).
  { rewrite removelast_last. rewrite removelast_firstn_len. f_equal. lia. }
  destruct x2 as [|v t].
  - cbn [wloop bind fst snd]. rewrite app_nil_r.
    rewrite firstn_app, firstn_firstn, Nat.min_id.
    rewrite firstn_length_le by lia. rewrite Nat.sub_diag. cbn [firstn]. rewrite app_nil_r. reflexivity.
  - rewrite (wloop_oldest_irrelevant post B (tl A) (hd 0%float A) (v :: t) _ a b Hrl) by discriminate.
    destruct (wloop post B (tl A) (hd 0%float A) a b (v :: t)) as [[o2 c] d]. reflexivity.
Qed.

Lemma iir_core_app post B A xp yp x1 x2 :
  iir_core post B A xp yp (x1 ++ x2) =
  r1 <- iir_core post B A xp yp x1 ;;
  r2 <- iir_core post B A (snd (fst r1)) (snd r1) x2 ;;
  Ok (fst (fst r1) ++ fst (fst r2), snd (fst r2), snd r2).
Proof.
  rewrite !iir_core_refines. rewrite iir_core_w_app.
  destruct (iir_core_w post B A xp yp x1) as [r1| |]; cbn [bind]; [|reflexivity|reflexivity].
  rewrite iir_core_refines. reflexivity.
Qed.

Lemma iir_core_length post B A xp yp x r : iir_core post B A xp yp x = Ok r ->
  length (fst (fst r)) = length x.
Proof.
  rewrite iir_core_refines. unfold iir_core_w.
  destruct (iir_pre B A xp yp) eqn:Hpre; cbn [negb]; [|discriminate].
  destruct (iir_pre_facts _ _ _ _ Hpre) as (HB & HA & Hy1 & HAt).
  pose proof (wloop_lengths post B (tl A) (hd 0%float A) x (xp ++ [0%float]) yp) as L1.
  destruct (wloop post B (tl A) (hd 0%float A) (xp ++ [0%float]) yp x) as [[o1 a] b].
  destruct L1 as (Lo & La & Lb); [destruct xp; discriminate | destruct yp; [cbn in Hy1; lia | discriminate] |].
  intros [= <-]. exact Lo.
Qed.

(** * Array-level facts *)
Definition is_int (a : arr) : bool := match a with AI _ => true | AF _ => false end.
Definition arr_ok (a : arr) : Prop :=
  match a with AI l => Forall (fun z => -32768 <= z <= 32767) l | AF _ => True end.

Lemma to_f_acat a b : to_f (acat a b) = to_f a ++ to_f b.
Proof. destruct a, b; cbn; try reflexivity. apply map_app. Qed.
Lemma is_int_acat a b : is_int a = is_int b -> is_int (acat a b) = is_int a.
Proof. destruct a, b; cbn; congruence. Qed.
Lemma alen_acat a b : alen (acat a b) = alen a + alen b.
Proof. destruct a, b; cbn; unfold zlen; rewrite ?app_length, ?map_length; lia. Qed.
Lemma arr_ok_acat a b : arr_ok a -> arr_ok b -> arr_ok (acat a b).
Proof. destruct a, b; cbn; auto. intros; apply Forall_app; auto. Qed.

Lemma aconcat_cons2 a b t : aconcat (a :: b :: t) = acat a (aconcat (b :: t)).
Proof. reflexivity. Qed.

Lemma aconcat_props (P : arr -> Prop) k :
  (forall x1 x2, P x1 -> P x2 -> is_int x1 = is_int x2 -> P (acat x1 x2)) ->
  forall t b, Forall P (b :: t) -> Forall (fun a => is_int a = k) (b :: t) ->
  P (aconcat (b :: t)) /\ is_int (aconcat (b :: t)) = k.
Proof.
  intros HP. induction t as [|b2 t IH]; intros b HF HK.
  - inversion HF; inversion HK; subst. cbn. auto.
  - inversion HF as [|? ? Hb HF']; inversion HK as [|? ? Kb HK']; subst.
    destruct (IH b2 HF' HK') as [IP IK]. rewrite aconcat_cons2. split.
    + apply HP; auto; congruence.
    + rewrite is_int_acat; congruence.
Qed.

(** * IIR: two blocks = one block *)
Lemma iir_process_app f x1 x2 : is_int x1 = is_int x2 ->
  iir_process f (acat x1 x2) =
  r1 <- iir_process f x1 ;; r2 <- iir_process (snd r1) x2 ;; Ok (acat (fst r1) (fst r2), snd r2).
Proof.
  intros HK. unfold iir_process. destruct (i_chick f) eqn:Hc.
  - destruct x1 as [l1|l1], x2 as [l2|l2]; try discriminate; cbn [acat to_f]; [reflexivity|].
    rewrite map_app, iir_core_app.
    destruct (iir_core c_bound (i_B f) (i_A f) (i_xprev f) (i_yprev f) (map z2f l1)) as [[[o1 xp1] yp1]| |];
      cbn [bind fst snd]; [|reflexivity|reflexivity].
    cbn [iir_with i_chick i_B i_A i_xprev i_yprev]. rewrite Hc.
    destruct (iir_core c_bound (i_B f) (i_A f) xp1 yp1 (map z2f l2)) as [[[o2 xp2] yp2]| |];
      cbn [bind fst snd acat]; [|reflexivity|reflexivity].
    rewrite map_app. reflexivity.
  - rewrite to_f_acat, iir_core_app.
    destruct (iir_core (fun y => y) (i_B f) (i_A f) (i_xprev f) (i_yprev f) (to_f x1)) as [[[o1 xp1] yp1]| |];
      cbn [bind fst snd]; [|reflexivity|reflexivity].
    cbn [iir_with i_chick i_B i_A i_xprev i_yprev]. rewrite Hc.
    destruct (iir_core (fun y => y) (i_B f) (i_A f) xp1 yp1 (to_f x2)) as [[[o2 xp2] yp2]| |];
      cbn [bind fst snd acat to_f]; reflexivity.
Qed.

Lemma iir_process_count f x r : iir_process f x = Ok r -> alen (fst r) = alen x.
Proof.
  unfold iir_process. destruct (i_chick f).
  - destruct x as [l|l]; [discriminate|].
    destruct (iir_core _ _ _ _ _ _) as [[[o xp] yp]| |] eqn:E; cbn [bind]; try discriminate.
    intros [= <-]. apply iir_core_length in E. cbn [fst alen] in *. unfold zlen.
    rewrite map_length, E, map_length. reflexivity.
  - destruct (iir_core _ _ _ _ _ _) as [[[o xp] yp]| |] eqn:E; cbn [bind]; try discriminate.
    intros [= <-]. apply iir_core_length in E. cbn [fst alen] in *. unfold zlen. rewrite E.
    destruct x; cbn [to_f alen]; unfold zlen; rewrite ?map_length; reflexivity.
Qed.

(** * Feeding block by block = feeding the concatenation (generic in the two-block law) *)
Lemma feed_nonempty f b t r : feed f (b :: t) = Ok r -> fst r <> [].
Proof.
  cbn [feed]. destruct (filt_process f b) as [r1| |]; cbn [bind]; try discriminate.
  destruct (feed (snd r1) t) as [r2| |]; cbn [bind]; try discriminate.
  intros [= <-]. discriminate.
Qed.

Lemma feed_concat (Inv : filt -> Prop) (P : arr -> Prop) (k : bool) :
  (forall f x1 x2, Inv f -> P x1 -> P x2 -> is_int x1 = is_int x2 ->
     filt_process f (acat x1 x2) =
     r1 <- filt_process f x1 ;; r2 <- filt_process (snd r1) x2 ;; Ok (acat (fst r1) (fst r2), snd r2)) ->
  (forall f x r, Inv f -> P x -> filt_process f x = Ok r -> Inv (snd r)) ->
  (forall x1 x2, P x1 -> P x2 -> is_int x1 = is_int x2 -> P (acat x1 x2)) ->
  forall t b f, Inv f -> Forall P (b :: t) -> Forall (fun a => is_int a = k) (b :: t) ->
    (r <- feed f (b :: t) ;; Ok (aconcat (fst r), snd r)) =
    (r <- filt_process f (aconcat (b :: t)) ;; Ok (fst r, snd r)).
Proof.
  intros Htwo Hinv HPcat. induction t as [|b2 t IH]; intros b f HI HF HK.
  - cbn [feed aconcat]. destruct (filt_process f b) as [r1| |]; reflexivity.
  - inversion HF as [|? ? Hb HF']; inversion HK as [|? ? Kb HK']; subst.
    destruct (aconcat_props P (is_int b2) HPcat t b2 HF') as [IP IK].
    { inversion HK'; subst. constructor; [reflexivity|]. rewrite H1. assumption. }
    rewrite aconcat_cons2.
    assert (Kb2 : is_int b = is_int b2) by (inversion HK'; congruence).
    rewrite Htwo by (auto; congruence).
    change (feed f (b :: b2 :: t)) with
      (r <- filt_process f b ;; r2 <- feed (snd r) (b2 :: t) ;; Ok (fst r :: fst r2, snd r2)).
    destruct (filt_process f b) as [r1| |] eqn:E1; cbn [bind]; [|reflexivity|reflexivity].
    specialize (IH b2 (snd r1) (Hinv _ _ _ HI Hb E1) HF' HK').
    destruct (feed (snd r1) (b2 :: t)) as [r2| |] eqn:E2; cbn [bind] in *.
    + pose proof (feed_nonempty _ _ _ _ E2) as Hne.
      destruct (filt_process (snd r1) (aconcat (b2 :: t))) as [q| |]; cbn [bind] in *; try discriminate.
      injection IH as IH1 IH2. cbn [fst snd].
      destruct (fst r2) as [|y ys] eqn:Ey; [contradiction|].
      change (aconcat (fst r1 :: y :: ys)) with (acat (fst r1) (aconcat (y :: ys))).
      rewrite IH1, IH2. reflexivity.
    + destruct (filt_process (snd r1) (aconcat (b2 :: t))) as [q| |]; cbn [bind] in *; try discriminate.
      injection IH as ->. reflexivity.
    + destruct (filt_process (snd r1) (aconcat (b2 :: t))) as [q| |]; cbn [bind] in *; try discriminate.
      reflexivity.
Qed.

Lemma stream_concat f b t :
  (r <- feed f (b :: t) ;; Ok (aconcat (fst r), snd r)) =
  (r <- filt_process f (aconcat (b :: t)) ;; Ok (fst r, snd r)) ->
  stream f (b :: t) = stream f [aconcat (b :: t)].
Proof.
  intros H. unfold stream. remember (b :: t) as L eqn:EL. cbn [feed]. clear EL.
  destruct (feed f L) as [r| |]; destruct (filt_process f (aconcat L)) as [q| |];
    cbn [bind] in *; try discriminate; try reflexivity.
  - injection H as H1 H2. cbn [fst snd aconcat]. rewrite H1, H2. reflexivity.
  - injection H as ->. reflexivity.
Qed.

Lemma iir_stream_split_lemma f t b k : Forall (fun a => is_int a = k) (b :: t) ->
  stream (FI f) (b :: t) = stream (FI f) [aconcat (b :: t)].
Proof.
  intros HK. apply stream_concat.
  apply (feed_concat (fun g => exists i, g = FI i) (fun _ => True) k); auto.
  - intros g x1 x2 [i ->] _ _ HKK. cbn [filt_process]. rewrite iir_process_app by assumption.
    destruct (iir_process i x1) as [r1| |]; cbn [bind fst snd filt_process]; [|reflexivity|reflexivity].
    destruct (iir_process (snd r1) x2) as [r2| |]; cbn [bind fst snd]; reflexivity.
  - intros g x r [i ->] _. cbn [filt_process].
    destruct (iir_process i x) as [r1| |]; cbn [bind]; try discriminate. intros [= <-]. eexists; reflexivity.
  - eexists; reflexivity.
  - clear. induction (b :: t); constructor; auto.
Qed.

Lemma iir_stream_count f x r : stream (FI f) [x] = Ok r ->
  alen (fst (fst r)) + alen (snd (fst r)) = alen x.
Proof.
  unfold stream. cbn [feed filt_process].
  destruct (iir_process f x) as [r1| |] eqn:E; cbn [bind]; try discriminate.
  intros [= <-]. cbn [fst snd aconcat alen]. apply iir_process_count in E. unfold zlen. cbn [length]. lia.
Qed.

(** * Valid convolution over sliding windows *)
Lemma conv_valid_short {A B} (dotf : list A -> B) N w : (length w < N)%nat -> conv_valid dotf N w = [].
Proof. intros H. unfold conv_valid. apply Nat.ltb_lt in H. rewrite H. reflexivity. Qed.

Lemma conv_valid_cons {A B} (dotf : list A -> B) N a t : (1 <= N <= length (a :: t))%nat ->
  conv_valid dotf N (a :: t) = dotf (a :: t) :: conv_valid dotf N t.
Proof.
  intros H. unfold conv_valid. cbn [length] in *.
  destruct (S (length t) <? N)%nat eqn:E; [apply Nat.ltb_lt in E; lia|].
  replace (S (length t) + 1 - N)%nat with (S (length t + 1 - N)) by lia.
  cbn [windows map tl]. f_equal.
  destruct (length t <? N)%nat eqn:E2; [|reflexivity].
  apply Nat.ltb_lt in E2. replace (length t + 1 - N)%nat with 0%nat by lia. reflexivity.
Qed.

Lemma conv_valid_length {A B} (dotf : list A -> B) N : (1 <= N)%nat -> forall w,
  length (conv_valid dotf N w) = (length w + 1 - N)%nat.
Proof.
  intros HN. induction w as [|a t IH].
  - rewrite conv_valid_short by (cbn [length]; lia). cbn [length]. lia.
  - destruct (Nat.lt_ge_cases (length (a :: t)) N) as [H|H].
    + rewrite conv_valid_short by assumption. cbn [length] in *. lia.
    + rewrite conv_valid_cons by lia. cbn [length] in *. rewrite IH. lia.
Qed.

Lemma conv_valid_app {A B} (dotf : list A -> B) N :
  (forall w v, (N <= length w)%nat -> dotf (w ++ v) = dotf w) -> (1 <= N)%nat ->
  forall u v, (N - 1 <= length u)%nat ->
  conv_valid dotf N (u ++ v) =
  conv_valid dotf N u ++ conv_valid dotf N (skipn (length u - (N - 1)) u ++ v).
Proof.
  intros Hloc HN. induction u as [|a t IH]; intros v Hu.
  - cbn [length] in Hu. rewrite (conv_valid_short dotf N []) by (cbn [length]; lia). reflexivity.
  - destruct (Nat.lt_ge_cases (length (a :: t)) N) as [H|H].
    + rewrite (conv_valid_short dotf N (a :: t)) by assumption.
      replace (length (a :: t) - (N - 1))%nat with 0%nat by lia. reflexivity.
    + cbn [app]. rewrite conv_valid_cons by (cbn [length] in *; rewrite ?app_length; lia).
      rewrite (conv_valid_cons dotf N a t) by lia.
      change (a :: t ++ v) with ((a :: t) ++ v). rewrite Hloc by assumption.
      cbn [app]. f_equal. cbn [length] in *. rewrite IH by lia. f_equal. f_equal. f_equal.
      replace (S (length t) - (N - 1))%nat with (S (length t - (N - 1))) by lia. reflexivity.
Qed.

Lemma combine_app_short {A B} (w v : list A) (h : list B) : (length h <= length w)%nat ->
  combine (w ++ v) h = combine w h.
Proof.
  revert h. induction w as [|a w IH]; intros h H.
  - destruct h; [destruct v; reflexivity | cbn in H; lia].
  - destruct h as [|b h]; [reflexivity|]. cbn [app combine]. f_equal. apply IH. cbn in H. lia.
Qed.

Lemma dot_f_local hr w v : (length hr <= length w)%nat -> dot_f hr (w ++ v) = dot_f hr w.
Proof. intros H. unfold dot_f. rewrite combine_app_short by assumption. reflexivity. Qed.
Lemma chick_dot_local k hr w v : (length hr <= length w)%nat -> chick_dot k hr (w ++ v) = chick_dot k hr w.
Proof. intros H. unfold chick_dot. rewrite combine_app_short by assumption. reflexivity. Qed.

Lemma skipn_app_tail {A} (a b : list A) k : (k <= length b)%nat ->
  skipn (length (a ++ b) - k) (a ++ b) = skipn (length b - k) b.
Proof.
  intros H. rewrite app_length. replace (length a + length b - k)%nat with (length a + (length b - k))%nat by lia.
  induction a; cbn; [reflexivity | assumption].
Qed.

(** * int16 -> double -> int16 is the identity (finite domain: all 65536 values) *)
Definition i16_of (a b : nat) : Z := 256 * Z.of_nat a + Z.of_nat b - 32768.
Lemma cast_i16_z2f_all :
  forallb (fun a => forallb (fun b => cast_i16 (z2f (i16_of a b)) =? i16_of a b) (seq 0 256)) (seq 0 256) = true.
Proof. vm_compute. reflexivity. Qed.
Lemma cast_i16_z2f z : -32768 <= z <= 32767 -> cast_i16 (z2f z) = z.
Proof.
  intros H. pose proof cast_i16_z2f_all as HA. rewrite forallb_forall in HA.
  specialize (HA (Z.to_nat ((z + 32768) / 256))). rewrite forallb_forall in HA.
  assert (H1 : 0 <= (z + 32768) / 256 < 256) by (split; [apply Z.div_pos; lia | apply Z.div_lt_upper_bound; lia]).
  assert (H2 : 0 <= (z + 32768) mod 256 < 256) by (apply Z.mod_pos_bound; lia).
  specialize (HA ltac:(apply in_seq; lia) (Z.to_nat ((z + 32768) mod 256)) ltac:(apply in_seq; lia)).
  apply Z.eqb_eq in HA.
  assert (E : i16_of (Z.to_nat ((z + 32768) / 256)) (Z.to_nat ((z + 32768) mod 256)) = z).
  { unfold i16_of. rewrite !Z2Nat.id by lia. pose proof (Z.div_mod (z + 32768) 256 ltac:(lia)). lia. }
  rewrite E in HA. exact HA.
Qed.

Lemma map_cast_z2f l : Forall (fun z => -32768 <= z <= 32767) l -> map cast_i16 (map z2f l) = l.
Proof.
  induction 1 as [|z l Hz _ IH]; [reflexivity|]. cbn [map]. rewrite cast_i16_z2f, IH by assumption. reflexivity.
Qed.

Lemma to_i16_acat a b : arr_ok a -> arr_ok b -> to_i16 (acat a b) = to_i16 a ++ to_i16 b.
Proof.
  destruct a as [la|la], b as [lb|lb]; cbn [arr_ok acat to_i16 to_f]; intros Ha Hb; rewrite ?map_app;
    try reflexivity; rewrite map_cast_z2f by assumption; reflexivity.
Qed.

(** * FIR: two blocks = one block, when the first block has at least N-1 samples *)
Definition fir_wt (f : fir) : Prop :=
  if f_chick f then (exists h, f_h f = AI h) /\ f_k f <> 0 else exists h, f_h f = AF h.

Definition firconv (f : fir) (x : arr) : arr :=
  match f_h f with
  | AI h => AI (conv_valid (chick_dot (f_k f) (rev h)) (length h) (to_i16 x))
  | AF h => AF (conv_valid (dot_f (rev h)) (length h) (to_f x))
  end.

Lemma alen_nat a : alen a = Z.of_nat (length (to_f a)).
Proof. destruct a; cbn; unfold zlen; rewrite ?map_length; reflexivity. Qed.

Lemma fir_cv_astype {G} f x b (g : G) : fir_wt f -> 1 <= fir_N f ->
  (y <- fir_convolve_valid f x ;; Ok (astype_like b y, g)) = Ok (astype_like b (firconv f x), g).
Proof.
  unfold fir_wt, fir_convolve_valid, firconv, fir_N. intros Hwt HN.
  destruct (f_chick f).
  - destruct Hwt as [[h ->] Hk]. apply Z.eqb_neq in Hk. rewrite Hk. reflexivity.
  - destruct Hwt as [h Hh]. rewrite Hh in *. cbn [alen] in HN.
    destruct (alen x <? zlen h) eqn:E.
    + cbn [bind]. rewrite conv_valid_short.
      * destruct b, x; reflexivity.
      * rewrite alen_nat in E. unfold zlen in E. lia.
    + destruct (zlen h =? 0) eqn:E0; [unfold zlen in *; lia|]. reflexivity.
Qed.

Lemma to_f_atail x k : 0 < k -> to_f (atail x k) = skipn (length (to_f x) - Z.to_nat k) (to_f x).
Proof.
  intros Hk. destruct x as [l|l]; cbn [atail to_f]; unfold py_tail;
    destruct (k =? 0) eqn:E0; try lia; destruct (k <? 0) eqn:E1; try lia.
  - reflexivity.
  - rewrite skipn_map, map_length. reflexivity.
Qed.
Lemma to_i16_atail x k : 0 < k -> to_i16 (atail x k) = skipn (length (to_i16 x) - Z.to_nat k) (to_i16 x).
Proof.
  intros Hk. destruct x as [l|l]; cbn [atail to_i16]; unfold py_tail;
    destruct (k =? 0) eqn:E0; try lia; destruct (k <? 0) eqn:E1; try lia.
  - rewrite skipn_map, map_length. reflexivity.
  - reflexivity.
Qed.
Lemma alen_nat16 a : alen a = Z.of_nat (length (to_i16 a)).
Proof. destruct a; cbn; unfold zlen; rewrite ?map_length; reflexivity. Qed.

Lemma In_skipn {A} n (l : list A) x : In x (skipn n l) -> In x l.
Proof. intros H. rewrite <- (firstn_skipn n l). apply in_or_app. right. exact H. Qed.
Lemma arr_ok_atail x k : arr_ok x -> arr_ok (atail x k).
Proof.
  destruct x as [l|l]; cbn [arr_ok atail]; [auto|]. intros H. unfold py_tail.
  destruct (k =? 0); [assumption|]. destruct (k <? 0); apply Forall_forall; intros z Hz;
    apply (proj1 (Forall_forall _ _) H); eapply In_skipn; eassumption.
Qed.

Lemma firconv_app f xp x1 x2 :
  2 <= fir_N f -> arr_ok xp -> arr_ok x1 -> arr_ok x2 -> fir_N f - 1 <= alen x1 ->
  firconv f (acat xp (acat x1 x2)) =
  acat (firconv f (acat xp x1)) (firconv f (acat (atail x1 (fir_N f - 1)) x2)).
Proof.
  unfold firconv, fir_N. intros HN Hp H1 H2 HL.
  destruct (f_h f) as [h|h]; cbn [alen] in *; unfold zlen in *.
  - cbn [acat to_f]. rewrite !to_f_acat, app_assoc.
    rewrite alen_nat in HL.
    rewrite conv_valid_app;
      [ | intros; apply dot_f_local; rewrite rev_length; assumption | lia | rewrite app_length; lia ].
    f_equal. f_equal. f_equal. f_equal.
    rewrite skipn_app_tail by lia. rewrite to_f_atail by lia. f_equal. lia.
  - cbn [acat]. rewrite !to_i16_acat by (auto using arr_ok_acat, arr_ok_atail). rewrite app_assoc.
    rewrite alen_nat16 in HL.
    rewrite conv_valid_app;
      [ | intros; apply chick_dot_local; rewrite rev_length; assumption | lia | rewrite app_length; lia ].
    f_equal. f_equal. f_equal. f_equal.
    rewrite skipn_app_tail by lia. rewrite to_i16_atail by lia. f_equal. lia.
Qed.

Lemma astype_like_acat x1 x2 c1 c2 : is_int x1 = is_int x2 -> is_int c1 = is_int c2 ->
  astype_like (acat x1 x2) (acat c1 c2) = acat (astype_like x1 c1) (astype_like x2 c2).
Proof.
  destruct x1, x2; try discriminate; destruct c1, c2; try discriminate; intros _ _;
    cbn [acat astype_like to_f to_i16]; rewrite ?map_app; reflexivity.
Qed.

Lemma firconv_kind f x y : is_int (firconv f x) = is_int (firconv f y).
Proof. unfold firconv. destruct (f_h f); reflexivity. Qed.

Lemma atail_acat x1 x2 k : is_int x1 = is_int x2 -> 0 < k <= alen x2 ->
  atail (acat x1 x2) k = atail x2 k.
Proof.
  intros HK Hk. destruct x1 as [a|a], x2 as [b|b]; try discriminate; cbn [acat to_f atail alen] in *;
    unfold py_tail, zlen in *; destruct (k =? 0) eqn:E0; try lia; destruct (k <? 0) eqn:E1; try lia;
    f_equal; apply skipn_app_tail; lia.
Qed.

Lemma fir_process_app f x1 x2 :
  fir_wt f -> 2 <= fir_N f -> arr_ok (f_xprev f) -> arr_ok x1 -> arr_ok x2 ->
  is_int x1 = is_int x2 -> fir_N f - 1 <= alen x1 -> fir_N f - 1 <= alen x2 ->
  fir_process f (acat x1 x2) =
  r1 <- fir_process f x1 ;; r2 <- fir_process (snd r1) x2 ;; Ok (acat (fst r1) (fst r2), snd r2).
Proof.
  intros Hwt HN Hp H1 H2 HK L1 L2. unfold fir_process.
  rewrite !fir_cv_astype by (assumption || lia). cbn [bind fst snd].
  assert (Hwt' : fir_wt (fir_with_xprev f (atail x1 (fir_N f - 1)))) by exact Hwt.
  change (fir_N (fir_with_xprev f (atail x1 (fir_N f - 1)))) with (fir_N f).
  rewrite fir_cv_astype by (assumption || (change (fir_N (fir_with_xprev f (atail x1 (fir_N f - 1)))) with (fir_N f); lia)).
  cbn [fir_with_xprev f_xprev f_chick f_k f_h f_m0].
  rewrite firconv_app by assumption.
  rewrite astype_like_acat by (assumption || apply firconv_kind).
  rewrite atail_acat by (assumption || lia).
  reflexivity.
Qed.

Lemma fir_process_state f x r : fir_process f x = Ok r ->
  snd r = fir_with_xprev f (atail x (fir_N f - 1)).
Proof.
  unfold fir_process. destruct (fir_convolve_valid f _) as [y| |]; cbn [bind]; try discriminate.
  intros [= <-]. reflexivity.
Qed.

Lemma fir_stream_split_lemma f t b k :
  fir_wt f -> 2 <= fir_N f -> arr_ok (f_xprev f) ->
  Forall (fun a => is_int a = k) (b :: t) ->
  Forall (fun a => arr_ok a /\ fir_N f - 1 <= alen a) (b :: t) ->
  stream (FF f) (b :: t) = stream (FF f) [aconcat (b :: t)].
Proof.
  intros Hwt HN Hp HK HP. apply stream_concat.
  apply (feed_concat (fun g => exists i, g = FF i /\ fir_wt i /\ fir_N i = fir_N f /\ arr_ok (f_xprev i))
                     (fun a => arr_ok a /\ fir_N f - 1 <= alen a) k); auto.
  - intros g x1 x2 (i & -> & Hw & Hn & Hx) [Ha1 Hl1] [Ha2 Hl2] HKK. cbn [filt_process].
    rewrite fir_process_app by (assumption || lia).
    destruct (fir_process i x1) as [r1| |]; cbn [bind fst snd filt_process]; [|reflexivity|reflexivity].
    destruct (fir_process (snd r1) x2) as [r2| |]; cbn [bind fst snd]; reflexivity.
  - intros g x r (i & -> & Hw & Hn & Hx) [Ha Hl]. cbn [filt_process].
    destruct (fir_process i x) as [r1| |] eqn:E; cbn [bind]; try discriminate. intros [= <-].
    apply fir_process_state in E. cbn [snd]. rewrite E. eexists. split; [reflexivity|].
    split; [exact Hw|]. split; [exact Hn|]. cbn [fir_with_xprev f_xprev]. apply arr_ok_atail. assumption.
  - intros x1 x2 [Ha1 Hl1] [Ha2 Hl2] _. split; [apply arr_ok_acat; assumption|].
    rewrite alen_acat. pose proof (alen_nat x1). lia.
  - exists f. auto.
Qed.

Lemma alen_astype_like b y : alen (astype_like b y) = alen y.
Proof. destruct b, y; cbn; unfold zlen; rewrite ?map_length; reflexivity. Qed.
Lemma alen_firconv f x : 1 <= fir_N f -> alen (firconv f x) = Z.max 0 (alen x + 1 - fir_N f).
Proof.
  unfold firconv, fir_N. intros HN. destruct (f_h f) as [h|h]; cbn [alen] in *; unfold zlen in *.
  - rewrite conv_valid_length by lia. rewrite alen_nat. lia.
  - rewrite conv_valid_length by lia. rewrite alen_nat16. lia.
Qed.
Lemma alen_fzeros n : 0 <= n -> alen (fzeros n) = n.
Proof. intros H. cbn. unfold zlen, zrepeat. rewrite repeat_length. lia. Qed.
Lemma alen_atail x k : 0 < k <= alen x -> alen (atail x k) = k.
Proof.
  intros H. destruct x as [l|l]; cbn [atail alen] in *; unfold py_tail, zlen in *;
    destruct (k =? 0) eqn:E0; try lia; destruct (k <? 0) eqn:E1; try lia; rewrite skipn_length; lia.
Qed.

Lemma fir_mk_facts chick k h m0 f : fir_mk chick k h m0 = Ok f ->
  f_m0 f = m0 /\ f_xprev f = fzeros (fir_N f - m0 - 1) /\ 0 <= fir_N f - m0 - 1.
Proof.
  unfold fir_mk. destruct (alen h - m0 - 1 <? 0) eqn:Em; try discriminate. intros [= <-].
  unfold fir_N. cbn [f_h f_m0 f_xprev]. repeat split. lia.
Qed.

Lemma fir_stream_count chick k h m0 f x r :
  fir_mk chick k h m0 = Ok f -> fir_wt f -> 2 <= fir_N f -> 0 <= m0 -> fir_N f - 1 <= alen x ->
  stream (FF f) [x] = Ok r -> alen (fst (fst r)) + alen (snd (fst r)) = alen x.
Proof.
  intros Hmk Hwt HN Hm0 HL. destruct (fir_mk_facts _ _ _ _ _ Hmk) as (Em & Ex & Hm1).
  unfold stream. cbn [feed filt_process]. unfold fir_process.
  rewrite fir_cv_astype by (assumption || lia). cbn [bind fst snd filt_get_remaining].
  unfold fir_get_remaining.
  set (f1 := fir_with_xprev f (atail x (fir_N f - 1))).
  assert (Hwt1 : fir_wt f1) by exact Hwt.
  assert (HN1 : fir_N f1 = fir_N f) by reflexivity.
  assert (Em1 : f_m0 f1 = m0) by exact Em.
  assert (Ex1 : f_xprev f1 = atail x (fir_N f - 1)) by reflexivity.
  rewrite Em1. destruct (m0 <? 0) eqn:E0; [lia|].
  rewrite fir_cv_astype by (assumption || lia). cbn [bind fst snd].
  intros [= <-]. cbn [fst snd aconcat].
  rewrite !alen_astype_like, !alen_firconv by lia.
  rewrite HN1, Ex.
  rewrite !alen_acat, alen_atail by lia. rewrite !alen_fzeros by lia. lia.
Qed.

(** * Reset *)
Lemma fir_mk_reset chick k h m0 f xp : fir_mk chick k h m0 = Ok f -> fir_reset (fir_with_xprev f xp) = f.
Proof.
  unfold fir_mk. destruct (alen h - m0 - 1 <? 0); try discriminate. intros [= <-]. reflexivity.
Qed.
Lemma iir_mk_reset c B A xp yp : iir_reset (iir_with (iir_mk c B A) xp yp) = iir_mk c B A.
Proof. reflexivity. Qed.

Lemma filt_process_reset f x r : filt_process f x = Ok r -> filt_reset (snd r) = filt_reset f.
Proof.
  destruct f as [g|g]; cbn [filt_process].
  - destruct (fir_process g x) as [r1| |] eqn:E; cbn [bind]; try discriminate. intros [= <-].
    apply fir_process_state in E. cbn [snd filt_reset]. rewrite E. reflexivity.
  - unfold iir_process. destruct (i_chick g).
    + destruct x as [l|l]; cbn [bind]; try discriminate.
      destruct (iir_core _ _ _ _ _ _) as [[[o xp] yp]| |]; cbn [bind]; try discriminate.
      intros [= <-]. reflexivity.
    + destruct (iir_core _ _ _ _ _ _) as [[[o xp] yp]| |]; cbn [bind]; try discriminate.
      intros [= <-]. reflexivity.
Qed.
Lemma filt_reset_idem f : filt_reset (filt_reset f) = filt_reset f.
Proof. destruct f; reflexivity. Qed.
Lemma filt_rem_reset f r : filt_get_remaining f = Ok r -> snd r = filt_reset f.
Proof.
  destruct f as [g|g]; cbn [filt_get_remaining].
  - unfold fir_get_remaining. destruct (f_m0 g <? 0); cbn [bind]; try discriminate.
    destruct (fir_convolve_valid g _) as [y| |]; cbn [bind]; try discriminate. intros [= <-]. reflexivity.
  - cbn. intros [= <-]. reflexivity.
Qed.
Lemma run_ops_reset : forall ops f r, run_ops f ops = Ok r -> filt_reset (snd r) = filt_reset f.
Proof.
  induction ops as [|o t IH]; intros f r; cbn [run_ops].
  - intros [= <-]. reflexivity.
  - destruct o as [x| |].
    + destruct (filt_process f x) as [r1| |] eqn:E; cbn [bind]; try discriminate.
      destruct (run_ops (snd r1) t) as [r2| |] eqn:E2; cbn [bind]; try discriminate.
      intros [= <-]. cbn [snd]. rewrite (IH _ _ E2). eapply filt_process_reset; eassumption.
    + destruct (filt_get_remaining f) as [r1| |] eqn:E; cbn [bind]; try discriminate.
      destruct (run_ops (snd r1) t) as [r2| |] eqn:E2; cbn [bind]; try discriminate.
      intros [= <-]. cbn [snd]. rewrite (IH _ _ E2). rewrite (filt_rem_reset _ _ E). apply filt_reset_idem.
    + intros H. rewrite (IH _ _ H). apply filt_reset_idem.
Qed.

Definition is_new (f : filt) : Prop :=
  (exists chick k h m0 g, fir_mk chick k h m0 = Ok g /\ f = FF g) \/ (exists c B A, f = FI (iir_mk c B A)).
Lemma new_reset f : is_new f -> filt_reset f = f.
Proof.
  intros [(chick & k & h & m0 & g & Hg & ->) | (c & B & A & ->)]; cbn [filt_reset]; [|reflexivity].
  f_equal. unfold fir_mk in Hg. destruct (alen h - m0 - 1 <? 0); try discriminate. injection Hg as <-. reflexivity.
Qed.
Lemma reset_is_new_lemma f ops r : is_new f -> run_ops f ops = Ok r -> filt_reset (snd r) = f.
Proof. intros Hn H. rewrite (run_ops_reset _ _ _ H). apply new_reset. assumption. Qed.

(** * Whole-stream corollaries *)
Lemma iir_stream_blocks_count f t b k r : Forall (fun a => is_int a = k) (b :: t) ->
  stream (FI f) (b :: t) = Ok r -> alen (fst (fst r)) + alen (snd (fst r)) = alen (aconcat (b :: t)).
Proof. intros HK H. rewrite (iir_stream_split_lemma f t b k HK) in H. apply iir_stream_count in H. exact H. Qed.

Lemma fir_stream_blocks_count chick kk h m0 f t b k r :
  fir_mk chick kk h m0 = Ok f -> fir_wt f -> 2 <= fir_N f -> 0 <= m0 ->
  Forall (fun a => is_int a = k) (b :: t) ->
  Forall (fun a => arr_ok a /\ fir_N f - 1 <= alen a) (b :: t) ->
  stream (FF f) (b :: t) = Ok r -> alen (fst (fst r)) + alen (snd (fst r)) = alen (aconcat (b :: t)).
Proof.
  intros Hmk Hwt HN Hm0 HK HP H.
  destruct (fir_mk_facts _ _ _ _ _ Hmk) as (Em & Ex & Hm1).
  rewrite (fir_stream_split_lemma f t b k) in H; try assumption; [|rewrite Ex; exact I].
  eapply fir_stream_count; try eassumption.
  destruct (aconcat_props (fun a => arr_ok a /\ fir_N f - 1 <= alen a) k) with (t := t) (b := b) as [[_ HL] _];
    try assumption.
  intros x1 x2 [Ha1 Hl1] [Ha2 Hl2] _. split; [apply arr_ok_acat; assumption|].
  rewrite alen_acat. pose proof (alen_nat x1). lia.
Qed.

(** * D9: the FIR history is taken from the new block only *)
Definition d9_taps : list float := [1; 1; 1]%float.
Definition one_tap_h : list float := [2%float].
Definition ex_taps : list float := [1; 2; 3]%float.
Definition d9_blocks : list arr := [AI [1]; AI [2]; AI [3]; AI [4; 5; 6]].
Lemma fir_short_block_refuted_lemma :
  exists f, fir_mk false 1 (AF d9_taps) 0 = Ok f /\ fir_wt f /\ fir_N f = 3 /\
    Forall (fun a => is_int a = true /\ arr_ok a /\ 1 <= alen a) d9_blocks /\
    (exists y1 r1 g1 y2 r2 g2,
        stream (FF f) d9_blocks = Ok (y1, r1, g1) /\
        stream (FF f) [aconcat d9_blocks] = Ok (y2, r2, g2) /\
        y1 = AI [1; 12; 15] /\ y2 = AI [1; 3; 6; 9; 12; 15] /\ alen y1 + alen r1 = 3 /\ alen (aconcat d9_blocks) = 6).
Proof.
  eexists. split; [reflexivity|]. split; [cbn; eexists; reflexivity|]. split; [reflexivity|]. split.
  - unfold d9_blocks. repeat constructor; cbn; lia.
  - do 6 eexists. split; [vm_compute; reflexivity|]. split; [vm_compute; reflexivity|].
    repeat split.
Qed.

Lemma fir_single_tap_refuted_lemma :
  exists f x, fir_mk false 1 (AF one_tap_h) 0 = Ok f /\ fir_wt f /\ fir_N f = 1 /\ is_int x = true /\ arr_ok x /\
    exists y r g, stream (FF f) [x] = Ok (y, r, g) /\ alen x = 4 /\ alen y + alen r = 8.
Proof.
  eexists. exists (AI [1; 2; 3; 4]). split; [reflexivity|]. split; [cbn; eexists; reflexivity|].
  split; [reflexivity|]. split; [reflexivity|]. split; [cbn; repeat constructor; lia|].
  do 3 eexists. split; [vm_compute; reflexivity|]. split; reflexivity.
Qed.

(** * Presets *)
Definition preset_min_block (n : Z) : Z := if n =? 0 then 7 else if n =? 4 then 18 else 0.
Lemma preset_split_lemma n f t b r :
  In n [0; 1; 2; 3; 4] -> preset n = Ok f ->
  Forall (fun a => is_int a = true /\ arr_ok a /\ preset_min_block n <= alen a) (b :: t) ->
  stream f (b :: t) = stream f [aconcat (b :: t)] /\
  (stream f (b :: t) = Ok r -> alen (fst (fst r)) + alen (snd (fst r)) = alen (aconcat (b :: t))).
Proof.
  intros Hn Hp HF.
  assert (HK : Forall (fun a => is_int a = true) (b :: t)) by (eapply Forall_impl; [|exact HF]; cbn; tauto).
  cbn [In] in Hn.
  destruct Hn as [<-|[<-|[<-|[<-|[<-|[]]]]]]; cbn [preset bind] in Hp.
  - (* CDXtract FIR *)
    destruct (fir_mk false 1 (AF cdxtract_h) 0) as [g| |] eqn:Eg; cbn [bind] in Hp; try discriminate.
    injection Hp as <-.
    assert (Hg := Eg). vm_compute in Hg. injection Hg as Hg.
    assert (Hwt : fir_wt g) by (rewrite <- Hg; cbn; eexists; reflexivity).
    assert (HN : fir_N g = 8) by (rewrite <- Hg; reflexivity).
    assert (HP : Forall (fun a => arr_ok a /\ fir_N g - 1 <= alen a) (b :: t)).
    { eapply Forall_impl; [|exact HF]. cbn beta. intros a (_ & Ha & Hl). rewrite HN. cbn in Hl. split; [assumption|lia]. }
    split.
    + apply (fir_stream_split_lemma g t b true); try assumption; [lia | rewrite <- Hg; exact I].
    + eapply fir_stream_blocks_count; try eassumption; lia.
  - injection Hp as <-. split; [eapply iir_stream_split_lemma; eassumption | eapply iir_stream_blocks_count; eassumption].
  - injection Hp as <-. split; [eapply iir_stream_split_lemma; eassumption | eapply iir_stream_blocks_count; eassumption].
  - injection Hp as <-. split; [eapply iir_stream_split_lemma; eassumption | eapply iir_stream_blocks_count; eassumption].
  - destruct (fir_mk true 52067 (AI chick_roland_h) 7) as [g| |] eqn:Eg; cbn [bind] in Hp; try discriminate.
    injection Hp as <-.
    assert (Hg := Eg). vm_compute in Hg. injection Hg as Hg.
    assert (Hwt : fir_wt g) by (rewrite <- Hg; cbn; split; [eexists; reflexivity | lia]).
    assert (HN : fir_N g = 19) by (rewrite <- Hg; reflexivity).
    assert (HP : Forall (fun a => arr_ok a /\ fir_N g - 1 <= alen a) (b :: t)).
    { eapply Forall_impl; [|exact HF]. cbn beta. intros a (_ & Ha & Hl). rewrite HN. cbn in Hl. split; [assumption|lia]. }
    split.
    + apply (fir_stream_split_lemma g t b true); try assumption; [lia | rewrite <- Hg; exact I].
    + eapply fir_stream_blocks_count; try eassumption; lia.
Qed.

Lemma cbuffer_refines_window_lemma :
  forall x N pushes A n, (0 < N \/ 0 < length x)%nat ->
    let cb := fold_left cb_push pushes (cb_init x N) in
    let w := firstn (Nat.max N (length x)) (rev pushes ++ x ++ repeat 0%float (N - length x)) in
    cb_N cb = Nat.max N (length x) /\
    ((length A <= cb_N cb)%nat -> cb_inner cb A = wdot A w) /\
    ((n <= cb_N cb)%nat -> cb_fill cb n = firstn n w).
Proof.
  intros x N pushes A n H. destruct (cb_init_spec x N H) as (Hok & HN & Hw).
  destruct (pushes_window pushes (cb_init x N) _ Hok Hw) as (Hok' & HN' & Hw'). cbn zeta.
  rewrite HN in Hw'. rewrite HN', HN. split; [reflexivity|]. split; intros Hle.
  - rewrite cb_inner_spec by (assumption || lia). rewrite Hw'. reflexivity.
  - rewrite cb_fill_spec by (assumption || lia). rewrite Hw'. reflexivity.
Qed.

(** * Saturation: the final casts never wrap *)
From Coq Require Import Floats.FloatAxioms.

Lemma digits2_pos_bound m : Z.pos m < 2 ^ Z.pos (digits2_pos m).
Proof.
  induction m as [m IH|m IH|]; cbn [digits2_pos]; rewrite ?Pos2Z.inj_succ, ?Z.pow_succ_r by lia; lia.
Qed.

Lemma valid_mantissa_bound s m e :
  SpecFloat.valid_binary prec emax (S754_finite s m e) = true -> Z.pos m < 2 ^ 53.
Proof.
  cbn [SpecFloat.valid_binary]. unfold bounded, canonical_mantissa, fexp, SpecFloat.emin, prec, emax.
  intros H. apply andb_prop in H. destruct H as [H _]. apply Zeq_bool_eq in H.
  pose proof (digits2_pos_bound m) as Hb.
  assert (Hd : Z.pos (digits2_pos m) <= 53) by lia.
  eapply Z.lt_le_trans; [exact Hb|]. apply Z.pow_le_mono_r; lia.
Qed.

Definition sat_M : positive := 9006924376834048.    (* 32767 * 2^38 *)

(** not (M*2^E < m*2^e) for positive canonical floats: e < E, or e = E and m <= M *)
Lemma not_gt_pos M E m e : SFltb (S754_finite false M E) (S754_finite false m e) = false ->
  e < E \/ (e = E /\ Z.pos m <= Z.pos M).
Proof.
  unfold SFltb, SFcompare. destruct (Z.compare_spec E e) as [He|He|He]; try discriminate; [|lia].
  subst e. change (Pos.compare_cont Eq M m) with (Pos.compare M m).
  destruct (Pos.compare_spec M m) as [Hm|Hm|Hm]; try discriminate; intros _; right; split; lia.
Qed.
(** not (-m*2^e < -(M*2^E)) *)
Lemma not_lt_neg M E m e : SFltb (S754_finite true m e) (S754_finite true M E) = false ->
  e < E \/ (e = E /\ Z.pos m <= Z.pos M).
Proof.
  unfold SFltb, SFcompare. destruct (Z.compare_spec e E) as [He|He|He]; try discriminate; [|lia].
  subst e. change (Pos.compare_cont Eq m M) with (Pos.compare m M).
  destruct (Pos.compare_spec m M) as [Hm|Hm|Hm]; cbn [CompOpp]; try discriminate; intros _; right; split; lia.
Qed.

Lemma pow2_ge k j : 0 <= j <= k -> 2 ^ j <= 2 ^ k.
Proof. intros H. apply Z.pow_le_mono_r; lia. Qed.

Lemma trunc_small m e : Z.pos m < 2 ^ 53 -> e < -38 -> 0 <= trunc_mag m e <= 16384.
Proof.
  intros Hm He. unfold trunc_mag. destruct (0 <=? e) eqn:E; [lia|].
  pose proof (pow2_ge (- e) 39 ltac:(lia)) as Hp. change (2 ^ 39) with 549755813888 in Hp.
  change (2 ^ 53) with 9007199254740992 in Hm.
  split; [apply Z.div_pos; lia|]. apply Z.div_le_upper_bound; [lia|]. nia.
Qed.
Lemma trunc_eq38 m : Z.pos m <= Z.pos sat_M -> 0 <= trunc_mag m (-38) <= 32767.
Proof.
  intros Hm. unfold trunc_mag. cbn [Z.leb Z.compare Z.opp]. change (2 ^ 38) with 274877906944.
  unfold sat_M in Hm. split; [apply Z.div_pos; lia|]. apply Z.div_le_upper_bound; lia.
Qed.

Lemma cast_short_Z_id z : -32768 <= z <= 32767 -> cast_short_Z z = z.
Proof.
  intros H. unfold cast_short_Z.
  destruct ((-2147483648 <=? z) && (z <=? 2147483647)) eqn:E; [|lia].
  rewrite Z.mod_small by lia. lia.
Qed.

Lemma iir16_saturates_lemma y :
  -32767 <= c_fix_int (c_bound y) <= 32767 /\
  (forall s m e, Prim2SF (c_bound y) = S754_finite s m e -> c_fix_int (c_bound y) = sgn s (trunc_mag m e)).
Proof.
  assert (Hgen : forall z, (32767 <? z)%float = false -> (z <? -32767)%float = false ->
     -32767 <= cast_i16 z <= 32767 /\
     (forall s m e, Prim2SF z = S754_finite s m e -> cast_i16 z = sgn s (trunc_mag m e))).
  { intros z E1 E2. rewrite ltb_spec in E1, E2.
    change (Prim2SF 32767%float) with (S754_finite false sat_M (-38)) in E1.
    change (Prim2SF (-32767)%float) with (S754_finite true sat_M (-38)) in E2.
    pose proof (Prim2SF_valid z) as Hv. unfold cast_i16.
    destruct (Prim2SF z) as [s0|s0| |s0 m0 e0] eqn:Ez; try (split; [lia | intros; discriminate]).
    apply valid_mantissa_bound in Hv.
    assert (Ht : 0 <= trunc_mag m0 e0 <= 32767).
    { destruct s0.
      - destruct (not_lt_neg _ _ _ _ E2) as [He|[-> Hm]]; [pose proof (trunc_small m0 e0 Hv He); lia | apply trunc_eq38; assumption].
      - destruct (not_gt_pos _ _ _ _ E1) as [He|[-> Hm]]; [pose proof (trunc_small m0 e0 Hv He); lia | apply trunc_eq38; assumption]. }
    assert (Hc : cast_short_Z (sgn s0 (trunc_mag m0 e0)) = sgn s0 (trunc_mag m0 e0))
      by (apply cast_short_Z_id; destruct s0; cbn [sgn]; lia).
    rewrite Hc. split; [destruct s0; cbn [sgn]; lia|]. intros s m e [= <- <- <-]. reflexivity. }
  unfold c_fix_int, c_bound.
  destruct (32767 <? y)%float eqn:E1.
  - split; [vm_compute; split; discriminate|]. intros s m e H.
    assert (Hp : Prim2SF 32767%float = S754_finite false sat_M (-38)) by (vm_compute; reflexivity).
    rewrite Hp in H. injection H as <- <- <-. vm_compute. reflexivity.
  - destruct (y <? -32767)%float eqn:E2.
    + split; [vm_compute; split; discriminate|]. intros s m e H.
      assert (Hp : Prim2SF (-32767)%float = S754_finite true sat_M (-38)) by (vm_compute; reflexivity).
      rewrite Hp in H. injection H as <- <- <-. vm_compute. reflexivity.
    + apply Hgen; assumption.
Qed.

Definition f32767 : float := 32767%float.
Definition fm32768 : float := (-32768)%float.
Definition round_away_sf (x : spec_float) : Z :=
  match x with S754_finite s m e => sgn s (round_away_mag m e) | _ => 0 end.
Definition trunc_sf (x : spec_float) : Z :=
  match x with S754_finite s m e => sgn s (trunc_mag m e) | _ => 0 end.

Lemma round_nonneg m e : 0 <= round_away_mag m e.
Proof.
  unfold round_away_mag. destruct (0 <=? e) eqn:E.
  - apply Z.mul_nonneg_nonneg; [lia | apply Z.pow_nonneg; lia].
  - assert (0 < 2 ^ (- e)) by (apply Z.pow_pos_nonneg; lia). apply Z.div_pos; lia.
Qed.
Lemma round_eq38 m : Z.pos m <= Z.pos sat_M -> round_away_mag m (-38) <= 32767.
Proof.
  intros Hm. unfold round_away_mag. cbn [Z.leb Z.compare Z.opp]. change (2 ^ 38) with 274877906944.
  unfold sat_M in Hm. apply Z.lt_succ_r. apply Z.div_lt_upper_bound; lia.
Qed.
Lemma round_eq37 m : Z.pos m <= 4503599627370496 -> round_away_mag m (-37) <= 32768.
Proof.
  intros Hm. unfold round_away_mag. cbn [Z.leb Z.compare Z.opp]. change (2 ^ 37) with 137438953472.
  apply Z.lt_succ_r. apply Z.div_lt_upper_bound; lia.
Qed.

Lemma fir16_saturates_lemma x :
  c_bound_and_fix x =
    (if (32767 <? x)%float then 32767 else if (x <? -32768)%float then -32768
     else round_away_sf (Prim2SF x)) /\
  -32768 <= c_bound_and_fix x <= 32767.
Proof.
  unfold c_bound_and_fix.
  destruct (32767 <? x)%float eqn:E1; [split; [reflexivity|lia]|].
  destruct (x <? -32768)%float eqn:E2; [split; [reflexivity|lia]|].
  rewrite ltb_spec in E1, E2.
  assert (Hp : Prim2SF 32767%float = S754_finite false sat_M (-38)) by (vm_compute; reflexivity).
  assert (Hn : Prim2SF (-32768)%float = S754_finite true 4503599627370496 (-37)) by (vm_compute; reflexivity).
  rewrite Hp in E1. rewrite Hn in E2.
  pose proof (Prim2SF_valid x) as Hv. unfold c_round_short, round_away_sf.
  destruct (Prim2SF x) as [s0|s0| |s0 m0 e0] eqn:Ez; try (split; [reflexivity|lia]).
  apply valid_mantissa_bound in Hv. pose proof (round_nonneg m0 e0) as H0.
  assert (Ht : -32768 <= sgn s0 (round_away_mag m0 e0) <= 32767).
  { destruct s0; cbn [sgn].
    - destruct (not_lt_neg _ _ _ _ E2) as [He|[-> Hm]].
      + assert (Hr2 : round_away_mag m0 e0 <= 32768).
        { unfold round_away_mag. destruct (0 <=? e0) eqn:Ee; [lia|].
          assert (Hd : 2 ^ 38 <= 2 ^ (- e0)) by (apply pow2_ge; lia).
          change (2 ^ 38) with 274877906944 in Hd. change (2 ^ 53) with 9007199254740992 in Hv.
          remember (2 ^ (- e0)) as d eqn:Ed. clear Ed H0.
          apply Z.lt_succ_r. apply Z.div_lt_upper_bound; lia. }
        lia.
      + pose proof (round_eq37 m0 Hm). lia.
    - destruct (not_gt_pos _ _ _ _ E1) as [He|[-> Hm]].
      + assert (Hr2 : round_away_mag m0 e0 <= 16385).
        { unfold round_away_mag. destruct (0 <=? e0) eqn:Ee; [lia|].
          assert (Hd : 2 ^ 39 <= 2 ^ (- e0)) by (apply pow2_ge; lia).
          change (2 ^ 39) with 549755813888 in Hd. change (2 ^ 53) with 9007199254740992 in Hv.
          remember (2 ^ (- e0)) as d eqn:Ed. clear Ed H0.
          apply Z.lt_succ_r. apply Z.div_lt_upper_bound; lia. }
        lia.
      + pose proof (round_eq38 m0 Hm). lia. }
  rewrite cast_short_Z_id by assumption. split; [reflexivity | assumption].
Qed.

(** every sample produced by the 16-bit kernels went through the saturating step *)
Lemma iir_loop_outputs post B At k : forall x xw yw,
  Forall (fun y => exists z, y = post z) (fst (fst (iir_loop post B At k xw yw x))).
Proof.
  induction x as [|v t IH]; intros xw yw; cbn [iir_loop]; [constructor|].
  set (y := post _). specialize (IH (cb_push xw v) (cb_push yw y)).
  destruct (iir_loop post B At k (cb_push xw v) (cb_push yw y) t) as [[o a] b]. cbn [fst] in *.
  constructor; [eexists; reflexivity | exact IH].
Qed.

Lemma chick_iir_output_range f l y g : i_chick f = true -> iir_process f (AI l) = Ok (y, g) ->
  exists o, y = AI o /\ Forall (fun z => -32767 <= z <= 32767) o.
Proof.
  intros Hc. unfold iir_process. rewrite Hc. unfold iir_core.
  destruct (negb (iir_pre _ _ _ _)); cbn [bind]; try discriminate.
  pose proof (iir_loop_outputs c_bound (i_B f) (tl (i_A f)) (hd 0%float (i_A f)) (map z2f l)
                (cb_init (i_xprev f) (length (i_xprev f) + 1)) (cb_init (i_yprev f) (length (i_yprev f)))) as HF.
  destruct (iir_loop _ _ _ _ _ _ _) as [[o a] b]. cbn [fst bind] in *. intros [= <- <-].
  eexists. split; [reflexivity|]. apply Forall_forall. intros z Hz. apply in_map_iff in Hz.
  destruct Hz as (w & <- & Hw). destruct (proj1 (Forall_forall _ _) HF w Hw) as (u & ->).
  apply iir16_saturates_lemma.
Qed.

Lemma chick_fir_output_range k hr N w :
  Forall (fun z => -32768 <= z <= 32767) (conv_valid (chick_dot k hr) N w).
Proof.
  unfold conv_valid. destruct (length w <? N)%nat; [constructor|].
  apply Forall_forall. intros z Hz. apply in_map_iff in Hz. destruct Hz as (u & <- & _).
  unfold chick_dot. apply fir16_saturates_lemma.
Qed.
