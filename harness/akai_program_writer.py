"""Independent serialiser of AKAI S1000/S3000 program files (header + keygroup chain).

Written from the format as the construct declarations of the program/keygroup records
define it (field order, widths, signedness) and NOT by calling them: this module imports
nothing from /repo.  A logical program (every header field, a list of keygroups each with
four velocity-zone slots) is placed in a file body: the 72-byte header at offset 0, each
150-byte keygroup at an address of the writer's choosing, linked through the
next-keygroup-address words.

FIELDS tables: (name, kind) with kind one of
  u8 s8 u16 s16       plain integers (little endian)
  note                u8 shown as a note name
  bool                u8, 0 = False, anything else = True
  cents               s8 shown as a float number of cents
  enum:<name>         u8 with a fixed set of legal raw values
  omni / off          u8 where 255 is shown as a word
  map:<name>          u8 mapped through a small table with a default
  name                12 AKAI-coded characters, right padded with AKAI space
  pad:<n>[:<hex>]     n filler bytes
"""
from __future__ import annotations
import struct
from typing import Dict, List, Optional, Tuple

from akai_writer import akai_name, AKAI_ALPHABET

PROGRAM_HEADER_FIELDS: List[Tuple[str, str]] = [
    ("program_id", "u8"),
    ("first_keygroup_address", "u16"),
    ("program_name", "name"),
    ("midi_program_number", "u8"),
    ("midi_channel", "omni"),
    ("polyphony", "u8"),
    ("priority", "enum:priority"),
    ("low_key", "note"),
    ("high_key", "note"),
    ("octave_shift", "s8"),
    ("aux_output_select", "off"),
    ("mix_output_level", "u8"),
    ("mix_output_pan", "s8"),
    ("volume", "u8"),
    ("vel_to_volume", "s8"),
    ("key_to_volume", "s8"),
    ("pres_to_volume", "s8"),
    ("pan_lfo_rate", "u8"),
    ("pan_lfo_depth", "u8"),
    ("pan_lfo_delay", "u8"),
    ("key_to_pan", "s8"),
    ("lfo_rate", "u8"),
    ("lfo_depth", "u8"),
    ("lfo_delay", "u8"),
    ("mod_to_lfo_depth", "u8"),
    ("pres_to_lfo_depth", "u8"),
    ("vel_to_lfo_depth", "u8"),
    ("bend_to_pitch", "u8"),
    ("pres_to_pitch", "s8"),
    ("keygroup_crossfade", "bool"),
    ("number_of_keygroups", "u8"),
    ("_program_number", "pad:1"),
] + [("key_temperaments[%d]" % i, "u8") for i in range(12)] + [
    ("fx_output", "bool"),
    ("mod_to_pan", "s8"),
    ("stereo_coherence", "bool"),
    ("lfo_desync", "bool"),
    ("pitch_law", "u8"),
    ("voice_reassign", "enum:reassign"),
    ("softped_to_volume", "u8"),
    ("softped_to_attack", "u8"),
    ("softped_to_filter", "u8"),
    ("tune_cents", "cents"),
    ("tune_semitones", "s8"),
    ("key_to_lfo_rate", "s8"),
    ("key_to_lfo_depth", "s8"),
    ("key_to_lfo_delay", "s8"),
    ("voice_output_scale_db", "map:voice_db"),
    ("stereo_output_scale_db", "map:stereo_db"),
]
PROGRAM_HEADER_SIZE = 72

ZONE_FIELDS: List[Tuple[str, str]] = [
    ("sample_name", "name"),
    ("low_velocity", "u8"),
    ("high_velocity", "u8"),
    ("tune_cents", "cents"),
    ("tune_semitones", "s8"),
    ("loudness_offset", "s8"),
    ("filter_cutoff_offset", "s8"),
    ("pan_offset", "s8"),
    ("loop_mode", "map:zone_loop"),
    ("_pad_ff", "pad:2:ff"),
    ("_pad_2c", "pad:1:2c"),
    ("_pad_01", "pad:1:01"),
]
ZONE_SIZE = 24

KEYGROUP_HEAD_FIELDS: List[Tuple[str, str]] = [
    ("block_id", "u8"),
    ("next_keygroup_address", "u16"),
    ("low_key", "note"),
    ("high_key", "note"),
    ("tune_cents", "cents"),
    ("tune_semitones", "s8"),
    ("filter_cutoff", "u8"),
    ("key_to_filter_cutoff", "u8"),
    ("velocity_to_filter_cutoff", "s8"),
    ("pressure_to_filter_cutoff", "s8"),
    ("env2_to_filter_cutoff", "s8"),
    ("env1_attack", "u8"),
    ("env1_decay", "u8"),
    ("env1_sustain", "u8"),
    ("env1_release", "u8"),
    ("env1_velocity_to_attack", "s8"),
    ("env1_velocity_to_release", "s8"),
    ("env1_off_velocity_to_release", "s8"),
    ("env1_key_to_decay_and_release", "s8"),
    ("env2_attack", "u8"),
    ("env2_decay", "u8"),
    ("env2_sustain", "u8"),
    ("env2_release", "u8"),
    ("env2_velocity_to_attack", "s8"),
    ("env2_velocity_to_release", "s8"),
    ("env2_off_velocity_to_release", "s8"),
    ("env2_key_to_decay_and_release", "s8"),
    ("velocity_to_env2_to_filter_cutoff", "s8"),
    ("env2_to_pitch", "s8"),
    ("velocity_zone_crossfade", "bool"),
    ("num_velocity_zones", "u8"),
    ("_pad_ff", "pad:2:ff"),
]
KEYGROUP_TAIL_FIELDS_A: List[Tuple[str, str]] = [
    ("beat_detune", "s8"),
    ("hold_attack_until_loop", "bool"),
]
# then: enable_key_tracking bool[4], aux_out_offset u8[4], velocity_to_sample_start s16[4]
KEYGROUP_TAIL_FIELDS_B: List[Tuple[str, str]] = [
    ("velocity_to_volume_offset", "s8"),
    ("_pad", "pad:1"),
]
KEYGROUP_SIZE = 150
NUM_ZONES = 4

ENUMS: Dict[str, Dict[int, str]] = {
    "priority": {0: "Low", 1: "Normal", 2: "High", 3: "Hold"},
    "reassign": {0: "Oldest", 1: "Quietiest"},
    "sample_type": {1: "S1000 Sample", 3: "S3000 Sample"},
    "sample_loop": {0: "Loop in release", 1: "Loop until release", 2: "No loop", 3: "Play until end",
                    4: "Loop as sample"},
}
# raw byte -> shown value, with the value shown for every other raw byte
MAPS: Dict[str, Tuple[Dict[int, str], str]] = {
    "voice_db": ({0: "-6", 1: "0", 2: "12"}, "0"),
    "stereo_db": ({0: "0", 1: "6"}, "0"),
    "zone_loop": ({0: "Loop as sample", 1: "Loop in release", 2: "Loop until release", 3: "No loop",
                   4: "Play until end"}, "Loop as sample"),
}

NOTE_NAMES = ["A", "A#", "B", "C", "C#", "D", "D#", "E", "F", "F#", "G", "G#"]


def note_text(raw: int) -> str:
    """AKAI key byte: 21 = A0 ... 24 = C0, 60 = C3."""
    k = raw - 21
    return "%s%d" % (NOTE_NAMES[k % 12], k // 12)


def cents_value(raw: int):
    """Signed tuning byte -> cents: 0 stays the integer 0, otherwise the line through
    (-128, -50) with slope 100/255."""
    if raw == 0:
        return 0
    return (100 / 255) * (raw - (-128)) + (-50)


def shown(kind: str, raw) -> Optional[str]:
    """The text the property says `ls` shows for a stored raw value (None for filler)."""
    if kind in ("u8", "s8", "u16", "s16", "u32"):
        return str(raw)
    if kind == "note":
        return note_text(raw)
    if kind == "bool":
        return "True" if raw != 0 else "False"
    if kind == "cents":
        return str(cents_value(raw))
    if kind == "omni":
        return "Omni" if raw == 255 else str(raw)
    if kind == "off":
        return "Off" if raw == 255 else str(raw)
    if kind.startswith("enum:"):
        return ENUMS[kind[5:]][raw]
    if kind.startswith("map:"):
        m, d = MAPS[kind[4:]]
        return m.get(raw, d)
    if kind == "name":
        return raw.upper().rstrip(" ")
    return None


def encode(kind: str, raw) -> bytes:
    if kind in ("u8", "note", "bool", "omni", "off") or kind.startswith("enum:") or kind.startswith("map:"):
        return struct.pack("<B", raw)
    if kind in ("s8", "cents"):
        return struct.pack("<b", raw)
    if kind == "u16":
        return struct.pack("<H", raw)
    if kind == "s16":
        return struct.pack("<h", raw)
    if kind == "name":
        return akai_name(raw)
    if kind.startswith("pad:"):
        parts = kind.split(":")
        return bytes([int(parts[2], 16) if len(parts) > 2 else 0]) * int(parts[1])
    raise ValueError(kind)


def random_raw(rng, kind: str):
    """An in-range raw value of the kind, biased to the ends of the range."""
    def pick(lo, hi):
        r = rng.random()
        if r < 0.08:
            return lo
        if r < 0.16:
            return hi
        if r < 0.22:
            return rng.choice([v for v in (0, 1, -1, 127, 128, 255) if lo <= v <= hi])
        return rng.randint(lo, hi)
    if kind in ("u8", "note", "omni", "off"):
        return pick(0, 255)
    if kind == "bool":
        return rng.choice([0, 0, 1, 1, 2, 255, rng.randint(0, 255)])
    if kind in ("s8", "cents"):
        return pick(-128, 127)
    if kind == "u16":
        return pick(0, 65535)
    if kind == "s16":
        return pick(-32768, 32767)
    if kind.startswith("enum:"):
        return rng.choice(sorted(ENUMS[kind[5:]]))
    if kind.startswith("map:"):
        m, _ = MAPS[kind[4:]]
        return rng.choice(sorted(m) + [rng.randint(0, 255)])
    if kind == "name":
        n = rng.randint(1, 12)
        s = "".join(rng.choice(AKAI_ALPHABET) for _ in range(n))
        return s.rstrip(" ") or "Z"
    if kind.startswith("pad:"):
        return None
    raise ValueError(kind)


def pack_fields(fields, values: Dict[str, object]) -> bytes:
    return b"".join(encode(k, values.get(n)) for n, k in fields)


def program_header_bytes(h: Dict[str, object]) -> bytes:
    b = pack_fields(PROGRAM_HEADER_FIELDS, h)
    assert len(b) == PROGRAM_HEADER_SIZE, len(b)
    return b


def keygroup_bytes(kg: Dict[str, object]) -> bytes:
    """kg: head/tail field values + 'zones' = list of NUM_ZONES dicts (ZONE_FIELDS values +
    enable_key_tracking, aux_out_offset, velocity_to_sample_start)."""
    zones = kg["zones"]
    assert len(zones) == NUM_ZONES and kg["num_velocity_zones"] == NUM_ZONES
    b = pack_fields(KEYGROUP_HEAD_FIELDS, kg)
    for z in zones:
        zb = pack_fields(ZONE_FIELDS, z)
        assert len(zb) == ZONE_SIZE
        b += zb
    b += pack_fields(KEYGROUP_TAIL_FIELDS_A, kg)
    b += b"".join(struct.pack("<B", z["enable_key_tracking"]) for z in zones)
    b += b"".join(struct.pack("<B", z["aux_out_offset"]) for z in zones)
    b += b"".join(struct.pack("<h", z["velocity_to_sample_start"]) for z in zones)
    b += pack_fields(KEYGROUP_TAIL_FIELDS_B, kg)
    assert len(b) == KEYGROUP_SIZE, len(b)
    return b


def program_file_bytes(header: Dict[str, object], keygroups: List[Dict[str, object]],
                       addresses: List[int], filler: int = 0) -> bytes:
    """Header at 0, keygroup k at addresses[k]; header['first_keygroup_address'] and each
    keygroup's 'next_keygroup_address' must already hold the addresses the caller wants
    stored (this function does not touch them)."""
    size = max([PROGRAM_HEADER_SIZE] + [a + KEYGROUP_SIZE for a in addresses])
    body = bytearray([filler]) * size
    body[0:PROGRAM_HEADER_SIZE] = program_header_bytes(header)
    for a, kg in zip(addresses, keygroups):
        body[a:a + KEYGROUP_SIZE] = keygroup_bytes(kg)
    return bytes(body)


def random_zone(rng, active: bool) -> Dict[str, object]:
    z = {n: random_raw(rng, k) for n, k in ZONE_FIELDS}
    if not active:
        z["sample_name"] = ""
    z["enable_key_tracking"] = random_raw(rng, "bool")
    z["aux_out_offset"] = random_raw(rng, "u8")
    z["velocity_to_sample_start"] = random_raw(rng, "s16")
    return z


def random_keygroup(rng, active_mask: List[bool]) -> Dict[str, object]:
    kg = {n: random_raw(rng, k) for n, k in KEYGROUP_HEAD_FIELDS + KEYGROUP_TAIL_FIELDS_A + KEYGROUP_TAIL_FIELDS_B}
    kg["num_velocity_zones"] = NUM_ZONES
    kg["zones"] = [random_zone(rng, a) for a in active_mask]
    return kg


def random_program(rng, n_keygroups: int, layout: str = "random", zone_masks=None):
    """-> (header, keygroups, addresses).  layout: 'sequential' (150, 300, ...) or 'random'
    (non-overlapping slots in shuffled order with gaps)."""
    header = {n: random_raw(rng, k) for n, k in PROGRAM_HEADER_FIELDS}
    header["number_of_keygroups"] = n_keygroups
    slots = list(range(n_keygroups))
    if layout == "random":
        rng.shuffle(slots)
        gap = [rng.choice([0, 0, 1, 7, 150]) for _ in range(n_keygroups)]
        base = PROGRAM_HEADER_SIZE + rng.choice([0, 3, 78])
    else:
        gap = [0] * n_keygroups
        base = 150
    pos, addr_of_slot = base, []
    for i in range(n_keygroups):
        pos += gap[i]
        addr_of_slot.append(pos)
        pos += KEYGROUP_SIZE
    addresses = [addr_of_slot[slots[k]] for k in range(n_keygroups)]
    keygroups = []
    for k in range(n_keygroups):
        mask = zone_masks[k] if zone_masks else [rng.random() < 0.6 for _ in range(NUM_ZONES)]
        kg = random_keygroup(rng, mask)
        # last keygroup: any stored word is legal (it is not followed)
        kg["next_keygroup_address"] = addresses[k + 1] if k + 1 < n_keygroups else rng.choice([0, 0, addresses[0], 65535])
        keygroups.append(kg)
    header["first_keygroup_address"] = addresses[0] if n_keygroups else rng.choice([0, 150])
    return header, keygroups, addresses
