"""Cue sheet generator shared by C17 / C03 / C09: a logical cue sheet (the harness's own
AST), its canonical text, and cosmetic decorations that must not change its meaning."""
import random

UNRECOGNISED = ['REM GENRE Rock', 'PERFORMER "Somebody"', 'FLAGS DCP', 'PREGAP 00:02:00', 'CATALOG 1234567890123',
                'SONGWRITER "x"', 'ISRC ABCDE1234567', 'POSTGAP 00:01:00', 'REM TRACK info', 'TITLE noquotes',
                'REM INDEX 01 00:00:00', 'CDTEXTFILE "a.cdt"',
                # bare keywords and one-token lines (nothing after the keyword)
                'REM', 'rem', 'FLAGS', 'PREGAP', 'PERFORMER', 'X', '"', '0', ':', 'REM ""']
BLANKS = ["", "   ", "\t", " \t "]


def canonical(sheet):
    """sheet = {'bin': str, 'tracks': [{'number','mode','title' (None|str),'indices':[(n,m,s,f)...]}]}"""
    lines = ['FILE "%s" BINARY' % sheet["bin"]]
    for t in sheet["tracks"]:
        lines.append("TRACK %02d %s" % (t["number"], t["mode"]))
        if t["title"] is not None:
            lines.append('TITLE "%s"' % t["title"])
        for (n, m, s, f) in t["indices"]:
            lines.append("INDEX %02d %02d:%02d:%02d" % (n, m, s, f))
    return lines


def meaning(sheet):
    return (sheet["bin"], [(t["number"], t["mode"].lower(), t["title"], [tuple(i) for i in t["indices"]]) for t in sheet["tracks"]])


def meaning_of_parsed(c):
    return (c.bin_file_name, [(t.number, t.mode.lower(), t.title, [(i.number, i.n_minutes, i.n_seconds, i.n_frames) for i in t.indices])
                              for t in c.tracks])


def random_sheet(rng, ntracks=None, audio_only=True, increasing=True):
    n = ntracks or rng.randint(1, 6)
    tracks, fr = [], rng.randint(0, 3)
    for k in range(n):
        idx = []
        nidx = rng.choice([1, 1, 2, 3])
        f0 = fr
        for j in range(nidx):
            idx.append((j if nidx > 1 else 1, f0 // (75 * 60), (f0 // 75) % 60, f0 % 75))
            f0 += rng.randint(0, 3)
        title = rng.choice([None, "Song %d" % k, "a b", "X-%d" % k, "It's", "Tr#%d.%d" % (k, k)])
        mode = "AUDIO" if audio_only or rng.random() < 0.6 else rng.choice(["MODE1/2352", "MODE1/2048", "MODE2/2352"])
        tracks.append({"number": k + 1, "mode": mode, "title": title, "indices": idx})
        fr += rng.randint(1, 9) if increasing else rng.randint(-2, 9)
        fr = max(fr, 0)
    return {"bin": rng.choice(["image.bin", "my disc.bin", "a.BIN"]), "tracks": tracks}


def recase(rng, s, mode):
    if mode == "lower":
        return s.lower()
    if mode == "upper":
        return s.upper()
    return "".join(c.upper() if rng.random() < 0.5 else c.lower() for c in s)


def decorate(rng, sheet, case=None, pad=False, inner=False, blanks=0, junk=0, blank_positions=None, junk_positions=None):
    """Returns decorated lines.  Keywords (FILE, BINARY, TRACK, TITLE, INDEX and the mode
    word) are re-cased; lines padded with blanks; runs of blanks between tokens widened;
    blank lines inserted anywhere; unrecognised lines inserted before FILE or inside a track."""
    def K(w):
        return recase(rng, w, case) if case else w
    sp = (lambda: rng.choice(["  ", "\t", " \t  "])) if inner else (lambda: " ")
    lines = [K("FILE") + sp() + '"%s"' % sheet["bin"] + sp() + K("BINARY")]
    kinds = ["file"]
    for t in sheet["tracks"]:
        lines.append(K("TRACK") + sp() + "%02d" % t["number"] + sp() + K(t["mode"]))
        kinds.append("track")
        if t["title"] is not None:
            lines.append(K("TITLE") + sp() + '"%s"' % t["title"])
            kinds.append("in")
        for (n, m, s, f) in t["indices"]:
            lines.append(K("INDEX") + sp() + "%02d" % n + sp() + "%02d:%02d:%02d" % (m, s, f))
            kinds.append("in")
    if pad:
        lines = [rng.choice(["", " ", "\t", "   "]) + l + rng.choice(["", " ", "\t ", "  "]) for l in lines]
    # insertion positions: p in 0..len(lines); junk allowed at p == 0 (before FILE) or when the
    # line before p is a TRACK line or inside a track (kinds[p-1] in track/in)
    ins = []
    bp = blank_positions if blank_positions is not None else [rng.randint(0, len(lines)) for _ in range(blanks)]
    for p in bp:
        ins.append((p, rng.choice(BLANKS)))
    jp = junk_positions if junk_positions is not None else None
    if jp is None:
        allowed = [0] + [p for p in range(1, len(lines) + 1) if kinds[p - 1] in ("track", "in")]
        jp = [rng.choice(allowed) for _ in range(junk)]
    for p in jp:
        ins.append((p, rng.choice(UNRECOGNISED)))
    for p, txt in sorted(ins, key=lambda x: -x[0]):
        lines.insert(p, txt)
    return lines


def junk_allowed_positions(sheet):
    kinds = ["file"]
    for t in sheet["tracks"]:
        kinds.append("track")
        kinds += ["in"] * ((1 if t["title"] is not None else 0) + len(t["indices"]))
    return [0] + [p for p in range(1, len(kinds) + 1) if kinds[p - 1] in ("track", "in")], len(kinds)
