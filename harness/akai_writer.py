"""Independent AKAI S1000/S3000 image writer.

Written from the format as the properties describe it (sector = 8192 bytes, 24-byte
directory entries, 140-byte sample header, ...) and *not* from smpl_extract code: it
imports nothing from /repo.  A logical model (partitions x volumes x files) plus an
allocation (which sectors, in which order, each file and directory occupies) is
serialised to bytes; `expected_export` gives what the property says `export` must
produce for it.
"""
from __future__ import annotations
import struct
from dataclasses import dataclass, field
from typing import List, Optional, Dict, Tuple

SECTOR = 8192
SAT_ENTRIES = 11386
VOLUME_ENTRIES = 100
HEADER_BYTES = 202 + VOLUME_ENTRIES * 16 + SAT_ENTRIES * 2      # 24574
HEADER_SECTORS = (HEADER_BYTES + SECTOR - 1) // SECTOR           # 3
SAT_FREE, SAT_EOF, SAT_RES_STD, SAT_RES_V2 = 0x0000, 0xC000, 0x4000, 0x8000
SAMPLE_HEADER = 140

_AKAI_CHARS = {}
for _i in range(10):
    _AKAI_CHARS[chr(ord('0') + _i)] = _i
_AKAI_CHARS[' '] = 0x0A
for _i in range(26):
    _AKAI_CHARS[chr(ord('A') + _i)] = 0x0B + _i
_AKAI_CHARS['#'] = 0x25
_AKAI_CHARS['+'] = 0x26
_AKAI_CHARS['-'] = 0x27
_AKAI_CHARS['.'] = 0x28
AKAI_ALPHABET = "".join(sorted(_AKAI_CHARS, key=lambda c: _AKAI_CHARS[c]))


def akai_name(name: str, n: int = 12) -> bytes:
    """12 AKAI-coded bytes, right-padded with AKAI space (0x0A)."""
    assert len(name) <= n, name
    return bytes(_AKAI_CHARS[c] for c in name.upper()) + bytes([0x0A]) * (n - len(name))


def displayed_name(name: str) -> str:
    """What the stored 12 bytes read back as (trailing pad stripped)."""
    return name.upper().rstrip(" ")


@dataclass
class Loop:
    at: int = 0
    fine: int = 0
    coarse: int = 0
    duration: int = 0


@dataclass
class SampleFile:
    name: str
    pcm: bytes = b""                      # n_words * 2 bytes, little endian 16-bit
    start: int = 0
    end: Optional[int] = None             # default: n_words
    rate: int = 44100
    type_byte: int = 0xF3                 # 0xF3 S3000 sample / 0x73 S1000 sample
    header_id: int = 3                    # 3 = S3000, 1 = S1000
    note: int = 60
    loop_type: int = 2                    # 2 = no loop
    cents: int = 0                        # raw signed byte
    semi: int = 0                         # raw signed byte
    sample_name: Optional[str] = None
    loops: List[Loop] = field(default_factory=list)
    sectors: Optional[List[int]] = None   # allocation; filled by allocator when None
    size_field: Optional[int] = None      # directory size (default: true byte size)
    raw_entry: Optional[bytes] = None     # override the 24-byte directory entry
    raw_body: Optional[bytes] = None      # override file content (non-sample file types)

    @property
    def n_words(self) -> int:
        return len(self.pcm) // 2

    @property
    def is_sample(self) -> bool:
        """False for directory slots that are not sample files (deleted entries, other or unknown file types)."""
        return self.raw_entry is None and self.type_byte in (0xF3, 0x73)

    def body(self) -> bytes:
        if self.raw_body is not None:
            return self.raw_body
        end = self.n_words if self.end is None else self.end
        loops = list(self.loops) + [Loop()] * (8 - len(self.loops))
        h = bytearray()
        h += bytes([self.header_id, 0, self.note])
        h += akai_name(self.sample_name if self.sample_name is not None else self.name)
        h += bytes(4)
        h += struct.pack("<Bbb", self.loop_type, self.cents, self.semi)
        h += bytes(4)
        h += struct.pack("<III", self.n_words, self.start, end)
        for lp in loops[:8]:
            h += struct.pack("<IHIH", lp.at, lp.fine, lp.coarse, lp.duration)
        h += bytes(4)
        h += struct.pack("<H", self.rate)
        assert len(h) == SAMPLE_HEADER, len(h)
        return bytes(h) + self.pcm

    def window(self) -> bytes:
        end = self.n_words if self.end is None else self.end
        return self.pcm[2 * self.start: 2 * end]


@dataclass
class Volume:
    name: str
    files: List[SampleFile] = field(default_factory=list)
    vtype: int = 3                        # 1 = S1000, 3 = S3000, 0 = inactive
    dir_style: str = "run"                # "run" (reserved-flag run) | "chain"
    dir_sectors: Optional[List[int]] = None
    res_flag: int = SAT_RES_STD
    end_mark: bool = True                 # write the 0xD747 end-of-table entry


@dataclass
class Partition:
    volumes: List[Volume] = field(default_factory=list)
    size_sectors: int = 64
    sat_overrides: Dict[int, int] = field(default_factory=dict)
    slots: Optional[List[int]] = None     # strictly increasing volume-table slots (0..99) of `volumes`; None = 0..n-1 (packed)


class Allocator:
    """Hands out sectors of one partition.  `order` is a callable taking the list of
    free sectors and a count, returning that many sectors in the order the chain shall
    have (so chains can be contiguous, reversed, shuffled, interleaved...)."""

    def __init__(self, size_sectors: int, order=None):
        self.free = list(range(HEADER_SECTORS + 2, size_sectors))
        self.order = order or (lambda free, n: free[:n])

    def take(self, n: int) -> List[int]:
        got = list(self.order(list(self.free), n))
        assert len(got) == n and len(set(got)) == n, (n, got)
        for s in got:
            self.free.remove(s)
        return got

    def take_run(self, n: int) -> List[int]:
        """n consecutive free sectors (for a reserved-flag directory run)."""
        fr = sorted(self.free)
        for i in range(len(fr) - n + 1):
            run = fr[i:i + n]
            if run[-1] - run[0] == n - 1:
                for s in run:
                    self.free.remove(s)
                return run
        raise RuntimeError("no run of %d free sectors" % n)


def file_entry(f: SampleFile, start_sector: int) -> bytes:
    if f.raw_entry is not None:
        return f.raw_entry
    size = len(f.body()) if f.size_field is None else f.size_field
    e = akai_name(f.name) + bytes(4) + bytes([f.type_byte]) + size.to_bytes(3, "little") \
        + struct.pack("<H", start_sector) + bytes(2)
    assert len(e) == 24
    return e


END_ENTRY = bytes(8) + struct.pack("<H", 0xD747) + bytes(14)


def partition_bytes(p: Partition, alloc: Optional[Allocator] = None) -> bytes:
    n = p.size_sectors
    assert 0 < n <= SAT_ENTRIES
    alloc = alloc or Allocator(n)
    sat = [SAT_FREE] * SAT_ENTRIES
    for s in range(HEADER_SECTORS):
        sat[s] = SAT_RES_STD
    data = bytearray(n * SECTOR)

    def put_chain(sectors: List[int], content: bytes):
        assert len(content) <= len(sectors) * SECTOR
        for i, s in enumerate(sectors):
            chunk = content[i * SECTOR:(i + 1) * SECTOR]
            data[s * SECTOR: s * SECTOR + len(chunk)] = chunk
        for a, b in zip(sectors, sectors[1:]):
            sat[a] = b
        sat[sectors[-1]] = SAT_EOF

    vol_entries = bytearray()
    # reserve directory areas first (runs need consecutive sectors)
    for v in p.volumes:
        need = max(1, -(-((len(v.files) + 1) * 24) // SECTOR))
        if v.dir_sectors is None:
            if v.dir_style == "run":
                v.dir_sectors = alloc.take_run(need)
            else:
                v.dir_sectors = alloc.take(need)
    for v in p.volumes:
        table = bytearray()
        for f in v.files:
            body = f.body()
            need = max(1, -(-len(body) // SECTOR))
            if f.sectors is None:
                f.sectors = alloc.take(need)
            put_chain(f.sectors, body)
            table += file_entry(f, f.sectors[0])
        if v.end_mark:
            table += END_ENTRY
        ds = v.dir_sectors
        assert len(table) <= len(ds) * SECTOR
        if v.dir_style == "run":
            for i, s in enumerate(ds):
                chunk = bytes(table[i * SECTOR:(i + 1) * SECTOR])
                data[s * SECTOR: s * SECTOR + len(chunk)] = chunk
                sat[s] = v.res_flag
        else:
            put_chain(ds, bytes(table))
    slots = list(range(len(p.volumes))) if p.slots is None else list(p.slots)
    assert len(slots) == len(p.volumes) and slots == sorted(set(slots)) and all(0 <= k < VOLUME_ENTRIES for k in slots), slots
    for i in range(VOLUME_ENTRIES):
        if i in slots:
            v = p.volumes[slots.index(i)]
            vol_entries += akai_name(v.name) + struct.pack("<HH", v.vtype, v.dir_sectors[0])
        else:
            vol_entries += akai_name("") + struct.pack("<HH", 0, 0)
    for k, val in p.sat_overrides.items():
        sat[k] = val
    x = n // 128 - 1
    hdr = struct.pack("<H", n) + b"\x00\x00"
    hdr += b"".join(struct.pack("<H", (3333 * i) & 0xFFFF) for i in range(1, 98))
    hdr += bytes([0x55 if x % 2 == 0 else 0xD5, (x // 2 + 0xBA) & 0xFF]) + b"\x2F\x00"
    assert len(hdr) == 202
    head = hdr + bytes(vol_entries) + b"".join(struct.pack("<H", w) for w in sat)
    assert len(head) == HEADER_BYTES
    data[0:len(head)] = head
    return bytes(data)


def image_bytes(parts: List[Partition], allocs: Optional[List[Allocator]] = None) -> bytes:
    out = b""
    for i, p in enumerate(parts):
        out += partition_bytes(p, allocs[i] if allocs else None)
    return out


def wrap_2352(data: bytes) -> bytes:
    out = bytearray()
    n = -(-len(data) // 2048)
    for i in range(n):
        blk = data[i * 2048:(i + 1) * 2048]
        blk = blk + bytes(2048 - len(blk))
        out += b"\x00" + b"\xFF" * 10 + b"\x00" + i.to_bytes(3, "big") + b"\x01" + blk + bytes(288)
    return bytes(out)


def wrap_mdx(data: bytes) -> bytes:
    hdr = b"MEDIA DESCRIPTOR" + b"\x02\x01" + b"\xA9" + b" " * 25 + b"\xFF" * 4 \
        + struct.pack("<Q", 64 + len(data)) + bytes(8)
    assert len(hdr) == 64
    return hdr + data
