"""C02 - Roland S-7xx export is byte-exact for every cluster chain and loop mode.

Property oracle (independent of the Coq model): the independent writer
harness/roland_writer.py serialises a logical disk (volumes -> performances -> patches ->
partials -> <= 4 samples, shared and orphaned entries, any cluster order, cluster_top,
loop mode, frequency code, FAT version) and says what the property text requires `export` to
write ({path: (channels, rate, pcm)}); the unchanged CLI exports the image and the two are
compared: the set of paths must be equal and every file's PCM, rate and channel count
identical.

Correspondence (extracted Coq model coq/Roland.v vs the real code on the same inputs):
  roland_params       the seven _get_*_params: window (offset, size, reversed) and loop regions
  roland_sample_read  the bytes read through the view the real SampleFile builds over a stream
  roland_offsets      directory / parameter record addressing of the five record kinds
  roland_ptr_filter   pointer lists: >= 0, sorted, de-duplicated
  roland_listing      volumes (incl. the orphan pseudo volume) -> performances -> sample files
  roland_sample_pcm   FAT words -> decoded links -> get_file(cluster_top) -> chained file ->
                      window -> reversal, with the table and cluster size scaled down
  roland_export.*     the WHOLE-IMAGE model coq/RolandImage.v (roland_export_gen over the sparse
                      image) against the real CLI export of EVERY generated image: same set of
                      paths, same rate / channels / length, same PCM; same exception class when
                      the export aborts (malformed family included)
  roland_ls           the tree (volume numbers and names, performances, programs, samples)
  raw_fat_check / raw_get_file   the raw-word FAT shortcuts against the real decoder
  sparse_read         the model's reader over the sparse image encoding against Python slicing
"""
import io
import itertools
import os
import random
import struct
import types

import framework as F
import model as M
import runner as R
import roland_writer as W

RULE = ("image level (oracle): every permutation of cluster chains of length 1..5 x cluster_top 0..2, "
        "contiguous blocks and chains interleaved in one shuffled pool; 7 loop modes x 6 frequency codes x FAT version 1/2 with random "
        "start/sustain/release points and fine parts; audio lengths k*9216 + {-2,0,+2} bytes (k = 1..3) x cluster_top 0..2 x forward/release/"
        "reverse windows ending on the last word; fixed and random trees with entries shared between parents, entries nobody references, "
        "performances no volume references (orphan pseudo volume), disks without volumes. EVERY generated image is also exported by the extracted whole-image "
        "Coq model (roland_export over the sparse image) and compared with the real CLI export: outcome / exception class, set of paths, rate, channels, length, PCM; "
        "that comparison (without the oracle) also runs on random trees with names that are sanitised, counted or paired into stereo files (plus the `ls` tree), on 24 kinds "
        "of damaged images (loop points, cluster_top, truncation, FAT loops / flags / id / version, entries at free / head / tail clusters, counters, non-ascii names, "
        "frequency and mode bytes, pointers outside the tables, cross-linked and mid-entered chains) and on the malformed family. "
        "Function level (correspondence): all 7 modes x point tuples over a small grid (exhaustive) and random 24-bit points; every record index "
        "of the five kinds at the ends and random inside; pointer lists exhaustive over {-1,0,1,2}^<=4 and random; all FATs with <= 4 live "
        "clusters holding one chain in every order x cluster_top x mode. distinct = distinct (kind, canonical case); a sample/image is "
        "non-trivial when its window is non-empty (image level: at least one sample is referenced)")

WPC = W.WORDS_PER_CLUSTER
# the extracted driver allocates a lot of short-lived cells: a larger minor heap halves its time
os.environ.setdefault("OCAMLRUNPARAM", "s=8M,o=400")


# =======================================================================================
# specs (JSON-able) -> writer model
# =======================================================================================
def build(spec) -> W.Disk:
    d = W.Disk(fat_version=spec.get("fat", 1))
    if spec.get("flags"):
        d.version_flags = tuple(spec["flags"])
    for n, s in spec["samples"]:
        d.add(W.SAMPLE, W.Sample(
            name=s["name"], pcm=W.tone(s["n"], s.get("seed", n)), start=s.get("start", 0),
            sustain_start=s.get("ss", 0), sustain_end=s.get("se"), release_start=s.get("rs", 0),
            release_end=s.get("re"), fines=tuple(s.get("fines", (0, 0, 0, 0, 0))), loop_mode=s.get("mode", 0),
            freq_code=s.get("freq", 1), cluster_top=s.get("top", 0),
            chain=list(s["chain"]) if s.get("chain") else None, extra_clusters=s.get("extra", 0)), n)
    for n, (name, lst) in spec["partials"]:
        d.add(W.PARTIAL, W.Partial(name, list(lst)), n)
    for n, (name, lst) in spec["patches"]:
        d.add(W.PATCH, W.Patch(name, list(lst)), n)
    for n, (name, lst) in spec["performances"]:
        d.add(W.PERFORMANCE, W.Performance(name, list(lst)), n)
    for n, (name, lst) in enumerate(spec["volumes"]):
        d.add(W.VOLUME, W.Volume(name, list(lst)), n)
    for k, v in spec.get("fat_overrides", {}).items():
        d.fat_overrides[int(k)] = v
    for (kind, num, off, hexs) in spec.get("raw", []):
        d.patches_raw[(kind, num, off)] = bytes.fromhex(hexs)
    return d


def flat_spec(samples, fat=1, per_partial=4, vol="VOL A", perf="PERF A"):
    """one volume / performance / patch holding all samples"""
    nums = [n for n, _ in samples]
    parts = [(i, ("PT %d" % i, nums[i * per_partial:(i + 1) * per_partial]))
             for i in range(-(-len(nums) // per_partial))]
    return {"fat": fat, "samples": samples, "partials": parts,
            "patches": [(0, ("PATCH A", [p for p, _ in parts]))],
            "performances": [(0, (perf, [0]))], "volumes": [(vol, [0])]}


def patch_multiplicity(disk: W.Disk, perf_no: int):
    """sample number -> through how many patches of this performance it is referenced"""
    mult = {}
    for pa in sorted(set(x for x in disk.performances[perf_no].patches if x >= 0)):
        if pa not in disk.patches:
            continue
        seen = set()
        for pt in set(x for x in disk.patches[pa].partials if x >= 0):
            if pt in disk.partials:
                seen |= set(s for s in disk.partials[pt].samples if s >= 0 and s in disk.samples)
        for s in seen:
            mult[s] = mult.get(s, 0) + 1
    return mult


# =======================================================================================
# the whole-image model against the real export
# =======================================================================================
def exc_class(e):
    """exception class name as harness/model.py maps it (first class of the MRO the model knows)"""
    if e is None:
        return None
    known = set(M.EXN.values())
    for c in type(e).__mro__:
        if c.__name__ in known:
            return c.__name__
    return type(e).__name__


def model_export(img):
    mv = M.res(M.call_batch("roland_export", [M.Raw(M.enc_image_runs(img))])[0])
    if mv[0] != "ok":
        return mv, None
    mod = {}
    for comps, rate, ch, pcm in mv[1]:
        mod["/".join("".join(map(chr, c)) for c in comps) + ".wav"] = (ch, rate, bytes(pcm))
    return mv, mod


def compare_model(ctx, case, img, r, tree):
    """real CLI export (result r, files tree) against roland_export of the extracted model"""
    mv, mod = model_export(img)
    if r.exc is not None or mod is None:
        # both must abort, with the same exception class
        ctx.agree("roland_export.outcome", case, ("err", exc_class(r.exc)) if r.exc is not None else ("ok",), mv[:2] if mod is None else ("ok",))
        return mod
    ctx.agree("roland_export.outcome", case, ("ok",), ("ok",))
    ctx.agree("roland_export.paths", case, sorted(tree), sorted(mod))
    for pth in sorted(set(tree) & set(mod)):
        w = R.parse_wav(tree[pth])
        mch, mrate, mdata = mod[pth]
        c2 = dict(case, file=pth)
        if not w["ok"]:
            ctx.agree("roland_export.header", c2, "unreadable WAV: " + str(w.get("why")), (mch, mrate, len(mdata)))
            continue
        ctx.agree("roland_export.header", c2, (w["channels"], w["rate"], len(w["data"])), (mch, mrate, len(mdata)))
        if w["channels"] == 2 and case.get("stereo_unequal"):
            continue      # a pair of unequal lengths: the padded tail is not modelled (Transcode.v, C12); header compared above
        ctx.agree("roland_export.pcm", c2, w["data"].hex()[:64] + "|%d" % hash(w["data"]), mdata.hex()[:64] + "|%d" % hash(mdata))
    return mod


def image_of_spec(spec):
    """bytes of the image a spec describes (incl. the post-serialisation damage keys)"""
    img = W.image_bytes(build(spec))
    if spec.get("truncate") is not None:
        img = img[:spec["truncate"]]
    return img


def check_model_only(ctx, spec, kind):
    """images the property text does not speak about (names that are sanitised / paired /
    counted, damaged records, damaged FAT, truncated files): real export vs whole-image model"""
    case = {"kind": kind, "spec": spec}
    if spec.get("stereo_unequal"):
        case["stereo_unequal"] = True
    try:
        img = image_of_spec(spec)
    except AssertionError:
        return
    with R.TempImage(img) as path:
        r, tree, _ = R.export(path)
    ctx.count("model-only image: " + kind.split(":")[0], repr(spec), nontrivial=bool(tree))
    mod = compare_model(ctx, case, img, r, tree)
    if spec.get("ls"):
        compare_ls(ctx, case, img)
    return r, tree, mod


def real_tree(path):
    from smpl_extract.base import ElementTypes
    image = R.open_image(path)
    try:
        out = []
        for vol in image.children:
            perfs = []
            for pf in vol.children:
                perfs.append([pf.name, [ch.name for ch in pf.children if ch.type_id == ElementTypes.ProgramEntry],
                              [ch.name for ch in pf.children if ch.type_id == ElementTypes.SampleEntry]])
            out.append([vol.index, vol.name, perfs])
        return out
    finally:
        R.close_image(image)


def compare_ls(ctx, case, img):
    mv = M.res(M.call_batch("roland_ls", [M.Raw(M.enc_image_runs(img))])[0])
    if mv[0] == "ok":
        mv = ("ok", [[i, "".join(map(chr, n)), [["".join(map(chr, pn)), ["".join(map(chr, x)) for x in progs], ["".join(map(chr, x)) for x in smps]]
                                               for pn, progs, smps in perfs]] for i, n, perfs in mv[1]])
    with R.TempImage(img) as path:
        impl = M.impl_res(real_tree, path)
    ctx.agree("roland_ls", case, impl, mv)


# =======================================================================================
# the oracle
# =======================================================================================
def check_image(ctx, spec, kind):
    disk = build(spec)
    img = W.image_bytes(disk)
    exp = W.expected_export(disk)
    case = {"kind": kind, "spec": spec}
    ctx.count("image:" + kind, repr(spec), nontrivial=bool(exp))
    with R.TempImage(img) as path:
        r, tree, reported = R.export(path)
    compare_model(ctx, case, img, r, tree)
    if not ctx.require("export of a well-formed image completes", case, r.exc is None,
                       {"exception": r.exc_name, "message": str(r.exc)[:200], "exported_before": len(tree)}):
        return
    got = set(tree)
    # copies "<name> (k).wav" of a sample referenced through k >= 2 patches of one performance
    # are the same audio under a counted name: tolerated (identical PCM required), see notes
    tolerated = {}
    for vname, perfs in W.volume_listing(disk):
        for p in perfs:
            for sn, m in patch_multiplicity(disk, p).items():
                for k in range(2, m + 1):
                    tolerated["%s/%s/%s (%d).wav" % (vname, disk.performances[p].name, disk.samples[sn].name, k)] = \
                        "%s/%s/%s.wav" % (vname, disk.performances[p].name, disk.samples[sn].name)
    extra = sorted(p for p in got - set(exp) if p not in tolerated)
    missing = sorted(set(exp) - got)
    ctx.require("exported paths are exactly <volume>/<performance>/<sample>.wav of every referenced sample",
                case, not extra and not missing, {"missing": missing[:8], "unexpected": extra[:8]})
    if any(p in got for p in tolerated):
        ctx.note("a sample referenced through several patches of one performance is exported once per patch "
                 "('NAME.wav', 'NAME (2).wav', identical audio): tolerated by the oracle, PCM of the copies checked")
    for p in sorted(got):
        ref = p if p in exp else tolerated.get(p)
        if ref is None or ref not in exp:
            continue
        ch, rate, pcm = exp[ref]
        w = R.parse_wav(tree[p])
        c2 = {"kind": kind, "path": p, "spec": spec}
        if not ctx.require("exported file is a readable RIFF/WAVE file", c2, w["ok"], w.get("why")):
            continue
        ctx.count("sample", (repr(spec), p), nontrivial=len(pcm) > 0)
        if w["data"] != pcm:
            n = next((i for i in range(min(len(pcm), len(w["data"]))) if pcm[i] != w["data"][i]), min(len(pcm), len(w["data"])))
            ctx.require("PCM equals the words start..end(loop mode) of the chain after cluster_top, reversed for modes 5,6",
                        c2, False, {"expected_bytes": len(pcm), "got_bytes": len(w["data"]), "first_difference_at": n})
        ctx.require("sample rate is the one of the frequency code", c2, w["rate"] == rate, {"expected": rate, "got": w["rate"]})
        ctx.require("mono sample exported with one channel", c2, w["channels"] == ch, {"expected": ch, "got": w["channels"]})


# =======================================================================================
# generators
# =======================================================================================
def rand_points(rng, n):
    """(start, ss, se, rs, re) inside n words, all orders of the two end points"""
    start = min(n - 1, rng.choice([0, 0, 1, rng.randrange(n)]))
    se = rng.choice([n - 1, start, rng.randrange(start, n)])
    re_ = rng.choice([n - 1, start, rng.randrange(start, n)])
    ss = rng.randrange(0, n)
    rs = rng.randrange(0, n)
    return start, ss, se, rs, re_


def sample_spec(name, n, pts=None, **kw):
    s = {"name": name, "n": n}
    if pts:
        s.update(start=pts[0], ss=pts[1], se=pts[2], rs=pts[3], re=pts[4])
    s.update(kw)
    return s


def gen_perms(rng, L, top, fat, interleave, idx):
    """every order of an L-cluster chain (first `top` clusters skipped)"""
    perms = list(itertools.permutations(range(L)))
    pool = list(range(2, 2 + L * len(perms) + 3))
    if interleave:
        rng.shuffle(pool)
    samples = []
    for i, perm in enumerate(perms):
        block = pool[i * L:(i + 1) * L]
        chain = [sorted(block)[p] for p in perm]
        data_clusters = L - top
        fill = [0, -1, -(WPC - 7), -rng.randrange(1, WPC)][(i + idx) % 4]       # words missing from the last cluster
        n = data_clusters * WPC + fill
        mode = (i + idx) % 7
        pts = rand_points(rng, n)
        if i % 3 == 0:
            pts = (pts[0], pts[1], n - 1, pts[3], n - 1)
        samples.append((i, sample_spec("P%d T%d N%d" % (L, top, i), n, pts, mode=mode, freq=i % 6, top=top, chain=chain,
                                       seed=rng.randrange(1 << 16), fines=[rng.randrange(256) for _ in range(5)])))
    return flat_spec(samples, fat=fat)


def gen_modes(rng, fat):
    samples = []
    i = 0
    for mode in range(7):
        for freq in range(6):
            n = rng.choice([1, 2, 17, 300, WPC, WPC + 5, 2 * WPC - 1])
            pts = rand_points(rng, n)
            samples.append((i, sample_spec("M%d F%d" % (mode, freq), n, pts, mode=mode, freq=freq,
                                           top=rng.choice([0, 0, 1]), seed=rng.randrange(1 << 16),
                                           fines=[rng.randrange(256) for _ in range(5)])))
            i += 1
    spec = flat_spec(samples, fat=fat)
    return spec


def gen_lengths(rng, fat, tops):
    samples = []
    i = 0
    for k in (1, 2, 3):
        for delta in (-2, 0, 2):
            for top in tops:
                for mode in (0, 1, 5, 6):
                    n = (k * W.CLUSTER + delta) // 2
                    start = rng.choice([0, 1, n - 1, rng.randrange(n)])
                    other = rng.randrange(start, n)
                    # the end point used by this mode is the last word; the other one is not
                    pts = (start, rng.randrange(n), other if mode in (1,) else n - 1, rng.randrange(n), n - 1 if mode in (1,) else other)
                    samples.append((i, sample_spec("K%d D%d T%d M%d" % (k, delta + 2, top, mode), n, pts, mode=mode,
                                                   freq=i % 6, top=top, seed=rng.randrange(1 << 16))))
                    i += 1
    spec = flat_spec(samples, fat=fat)
    # shuffled allocation: chains in any order
    pool = list(range(2, 2 + sum(-(-s["n"] * 2 // W.CLUSTER) + s.get("top", 0) for _, s in samples) + 5))
    rng.shuffle(pool)
    for _, s in samples:
        need = -(-s["n"] * 2 // W.CLUSTER) + s.get("top", 0)
        s["chain"], pool = pool[:need], pool[need:]
    return spec


def fixed_trees():
    def smp(n, k=60):
        return (n, sample_spec("S%d" % n, k + n, None, mode=n % 7, freq=n % 6))
    out = []
    # performances shared between volumes + an orphan whose detection needs de-duplicated counting
    out.append(("shared performance + orphan", {
        "fat": 1, "samples": [smp(0), smp(1), smp(2)],
        "partials": [(0, ("PT0", [0])), (1, ("PT1", [1])), (2, ("PT2", [2]))],
        "patches": [(0, ("PA0", [0])), (1, ("PA1", [1])), (2, ("PA2", [2]))],
        "performances": [(0, ("PERF 0", [0])), (1, ("PERF 1", [1])), (2, ("PERF 2", [2]))],
        "volumes": [("VOL A", [0]), ("VOL B", [0, 1])]}))
    out.append(("no volume at all", {
        "fat": 2, "samples": [smp(0), smp(1)],
        "partials": [(0, ("PT0", [0, 1]))], "patches": [(0, ("PA0", [0]))],
        "performances": [(0, ("PERF 0", [0])), (5, ("PERF 5", [0]))], "volumes": []}))
    out.append(("every performance orphaned, volumes empty", {
        "fat": 1, "samples": [smp(0)], "partials": [(0, ("PT0", [0]))], "patches": [(0, ("PA0", [0]))],
        "performances": [(3, ("PERF 3", [0]))], "volumes": [("VOL A", []), ("VOL B", [])]}))
    out.append(("unreferenced sample, partial, patch", {
        "fat": 1, "samples": [smp(0), smp(1), smp(2), smp(3)],
        "partials": [(0, ("PT0", [0])), (1, ("PT1", [1])), (2, ("PT2", [2]))],
        "patches": [(0, ("PA0", [0])), (1, ("PA1", [1]))],
        "performances": [(0, ("PERF 0", [0]))], "volumes": [("VOL A", [0])]}))
    out.append(("sample in two partials of one patch, repeated keys, gaps in slots", {
        "fat": 2, "samples": [smp(0), smp(1), smp(7)],
        "partials": [(0, ("PT0", [0, -1, 1])), (4, ("PT4", [-1, 0, -1, 7]))],
        "patches": [(0, ("PA0", [4, 0, 4, 4, 0]))],
        "performances": [(0, ("PERF 0", [0, 0]))], "volumes": [("VOL A", [0, 0])]}))
    out.append(("sample shared by two patches of one performance", {
        "fat": 1, "samples": [smp(0), smp(1)],
        "partials": [(0, ("PT0", [0])), (1, ("PT1", [0, 1]))],
        "patches": [(0, ("PA0", [0])), (1, ("PA1", [1]))],
        "performances": [(0, ("PERF 0", [0, 1]))], "volumes": [("VOL A", [0])]}))
    # a sample with leading clusters to skip (cluster_top > 0) reached several times in one run: two performances, two volumes, an orphan
    out.append(("shared sample with cluster_top > 0 in several performances", {
        "fat": 1, "samples": [(0, sample_spec("S0", 5000, None, mode=0, freq=1, top=2)), (1, sample_spec("S1", 300, None, mode=5, freq=2, top=1)), smp(2)],
        "partials": [(0, ("PT0", [0, 1])), (1, ("PT1", [1, 0, 2]))],
        "patches": [(0, ("PA0", [0])), (1, ("PA1", [1]))],
        "performances": [(0, ("PERF 0", [0])), (1, ("PERF 1", [1])), (2, ("PERF 2", [0]))],
        "volumes": [("VOL A", [0, 1]), ("VOL B", [1])]}))
    out.append(("patch shared by performances, partial shared by patches, high record numbers", {
        "fat": 2, "samples": [(8191, sample_spec("S8191", 70)), (4000, sample_spec("S4000", 71, mode=5))],
        "partials": [(4095, ("PT4095", [8191, 4000]))],
        "patches": [(1023, ("PA1023", [4095])), (500, ("PA500", [4095]))],
        "performances": [(511, ("PERF 511", [1023])), (100, ("PERF 100", [500, ])), (7, ("PERF 7", [1023]))],
        "volumes": [("VOL A", [511, 100])]}))
    return out


def gen_tree(rng):
    ns = rng.randint(1, 10)
    samples = [(n, sample_spec("S%d" % n, rng.choice([1, 5, 64, 200]) + n, None, mode=rng.randrange(7), freq=rng.randrange(6),
                               top=rng.choice([0, 0, 1, 2])))
               for n in sorted(rng.sample(range(0, 40), ns))]
    snums = [n for n, _ in samples]
    npt = rng.randint(1, 6)
    partials = []
    for n in sorted(rng.sample(range(0, 30), npt)):
        k = rng.randint(0, 4)
        lst = [rng.choice(snums + [-1]) for _ in range(k)]
        partials.append((n, ("PT%d" % n, lst)))
    ptnums = [n for n, _ in partials]
    patches = []
    for n in sorted(rng.sample(range(0, 20), rng.randint(1, 4))):
        patches.append((n, ("PA%d" % n, [rng.choice(ptnums) for _ in range(rng.randint(0, 5))])))
    panums = [n for n, _ in patches]
    perfs = []
    for n in sorted(rng.sample(range(0, 12), rng.randint(1, 5))):
        # at most one patch per performance shares a given sample unless the duplicate shape is wanted
        perfs.append((n, ("PERF %d" % n, [rng.choice(panums) for _ in range(rng.randint(0, 3))])))
    pfnums = [n for n, _ in perfs]
    vols = []
    for v in range(rng.randint(0, 3)):
        vols.append(("VOL %d" % v, [rng.choice(pfnums) for _ in range(rng.randint(0, 3))]))
    return {"fat": rng.choice([1, 2]), "samples": samples, "partials": partials, "patches": patches,
            "performances": perfs, "volumes": vols}


def gen_malformed(rng):
    spec = flat_spec([(i, sample_spec("G%d" % i, 50 + i)) for i in range(3)], fat=rng.choice([1, 2]))
    how = rng.randrange(5)
    if how == 0:      # sample pointer beyond the sample table
        spec["partials"][0][1][1].append(0x2100)
    elif how == 1:    # frequency code outside the table
        spec["samples"][1][1]["freq"] = 9
    elif how == 2:    # FAT error flag on a free cluster
        spec["fat_overrides"] = {"40": 0xFFF7}
    elif how == 3:    # chain runs into a free cluster
        spec["samples"][2][1]["chain"] = [20]
        spec["fat_overrides"] = {"20": 21}
    else:             # non-ascii sample name in the directory
        spec["raw"] = [("sample_dir", 1, 0, "ff")]
    return spec, how


WILD_NAMES = ["STR L", "STR R", "GTR-L", "GTR-R", "PAD  L", "PAD  R", "KICK", "KICK", "SNARE", "A/B", "x.y.", " lead", "", "'q'", "Hat:1",
              "BASS L", "BASS", "TOM (2)", "TOM", "TOM", ".hid", "-dash-", "a\\b", "Z9 R", "same", "same"]


def gen_wild(rng):
    """names the exporter sanitises, counts or pairs; a sample reached through several patches"""
    spec = gen_tree(rng)
    pool = list(WILD_NAMES)
    rng.shuffle(pool)
    unequal = False
    by_name = {}
    for i, (n, s) in enumerate(spec["samples"]):
        s["name"] = pool[i % len(pool)]
        by_name[s["name"]] = s
    # L/R partners: same length, points and mode (most of the time)
    for a, b in (("STR L", "STR R"), ("GTR-L", "GTR-R"), ("PAD  L", "PAD  R")):
        if a in by_name and b in by_name:
            if rng.random() < 0.8:
                for k in ("n", "start", "ss", "se", "rs", "re", "mode", "top"):
                    if k in by_name[a]:
                        by_name[b][k] = by_name[a][k]
                    else:
                        by_name[b].pop(k, None)
            else:
                unequal = True
    if "BASS L" in by_name:
        unequal = unequal or False
    for key in ("patches", "performances"):
        for _, ent in spec[key]:
            pass
    spec["patches"] = [(n, (rng.choice(["PA%d" % n, "KICK", "same", "x.y.", "PA"]), l)) for n, (_, l) in spec["patches"]]
    spec["performances"] = [(n, (rng.choice(["PERF %d" % n, "PERF", "P.", "P-", " P", ""]), l)) for n, (_, l) in spec["performances"]]
    spec["volumes"] = [(rng.choice([nm, "VOL", "V.", "_Orphan_perf", ""]), l) for nm, l in spec["volumes"]]
    if unequal:
        spec["stereo_unequal"] = True
    spec["ls"] = True
    return spec


def gen_damaged(rng):
    """a well-formed disk plus one kind of damage the property text excludes; (spec, tag)"""
    n_s = rng.randint(2, 5)
    samples = []
    for i in range(n_s):
        n = rng.choice([50, 300, WPC - 3, WPC, WPC + 40, 2 * WPC + 7])
        samples.append((i, sample_spec("D%d" % i, n, rand_points(rng, n), mode=rng.randrange(7), freq=rng.randrange(6),
                                       top=rng.choice([0, 0, 1]), seed=rng.randrange(1 << 16))))
    spec = flat_spec(samples, fat=rng.choice([1, 2]))
    victim = rng.randrange(n_s)
    v = spec["samples"][victim][1]
    how = rng.choice(["end<start", "end=start-1", "end beyond file", "start beyond file", "top>=chain", "truncated", "truncated early",
                      "fat loop", "fat reserved mid-chain", "fat error flag", "fat free mid-chain", "fat id", "fat version", "entry free cluster",
                      "entry cluster 0", "entry beyond table", "more performances than listed", "more volumes than records",
                      "non-ascii name", "freq code", "mode byte", "pointer outside table", "chain shares tail", "entry mid-chain"])
    raw = spec.setdefault("raw", [])
    fo = spec.setdefault("fat_overrides", {})
    nclu = -(-v["n"] * 2 // W.CLUSTER) + v.get("top", 0)
    if how == "end<start":
        v["start"], v["se"], v["re"] = 20, rng.choice([3, 10]), rng.choice([3, 10, 30])
    elif how == "end=start-1":
        v["start"] = 10
        v["se"] = v["re"] = 9
    elif how == "end beyond file":
        v["se"] = v["re"] = (nclu - v.get("top", 0)) * WPC + rng.choice([0, 1, 5000, 1 << 20])
    elif how == "start beyond file":
        v["start"] = (nclu - v.get("top", 0)) * WPC + rng.choice([0, 7])
        v["se"] = v["re"] = v["start"] + rng.choice([0, 10])
    elif how == "top>=chain":
        raw.append(("sample", victim, 40, struct.pack("<H", nclu + rng.choice([0, 1, 40])).hex()))
    elif how in ("truncated", "truncated early"):
        spec["truncate"] = None     # filled in below, needs the image size
    elif how == "fat loop":
        v["chain"] = [30, 31, 32][:max(1, nclu)] if nclu <= 3 else None
        fo[str(rng.choice([30, 30 + max(0, min(nclu, 3) - 1)]))] = 30
    elif how == "fat reserved mid-chain":
        v["chain"] = [40, 41, 42][:max(1, min(3, nclu))] if nclu <= 3 else None
        fo["40"] = rng.choice([1, 0]) if nclu > 1 else 1
    elif how == "fat error flag":
        fo[str(rng.choice([200, 2, 65526]))] = 0xFFF7
    elif how == "fat free mid-chain":
        fo["300"] = 301
    elif how == "fat id":
        fo["0"] = rng.choice([0, 0xFFFB])
    elif how == "fat version":
        spec["flags"] = rng.choice([(0xFFFD, 0xFFFF), (0xFFFF, 0x1234), (0xFFFE, 0xFFFF), (0xFFFF, 0xFFFE), (0xFFFE, 7)])
    elif how == "entry free cluster":
        raw.append(("sample_dir", victim, 28, struct.pack("<H", rng.choice([900, 901])).hex()))
    elif how == "entry cluster 0":
        raw.append(("sample_dir", victim, 28, struct.pack("<H", rng.choice([0, 1])).hex()))
    elif how == "entry beyond table":
        raw.append(("sample_dir", victim, 28, struct.pack("<H", rng.choice([65527, 65535, 65530])).hex()))
    elif how == "more performances than listed":
        raw.append(("abs", 0, 278, struct.pack("<H", rng.choice([2, 9])).hex()))
    elif how == "more volumes than records":
        raw.append(("abs", 0, 276, struct.pack("<H", rng.choice([2, 3, 200])).hex()))
    elif how == "non-ascii name":
        kind = rng.choice(["sample", "sample_dir", "partial", "partial_dir", "patch", "patch_dir", "performance", "performance_dir", "volume", "volume_dir"])
        raw.append((kind, victim if kind.startswith("sample") else 0, rng.randrange(16), "c3"))
    elif how == "freq code":
        raw.append(("sample", victim, 44, bytes([rng.choice([6, 15, 0x17, 0xF2])]).hex()))
    elif how == "mode byte":
        raw.append(("sample", victim, 36, bytes([rng.choice([7, 200, 255])]).hex()))
    elif how == "pointer outside table":
        spec["partials"][0][1][1].append(rng.choice([0x2000, 0x7FFF]))
    elif how == "chain shares tail":
        # a second sample whose chain runs into the victim's second cluster
        if nclu >= 2 and len(spec["samples"]) >= 2:
            v["chain"] = list(range(500, 500 + nclu))
            o = spec["samples"][(victim + 1) % n_s][1]
            need = -(-o["n"] * 2 // W.CLUSTER) + o.get("top", 0)
            o["chain"] = list(range(700, 700 + need))
            fo[str(700 + need - 1)] = 501
    elif how == "entry mid-chain":
        if nclu >= 2:
            v["chain"] = list(range(600, 600 + nclu))
            raw.append(("sample_dir", victim, 28, struct.pack("<H", 601).hex()))
    # a second, independent damage of the stream kind (windows x reverse modes x missing clusters)
    if rng.random() < 0.35:
        o = spec["samples"][rng.randrange(n_s)][1]
        words = (-(-o["n"] * 2 // W.CLUSTER)) * WPC
        o["mode"] = rng.choice([0, 1, 5, 5, 6, 6, o.get("mode", 0)])
        o["start"] = rng.choice([0, 1, o["n"] // 2, o["n"] - 1, words - 1, words, words + 3])
        o["se"] = rng.choice([o["n"] - 1, o["n"], words - 1, words, words + 1, words + 2100, 2 * words + 5, o["start"], max(0, o["start"] - 1), max(0, o["start"] - 2)])
        o["re"] = rng.choice([o["n"] - 1, words - 1, words + 9, o["start"], 0])
        how += " + window"
    second_cut = rng.random() < 0.25 and not how.startswith("truncated")
    spec["raw"] = [list(x) for x in raw]
    if second_cut:
        try:
            size = len(W.image_bytes(build(spec)))
            spec["truncate"] = size - rng.choice([1, 2, 100, 4096, 4097, W.CLUSTER - 1, W.CLUSTER, W.CLUSTER + 1, 2 * W.CLUSTER + 17, 3 * W.CLUSTER])
            how += " + cut"
        except AssertionError:
            pass
    if how.startswith("truncated"):
        size = len(W.image_bytes(build(dict(spec, truncate=None))))
        spec["truncate"] = size - rng.choice([1, 2, 100, W.CLUSTER, W.CLUSTER + 1]) if how == "truncated" \
            else rng.choice([0x2B1000 + 2 * W.CLUSTER + 5, 0x2B5800, 0x2B1000 - 1, 0x255800 + 48, 0xA0800 - 1, 0x80800 + 100, 0x90000])
    return spec, how


# =======================================================================================
# workers
# =======================================================================================
def w_image(pid, tier, seed, job):
    ctx = F.Ctx(pid, tier, seed)
    fam, arg, jseed = job
    rng = random.Random(jseed)
    if fam == "perms":
        L, top, fat, inter, idx = arg
        check_image(ctx, gen_perms(rng, L, top, fat, inter, idx), "chain permutations L=%d top=%d" % (L, top))
    elif fam == "modes":
        check_image(ctx, gen_modes(rng, arg), "modes x frequencies fat=%d" % arg)
    elif fam == "lengths":
        fat, tops = arg
        check_image(ctx, gen_lengths(rng, fat, tops), "cluster-exact lengths")
    elif fam == "fixed":
        name, spec = fixed_trees()[arg]
        check_image(ctx, spec, "tree: " + name)
    elif fam == "tree":
        check_image(ctx, gen_tree(rng), "random tree")
    elif fam == "wild":
        check_model_only(ctx, gen_wild(rng), "wild names")
    elif fam == "damaged":
        spec, how = gen_damaged(rng)
        check_model_only(ctx, spec, "damaged: " + how)
    elif fam == "malformed":
        spec, how = gen_malformed(rng)
        disk = build(spec)
        try:
            img = W.image_bytes(disk)
        except AssertionError:
            return ctx.dump()
        with R.TempImage(img) as path:
            r, tree, _ = R.export(path)
        ctx.count("malformed image (model vs implementation, not judged by the oracle)", (how, r.exc_name, len(tree)), nontrivial=False)
        compare_model(ctx, {"kind": "malformed %d" % how, "spec": spec}, img, r, tree)
    return ctx.dump()


def image_jobs(ctx):
    q = ctx.quick
    jobs = []
    idx = 0
    for L in range(1, 5 + 1):
        for top in range(0, min(L, 3)):
            for inter in ((False, True) if (not q or L <= 4) else (True,)):
                idx += 1
                jobs.append(("perms", (L, top, 1 + idx % 2, inter, idx), ctx.seed * 7919 + idx))
    for fat in (1, 2):
        for rep in range(2 if q else 12):
            jobs.append(("modes", fat, ctx.seed * 104729 + fat * 100 + rep))
    for fat, tops in ((1, (0, 1)), (2, (2,))) if q else ((1, (0, 1, 2)), (2, (0, 1, 2)), (1, (0, 2)), (2, (1,))):
        jobs.append(("lengths", (fat, tops), ctx.seed * 31337 + fat * 10 + len(tops)))
    for i in range(len(fixed_trees())):
        jobs.append(("fixed", i, 0))
    for i in range(120 if q else 1500):
        jobs.append(("tree", None, ctx.seed * 6151 + i))
    for i in range(10 if q else 40):
        jobs.append(("malformed", None, ctx.seed * 389 + i))
    for i in range(40 if q else 400):
        jobs.append(("wild", None, ctx.seed * 7727 + i))
    for i in range(72 if q else 720):
        jobs.append(("damaged", None, ctx.seed * 2671 + i))
    return jobs


def run(ctx):
    F.pmap(ctx, w_image, image_jobs(ctx))
    run_correspondence(ctx)
    ctx.note("images judged by the oracle: %d; images compared model vs implementation only (names / damage / malformed): %d; D10 (cluster_top >= chain "
             "length -> IndexError) needs a damaged record and is kept out of the C02 oracle (C14) - the whole-image model reproduces it (sample skipped)"
             % (sum(v for k, v in ctx.dist.items() if k.startswith("image:")),
                sum(v for k, v in ctx.dist.items() if k.startswith("model-only") or k.startswith("malformed"))))


# =======================================================================================
# correspondence: extracted model vs the real code
# =======================================================================================
KINDS = ["volume", "performance", "patch", "partial", "sample"]


def sample_record(mode_byte, raws, freq=1, top=0):
    """a 48-byte sample parameter record (independent packing)"""
    return W.name16("X") + b"".join(struct.pack("<I", r & 0xFFFFFFFF) for r in raws) \
        + struct.pack("<BBBBHHBBH", mode_byte & 255, 1, 0, 0, top, 1, freq & 15, 60, 0)


def real_sample_file(mode_byte, raws, stream):
    """parse the record with the real struct and wrap it in the real SampleFile"""
    from smpl_extract.roland.s7xx.sample_entry import SampleParamEntryStruct, SampleParamCommon, SampleParamOptionsSection
    from smpl_extract.roland.s7xx.sample_file import SampleFile
    from smpl_extract.util.dataclass import get_common_field_args
    c = SampleParamEntryStruct.parse(sample_record(mode_byte, raws), _index=0)
    return SampleFile(**get_common_field_args(SampleParamCommon, c),
                      **get_common_field_args(SampleParamOptionsSection, c.sample_options),
                      name="X", _data_stream=stream), c


def canon_params(gen):
    from smpl_extract.util.stream import StreamReversed, StreamOffset
    from smpl_extract.generalized.sample import LoopType
    st = gen.data_streams[0].stream
    rev = isinstance(st, StreamReversed)
    size_outer = st.end_of_file
    inner = st.substream if rev else st
    assert isinstance(inner, StreamOffset)
    if rev:
        assert inner.end_of_file == size_outer and st.sample_width == 2
    loops = [[l.start_sample, l.end_sample, 1 if l.repeat_forever else 0, 1 if l.loop_type == LoopType.ALTERNATING else 0]
             for l in gen.loop_regions]
    return [inner.offset, inner.end_of_file, 1 if rev else 0, loops]


class Hang(BaseException):
    pass


def _alarm(*a):
    raise Hang()


def run_impl_guarded(stream, ops, limit=1):
    """views.run_impl, one operation at a time, a non-returning call reported as ('fuel',)"""
    import signal
    import views as VW
    outs = []
    signal.signal(signal.SIGALRM, _alarm)
    for o in ops:
        signal.alarm(limit)
        try:
            outs += VW.run_impl(stream, [o])
        except Hang:
            outs.append(("fuel",))
            break
        finally:
            signal.alarm(0)
    return outs


def w_params(pid, tier, seed, job):
    import views as VW
    ctx = F.Ctx(pid, tier, seed)
    cases = job       # (mode byte, (5 raw u32 points), content length, block)
    margs, rargs = [], []
    for mode, raws, clen, block in cases:
        pts = [r >> 8 for r in raws]
        margs.append([mode, pts])
        big = max(pts) > 20000          # 24-bit points: window function only (no stream to read)
        rargs.append([mode, [0, 0, 0, 0, 0] if big else pts, list(W.tone((clen + 1) // 2, 5)[:clen]), block])
    mp = M.call_batch("roland_params", margs)
    mr = M.call_batch("roland_sample_read", rargs)
    mpt = M.call_batch("roland_point", [r for c in cases for r in c[1]])
    k = 0
    for (mode, raws, clen, block), a, b, ra in zip(cases, mp, mr, rargs):
        content = bytes(ra[2])
        sf, c = real_sample_file(mode, raws, io.BytesIO(content))
        gen = sf.to_generalized()
        case = {"mode_byte": mode, "points_raw": list(raws), "content_len": clen, "block": block}
        pts = [c.start_sample, c.sustain_loop_start, c.sustain_loop_end, c.release_loop_start, c.release_loop_end]
        ctx.agree("roland_point", case, [[p.fine, p.address] for p in pts], mpt[k:k + 5])
        k += 5
        ctx.count("roland_params", (mode, tuple(raws)), nontrivial=True)
        ctx.agree("roland_params", case, canon_params(gen), a)
        if max(r >> 8 for r in raws) > 20000:
            continue
        ops = [("read", -1)] if block < 0 else [("read", block)] * 3 + [("read", -1)]
        ctx.count("roland_sample_read", (mode, tuple(raws), clen, block), nontrivial=clen > 0)
        impl = run_impl_guarded(gen.data_streams[0].stream, ops)
        modl = VW.dec_outs(b)
        if ("fuel",) in modl:                       # model out of fuel <-> implementation does not return
            modl = modl[:modl.index(("fuel",)) + 1]
        ctx.agree("roland_sample_read", case, impl, modl)
    return ctx.dump()


def w_offsets(pid, tier, seed, job):
    """the real entry constructs must find the records at the model's addresses"""
    ctx = F.Ctx(pid, tier, seed)
    from smpl_extract.roland.s7xx.volume_entry import VolumeEntryConstruct
    from smpl_extract.roland.s7xx.performance_entry import PerformanceEntryConstruct
    from smpl_extract.roland.s7xx.patch_entry import PatchEntryConstruct
    from smpl_extract.roland.s7xx.partial_entry import PartialEntryConstruct
    from smpl_extract.roland.s7xx.sample_entry import SampleEntryConstruct
    from construct.core import ConstructError
    cons = [VolumeEntryConstruct, PerformanceEntryConstruct, PatchEntryConstruct, PartialEntryConstruct, SampleEntryConstruct]
    cases = job
    mod = M.call_batch("roland_offsets", [[k, i] for k, i in cases])
    buf = bytearray(W.MIN_IMAGE_SIZE)
    for (k, i), mv in zip(cases, mod):
        valid, doff, poff = mv
        marks = []
        if 0 <= doff and doff + 32 <= len(buf) and 0 <= poff and poff + 16 <= len(buf):
            dn, pn = ("D%d %d" % (k, i)).encode(), ("P%d %d" % (k, i)).encode()
            buf[doff:doff + len(dn)] = dn
            buf[doff + 16] = 0x40 + k
            buf[poff:poff + len(pn)] = pn
            marks = [(doff, 32), (poff, 16)]
        try:
            c = cons[k](i).parse_stream(io.BytesIO(buf))
            impl = [1, c.directory.name, c.parameter.name, int(c.directory.file_type)]
        except ConstructError:
            impl = [0]
        expect = [1, "D%d %d" % (k, i), "P%d %d" % (k, i), 0x40 + k] if valid else [0]
        ctx.count("roland_offsets", (k, i), nontrivial=bool(valid))
        ctx.agree("roland_offsets", {"kind": KINDS[k], "index": i, "model": mv}, impl, expect)
        for o, n in marks:
            buf[o:o + n] = bytes(n)
    # cluster addresses: the real RolandFile over the real data stream window
    import smpl_extract.roland.s7xx.data_types as DT
    cl = [2, 3, 100, 65526]
    for c, mv in zip(cl, M.call_batch("roland_cluster_offset", cl)):
        ctx.agree("roland_cluster_offset", c, DT.DATA_FAT_OFFSET + c * DT.ROLAND_CLUSTER_SIZE, mv)
    return ctx.dump()


def w_ptrs(pid, tier, seed, job):
    ctx = F.Ctx(pid, tier, seed)
    from smpl_extract.roland.s7xx.volume_entry import VolumeParamEntryParser
    from smpl_extract.roland.s7xx.performance_entry import PerformanceParamEntryParser
    from smpl_extract.roland.s7xx.patch_entry import PatchParamEntryParser
    lists = job
    mod = M.call_batch("roland_ptr_filter", [list(l) for l in lists])
    for j, (l, mv) in enumerate(zip(lists, mod)):
        which = j % 3
        if which == 0 and len(l) <= 64:
            rec = W.name16("V") + bytes(16) + struct.pack("<64h", *(list(l) + [-1] * (64 - len(l)))) + bytes(0x60)
            impl = list(VolumeParamEntryParser.parse(rec).performance_ptrs)
        elif which == 1 and len(l) <= 32:
            rec = W.name16("P") + bytes(240) + struct.pack("<32h", *(list(l) + [-1] * (32 - len(l)))) + bytes(0xC0)
            impl = list(PerformanceParamEntryParser.parse(rec, _index=0).patch_list)
        else:
            rec = W.name16("A") + bytes(240) + struct.pack("<88h", *(list(l) + [-1] * (88 - len(l)))) + bytes(0x50)
            impl = list(PatchParamEntryParser.parse(rec, _index=0).partial_list)
        ctx.count("roland_ptr_filter", tuple(l), nontrivial=any(x >= 0 for x in l))
        ctx.agree("roland_ptr_filter", {"ptrs": list(l)}, [int(x) for x in impl], mv)
    return ctx.dump()


def wild_tree(rng):
    """a tree as gen_tree plus pointers outside the tables (must be skipped)"""
    spec = gen_tree(rng)
    for key, lim in (("partials", 0x2000), ("patches", 0x1000), ("performances", 0x400)):
        for _, (_, lst) in spec[key]:
            if rng.random() < 0.3 and len(lst) < 4:
                lst.insert(rng.randrange(len(lst) + 1), rng.choice([lim, lim + 5, 0x7FFF, -2, -32768]))
    for _, lst in spec["volumes"]:
        if rng.random() < 0.3:
            lst.append(rng.choice([0x200, 0x7FFF, -7]))
    return spec


def real_listing(path):
    from smpl_extract.base import ElementTypes
    image = R.open_image(path)
    try:
        out = []
        for vol in image.children:
            perfs = []
            for pf in vol.children:
                perfs.append([int(pf.name.split()[-1]),
                              [int(ch.name[1:]) for ch in pf.children if ch.type_id == ElementTypes.SampleEntry]])
            out.append([vol.index, perfs])
        return out
    finally:
        R.close_image(image)


def w_listing(pid, tier, seed, job):
    ctx = F.Ctx(pid, tier, seed)
    specs = []
    for j in job:
        rng = random.Random(j)
        specs.append(wild_tree(rng) if j % 3 else gen_tree(rng))
    if job and job[0] % 50 == 0:
        specs += [s for _, s in fixed_trees() if all(n.startswith("S") and n[1:].isdigit() for n in [x[1]["name"] for x in s["samples"]])]
    margs = []
    for spec in specs:
        margs.append([len(spec["performances"]), [list(l) for _, l in spec["volumes"]],
                      sorted(n for n, _ in spec["performances"]),
                      [[n, list(l)] for n, (_, l) in spec["performances"]],
                      [[n, list(l)] for n, (_, l) in spec["patches"]],
                      [[n, list(l) + [-1] * (4 - len(l))] for n, (_, l) in spec["partials"]]])
    mod = M.call_batch("roland_listing", margs)
    for spec, mv in zip(specs, mod):
        img = W.image_bytes(build(spec))
        with R.TempImage(img) as path:
            impl = M.impl_res(real_listing, path)
        ctx.count("roland_listing", repr(spec), nontrivial=bool(spec["volumes"]) or bool(spec["performances"]))
        ctx.agree("roland_listing", {"spec": spec}, impl, ("ok", mv))
    return ctx.dump()


def impl_sample_pcm(L, doff, fat, image, entry, top, mode, pts):
    import smpl_extract.roland.s7xx.fat as RF
    from smpl_extract.util.stream import StreamOffset
    RF.FAT_NUM_ENTRIES, RF.ROLAND_CLUSTER_SIZE = len(fat), L
    try:
        md = types.SimpleNamespace(fat_id=fat[0], num_unused_clusters=fat[1], version_flag_1=fat[-2], version_flag_2=fat[-1])
        c = types.SimpleNamespace(fat_entries=list(fat), metadata=md, stream_size=len(image),
                                  fat_data_stream=StreamOffset(io.BytesIO(bytes(image)), len(image) - doff, doff))
        area = RF.FatAreaParser._decode(c, {}, "")
        f = area.fat.get_file(entry, cluster_offset=top)
        sf, _ = real_sample_file(mode, [p << 8 for p in pts], f)
        return list(sf.to_generalized().data_streams[0].stream.readall())
    finally:
        RF.FAT_NUM_ENTRIES, RF.ROLAND_CLUSTER_SIZE = 0x10000, 0x2400


def pcm_cases(live, L, rng, per_chain):
    """every chain (each order of each non-empty subset of the live clusters) as the sample's
    chain, the other clusters free or forming a second chain"""
    N = live + 11
    doff = 3
    ilen = doff + (live + 2) * L
    image = [(7 * i + 1) % 251 for i in range(ilen)]
    out = []
    clusters = list(range(2, 2 + live))
    for r in range(1, live + 1):
        for chain in itertools.permutations(clusters, r):
            fat = [0xFFFA, 0] + [0] * live + [0] * 7 + [0xFFFF, 0xFFFF]
            for a, b in zip(chain, chain[1:]):
                fat[a] = b
            fat[chain[-1]] = 0xFFFF
            rest = [c for c in clusters if c not in chain]
            if rest and len(out) % 2:
                rng.shuffle(rest)
                for a, b in zip(rest, rest[1:]):
                    fat[a] = b
                fat[rest[-1]] = 0xFFF8
            if len(out) % 5 == 0:
                fat[-1] = 0xFFFE
            wl = r * L // 2           # words in the whole chain
            for top in range(0, min(r, 2) + 1):
                words = max(0, (r - top) * L // 2)
                for _ in range(per_chain):
                    mode = rng.randrange(7)
                    if words:
                        s = rng.choice([0, 0, rng.randrange(words)])
                        e1 = rng.choice([words - 1, rng.randrange(s, words)])
                        e2 = rng.choice([words - 1, rng.randrange(s, words)])
                    else:
                        s, e1, e2 = 0, rng.choice([0, 1]), 0     # damaged: nothing left after cluster_top
                    pts = [s, rng.randrange(wl + 1), e1, rng.randrange(wl + 1), e2]
                    out.append([L, doff, fat, image, chain[0], top, mode, pts])
    return out


def w_pcm(pid, tier, seed, job):
    ctx = F.Ctx(pid, tier, seed)
    cases = job
    mod = M.call_batch("roland_sample_pcm", cases)
    for c, mv in zip(cases, mod):
        iv = M.impl_res(impl_sample_pcm, *c)
        L, doff, fat, image, entry, top, mode, pts = c
        case = {"cluster_size": L, "doff": doff, "fat": fat, "entry": entry, "cluster_top": top, "mode": mode, "points": pts}
        ctx.count("roland_sample_pcm", (L, tuple(fat), entry, top, mode, tuple(pts)), nontrivial=True)
        ctx.agree("roland_sample_pcm", case, iv, M.res(mv))
        # independent expectation for the well-formed ones (chain followed by hand)
        chain, cur = [], entry
        while True:
            chain.append(cur)
            if fat[cur] >= 0xFFF8:
                break
            cur = fat[cur]
        if top < len(chain):
            data = b"".join(bytes(image[doff + c_ * L: doff + (c_ + 1) * L]) for c_ in chain[top:])
            end = pts[4] if mode in (1, 3) else pts[2]
            win = data[2 * pts[0]: 2 * (end + 1)]
            if mode in (5, 6):
                win = b"".join(win[i:i + 2] for i in range(len(win) - 2, -1, -2))
            if 2 * (end + 1) <= len(data) and end >= pts[0]:
                ctx.require("scaled-down sample stream equals the window of the chain", case, iv == ("ok", list(win)),
                            {"expected": list(win)[:16], "got": str(iv)[:80]})
    return ctx.dump()


def real_fat(fat):
    """the real decoder on a full-size table: ('ok', version, table object) | ('err', class)"""
    import smpl_extract.roland.s7xx.fat as RF
    from smpl_extract.util.stream import StreamOffset
    md = types.SimpleNamespace(fat_id=fat[0], num_unused_clusters=fat[1], version_flag_1=fat[-2], version_flag_2=fat[-1])
    c = types.SimpleNamespace(fat_entries=list(fat), metadata=md, stream_size=0, fat_data_stream=StreamOffset(io.BytesIO(b""), 0, 0))
    area = RF.FatAreaParser._decode(c, {}, "")
    return area


def w_rawfat(pid, tier, seed, job):
    """raw_fat_check / raw_get_file (no link table) against FatAreaAdapter._decode + get_file on
    full-size tables whose low clusters hold random words"""
    ctx = F.Ctx(pid, tier, seed)
    N = 0x10000
    tables, queries = [], []
    for js in job:
        rng = random.Random(js)
        fat = [0] * N
        fat[0] = 0xFFFA if rng.random() < 0.95 else rng.choice([0, 0xFFFB])
        fat[1] = rng.choice([0, 1, 5, 0xFFF7, 12])
        fat[N - 2], fat[N - 1] = rng.choice([(0xFFFF, 0xFFFF), (0xFFFE, 0xFFFE), (0xFFFF, 0xFFFE), (0xFFFE, 0xFFFF), (0xFFFF, 0xFFFF), (0xFFFD, 0xFFFF), (0xFFFF, 3)])
        live = rng.choice([6, 12, 30])
        pool = list(range(2, 2 + live)) + rng.sample([N - 12, N - 11, N - 10, 40, 41, 1000], rng.randint(0, 3))
        rng.shuffle(pool)
        pool = pool[:rng.randint(1, len(pool))]
        chains = []
        while pool:
            k = rng.randint(1, min(5, len(pool)))
            chains.append(pool[:k])
            pool = pool[k:]
        for ch in chains:
            for x, y in zip(ch, ch[1:]):
                fat[x] = y
            fat[ch[-1]] = rng.choice([0xFFFF, 0xFFF8, 0xFFFA, 0xFFFE])
        if len(chains) >= 2 and rng.random() < 0.4:          # shared tail: a chain runs into the middle of another
            a_, b_ = rng.sample(chains, 2)
            fat[a_[-1]] = rng.choice(b_)
        if rng.random() < 0.45:                               # one defect
            x = rng.choice([c for ch in chains for c in ch] + [rng.randrange(2, 2 + live + 3)])
            fat[x] = rng.choice([0, 1, 0xFFF7, x, rng.randrange(2, 2 + live), N - 9, N - 3, N - 1, 0xFFF6, 0, 1])
        if rng.random() < 0.2:
            for i in (N - 12, N - 11, N - 10, N - 9, N - 5):
                fat[i] = rng.choice([0, 0, 1, 0xFFFF, 3, 0xFFF7, N - 10])
        tables.append(fat)
    mcheck = M.call_batch("raw_fat_check", tables)
    for js, fat, mv in zip(job, tables, mcheck):
        rng = random.Random(js + 1)
        try:
            area = real_fat(fat)
            impl = ("ok", area.version)
        except Exception as e:  # noqa
            area, impl = None, ("err", exc_class(e))
        ctx.count("raw_fat_check", tuple(fat[:40]) + tuple(fat[-12:]), nontrivial=True)
        ctx.agree("raw_fat_check", {"fat_low": fat[:40], "fat_high": fat[-12:]}, impl, M.res(mv))
        if area is None:
            continue
        qs = [(e, t) for e in [0, 1] + list(range(2, 34)) + [N - 12, N - 10, N - 9, N - 5, N - 1, rng.randrange(N)] for t in (0, 1, 3)]
        queries.append((fat, area, qs))
    # one batch per table would marshal 65536 words per query: send each table once with its queries
    for fat, area, qs in queries:
        mres = M.call_batch("raw_get_files", [[fat, [list(q) for q in qs]]])[0]
        for (e, t), mv in zip(qs, mres):
            impl = M.impl_res(lambda: list(area.fat.get_file(e, cluster_offset=t).sector_list))
            ctx.count("raw_get_file", (tuple(fat[:40]), e, t), nontrivial=True)
            ctx.agree("raw_get_file", {"fat_low": fat[:40], "fat_high": fat[-12:], "entry": e, "cluster_top": t}, impl, M.res(mv))
    return ctx.dump()


def w_sparse(pid, tier, seed, job):
    ctx = F.Ctx(pid, tier, seed)
    for js in job:
        rng = random.Random(js)
        n = rng.choice([0, 1, 50, 700, 5000])
        data = bytearray(n)
        for _ in range(rng.randint(0, 6)):
            if n:
                a = rng.randrange(n)
                ln = rng.choice([1, 2, 17, 40, 1500])
                data[a:a + ln] = bytes(rng.randrange(1, 256) if rng.random() < 0.9 else 0 for _ in range(min(ln, n - a)))
        data = bytes(data[:n])
        reads = [(rng.randrange(-3, n + 5), rng.choice([0, 1, 2, 16, 33, 1024, n, n + 7, -1])) for _ in range(25)]
        enc = M.enc_image_runs(data, max_run=rng.choice([1, 7, 64, 1024]))
        mv = M.call_batch("sparse_read", [[M.Raw(enc), [list(r) for r in reads]]])[0]
        for (o, k), got in zip(reads, mv):
            want = list(data[o:o + k]) if (o >= 0 and k > 0) else ([] if k <= 0 or o >= 0 else None)
            if want is None:          # negative offset: the model never asks (rd_opt tests 0 <= off)
                continue
            ctx.count("sparse_read", (data, o, k), nontrivial=bool(want))
            ctx.agree("sparse_read", {"image": data.hex()[:200], "off": o, "n": k}, want, got)
    return ctx.dump()


def chunks(l, n):
    l = list(l)
    for i in range(0, len(l), n):
        yield l[i:i + n]


def run_correspondence(ctx):
    rng = ctx.rng
    q = ctx.quick
    # --- window functions: exhaustive small grid + random 24-bit points
    cases = []
    grid = [0, 1, 2, 3]
    for mode in list(range(7)) + [7, 9, 255]:
        for pts in itertools.product(grid, repeat=5):
            if (pts[1], pts[3]) not in ((0, 0), (1, 2), (3, 1)) and mode < 7:
                continue
            if mode >= 7 and pts[1:] != (1, 2, 0, 3) and pts[1:] != (0, 3, 2, 1):
                continue
            raws = tuple((a << 8) | ((a * 37 + i * 11) & 255) for i, a in enumerate(pts))
            cases.append((mode, raws, 8, -1))
            if pts[0] <= 1:
                cases.append((mode, raws, rng.choice([3, 6, 8, 10]), rng.choice([2, 4, 6])))
    for _ in range(1500 if q else 40000):
        mode = rng.choice(list(range(7)) * 3 + [7, 200])
        n = rng.choice([4, 10, 40, 9000])
        a = [rng.randrange(n) for _ in range(5)]
        if rng.random() < 0.2:
            a = [rng.randrange(1 << 24) for _ in range(5)]
        raws = tuple((x << 8) | rng.randrange(256) for x in a)
        cases.append((mode, raws, rng.choice([0, 2 * n, 2 * n - 2, n]) if n < 100 else rng.choice([100, 18000]),
                      rng.choice([-1, -1, 2, 4, 4096])))
    F.pmap(ctx, w_params, list(chunks(cases, 400)))
    # --- record addressing: ends of every table, out-of-range, random inside
    ocases = []
    for k in range(5):
        mx = [0x80, 0x200, 0x400, 0x1000, 0x2000][k]
        idx = {0, 1, 2, mx - 2, mx - 1, mx, mx + 1, 0x7FFF} | ({-1, -5} if k < 4 else set())
        idx |= {rng.randrange(mx) for _ in range(20 if q else 400)}
        ocases += [(k, i) for i in sorted(idx)]
    F.pmap(ctx, w_offsets, list(chunks(ocases, 60)))
    # --- pointer lists
    plists = [l for n in range(0, 5) for l in itertools.product([-1, 0, 1, 2], repeat=n)]
    for _ in range(400 if q else 20000):
        n = rng.randrange(0, 33)
        plists.append(tuple(rng.choice([-1, -1, -32768, 32767, rng.randrange(0, 12), rng.randrange(0, 4096)]) for _ in range(n)))
    F.pmap(ctx, w_ptrs, list(chunks(plists, 300)))
    # --- traversal on writer images
    base = ctx.seed * 15485863
    njobs = 16 if q else 64
    per = 6 if q else 40
    F.pmap(ctx, w_listing, [[base + j * per + i for i in range(per)] for j in range(njobs)])
    # --- FAT -> links -> file -> window -> reversal, scaled down (cluster = 4 bytes)
    pc = []
    for live in range(1, (3 if q else 4) + 1):
        pc += pcm_cases(live, 4, rng, 6 if q else 12)
    pc += pcm_cases(4 if q else 5, 6, rng, 2)
    from props import c07 as C7
    if C7.roland_scaling_ok():
        F.pmap(ctx, w_pcm, list(chunks(pc, 250)))
    else:
        ctx.note("C02: the scaled-down FAT->links->file->window relation is skipped (the decoder no longer takes the table length from the re-bound module constant); whole images and full-size tables remain")
    # --- the raw-word FAT shortcuts of the whole-image model, and its sparse reader
    base = ctx.seed * 32452843
    F.pmap(ctx, w_rawfat, [[base + j * 100 + i for i in range(6 if q else 40)] for j in range(16 if q else 48)])
    F.pmap(ctx, w_sparse, [[base + j * 100 + i for i in range(12 if q else 100)] for j in range(8 if q else 32)])
    ctx.exhaustive = True
    ctx.note("exhaustive function-level spaces: window grid {0..3}^5 restricted as coded x 7 modes; pointer lists over {-1,0,1,2}^<=4; "
             "every chain order over <= %d live clusters; everything else seeded random" % (3 if q else 4))


def replay(ctx, case):
    c = case["case"]
    sub = F.Ctx(ctx.pid, ctx.tier, ctx.seed)
    kind = c.get("kind", "replay")
    if "spec" in c and (kind.startswith("wild") or kind.startswith("damaged") or kind.startswith("malformed")):
        check_model_only(sub, c["spec"], kind)
    elif "spec" in c:
        check_image(sub, c["spec"], kind)
    else:
        print("replay case not self-contained; re-run the check with the same VERIF_SEED", c)
        return False
    for f in sub.failures:
        print(f["what"], f["detail"])
    for d in sub.disagreements:
        print("model and implementation differ:", d["relation"], "impl:", str(d["impl"])[:300], "model:", str(d["model"])[:300])
    return not sub.failures and not sub.disagreements
