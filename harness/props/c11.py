"""C11 - streams sharing one file handle do not disturb one another.

Correspondence + oracle: several real view objects are built over SHARED parent objects
(one file handle, one partition stream, ...); every interleaving of their operations must
give each view exactly the outputs of (a) the model run in isolation (Stream.run) and
(b) an ordinary file over the view's logical content.  Image level: the sample streams of
generated AKAI and CDDA images, interleaved with listings of other directories."""
import io
import itertools
import os
import random
import struct

import framework as F
import model as M
import views as VW
import runner as R

RULE = ("exhaustive: all interleavings of 2-3 views x 2-3 ops (block reads, seeks) over shared parents (shared base handle; shared offset window; "
        "chains over one shared partition stream; raw-sector (2352) base shared); random: 60-step schedules over 2-4 views with 1-2 levels of shared ancestors; "
        "image level: sample streams of generated AKAI (multi-partition, stereo pairs), Roland S-7xx (samples with cluster_top > 0 shared by several performances, directories realised in traversal and in random order) and CDDA images interleaved with `children` listings. "
        "Non-trivial = schedule switches views at least once between two reads; distinct = distinct (forest, schedule)")


def build_forest(shared_spec, tops, content):
    """shared_spec: spec of the shared ancestor (down to base); tops: list of layer lists
    applied over the shared object.  Returns (list of real streams, list of full specs)."""
    base = io.BytesIO(content)
    shared = VW.build(shared_spec, base)
    streams, specs = [], []
    for layers in tops:
        obj, spec = shared, shared_spec
        for ly in layers:
            spec = ly + (spec,)
            obj = VW.build(ly + (("base",),), obj) if False else _wrap(ly, obj)
        streams.append(obj)
        specs.append(spec)
    return streams, specs, base


def _wrap(ly, sub):
    from smpl_extract.util.stream import StreamWrapper, StreamOffset, StreamReversed
    from smpl_extract.util.sector import SectorStream
    from smpl_extract.util.fat import FileStream
    k = ly[0]
    if k == "wrap":
        return StreamWrapper(sub, ly[1])
    if k == "off":
        return StreamOffset(sub, ly[1], ly[2])
    if k == "sect":
        return SectorStream(sub, ly[1], ly[2])
    if k == "chain":
        return FileStream(sub, ly[1], list(ly[2]))
    if k == "rev":
        return StreamReversed(sub, ly[1], ly[2])
    raise ValueError(k)


def run_schedule(streams, sched):
    outs = [[] for _ in streams]
    for i, op in sched:
        outs[i] += VW.run_impl(streams[i], [op])
    return outs


def check_forest(ctx, shared_spec, tops, content, scheds, tag):
    # isolated expectations: model + reference file
    _, specs, _ = build_forest(shared_spec, tops, content)
    for sched in scheds:
        streams, specs, base = build_forest(shared_spec, tops, content)
        got = run_schedule(streams, sched)
        own = [[op for j, op in sched if j == i] for i in range(len(tops))]
        margs = [[VW.enc_view(sp, len(content)), content, 0, VW.enc_ops(o)] for sp, o in zip(specs, own)]
        mod = M.call_batch("run_view", margs)
        switches = sum(1 for a, b in zip(sched, sched[1:]) if a[0] != b[0])
        for i, sp in enumerate(specs):
            case = {"shared": shared_spec, "tops": tops, "view": i, "schedule": sched, "content_len": len(content), "tag": tag}
            ctx.count("schedule", (tag, shared_spec, tuple(map(tuple, tops)), tuple(sched), i), nontrivial=switches > 0)
            ctx.agree("interleaved_vs_isolated_model", case, got[i], VW.dec_outs(mod[i]))
            rw = sp[2] if sp[0] == "rev" else None
            ref = VW.run_ref(VW.logical(sp, content), own[i], rw)
            ctx.require("stream output independent of other streams on the shared handle", case,
                        VW.ref_agrees(ref, got[i]), {"expected": ref, "got": got[i]})


CONTENT = bytes((i * 11 + 3) % 256 for i in range(96))
FORESTS = [
    # CDDA-like: windows directly over the shared handle
    (("base",), [[("off", 10, 4)], [("off", 12, 20)], [("off", 9, 40)]]),
    # AKAI-like: chains over one shared partition stream, each wrapped and windowed
    (("off", 80, 8, ("base",)), [[("chain", 8, (2, 0, 5)), ("wrap", 20), ("off", 12, 4)],
                                   [("chain", 8, (1, 4)), ("wrap", 14), ("off", 10, 2)],
                                   [("chain", 8, (3,))]]),
    # Roland-like: reversed window over a cluster chain over the shared FAT data stream
    (("off", 90, 3, ("base",)), [[("chain", 6, (4, 1, 7)), ("off", 12, 2), ("rev", 12, 2)],
                                   [("chain", 6, (0, 2)), ("off", 8, 2)]]),
    # two levels of shared ancestors
    (("wrap", 60, ("off", 80, 6, ("base",))), [[("off", 10, 0)], [("sect", 20, 3)], [("chain", 5, (3, 2))]]),
]
OPS = [("read", 4), ("read", 6), ("seek", 2, 0), ("seek", 0, 0), ("tell",), ("read", 100)]


def interleavings(counts):
    seq = [i for i, c in enumerate(counts) for _ in range(c)]
    return sorted(set(itertools.permutations(seq)))


def w_exh(pid, tier, seed, job):
    ctx = F.Ctx(pid, tier, seed)
    fi, plan = job
    shared, tops = FORESTS[fi]
    rng = random.Random(hash((fi, plan)) & 0xffff)
    scheds = []
    for order in interleavings(plan):
        # two op assignments per interleaving: block reads only, and reads mixed with seeks
        for variant in range(2):
            per = []
            for i, c in enumerate(plan):
                if variant == 0:
                    per.append([("read", 4)] * c)
                else:
                    per.append([OPS[(i * 2 + k * 3 + 1) % len(OPS)] for k in range(c)])
            idx = [0] * len(plan)
            s = []
            for i in order:
                s.append((i, per[i][idx[i]]))
                idx[i] += 1
            scheds.append(s)
    check_forest(ctx, shared, tops, CONTENT, scheds, "exh")
    return ctx.dump()


def w_rand(pid, tier, seed, job):
    ctx = F.Ctx(pid, tier, seed)
    rng = random.Random(job)
    for _ in range(6):
        clen = rng.randint(40, 200)
        content = bytes(rng.randrange(256) for _ in range(clen))
        sdepth = rng.randint(0, 2)
        shared, sl = VW.random_wf_view(rng, sdepth, clen, allow_rev=False)
        tops = []
        for _ in range(rng.randint(2, 4)):
            layers, ln = [], sl
            for d in range(rng.randint(1, 3)):
                sp, ln2 = VW.random_wf_view(rng, 1, ln, allow_rev=(d > 0 or True))
                ly = sp[:-1]
                if ly[0] == "rev" and d < 0:
                    continue
                layers.append(ly)
                ln = ln2
                if ly[0] == "rev":
                    break
            tops.append(layers)
        scheds = []
        for _ in range(4):
            s = []
            for _ in range(60):
                i = rng.randrange(len(tops))
                w = tops[i][-1][2] if tops[i][-1][0] == "rev" else 1
                r = rng.random()
                if r < 0.6:
                    n = rng.choice([0, 1, 2, 4, 4, 8, 16, 300])
                    s.append((i, ("read", n - n % w)))
                elif r < 0.9:
                    o = rng.randint(0, 40)
                    s.append((i, ("seek", o - o % w, rng.choice([0, 0, 1]))))
                else:
                    s.append((i, ("tell",)))
            scheds.append(s)
        check_forest(ctx, shared, tops, content, scheds, "rand")
    return ctx.dump()


# ------------------------------------------------------------------ image level
def akai_test_image(rng):
    import akai_writer as AW
    parts = []
    for pi in range(rng.choice([1, 2])):
        vols = []
        for vi in range(rng.choice([1, 2])):
            files = []
            for fi_ in range(rng.randint(2, 4)):
                nw = rng.choice([300, 4026, 5000, 9000])
                pcm = struct.pack("<%dh" % nw, *[(pi * 7919 + vi * 131 + fi_ * 17 + k * 3) % 30000 for k in range(nw)])
                files.append(AW.SampleFile(name="S%d%d%d" % (pi, vi, fi_), pcm=pcm))
            if rng.random() < 0.7:
                nw = 6000
                for ch in "LR":
                    pcm = struct.pack("<%dh" % nw, *[(ord(ch) * 5 + k) % 20000 for k in range(nw)])
                    files.append(AW.SampleFile(name="PAD%d-%s" % (vi, ch), pcm=pcm))
            vols.append(AW.Volume("VOL%d" % vi, files, dir_style=rng.choice(["run", "chain"])))
        order = (lambda free, n, r=random.Random(rng.random()): r.sample(sorted(free), n))
        parts.append((AW.Partition(vols, size_sectors=64), AW.Allocator(64, order=lambda free, n: sorted(free)[:n])))
    img = AW.image_bytes([p for p, _ in parts], [a for _, a in parts])
    return img, parts


def w_image(pid, tier, seed, job):
    ctx = F.Ctx(pid, tier, seed)
    rng = random.Random(job)
    kind = "cdda" if job % 3 == 2 else ("roland" if job % 3 == 1 and job % 2 == 0 else "akai")
    if kind == "roland":
        # S-7xx: samples with leading clusters (cluster_top > 0) shared by several performances / volumes, realised in any order
        from props import c02 as C2
        import roland_writer as W
        spec = C2.fixed_trees()[[n for n, _ in C2.fixed_trees()].index("shared sample with cluster_top > 0 in several performances")][1] \
            if job % 4 == 0 else C2.gen_tree(rng)
        tmp = R.TempImage(W.image_bytes(C2.build(spec)), "r.img")
    elif kind == "akai":
        img, parts = akai_test_image(rng)
        tmp = R.TempImage(img, "a.img")
    else:
        ntr = rng.randint(2, 4)
        frames = sorted(rng.sample(range(0, 12), ntr))
        binlen = 2352 * 14 + rng.choice([0, 7, 1000])
        # tracks of length 0 (two tracks at one INDEX, a last track starting at the very end of the bin): their windows are
        # "not clipped" views sitting directly on the shared handle
        if rng.random() < 0.4:
            frames[rng.randrange(1, ntr)] = frames[0] if ntr == 2 else frames[rng.randrange(0, ntr - 1)]
            frames.sort()
        if rng.random() < 0.3:
            binlen = 2352 * frames[-1]
        content = bytes((i * 13 + 5) % 256 for i in range(binlen))
        cue = R.cue_text("t.bin", [{"indices": [(1, 0, 0, f)], "title": "T%d" % i} for i, f in enumerate(frames)])
        tmp = R.TempImage(cue.encode(), "t.cue", {"t.bin": content})
    with tmp as path:
        # isolated: fresh image per stream
        def streams_of(image):
            return [(p, el.to_generalized().data_streams[0].stream) for p, el in R.walk_samples(image)]

        def navigate(image, p):
            node = image
            for comp in p:
                node = [ch for ch in node.children if ch.safe_name == comp][0]
            return node.to_generalized().data_streams[0].stream
        im0 = R.open_image(path)
        names = [p for p, _ in streams_of(im0)]
        R.close_image(im0)
        iso = {}
        for p in names:
            # isolated: a freshly opened image in which nothing but the way down to this one sample is realised
            im = R.open_image(path)
            st = navigate(im, p)
            iso[p] = b""
            while True:
                b = st.read(1000)
                if not b:
                    break
                iso[p] += b
            R.close_image(im)
        for rep in range(3 if tier == "quick" else 10):
            im = R.open_image(path)
            if rep % 2 == 0:
                sts = dict(streams_of(im))
            else:
                order = list(names)
                rng.shuffle(order)                      # directories realised in another order than the traversal's
                sts = {p: navigate(im, p) for p in order}
            if not names:
                R.close_image(im)
                break
            chosen = rng.sample(names, min(len(names), rng.randint(2, 3)))
            got = {p: b"" for p in chosen}
            live = list(chosen)
            sched = []
            while live:
                p = rng.choice(live)
                r = rng.random()
                if r < 0.15:
                    # listing of other directories / re-realisation
                    try:
                        for ch in im.children:
                            _ = [c.safe_name for c in getattr(ch, "children", [])]
                    except Exception:
                        pass
                    sched.append("ls")
                    continue
                if r < 0.25:
                    # a foreign seek+read on some other stream of the image
                    q = rng.choice(names)
                    o = rng.randint(0, 500)
                    sts[q].seek(o - o % 2, 0) if q not in chosen else None
                    sched.append(("foreign", q))
                    continue
                n = rng.choice([2, 64, 1000, 4096, 8192, 10000])
                b = sts[p].read(n)
                sched.append((p, n))
                got[p] += b
                if not b:
                    live.remove(p)
            for p in chosen:
                case = {"image": kind, "seed": job, "rep": rep, "stream": p, "schedule": sched[:40]}
                ctx.count("image_schedule", (kind, job, rep, p), nontrivial=len(chosen) > 1)
                ctx.require("image sample stream bytes independent of interleaving", case, got[p] == iso[p],
                            {"len_iso": len(iso[p]), "len_got": len(got[p])})
            R.close_image(im)
    return ctx.dump()


def run(ctx):
    plans = [(2, 2), (3, 3), (2, 2, 2)] if ctx.quick else [(2, 2), (3, 3), (4, 3), (2, 2, 2), (3, 2, 2), (3, 3, 2)]
    jobs = []
    for fi, (sh, tops) in enumerate(FORESTS):
        for pl in plans:
            if len(pl) <= len(tops):
                jobs.append((fi, pl))
    F.pmap(ctx, w_exh, jobs)
    F.pmap(ctx, w_rand, [ctx.seed * 104729 + i for i in range(32 if ctx.quick else 400)])
    F.pmap(ctx, w_image, [ctx.seed * 31 + i for i in range(12 if ctx.quick else 120)])
    ctx.exhaustive = True


def replay(ctx, case):
    c = case["case"]

    def tup(x):
        return tuple(tup(y) for y in x) if isinstance(x, list) else x
    if "shared" in c:
        tops = [[tup(l) for l in t] for t in c["tops"]]
        sched = [(i, tup(o)) for i, o in c["schedule"]]
        content = CONTENT if c["content_len"] == len(CONTENT) else None
        if content is None:
            print("random content: re-run the check with the same VERIF_SEED")
            return False
        streams, specs, _ = build_forest(tup(c["shared"]), tops, content)
        got = run_schedule(streams, sched)
        i = c["view"]
        own = [op for j, op in sched if j == i]
        ref = VW.run_ref(VW.logical(specs[i], content), own, specs[i][2] if specs[i][0] == "rev" else None)
        print("got:", got[i])
        print("ref:", ref)
        return VW.ref_agrees(ref, got[i])
    w = w_image(ctx.pid, ctx.tier, ctx.seed, c["seed"])
    return not w["failures"]
