"""C12 - PCM transcoding maps every source channel to the same-numbered output channel.

Correspondence: Transcode.transcode (extracted) vs make_transcoder drained, byte for byte
except the padded tail (masked).  Oracle from the property text: channel count, frame map
for f < shortest source, length bounds, exact length for equal sources."""
import io
import itertools
import random

import framework as F
import model as M

RULE = ("grid: 1..3 streams x 1..3 interleaved channels x common width {1,2,4} x byte order per stream x lengths "
        "{0, 1, 2, 3+partial, 5, 9 frames, unequal} x internal block size {1 byte .. 4096} x patched host byte order; "
        "exhaustive for 1-2 streams over the reduced grid, seeded sample for 3 streams. Every byte of every channel is distinct per stream. "
        "Non-trivial = at least one stream has >= 1 whole frame; distinct = distinct (streams, block size, host order)")


def make_src(idx, width, chans, big, nframes, partial):
    n = nframes * width * chans + partial
    data = bytes(((idx * 83 + k * 7 + 1) % 255) + 1 for k in range(n))
    return {"bytes": data, "width": width, "chans": chans, "big": big}


def run_impl(srcs, target, host_big, dwidth, dchans):
    import smpl_extract.transcoder as T
    from smpl_extract.data_streams import DataStream, StreamEncoding, Endianess
    old_def = T.get_num_frames_possible.__defaults__
    old_sys = T.system_byte_order
    T.get_num_frames_possible.__defaults__ = (target,)
    T.system_byte_order = Endianess.BIG if host_big else Endianess.LITTLE
    try:
        streams = [DataStream(io.BytesIO(s["bytes"]),
                              StreamEncoding(Endianess.BIG if s["big"] else Endianess.LITTLE, s["width"], s["chans"]))
                   for s in srcs]
        tr = T.make_transcoder(streams, StreamEncoding(Endianess.LITTLE, dwidth, dchans))
        out = b""
        n = 0
        for blk in tr:
            out += blk
            n += 1
            if n > 100000:
                raise RuntimeError("transcoder does not stop")
        return out
    finally:
        T.get_num_frames_possible.__defaults__ = old_def
        T.system_byte_order = old_sys


def expected_sample(s, f, c):
    w, ch = s["width"], s["chans"]
    o = (f * ch + c) * w
    b = s["bytes"][o:o + w]
    return b[::-1] if s["big"] else b


def check_case(ctx, case, mv):
    srcs, target, host_big = case
    w = srcs[0]["width"]
    dch = sum(s["chans"] for s in srcs)
    iv = M.impl_res(run_impl, srcs, target, host_big, w, dch)
    nfr = [len(s["bytes"]) // (s["width"] * s["chans"]) for s in srcs]
    desc = {"streams": [{"width": s["width"], "chans": s["chans"], "big": s["big"], "len": len(s["bytes"])} for s in srcs],
            "block_bytes": target, "host_big": host_big}
    ctx.count("transcode", (tuple((s["width"], s["chans"], s["big"], len(s["bytes"])) for s in srcs), target, host_big),
              nontrivial=max(nfr) > 0)
    mres = M.res(mv)
    fsz = dch * w

    def mask(b):
        # zero out padded positions: (frame f, channel of stream i) with f >= nfr[i]
        b = bytearray(b)
        for f in range(len(b) // fsz):
            off = f * fsz
            for i, s in enumerate(srcs):
                span = s["chans"] * w
                if f >= nfr[i]:
                    b[off:off + span] = bytes(span)
                off += span
        return bytes(b)
    if iv[0] == "ok" and mres[0] == "ok":
        ctx.agree("transcode", desc, ("ok", len(iv[1]), mask(iv[1])), ("ok", len(mres[1]), mask(bytes(mres[1]))))
    else:
        ctx.agree("transcode", desc, iv[0:2] if iv[0] != "ok" else ("ok",), mres[0:2] if mres[0] != "ok" else ("ok",))
    if iv[0] != "ok":
        ctx.require("transcoding succeeds", desc, False, iv)
        return
    out = iv[1]
    ok_ch = len(out) % fsz == 0
    ctx.require("output is whole frames of sum(channels) samples", desc, ok_ch, len(out))
    if not ok_ch:
        return
    nout = len(out) // fsz
    ctx.require("output frames between shortest and longest source", desc, min(nfr) <= nout <= max(nfr), {"out": nout, "src": nfr})
    if min(nfr) == max(nfr):
        ctx.require("equal-length sources give exactly that many frames", desc, nout == nfr[0], {"out": nout, "src": nfr})
    bad = None
    for f in range(min(min(nfr), nout)):
        off = f * fsz
        for i, s in enumerate(srcs):
            for c in range(s["chans"]):
                if out[off:off + w] != expected_sample(s, f, c):
                    bad = (f, i, c, out[off:off + w].hex(), expected_sample(s, f, c).hex())
                    break
                off += w
            if bad:
                break
        if bad:
            break
    ctx.require("output frame f, channel c = source channel c frame f (little endian)", desc, bad is None, bad)


def w_cases(pid, tier, seed, job):
    ctx = F.Ctx(pid, tier, seed)
    cases = job
    args = [[t, [[s["bytes"], s["width"], s["chans"], s["big"]] for s in srcs], srcs[0]["width"], sum(s["chans"] for s in srcs)]
            for (srcs, t, h) in cases]
    mod = M.call_batch("transcode", args)
    for c, mv in zip(cases, mod):
        check_case(ctx, c, mv)
    return ctx.dump()


LENS = [(0, 0), (1, 0), (2, 1), (3, 0), (5, 0), (9, 2)]


def grid(nstreams, rng, limit=None):
    per = [(ch, big, ln) for ch in (1, 2, 3) for big in (False, True) for ln in LENS]
    out = []
    combos = itertools.product(per, repeat=nstreams)
    if limit is not None:
        allc = list(combos)
        combos = rng.sample(allc, min(limit, len(allc)))
    for combo in combos:
        for w in (1, 2, 4):
            srcs = [make_src(i, w, ch, big, ln[0], min(ln[1], w * ch - 1)) for i, (ch, big, ln) in enumerate(combo)]
            fsz = [w * s["chans"] for s in srcs]
            for t in (1, max(fsz), 2 * max(fsz) + 1, 24, 4096):
                for h in (False, True):
                    out.append((srcs, t, h))
    return out


def chunks(l, n):
    for i in range(0, len(l), n):
        yield l[i:i + n]


def run(ctx):
    rng = ctx.rng
    cases = grid(1, rng)
    cases += grid(2, rng, limit=None if not ctx.quick else 250)
    cases += grid(3, rng, limit=150 if ctx.quick else 3000)
    # long equal-length stereo pairs across real block sizes (the export path)
    for n in (2047, 2048, 2049, 5000):
        for big in (False, True):
            srcs = [make_src(0, 2, 1, big, n, 0), make_src(1, 2, 1, False, n, 0)]
            cases += [(srcs, 4096, False), (srcs, 4096, True), (srcs, 100, False)]
        cases.append(([make_src(0, 2, 3, False, n, 1)], 4096, False))
        cases.append(([make_src(0, 4, 3, True, n, 5)], 4096, False))
    # error cases are part of the API: no stream / channel mismatch are exercised via the model directly
    F.pmap(ctx, w_cases, list(chunks(cases, 400)))
    # NoDataStream / IncompatibleNumberOfChannels
    import smpl_extract.transcoder as T
    from smpl_extract.data_streams import DataStream, StreamEncoding, Endianess
    mod = M.call_batch("transcode", [[4096, [], 2, 1], [4096, [[b"ab", 2, 1, 0]], 2, 2]])
    r1 = M.impl_res(T.make_transcoder, [], StreamEncoding())
    r2 = M.impl_res(T.make_transcoder, [DataStream(io.BytesIO(b"ab"), StreamEncoding(Endianess.LITTLE, 2, 1))], StreamEncoding(Endianess.LITTLE, 2, 2))
    ctx.agree("transcode_errors", "no streams", r1[:2] if r1[0] == "err" else r1[0], M.res(mod[0])[:2])
    ctx.agree("transcode_errors", "channel mismatch", r2[:2] if r2[0] == "err" else r2[0], M.res(mod[1])[:2])
    ctx.exhaustive = True


def replay(ctx, case):
    c = case["case"]
    srcs = []
    for i, s in enumerate(c["streams"]):
        fs = s["width"] * s["chans"]
        srcs.append(make_src(i, s["width"], s["chans"], s["big"], s["len"] // fs, s["len"] % fs))
    sub = F.Ctx(ctx.pid, ctx.tier, ctx.seed)
    mv = M.call_batch("transcode", [[c["block_bytes"], [[s["bytes"], s["width"], s["chans"], s["big"]] for s in srcs], srcs[0]["width"], sum(s["chans"] for s in srcs)]])[0]
    check_case(sub, (srcs, c["block_bytes"], c["host_big"]), mv)
    for f in sub.failures:
        print(f["what"], f["detail"])
    return not sub.failures
