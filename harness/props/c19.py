"""C19 - de-emphasis filters give the same output however the signal is split into blocks.

Tie.  The Coq model (coq/Filters.v) is written by hand from the text of fir.pyx / iir.pyx /
common.py.  What runs is the COMPILED extension (fir/iir .so; Cython is not installed, so an
edit of a .pyx cannot change the binary).  The tie therefore has two legs:

 * source leg: the normalised text (comments, blank lines and trailing blanks removed) of
   fir.pyx and iir.pyx must hash to the value committed in harness/filters_pyx.sha256, which
   was recorded for the text the model was written from.  If it differs the binary is
   stale with respect to the source and the model no longer describes the source: the tie is
   recorded as broken (relation "pyx-source-hash"), the comparison with the binary is still
   run (it says nothing about the edit, which is noted), the property oracle searches for a
   failing input on the binary, and the check fails closed (with a concrete input when the
   oracle finds one, otherwise "VIOLATION ... no-failing-input-found").
 * behaviour leg: the extracted model against the real classes (operation sequences
   process / get_remaining / reset_state, outputs and saved state compared bit-exactly:
   floats as hex), on every run.  common.py is plain Python and is exercised directly.

Oracle (from the property text, on the real classes, independent of the Coq model):
block-split independence + flush, output count = input count, saturation of the 16-bit
filters against exact rational / float reference sums, reset == new.  Failures of the first
two on a FIR filter with one tap or fed a block shorter than N-1 are the known finding D9
(case["d9_shape"]); everything else is a violation."""
import hashlib
import itertools
import math
import os
import random
from fractions import Fraction

import numpy as np

import framework as F
import model as M

RULE = ("exhaustive: every composition (ordered split into non-empty blocks) of signals of each length 1..10 "
        "(int16 and float64 signals: random, extreme, burst-then-silence, silence) for generic FIR (1-4 taps, every delay offset), "
        "ChickenSys FIR (custom taps/k), generic IIR, ChickenSys IIR and the five presets; random splits (arbitrary, and with every "
        "block >= N-1) of random / extreme int16 signals of length 11..400 for all presets and random integer-valued and "
        "fractional FIR/IIR coefficients and delay offsets; malformed configurations (bad delay offset, empty taps, k=0, A[0]=0, "
        "wrong dtype, empty blocks); presets on signals of 2^14..2^17 + r samples fed as blocks of more than 2^16 samples (every block >= N-1); circular-buffer op sequences.  Non-trivial = signal has a non-zero sample and more than one block "
        "or a flush; distinct = distinct (filter, signal, split)")

HASH_FILE = os.path.join(F.VERIF, "harness", "filters_pyx.sha256")
PYX = ["smpl_extract/filters/fir.pyx", "smpl_extract/filters/iir.pyx"]

W_SPLIT = "block-wise output followed by flush equals one-block output followed by flush"
W_COUNT = "number of output samples equals number of input samples"
W_SAT_FIR = "16-bit FIR output equals the exact per-term-rounded sum clamped to the int16 limits"
W_SAT_IIR = "16-bit IIR output stays within the int16 limits and follows the saturating recurrence"
W_SAT_CDX = "CDXtract FIR output is the truncated exact sum within the int16 limits"
W_RESET = "filter after reset_state behaves like a new filter"
W_FLUSH_NEW = "filter after get_remaining behaves like a new filter"


# ------------------------------------------------------------------------ source leg
def normalise_pyx(text: str) -> str:
    out = []
    for line in text.splitlines():
        if line.startswith("#cython:") or line.startswith("#!"):
            out.append(line.rstrip())
            continue
        q, res = None, []
        for ch in line:
            if q:
                res.append(ch)
                if ch == q:
                    q = None
            elif ch in "\"'":
                q = ch
                res.append(ch)
            elif ch == "#":
                break
            else:
                res.append(ch)
        s = "".join(res).rstrip()
        if s:
            out.append(s)
    return "\n".join(out) + "\n"


def pyx_hashes(repo: str):
    return {p: hashlib.sha256(normalise_pyx(open(os.path.join(repo, p)).read()).encode()).hexdigest() for p in PYX}


def source_tie(ctx) -> bool:
    recorded = {}
    for line in open(HASH_FILE):
        line = line.strip()
        if line and not line.startswith("#"):
            h, p = line.split()
            recorded[p] = h
    cur = pyx_hashes(F.REPO)
    ok = True
    for p in PYX:
        same = cur[p] == recorded.get(p)
        ctx.relations["pyx-source-hash"] = ctx.relations.get("pyx-source-hash", 0) + 1
        if not same:
            ok = False
            ctx.disagreements.append({
                "relation": "pyx-source-hash", "case": {"file": p},
                "impl": cur[p], "model": recorded.get(p),
                "note": "the Cython source differs from the text the Coq model (coq/Filters.v) was written from; the compiled "
                        ".so cannot be rebuilt here, so neither the model nor the binary describes the edited source"})
    if not ok:
        ctx.note("filters: .pyx source changed with respect to harness/filters_pyx.sha256 -> model/binary comparison is NOT evidence "
                 "about the edited source (binary is stale); tie reported broken, oracle searched the binary for a failing input")
    return ok


# ------------------------------------------------------------------------ implementation side
PRESET_N = {0: 8, 4: 19}
PRESET_NAMES = ["CdXtractRolandDeemphFilter", "ChickSysStandardDeemphFilter", "ChickSysDarkerDeemphFilter",
                "ChickSysSpecialDeemphFilter", "ChickSysRolandDeemphFilter"]


def build(spec):
    from smpl_extract.filters import fir, iir, common
    t = spec["t"]
    if t == "preset":
        return getattr(common, PRESET_NAMES[spec["n"]])()
    if t == "fir":
        h = np.asarray(spec["h"], dtype=np.int16 if spec["hk"] else np.float64)
        if spec["chick"]:
            return fir.ChickSysCustomFirFilter(h, spec["m0"], spec["k"])
        return fir.FirFilter(h, spec["m0"])
    B = np.asarray(spec["B"], dtype=np.float64)
    A = np.asarray(spec["A"], dtype=np.float64)
    if spec["chick"]:
        if len(B) == 2 and len(A) == 2 and A[0] == 1.0:
            return iir.ChickSysCustomIirFilter((float(B[0]), float(B[1]), float(-A[1])))
        f = iir.ChickSysCustomIirFilter.__new__(iir.ChickSysCustomIirFilter)
        iir.IirFilter.__init__(f, B, A)
        return f
    return iir.IirFilter(B, A)


def np_arr(a):
    return np.asarray(a[1], dtype=np.int16 if a[0] else np.float64)


def fhex(x):
    x = float(x)
    return "nan" if x != x else x.hex()


def canon_arr(y):
    y = np.asarray(y)
    if y.dtype == np.float64:
        return [0, [fhex(v) for v in y.tolist()]]
    if y.dtype == np.int16:
        return [1, [int(v) for v in y.tolist()]]
    return ["dtype", str(y.dtype), [repr(v) for v in y.tolist()]]


def canon_state(f):
    if hasattr(f, "y_prev"):
        return [1, [fhex(v) for v in f.x_prev.tolist()], [fhex(v) for v in f.y_prev.tolist()]]
    return [0, canon_arr(f.x_prev)]


def impl_run_ops(spec, ops):
    def go():
        f = build(spec)
        outs = []
        for op in ops:
            if op[0] == 0:
                outs.append(f.process(np_arr(op[1])))
            elif op[0] == 1:
                outs.append(f.get_remaining())
            else:
                f.reset_state()
        # the returned blocks are looked at only now, as a caller that collects them would: a block must not change after it was handed out
        return [[canon_arr(y) for y in outs], canon_state(f)]
    with np.errstate(all="ignore"):
        import warnings
        with warnings.catch_warnings():
            warnings.simplefilter("ignore")
            return M.impl_res(go)


# ------------------------------------------------------------------------ model side
def spec_arg(spec):
    t = spec["t"]
    if t == "preset":
        return [2, spec["n"]]
    if t == "fir":
        return [0, spec["chick"], spec["k"], [spec["hk"], spec["h"]], spec["m0"]]
    return [1, spec["chick"], [float(v) for v in spec["B"]], [float(v) for v in spec["A"]]]


def arr_arg(a):
    return [a[0], [int(v) for v in a[1]] if a[0] else [float(v) for v in a[1]]]


def ops_arg(ops):
    return [[0, arr_arg(op[1])] if op[0] == 0 else [op[0]] for op in ops]


def m_arr(v):
    if v[0] == 0:
        return [0, [fhex(M.dec_float(x)) for x in v[1]]]
    return [1, list(v[1])]


def m_state(v):
    if v[0] == 0:
        return [0, m_arr(v[1])]
    return [1, [fhex(M.dec_float(x)) for x in v[1]], [fhex(M.dec_float(x)) for x in v[2]]]


def canon_model(mv):
    r = M.res(mv)
    if r[0] != "ok":
        return r
    return ("ok", [[m_arr(a) for a in r[1][0]], m_state(r[1][1])])


# ------------------------------------------------------------------------ oracle (property text)
def fir_taps(spec):
    if spec["t"] == "preset":
        return PRESET_N.get(spec["n"])
    if spec["t"] == "fir":
        return len(spec["h"])
    return None


def d9_shape(spec, lens):
    n = fir_taps(spec)
    return n is not None and (n == 1 or any(ln < n - 1 for ln in lens))


def flat(a):
    return [(a[0], v) for v in a[1]]


def stream_impl(spec, sig, cuts):
    """Feed the blocks, flush; returns flattened (dtype,value) samples or an error tuple."""
    def go():
        f = build(spec)
        blocks, pos = [], 0
        for ln in cuts:
            blocks.append(f.process(np_arr([sig[0], sig[1][pos:pos + ln]])))
            pos += ln
        blocks.append(f.get_remaining())
        out = []
        for y in blocks:            # collected first, read afterwards (see impl_run_ops)
            out += flat(canon_arr(y))
        return out
    with np.errstate(all="ignore"):
        import warnings
        with warnings.catch_warnings():
            warnings.simplefilter("ignore")
            return M.impl_res(go)


def rha(fr):
    n = math.floor(abs(fr) + Fraction(1, 2))
    return n if fr >= 0 else -n


def clamp(v, lo, hi):
    return lo if v < lo else hi if v > hi else v


def sat_reference(spec, x):
    """Expected whole-signal output of a 16-bit filter, from its definition.
    -> (what, list of (lo, hi) admissible integer intervals) or None."""
    if spec["t"] == "preset" and spec["n"] == 4 or spec["t"] == "fir" and spec["chick"]:
        if spec["t"] == "preset":
            h, m0, k = [1, -2, 5, -11, 25, -65, 176, -460, 9981, 32767, 9981, -460, 176, -65, 25, -11, 5, -2, 1], 7, 52067
        else:
            h, m0, k = spec["h"], spec["m0"], spec["k"]
        n = len(h)
        xp = [0] * (n - m0 - 1) + list(x) + [0] * m0
        out = []
        for i in range(len(x)):
            s = sum(rha(Fraction(xp[i + j] * h[n - 1 - j], k)) for j in range(n))
            v = clamp(s, -32768, 32767)
            out.append((v, v))
        return W_SAT_FIR, out
    if spec["t"] == "preset" and spec["n"] == 0:
        h = [0.005066072573015534, 0.315591906491287, 0.6036255989257485, 0.07571642200994903, 0.0, 0.0, 0.0, 0.0]
        n = 8
        xp = [0] * (n - 1) + list(x)
        out = []
        for i in range(len(x)):
            s = sum(Fraction(xp[i + j]) * Fraction(h[n - 1 - j]) for j in range(n))
            t = math.trunc(s)
            out.append((max(-32768, t - 1), min(32767, t + 1)))
        return W_SAT_CDX, out
    coeffs = None
    if spec["t"] == "preset":
        coeffs = {1: (0.5923, 0.1516, 0.2560), 2: (0.7071, 0.1213, 0.1716),
                  3: (22082 / 32767, 4967 / 32767, 8411 / 32767)}[spec["n"]]
        B, A = [coeffs[0], coeffs[1]], [1.0, -coeffs[2]]
    elif spec["t"] == "iir" and spec["chick"]:
        B, A = spec["B"], spec["A"]
        if sum(abs(a) for a in A[1:]) > 0.9 * abs(A[0]):
            return None
    else:
        return None
    xs, ys, out = [0.0] * len(B), [0.0] * (len(A) - 1), []
    for v in x:
        xs = [float(v)] + xs[:-1]
        y = (math.fsum(b * w for b, w in zip(B, xs)) - math.fsum(a * w for a, w in zip(A[1:], ys))) / A[0]
        y = clamp(y, -32767.0, 32767.0)
        ys = [y] + ys[:-1]
        t = math.trunc(y)
        out.append((max(-32767, t - 1), min(32767, t + 1)))
    return W_SAT_IIR, out


def oracle_signal(ctx, spec, sig, whole=None):
    """Checks that concern the unsplit signal: count, saturation.  Returns the whole-run samples."""
    L = len(sig[1])
    case = {"spec": spec, "sig": sig, "cuts": [L], "d9_shape": d9_shape(spec, [L])}
    if whole is None:
        whole = stream_impl(spec, sig, [L])
    if whole[0] != "ok":
        ctx.require("streaming a valid signal raises no exception", case, False, whole)
        return whole
    ctx.require(W_COUNT, case, len(whole[1]) == L, {"inputs": L, "outputs": len(whole[1])})
    if sig[0] == 1 and not case["d9_shape"]:
        ref = sat_reference(spec, sig[1])
        if ref is not None and len(whole[1]) == L:
            what, iv = ref
            bad = [(i, whole[1][i][1], iv[i]) for i in range(L)
                   if not (whole[1][i][0] == 1 and iv[i][0] <= whole[1][i][1] <= iv[i][1])]
            ctx.require(what, case, not bad, {"first_bad (index, got, admissible)": bad[:3]})
    return whole


def oracle_split(ctx, spec, sig, cuts, whole):
    case = {"spec": spec, "sig": sig, "cuts": list(cuts), "d9_shape": d9_shape(spec, cuts)}
    got = stream_impl(spec, sig, cuts)
    if got[0] != "ok" or whole[0] != "ok":
        ctx.require("streaming a valid signal raises no exception", case, got[0] == "ok", got)
        return
    L = len(sig[1])
    ctx.require(W_COUNT, case, len(got[1]) == L, {"inputs": L, "outputs": len(got[1])})
    # when the one-block run is itself D9-affected the comparison is D9-shaped as well
    case_cmp = dict(case, d9_shape=case["d9_shape"] or d9_shape(spec, [L]))
    ctx.require(W_SPLIT, case_cmp, got[1] == whole[1],
                {"split": [v for _, v in got[1]][:40], "whole": [v for _, v in whole[1]][:40]})


def oracle_reset(ctx, spec, sig, cuts):
    def go(mode):
        f = build(spec)
        pos, out = 0, []
        if mode != "new":
            for ln in cuts[:max(1, len(cuts) // 2)]:
                f.process(np_arr([sig[0], sig[1][pos:pos + ln]]))
                pos += ln
            if mode == "reset":
                f.reset_state()
            else:
                f.get_remaining()
        pos = 0
        for ln in cuts:
            out += flat(canon_arr(f.process(np_arr([sig[0], sig[1][pos:pos + ln]]))))
            pos += ln
        out += flat(canon_arr(f.get_remaining()))
        return out
    with np.errstate(all="ignore"):
        new, rst, fl = M.impl_res(go, "new"), M.impl_res(go, "reset"), M.impl_res(go, "flush")
    case = {"spec": spec, "sig": sig, "cuts": list(cuts), "reset": True}
    ctx.require(W_RESET, case, new == rst, {"new": new, "after_reset": rst})
    ctx.require(W_FLUSH_NEW, dict(case, reset="flush"), new == fl, {"new": new, "after_flush": fl})


# ------------------------------------------------------------------------ generators
def compositions(n):
    for mask in range(1 << (n - 1)):
        cuts, run = [], 1
        for i in range(n - 1):
            if mask >> i & 1:
                cuts.append(run)
                run = 1
            else:
                run += 1
        cuts.append(run)
        yield cuts


EXT = [32767, -32768, 32767, 32767, -32768, -32768, 0, 32766, -32767, 1, -1]


def gen_signal(rng, kind, L, family):
    if kind == 1:
        if family == "rand":
            v = [rng.randint(-32768, 32767) for _ in range(L)]
        elif family == "ext":
            v = [rng.choice(EXT) for _ in range(L)]
        elif family == "pos":
            v = [32767] * L
        elif family == "neg":
            v = [-32768] * L
        elif family == "alt":
            v = [32767 if (i // max(1, rng.randint(1, 3))) % 2 == 0 else -32768 for i in range(L)]
        elif family == "burst":   # content followed by digital silence
            k = rng.randint(1, max(1, L // 2))
            v = [rng.choice([20000, -20000, 32767, -32768, rng.randint(-32768, 32767)]) for _ in range(k)] + [0] * (L - k)
        elif family == "sil_burst":
            k = rng.randint(0, L - 1)
            v = [0] * k + [rng.randint(-32768, 32767) for _ in range(L - k)]
        else:
            v = [0] * L
        return [1, v]
    if family in ("rand", "burst", "sil_burst"):
        v = [rng.uniform(-40000, 40000) for _ in range(L)]
    elif family == "ext":
        v = [rng.choice([1e300, -1e300, 0.5, -0.5, 1.5, 32767.5, -32768.5, 1e-300, 3.0, -0.0, 0.1]) for _ in range(L)]
    else:
        v = [float(rng.randint(-5, 5)) for _ in range(L)]
    return [0, v]


def fir_specs_small(rng):
    specs = []
    for n in (1, 2, 3, 4):
        for m0 in range(n):
            h = [float(rng.randint(-4, 4) or 1) for _ in range(n)] if (n + m0) % 2 == 0 else \
                [rng.uniform(-1.5, 1.5) for _ in range(n)]
            specs.append({"t": "fir", "chick": 0, "k": 1, "hk": 0, "h": h, "m0": m0})
    specs.append({"t": "fir", "chick": 0, "k": 1, "hk": 0, "h": [1.0, 1.0, 1.0], "m0": 0})     # D9 witness taps
    for n, m0, k in ((1, 0, 1), (2, 0, 1), (2, 1, 3), (3, 1, 2), (3, 2, 7), (4, 0, -3)):
        specs.append({"t": "fir", "chick": 1, "k": k, "hk": 1,
                      "h": [rng.choice([1, -2, 5, 9981, 32767, -460, rng.randint(-32768, 32767)]) for _ in range(n)], "m0": m0})
    specs.append({"t": "fir", "chick": 1, "k": 1, "hk": 1, "h": [1, 1], "m0": 0})              # sums hit +-32768 exactly
    return specs


def iir_specs_small(rng):
    specs = []
    for nb, na in ((1, 2), (2, 2), (3, 3), (2, 4), (4, 2)):
        B = [rng.uniform(-1, 1) for _ in range(nb)]
        A = [rng.choice([1.0, 2.0, -0.5, rng.uniform(0.5, 2)])] + [rng.uniform(-0.4, 0.4) for _ in range(na - 1)]
        specs.append({"t": "iir", "chick": 0, "B": B, "A": A})
    specs.append({"t": "iir", "chick": 0, "B": [1.0, 2.0], "A": [1.0, -3.0]})                  # unstable, integer-valued
    specs.append({"t": "iir", "chick": 1, "B": [0.9, 0.3], "A": [1.0, -0.5]})                 # gain > 1: saturates
    specs.append({"t": "iir", "chick": 1, "B": [0.5, 0.25, 0.25], "A": [0.5, -0.2, 0.1]})
    return specs


def random_spec(rng):
    r = rng.random()
    if r < 0.3:
        return {"t": "preset", "n": rng.randint(0, 4)}
    if r < 0.5:
        n = rng.choice([1, 2, 3, 5, 8, 11, 12, 13, 19, 24])
        integer = n > 11 or rng.random() < 0.5      # > 11 taps: numpy uses BLAS, order unspecified -> integer-valued data only
        h = [float(rng.randint(-9, 9)) for _ in range(n)] if integer else [rng.uniform(-1, 1) for _ in range(n)]
        return {"t": "fir", "chick": 0, "k": 1, "hk": 0, "h": h, "m0": rng.randint(0, n - 1)}
    if r < 0.65:
        n = rng.choice([1, 2, 3, 7, 19, 21])
        return {"t": "fir", "chick": 1, "k": rng.choice([1, 2, 3, 7, 52067, -5, 1000]), "hk": 1,
                "h": [rng.choice([rng.randint(-32768, 32767), rng.randint(-50, 50), 32767, -32768]) for _ in range(n)],
                "m0": rng.randint(0, n - 1)}
    nb, na = rng.randint(1, 6), rng.randint(2, 6)
    if rng.random() < 0.4:
        B = [float(rng.randint(-3, 3)) for _ in range(nb)]
        A = [float(rng.choice([1, 2, -1, 4]))] + [float(rng.randint(-2, 2)) for _ in range(na - 1)]
    else:
        B = [rng.uniform(-1, 1) for _ in range(nb)]
        A = [rng.uniform(0.5, 2) * rng.choice([1, -1])] + [rng.uniform(-0.9, 0.9) / (na - 1) for _ in range(na - 1)]
    return {"t": "iir", "chick": int(rng.random() < 0.4), "B": B, "A": A}


def sig_kind_for(spec, rng):
    if spec["t"] == "preset" or spec.get("chick"):
        return 1
    return rng.choice([0, 1])


def random_cuts(rng, L, nmin):
    """A composition of L; with nmin > 0 every block has at least nmin samples (if possible)."""
    cuts, left = [], L
    while left > 0:
        lo = max(1, nmin)
        if left < 2 * lo:
            ln = left
        else:
            ln = rng.choice([lo, lo, rng.randint(lo, min(left - lo, lo + 40)), rng.randint(lo, left - lo)])
        cuts.append(ln)
        left -= ln
    return cuts


# ------------------------------------------------------------------------ workers
def corr_and_oracle(ctx, items):
    """items: list of (spec, sig, [cuts...]).  Correspondence on op sequences derived from every split,
    then the oracle."""
    calls, meta = [], []
    for spec, sig, cutlist in items:
        for cuts in cutlist:
            ops, pos = [], 0
            for ln in cuts:
                ops.append([0, [sig[0], sig[1][pos:pos + ln]]])
                pos += ln
            ops.append([1])
            calls.append([spec_arg(spec), ops_arg(ops)])
            meta.append((spec, sig, cuts, ops))
    mod = M.call_batch("filter_run_ops", calls) if calls else []
    for (spec, sig, cuts, ops), mv in zip(meta, mod):
        iv = impl_run_ops(spec, ops)
        nontriv = any(v != 0 for v in sig[1])
        ctx.count("%s/%s" % (spec["t"], "chick" if spec.get("chick") else spec.get("n", "generic")),
                  (repr(spec), sig, cuts), nontrivial=nontriv)
        ctx.agree("filter_run_ops", {"spec": spec, "sig": sig, "cuts": cuts}, iv, canon_model(mv))
    for spec, sig, cutlist in items:
        whole = oracle_signal(ctx, spec, sig)
        if whole[0] != "ok":
            continue
        for cuts in cutlist:
            if len(cuts) > 1:
                oracle_split(ctx, spec, sig, cuts, whole)


def w_exhaustive(pid, tier, seed, job):
    ctx = F.Ctx(pid, tier, seed)
    spec, kind, jseed, maxlen, fams = job
    rng = random.Random(jseed)
    items = []
    for L in range(1, maxlen + 1):
        for fam in fams:
            sig = gen_signal(rng, kind, L, fam)
            items.append((spec, sig, list(compositions(L))))
    corr_and_oracle(ctx, items)
    return ctx.dump()


def w_random(pid, tier, seed, job):
    ctx = F.Ctx(pid, tier, seed)
    jseed, n = job
    rng = random.Random(jseed)
    items, resets = [], []
    for _ in range(n):
        spec = random_spec(rng)
        kind = sig_kind_for(spec, rng)
        L = rng.randint(11, 400 if rng.random() < 0.3 else 80)
        fam = rng.choice(["rand", "rand", "ext", "pos", "neg", "alt", "burst", "sil_burst"] if kind else ["rand", "ext", "small"])
        if kind == 0 and spec["t"] == "fir" and len(spec["h"]) > 11:
            fam = "small"
        sig = gen_signal(rng, kind, L, fam)
        nt = fir_taps(spec) or 0
        cutlist = [random_cuts(rng, L, 0), random_cuts(rng, L, max(0, nt - 1)), random_cuts(rng, L, max(0, nt - 1))]
        items.append((spec, sig, cutlist))
        resets.append((spec, sig, cutlist[1]))
    corr_and_oracle(ctx, items)
    for spec, sig, cuts in resets:
        oracle_reset(ctx, spec, sig, cuts)
    return ctx.dump()


def w_big(pid, tier, seed, job):
    """Blocks far longer than any internal working size (beyond 2^16 samples), every block >= N-1: the presets, split and unsplit."""
    ctx = F.Ctx(pid, tier, seed)
    n, jseed, with_model = job
    rng = random.Random(jseed)
    spec = {"t": "preset", "n": n}
    nt = fir_taps(spec) or 2
    items = []
    for base in ([65536] if tier == "quick" else [65536, 131072, 32768, 16384]):
        for r in ([1, nt - 2, nt - 1] if tier == "quick" else [1, 2, nt - 2, nt - 1, nt, 40]):
            r = max(1, r)
            tail = rng.choice([nt, 64, 100])
            L = base + r + tail
            sig = gen_signal(rng, 1, L, rng.choice(["rand", "burst", "alt"]))
            cutlist = [[base + r, tail], [base, r + tail], [4096] * (L // 4096) + ([L % 4096] if L % 4096 >= nt else [])]
            if sum(cutlist[2]) != L:
                cutlist[2][-1] += L - sum(cutlist[2])
            items.append((spec, sig, cutlist))
    if with_model:
        corr_and_oracle(ctx, items[:1])
        items = items[1:]
    for spec, sig, cutlist in items:
        ctx.count("big/%s" % n, (n, len(sig[1]), tuple(map(tuple, cutlist)), jseed), nontrivial=True)
        whole = oracle_signal(ctx, spec, sig)
        if whole[0] != "ok":
            continue
        for cuts in cutlist:
            oracle_split(ctx, spec, sig, cuts, whole)
    return ctx.dump()


def w_ops(pid, tier, seed, job):
    """Random operation sequences incl. reset_state and flushes in the middle, empty blocks, and
    malformed configurations (errors must agree)."""
    ctx = F.Ctx(pid, tier, seed)
    jseed, n = job
    rng = random.Random(jseed)
    calls, meta = [], []
    bad_specs = [
        {"t": "fir", "chick": 0, "k": 1, "hk": 0, "h": [1.0, 2.0], "m0": 2},
        {"t": "fir", "chick": 0, "k": 1, "hk": 0, "h": [1.0, 2.0], "m0": 5},
        {"t": "fir", "chick": 0, "k": 1, "hk": 0, "h": [1.0, 2.0], "m0": -1},
        {"t": "fir", "chick": 0, "k": 1, "hk": 0, "h": [], "m0": 0},
        {"t": "fir", "chick": 0, "k": 1, "hk": 0, "h": [], "m0": -1},
        {"t": "fir", "chick": 1, "k": 0, "hk": 1, "h": [3, 5], "m0": 1},
        {"t": "fir", "chick": 1, "k": 1, "hk": 0, "h": [3.0, 5.0], "m0": 1},
        {"t": "iir", "chick": 0, "B": [], "A": [1.0, 0.5]},
        {"t": "iir", "chick": 0, "B": [1.0], "A": []},
        {"t": "iir", "chick": 0, "B": [1.0], "A": [0.0, 1.0]},
        {"t": "iir", "chick": 0, "B": [1.0], "A": [-0.0, 1.0]},
        {"t": "iir", "chick": 1, "B": [1.0, 0.5], "A": [1.0, -0.5], "float_input": True},
        {"t": "preset", "n": 2, "float_input": True},
    ]
    for i in range(n):
        if i < len(bad_specs):
            spec = dict(bad_specs[i])
            kind = 0 if spec.pop("float_input", False) else 1
        else:
            spec = random_spec(rng)
            kind = sig_kind_for(spec, rng)
        ops = []
        for _ in range(rng.randint(1, 8)):
            r = rng.random()
            if r < 0.7:
                ln = rng.choice([0, 1, 2, 3, rng.randint(1, 40)])
                fam = "small" if (kind == 0 and spec["t"] == "fir" and len(spec["h"]) > 11) else rng.choice(["rand", "ext"])
                ops.append([0, gen_signal(rng, kind, ln, fam)])
            elif r < 0.85:
                ops.append([1])
            else:
                ops.append([2])
        calls.append([spec_arg(spec), ops_arg(ops)])
        meta.append((spec, ops))
    mod = M.call_batch("filter_run_ops", calls)
    for (spec, ops), mv in zip(meta, mod):
        iv = impl_run_ops(spec, ops)
        ctx.count("ops", (repr(spec), ops), nontrivial=True)
        ctx.agree("filter_run_ops", {"spec": spec, "ops": ops}, iv, canon_model(mv))
    return ctx.dump()


def w_cbuf(pid, tier, seed, job):
    from smpl_extract.filters.iir import CircularBufferDouble
    ctx = F.Ctx(pid, tier, seed)
    jseed, n = job
    rng = random.Random(jseed)
    calls, meta = [], []
    for _ in range(n):
        x = [rng.uniform(-9, 9) for _ in range(rng.randint(0, 5))]
        size = rng.randint(1, 6)
        N = max(size, len(x))
        ops = []
        for _ in range(rng.randint(1, 14)):
            r = rng.random()
            if r < 0.55:
                ops.append([0, rng.uniform(-9, 9)])
            elif r < 0.8:
                ops.append([1, [rng.uniform(-2, 2) for _ in range(rng.randint(0, N))]])
            else:
                ops.append([2])
        calls.append([size, x, ops])
        meta.append((size, x, ops))
    mod = M.call_batch("cbuf_run_ops", calls)
    for (size, x, ops), mv in zip(meta, mod):
        cb = CircularBufferDouble(size, np.asarray(x, dtype=np.float64))
        out = []
        for op in ops:
            if op[0] == 0:
                cb.push(op[1])
            elif op[0] == 1:
                out.append([fhex(cb.inner_prod(np.asarray(op[1], dtype=np.float64)))])
            else:
                out.append([fhex(v) for v in cb.to_array().tolist()])
        ctx.count("cbuf", (size, x, ops))
        ctx.agree("cbuf_run_ops", {"size": size, "x": x, "ops": ops}, out,
                  [[fhex(M.dec_float(v)) for v in r] for r in mv])
        # window oracle: the buffer shows its N most recent pushes, newest first
        win = (list(x) + [0.0] * (max(size, len(x)) - len(x)))
        for op in ops:
            if op[0] == 0:
                win = [op[1]] + win[:-1]
        ctx.require("circular buffer holds its N most recent pushes, newest first", {"size": size, "x": x, "ops": ops},
                    [fhex(v) for v in cb.to_array().tolist()] == [fhex(v) for v in win], None)
    return ctx.dump()


def check_presets(ctx):
    """common.py constants against the model's presets (bit-exact)."""
    from smpl_extract.filters import common
    mod = M.call_batch("preset_coeffs", [0, 1, 2, 3, 4])
    for n, mv in enumerate(mod):
        f = getattr(common, PRESET_NAMES[n])()
        if hasattr(f, "B"):
            iv = [1, 1, [fhex(v) for v in f.B.tolist()], [fhex(v) for v in f.A.tolist()]]
            r = M.res(mv)[1]
            mm = [r[0], r[1], [fhex(M.dec_float(v)) for v in r[2]], [fhex(M.dec_float(v)) for v in r[3]]]
        else:
            chick = 1 if hasattr(f, "k_gain") else 0
            iv = [0, chick, int(getattr(f, "k_gain", 1)), canon_arr(f.h), int(f.m0)]
            r = M.res(mv)[1]
            mm = [r[0], r[1], r[2], m_arr(r[3]), r[4]]
        ctx.count("preset_coeffs", n)
        ctx.agree("preset_coeffs", {"preset": PRESET_NAMES[n]}, iv, mm)


def run(ctx):
    rng = ctx.rng
    source_tie(ctx)
    check_presets(ctx)
    ctx.exhaustive = True
    maxlen = 10
    jobs = []
    srng = random.Random(rng.getrandbits(32))
    int_fams = ["rand", "ext", "burst"] if ctx.quick else ["rand", "rand", "ext", "burst", "sil_burst", "alt", "zero"]
    flt_fams = ["rand"] if ctx.quick else ["rand", "ext", "small"]
    for spec in fir_specs_small(srng) + iir_specs_small(srng) + [{"t": "preset", "n": n} for n in range(5)]:
        kinds = [1] if (spec["t"] == "preset" or spec.get("chick")) else [1, 0]
        for kind in kinds:
            jobs.append((spec, kind, rng.getrandbits(32), maxlen, int_fams if kind else flt_fams))
    F.pmap(ctx, w_exhaustive, jobs)
    nrand = 16 if ctx.quick else 64
    per = 60 if ctx.quick else 250
    F.pmap(ctx, w_random, [(rng.getrandbits(32), per) for _ in range(nrand)])
    F.pmap(ctx, w_big, [(n, rng.getrandbits(32), n in (0, 1, 4)) for n in range(5)])
    F.pmap(ctx, w_ops, [(rng.getrandbits(32), 150 if ctx.quick else 600) for _ in range(16)])
    F.pmap(ctx, w_cbuf, [(rng.getrandbits(32), 200 if ctx.quick else 1500) for _ in range(8)])
    ctx.note("filters: FIR kernels with more than 11 taps are compared on integer-valued data only (numpy uses BLAS there; summation order unspecified)")
    ctx.note("filters: an IIR filter with len(A) = 1 is never executed (the compiled kernel writes outside a malloc(0) block); the model requires len(A) >= 2")


def replay(ctx, case):
    c = case["case"]
    spec, sig, cuts = c["spec"], c["sig"], c["cuts"]
    if c.get("reset"):
        oracle_reset(ctx, spec, sig, cuts)
    else:
        whole = oracle_signal(ctx, spec, sig)
        print("one block :", whole if whole[0] != "ok" else [v for _, v in whole[1]])
        got = stream_impl(spec, sig, cuts)
        print("blocks %s:" % cuts, got if got[0] != "ok" else [v for _, v in got[1]])
        if whole[0] == "ok" and len(cuts) > 1:
            oracle_split(ctx, spec, sig, cuts, whole)
    for f in ctx.failures:
        print("FAILS:", f["what"], f["detail"])
    if ctx.known:
        print("known finding(s) reproduced:", ctx.known)
    return not ctx.failures
