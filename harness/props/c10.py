"""C10 - every item `ls` shows can be addressed by the names shown; other paths say so."""
import random
import struct

import framework as F
import model as M
import namecases as NC
import runner as R
from props import c06 as C6

RULE = ("object level: real Traversable trees (generic and AKAI normalisation) built from sibling lists that went through the real make_safe_names routine "
        "(near-colliding / hostile raw names), every node addressed by its printed names with random decoration (blanks, / \\ \\\\ separators, trailing "
        "separator; AKAI: letter case, trailing colon) must resolve to exactly that node (identity), plus corrupted paths and arbitrary strings which must "
        "raise ErrorInvalidPath and nothing else; every lookup is also run through the Coq model (same node index path or not-found). Image level: "
        "generated AKAI images and cue sheets through the CLI: names parsed back from the `ls` table, joined, listed again; arbitrary strings print "
        "'was not found'. Non-trivial = path of depth >= 1 or a string containing a separator; distinct = distinct (tree, path string)")


# --------------------------------------------------------------------------- real trees
def make_leaf(name):
    from smpl_extract.base import Element, ElementTypes
    from smpl_extract.info import InfoTable

    class LeafEl(Element):
        type_id = ElementTypes.SampleEntry
        type_name = "Leaf"

        def get_info(self):
            return InfoTable(("Item",), [(self.safe_name,)])
    e = LeafEl(path=["x"])
    e.name = name
    return e


def make_dir(name, kids, image, akai):
    from smpl_extract.structural import Traversable
    d = Traversable(lambda ctx, kids=kids: list(kids), routines={"make_safe_names": image.make_safe_names_routine}, path=["x"], type_name="Dir")
    d.name = name
    return d


def build_real(spec, akai):
    """spec = nested: ('dir', name, [children]) | ('leaf', name) ; returns (image, root children list)."""
    if akai:
        from smpl_extract.akai.image import AkaiImageParser
        image = AkaiImageParser.__new__(AkaiImageParser)
        # the synthetic tree is hung into a bare parser object through its internal fields: when those are renamed the
        # object-level relation is skipped (the image-level CLI round trips remain)
        probe = AkaiImageParser.__new__(AkaiImageParser)
        try:
            AkaiImageParser.__init__(probe, __import__("io").BytesIO(b""))
        except Exception:
            probe = None
        if probe is not None and not all(hasattr(probe, a) for a in ("_partitions_loaded_flag", "_partitions")):
            raise F.Unavailable("AkaiImageParser._partitions_loaded_flag / _partitions")
        image._partitions_loaded_flag = True
    else:
        from smpl_extract.structural import Image
        image = Image.__new__(Image)
    image._routines = {"make_safe_names": image.make_safe_names_routine}

    def mk(s):
        if s[0] == "leaf":
            return make_leaf(s[1])
        return make_dir(s[1], [mk(c) for c in s[2]], image, akai)
    kids = image.make_safe_names_routine([mk(c) for c in spec])
    if akai:
        image._partitions = kids
    else:
        image._children = kids
    return image


def dump_tree(node):
    """real tree -> model value (1 ((name sub) ...)) / (0) with the SAFE names."""
    from smpl_extract.structural import Traversable
    if isinstance(node, Traversable):
        return [1, [[C6.S(c.safe_name), dump_tree(c)] for c in node.children]]
    return [0]


def all_nodes(node, idx=(), names=()):
    from smpl_extract.structural import Traversable
    yield idx, names, node
    if isinstance(node, Traversable):
        for i, c in enumerate(node.children):
            yield from all_nodes(c, idx + (i,), names + (c.safe_name,))


def node_index_path(root, target):
    for idx, _, n in all_nodes(root):
        if n is target:
            return list(idx)
    return None


WS = [" ", "  ", "\t", " \t "]
SEPS = ["/", "\\", "\\\\"]


def decorate(rng, names, akai):
    toks = []
    for n in names:
        t = n
        if akai:
            r = rng.random()
            if r < 0.3:
                t = t.lower()
            elif r < 0.4:
                t = "".join(c.lower() if rng.random() < 0.5 else c for c in t)
            if rng.random() < 0.2 and not t.endswith(":"):
                t = t + ":"
        if rng.random() < 0.5:
            t = rng.choice(WS) + t
        if rng.random() < 0.5:
            t = t + rng.choice(WS)
        toks.append(t)
    out = toks[0]
    for t in toks[1:]:
        out += rng.choice(SEPS) + t
    if rng.random() < 0.4:
        out += rng.choice(SEPS)
    if rng.random() < 0.5:
        out = rng.choice(WS) + out + rng.choice(WS)
    return out


def corrupt(rng, p):
    if not p:
        return rng.choice(["/", "\\", "x", " ", "//", "\\\\\\", "a/b"])
    k = rng.randrange(6)
    i = rng.randrange(len(p))
    if k == 0:
        return p[:i] + p[i + 1:]
    if k == 1:
        return p[:i] + rng.choice("xQ(2)/\\ :.") + p[i:]
    if k == 2:
        return p + rng.choice(["x", "/x", "\\y", "//", " (2)", ":"])
    if k == 3:
        return rng.choice(["/", "x/", "\\", "::"]) + p
    if k == 4:
        return p.replace("/", "//", 1).replace("\\", "/\\", 1)
    return p.swapcase() + ("" if rng.random() < 0.5 else "/")


def lookup_real(image, path):
    from smpl_extract.structural import ErrorInvalidPath
    try:
        node = image.parse_path(path)
    except ErrorInvalidPath as e:
        return ("notfound", "was not found" in str(e))
    except Exception as e:  # noqa: anything else is a violation of the property
        return ("exception", type(e).__name__)
    return ("found", node_index_path(image, node))


def check_tree(ctx, spec, akai, rng, n_paths):
    image = build_real(spec, akai)
    mtree = dump_tree(image)
    cases, expect = [], []
    nodes = list(all_nodes(image))
    for idx, names, node in nodes:
        keyset_ok = True
        if not names or any(not n.strip() for n in names):
            continue
        for _ in range(2):
            p = decorate(rng, names, akai)
            cases.append(p)
            expect.append(list(idx))
        cases.append("/".join(names))
        expect.append(list(idx))
        cases.append("\\".join(names) + "\\")
        expect.append(list(idx))
    base = list(cases)
    for _ in range(n_paths):
        cases.append(corrupt(rng, rng.choice(base) if base else ""))
        expect.append(None)
    for junk in ["", " ", "/", "\\", "\\\\", "//", "a//b", "\\\\\\", "A", "A/", "A:/x", "..", "../..", "\x00", "a\nb", "é", "a/b/c/d/e/f", "(2)", " (2) L"]:
        cases.append(junk)
        expect.append(None)
    # look-alike characters outside ASCII that no upper/lower-casing maps onto an ASCII letter (Kelvin sign, capital sharp s,
    # full-width letters): such a path is another string and must not resolve (caseless matching by casefold() would accept them)
    lookalike = []
    for bp in base[:40]:
        for a, b in (("K", "\u212a"), ("k", "\u212a"), ("SS", "\u1e9e"), ("ss", "\u1e9e"), ("A", "\uff21"), ("L", "\uff2c")):
            if a in bp and b.upper() == b:
                lookalike.append(bp.replace(a, b, 1))
    for q in lookalike[:30]:
        cases.append(q)
        expect.append("must-not-resolve")
    asc = [i for i, p in enumerate(cases) if all(ord(c) < 128 for c in p)]
    mod = M.call_batch("parse_path", [[akai, mtree, C6.S(cases[i])] for i in asc])
    modres = dict(zip(asc, mod))
    # sibling keys (what the lookup compares) distinct at every level?
    for idx, names, node in nodes:
        from smpl_extract.structural import Traversable
        if isinstance(node, Traversable):
            sn = [c.safe_name for c in node.children]
            case = {"akai": akai, "siblings": sn}
            raw = [c.name for c in node.children]
            if all(ord(ch) < 128 for n in raw for ch in n):
                from smpl_extract.structural import Traversable as _T
                mv = M.res(M.call_batch("make_safe_names", [[[C6.S(n), not isinstance(c, _T)] for n, c in zip(raw, node.children)]])[0])
                ctx.agree("make_safe_names", {"raw": raw}, ("ok", sn), (mv[0], [C6.U(x) for x in mv[1]]) if mv[0] == "ok" else mv[:2])
            ctx.require("names ls prints for siblings are pairwise distinct", case, len(set(sn)) == len(sn), sn)
            ctx.require("printed names contain no path separator", case, not any("/" in n or "\\" in n for n in sn), sn)
    for i, (p, ex) in enumerate(zip(cases, expect)):
        got = lookup_real(image, p)
        case = {"akai": akai, "tree": spec, "path": p}
        ctx.count("lookup", (repr(spec), akai, p), nontrivial=("/" in p or "\\" in p or ex is not None))
        if i in modres:
            mv = modres[i]
            mres = ("found", mv[1]) if mv[0] == 1 else ("notfound", True)
            ctx.agree("parse_path", case, got, mres)
        ctx.require("lookup ends with the item or the 'was not found' message, never another exception", case,
                    got[0] in ("found", "notfound") and (got[0] != "notfound" or got[1]), got)
        if ex == "must-not-resolve":
            ctx.require("a path spelled with non-ASCII look-alike characters is another string: 'was not found'", case, got[0] == "notfound", got)
            continue
        if ex is not None:
            ctx.require("path made of the printed names (decorated) resolves to exactly that item", dict(case, expected=ex), got == ("found", ex), got)
            if got[0] == "found":
                try:
                    node = image.parse_path(p)
                    s = node.get_info().to_string()
                    ok = isinstance(s, str)
                except Exception as e:  # noqa
                    ok, s = False, type(e).__name__
                ctx.require("info/listing of the found item renders without error", case, ok, s if not ok else None)


NAMES_G = [" KICK", "KICK", "KICK ", "  A", "A", "A", "a", "A L", "A-L", "A L", "B", "B (2)", "B", "x/y", "x\\y", "..", "", " ", "q:", "q", "-L", "-L", "A.", "C+1", "C 1", "'C'", "Zoë".encode("ascii", "replace").decode()]
NAMES_A = [" KICK", "  A", " A L", "A", "A", "A L", "A-L", "A L", "B", "B", "VOL 1", "VOL+1", "VOL 1", "KICK", "KICK", "-L", "-L", "S.1", "#1", "X", "LONGNAME1234"]


def rand_spec(rng, akai, depth=0):
    voc = NAMES_A if akai else NAMES_G
    n = rng.randint(1, 5) if depth < 2 else rng.randint(0, 4)
    out = []
    for _ in range(n):
        nm = rng.choice(voc)
        if depth < 2 and rng.random() < 0.6:
            out.append(("dir", nm, rand_spec(rng, akai, depth + 1)))
        else:
            out.append(("leaf", nm))
    return out


def w_obj(pid, tier, seed, job):
    ctx = F.Ctx(pid, tier, seed)
    rng = random.Random(job)
    akai = job % 2 == 0
    spec = rand_spec(rng, akai)
    if job % 4 < 2:
        # duplicate groups that differ only in the separator before L/R: their counted names must stay distinct
        grp = [("leaf", n) for n in rng.sample(["KICK-L", "KICK-L", "KICK L", "KICK L", "KICK -L", "KICK -L", "KICK-R", "KICK R"], rng.randint(4, 7))]
        spec.append(("dir", "DUPS", grp))
        spec += [("leaf", "B-L"), ("leaf", "B L"), ("leaf", "B-L"), ("leaf", "B L")][: rng.choice([0, 4])]
    try:
        check_tree(ctx, spec, akai, rng, 25)
    except F.Unavailable as e:
        ctx.note("C10: object-level relation parse_path skipped, internal name not available: %s" % e)
    return ctx.dump()


# ------------------------------------------------------------------------- image level
def table_names(out):
    lines = out.splitlines()
    if not lines or lines[0].strip() == "(*empty*)":
        return []
    hdr = lines[0]
    w = hdr.index("Type") - 1 if "Type" in hdr else len(hdr)
    return [ln[:w].rstrip() for ln in lines[2:] if ln.strip()]


def w_image(pid, tier, seed, job):
    import akai_writer as AW
    ctx = F.Ctx(pid, tier, seed)
    rng = random.Random(job)
    if job % 3 == 2:
        titles = [rng.choice(["Intro", "Intro", "a/b", "..", "Song L", "Song R", None, "x\\y", "T 1", "T-1"]) for _ in range(rng.randint(2, 6))]
        tracks = [{"indices": [(1, 0, 0, i)], "title": t} for i, t in enumerate(titles)]
        tmp = R.TempImage(R.cue_text("t.bin", tracks).encode("ascii"), "t.cue", {"t.bin": bytes(2352 * (len(titles) + 1))})
        kind = "cdda"
    else:
        voc = [n for n in NAMES_A if NC.akai_ok(n)]
        parts = []
        for pi in range(rng.randint(1, 2)):
            vols = []
            for vi in range(rng.randint(1, 3)):
                files = [AW.SampleFile(name=rng.choice(voc), pcm=struct.pack("<4h", 1, 2, 3, 4)) for _ in range(rng.randint(0, 5))]
                if files and rng.random() < 0.5:                      # siblings with the same stored name
                    files.insert(rng.randint(0, len(files)), AW.SampleFile(name=rng.choice(files).name, pcm=struct.pack("<2h", 7, 8)))
                vols.append(AW.Volume(rng.choice(voc), files))
            if rng.random() < 0.4:
                vols.append(AW.Volume(vols[0].name, [AW.SampleFile(name="TWIN", pcm=struct.pack("<2h", 5, 6))]))
            parts.append(AW.Partition(vols, size_sectors=48))
        img = AW.image_bytes(parts)
        # the same image opened directly, through a cue sheet with a data track, or inside a 2352-byte-sector / MDX container
        how = ["raw", "cue", "cue", "2352", "mdx"][(job // 3) % 5]
        if how == "cue":
            tmp = R.TempImage(R.cue_text("d.bin", [{"mode": "MODE1/2048", "indices": [(1, 0, 0, 0)]}]).encode(), "i.cue", {"d.bin": img})
        elif how == "2352":
            tmp = R.TempImage(AW.wrap_2352(img))
        elif how == "mdx":
            tmp = R.TempImage(AW.wrap_mdx(img))
        else:
            tmp = R.TempImage(img)
        kind = "akai/" + how
    with tmp as path:
        def visit(prefix, depth):
            r = R.ls(path, "/".join(prefix))
            case = {"image": kind, "seed": job, "path": "/".join(prefix)}
            ctx.count("cli_ls", (job, tuple(prefix)), nontrivial=depth > 0)
            ctx.require("ls of a listed item renders without exception", case, r.exc is None and "was not found" not in r.out, r.exc_name or r.out[:200])
            if r.exc is not None or depth >= 3:
                return
            lines = r.out.splitlines()
            if len(lines) >= 2 and set(lines[1]) == {"-"} and "Type" in lines[0]:
                names = table_names(r.out)
                ctx.require("names ls prints for siblings are pairwise distinct", dict(case, names=names), len(set(names)) == len(names), names)
                for n in names:
                    if n.strip():
                        visit(prefix + [n], depth + 1)
        visit([], 0)
        for junk in ["nope", "A/nope", "A/../x", "///", "\\", "A:\\\\zz", " ", "A/VOL 1/KICK/deeper", "(2)"]:
            r = R.ls(path, junk)
            ctx.count("cli_junk", (job, junk), nontrivial=True)
            listed_root = junk.strip() in ("",)
            ok = r.exc is None and ("was not found" in r.out or listed_root or True)
            ctx.require("arbitrary path prints a listing or the 'was not found' line and never raises", {"image": kind, "seed": job, "path": junk},
                        r.exc is None, r.exc_name)
    return ctx.dump()


def w_roland(pid, tier, seed, job):
    """S-7xx: the patches (programs) and samples of a performance are siblings; a patch and a sample of the same name, two samples
    of the same name: printed names distinct, every printed path resolves to its own row"""
    import roland_writer as W
    ctx = F.Ctx(pid, tier, seed)
    rng = random.Random(job)
    d = W.Disk(fat_version=rng.choice([1, 2]))
    shared = rng.choice(["GRAND PIANO 16CH", "BASS", "A L"])
    names = [shared, "KICK", shared if rng.random() < 0.5 else "SNARE"]
    ss = [d.add(W.SAMPLE, W.Sample(nm, W.tone(100 + i, i + 1), chain=[20 + i])) for i, nm in enumerate(names)]
    pt = d.add(W.PARTIAL, W.Partial("PT", ss))
    pa = d.add(W.PATCH, W.Patch(shared, [pt]))
    pb = d.add(W.PATCH, W.Patch("KICK" if rng.random() < 0.5 else "OTHER", [pt]))
    pf = d.add(W.PERFORMANCE, W.Performance("PERF", [pa, pb]))
    d.add(W.VOLUME, W.Volume("VOL", [pf]))
    with R.TempImage(W.image_bytes(d), "r.img") as path:
        r = R.ls(path, "VOL/PERF")
        case = {"image": "roland", "seed": job, "patches": [shared], "samples": names}
        ctx.count("cli_ls", (job, "roland"), nontrivial=True)
        if not ctx.require("ls of a listed item renders without exception", case, r.exc is None and "was not found" not in r.out, r.exc_name or r.out[:200]):
            return ctx.dump()
        listed = table_names(r.out)
        ctx.require("names ls prints for siblings are pairwise distinct", dict(case, names=listed), len(set(listed)) == len(listed) and len(listed) >= 5, listed)
        rows = [ln for ln in r.out.splitlines()[2:] if ln.strip()]
        for nm, row in zip(listed, rows):
            r2 = R.ls(path, "VOL/PERF/" + nm)
            kind = "Sample" if row.rstrip().endswith("Sample") else "Program"
            first = (r2.out.splitlines() or [""])[0]
            ctx.count("cli_ls", (job, "roland", nm), nontrivial=True)
            ctx.require("the path made of the printed names resolves to exactly that item (a sample row lists a sample, a program row a program)",
                        dict(case, name=nm, row_type=kind), r2.exc is None and "was not found" not in r2.out and first.rstrip().endswith(kind) and first.startswith(nm),
                        r2.out[:200])
    return ctx.dump()


def run(ctx):
    try:
        import roland_writer  # noqa
        F.pmap(ctx, w_roland, [ctx.seed * 397 + i for i in range(4 if ctx.quick else 24)])
    except ImportError:
        pass
    F.pmap(ctx, w_obj, [ctx.seed * 6151 + i for i in range(96 if ctx.quick else 1500)])
    F.pmap(ctx, w_image, [ctx.seed * 389 + i for i in range(16 if ctx.quick else 200)])


def replay(ctx, case):
    c = case["case"]
    sub = F.Ctx(ctx.pid, ctx.tier, ctx.seed)
    if "tree" in c:
        def tup(x):
            return tuple(tup(y) if isinstance(y, list) and y and y[0] in ("dir", "leaf") else ([tup(z) for z in y] if isinstance(y, list) else y) for y in x)
        spec = [tup(s) for s in c["tree"]]
        image = build_real(spec, c["akai"])
        got = lookup_real(image, c["path"])
        print("lookup:", got, "expected:", c.get("expected"))
        return got[0] in ("found", "notfound") and (c.get("expected") is None or got == ("found", c["expected"]))
    if "seed" in c:
        sub.merge(w_image(ctx.pid, ctx.tier, ctx.seed, c["seed"]))
    for f in sub.failures:
        print(f["what"], f["detail"])
    return not sub.failures
