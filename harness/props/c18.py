"""C18 - codecs round-trip.  Correspondence: every byte through every codec (exhaustive),
all 240 note names, sampled AKAI strings; oracle: the round-trip itself on the real code."""
import model as M

RULE = ("exhaustive over all 256 byte values for each of 8 codec functions, all 7x2x10 note names, "
        "plus seeded random AKAI/ASCII strings of length 0..12 (valid, and with one invalid byte); "
        "a case is non-trivial unless it is the empty string; distinct = distinct (function, input)")


def run(ctx):
    from smpl_extract.akai import akai_string as AS
    from smpl_extract.akai.data_types import CharFormat, parse_akai_tune_cents, build_akai_tune_cents
    from smpl_extract.midi import MidiNote, ScaleDegree
    rng = ctx.rng
    ctx.exhaustive = True
    bytes_ = list(range(256))

    def canon_note(n):
        return [int(n.scale_degree), 1 if n.is_sharp else 0, n.octave]

    # ---- byte converters, all 256 values, through the public string functions (one-character strings); the
    # ---- private per-byte helpers are compared as well while they exist under their present names -----------
    def dec1(b):
        return ord(AS.char_akai_to_ascii(bytes([b])))

    def enc1(a):
        r = AS.char_ascii_to_akai(bytes([a]))
        assert len(r) == 1, r
        return r[0]
    rel = [("fast_akai_to_ascii_byte", dec1, "akai->ascii (public, 1 char)"), ("convert_byte_to_akai", enc1, "ascii->akai (public, 1 char)")]
    priv_dec = getattr(AS, "_fast_akai_to_ascii_byte", None)
    priv_conv = getattr(AS, "_char_format_convert_byte", None)
    if priv_dec is not None:
        rel.append(("fast_akai_to_ascii_byte", priv_dec, "private fast decoder"))
    if priv_conv is not None:
        rel.append(("convert_byte_to_akai", lambda b: priv_conv(b, CharFormat.ASCII, CharFormat.AKAI), "private generic converter"))
        rel.append(("convert_byte_to_ascii", lambda b: priv_conv(b, CharFormat.AKAI, CharFormat.ASCII), "private generic converter"))
    # two passes in alternating order: the codecs must not depend on which direction was used first / last in the process
    for rnd in (0, 1):
        for name, f, how in (rel if rnd == 0 else list(reversed(rel))):
            mod = M.call_batch(name, bytes_)
            for b, mv in zip(bytes_, mod):
                iv = M.impl_res(f, b)
                ctx.count(name, (b, how))
                ctx.agree(name, {"byte": b, "via": how, "pass": rnd}, iv, M.res(mv))
    # property oracle on the implementation: bijection on 41 codes, everything else rejected
    images = {}
    for b in bytes_:
        r = M.impl_res(dec1, b)
        if b <= 0x28:
            ok = r[0] == "ok" and M.impl_res(enc1, r[1]) == ("ok", b)
            ctx.require("akai->ascii->akai is identity on valid code", {"byte": b}, ok, r)
            if r[0] == "ok":
                images[r[1]] = b
        else:
            ctx.require("invalid AKAI code rejected", {"byte": b}, r == ("err", "InvalidCharacter"), r)
    ctx.require("41 distinct images", {}, len(images) == 41, len(images))
    for a in bytes_:
        r = M.impl_res(enc1, a)
        if a in images:
            ctx.require("ascii->akai inverts", {"ascii": a}, r == ("ok", images[a]), r)
        else:
            ctx.require("ascii outside the 41 images rejected", {"ascii": a}, r == ("err", "InvalidCharacter"), r)
    # the construct adapters used by every name field: parse(build(s)) == s through AkaiPaddedString
    pad = AS.AkaiPaddedString(12)
    for txt in ["", "A", "KICK 1", "A#+-. Z9", "ZZZZZZZZZZZZ", " LEAD", "0.5-1+2#3"]:
        r = M.impl_res(lambda t: pad.parse(pad.build(t)), txt)
        ctx.count("padded_string", txt)
        ctx.require("name field build->parse returns the name (trailing blanks aside)", {"text": txt}, r[0] == "ok" and r[1].rstrip(" ") == txt.rstrip(" "), r)

    # ---- strings -------------------------------------------------------------------------
    n_str = 300 if ctx.quick else 5000
    strs = [[]]
    for _ in range(n_str):
        ln = rng.randint(0, 12)
        s = [rng.randint(0, 0x28) for _ in range(ln)]
        if rng.random() < 0.2 and ln:
            s[rng.randrange(ln)] = rng.choice([0x29, 0x2A, 0x7F, 0x80, 0xFF, rng.randint(0x29, 0xFF)])
        strs.append(s)
    mod = M.call_batch("akai_to_ascii", strs)
    asc = []
    for s, mv in zip(strs, mod):
        iv = M.impl_res(lambda x: [ord(c) for c in AS.char_akai_to_ascii(bytes(x))], s)
        ctx.count("akai_to_ascii", s, nontrivial=bool(s))
        ctx.agree("akai_to_ascii", s, iv, (M.res(mv)[0], M.res(mv)[1]) if M.res(mv)[0] != "fuel" else M.res(mv))
        if all(b <= 0x28 for b in s):
            back = M.impl_res(lambda x: list(AS.char_ascii_to_akai(bytes(x))), iv[1]) if iv[0] == "ok" else None
            ctx.require("string akai->ascii->akai identity", {"akai": s}, iv[0] == "ok" and back == ("ok", s), (iv, back))
            if iv[0] == "ok":
                asc.append(iv[1])
        else:
            ctx.require("string with invalid byte rejected", {"akai": s}, iv == ("err", "InvalidCharacter"), iv)
    for _ in range(n_str // 3):
        asc.append([rng.choice(b"ABCZ09 #+-.az_!@\x00\x7f") for _ in range(rng.randint(1, 12))])
    mod = M.call_batch("ascii_to_akai", asc)
    for s, mv in zip(asc, mod):
        iv = M.impl_res(lambda x: list(AS.char_ascii_to_akai(bytes(x))), s)
        ctx.count("ascii_to_akai", s)
        ctx.agree("ascii_to_akai", s, iv, M.res(mv))

    # ---- notes -------------------------------------------------------------------------------
    for name, f in (("from_akai_byte", MidiNote.from_akai_byte), ("from_midi_byte", MidiNote.from_midi_byte)):
        mod = M.call_batch(name, bytes_)
        for b, mv in zip(bytes_, mod):
            n = f(b)
            ctx.count(name, b)
            ctx.agree(name, b, canon_note(n), mv)
            back = n.to_akai_byte() if name == "from_akai_byte" else n.to_midi_byte()
            ctx.require("note byte round-trip (%s)" % name, {"byte": b}, back == b, back)
    notes = [(d, s, o) for d in range(7) for s in (0, 1) for o in range(-2, 21)]
    for name in ("to_akai_byte", "to_midi_byte"):
        mod = M.call_batch(name, notes)
        for (d, s, o), mv in zip(notes, mod):
            n = MidiNote(ScaleDegree(d), bool(s), o)
            ctx.count(name, (d, s, o))
            ctx.agree(name, (d, s, o), getattr(n, name)(), mv)
    mod = M.call_batch("note_to_string", notes)
    texts = []
    for (d, s, o), mv in zip(notes, mod):
        n = MidiNote(ScaleDegree(d), bool(s), o)
        t = [ord(c) for c in n.to_string()]
        ctx.count("note_to_string", (d, s, o))
        ctx.agree("note_to_string", (d, s, o), t, mv)
        texts.append(t)
        if 0 <= o <= 9:
            r = M.impl_res(lambda x: canon_note(MidiNote.from_string("".join(map(chr, x)))), t)
            ctx.require("note text round-trip", {"note": (d, s, o)}, r == ("ok", [d, s, o]), r)
    # decorated / malformed texts for the parser
    extra = []
    for t in texts[::3]:
        extra.append([32] + t + [9, 32])
        extra.append([c + 32 if 65 <= c <= 71 else c for c in t])
        extra.append(t[:-1])
        extra.append(t + [rng.choice(b"0# xZ")])
    extra += [[], [72, 49], [65], [35, 49], [65, 35], [65, 35, 35, 49], [28, 67, 52, 31]]
    allt = texts + extra
    mod = M.call_batch("note_from_string", allt)
    for t, mv in zip(allt, mod):
        r = M.impl_res(lambda x: canon_note(MidiNote.from_string("".join(map(chr, x)))), t)
        ctx.count("note_from_string", t)
        ctx.agree("note_from_string", t, r, M.res(mv))

    # ---- tuning ------------------------------------------------------------------------------
    sb = list(range(-128, 128))
    mod = M.call_batch("parse_tune_cents", sb)
    pv = []
    for x, mv in zip(sb, mod):
        v = parse_akai_tune_cents(x)
        iv = [0, v] if isinstance(v, int) else [1, v.hex()]
        mv = [0, mv[1]] if mv[0] == 0 else [1, M.dec_float(mv[1]).hex()]
        ctx.count("parse_tune_cents", x)
        ctx.agree("parse_tune_cents", x, iv, mv)
        pv.append(v)
        back = build_akai_tune_cents(v)
        ctx.require("tuning byte round-trip", {"byte": x}, back == x, {"cents": repr(v), "back": back})
    # build on the parsed values and on a grid of other floats
    grid = pv + [k / 4.0 for k in range(-220, 221)] + [0.0, -0.0, 49.99999, -50.0, 50.0]
    mod = M.call_batch("build_tune_cents", [[0, v] if isinstance(v, int) else [1, v] for v in grid])
    for v, mv in zip(grid, mod):
        ctx.count("build_tune_cents", repr(v))
        ctx.agree("build_tune_cents", repr(v), build_akai_tune_cents(v), mv)


def replay(ctx, case):
    run(ctx)
    return not ctx.failures
