"""C14 - a damaged directory entry affects only that entry."""
import os
import random
import struct

import framework as F
import model as M
import runner as R

RULE = ("AKAI: volumes of 2-5 sample files (distinct, non-pairing names, short PCM) serialised by the independent writer; for every entry k and every "
        "field of its 24-byte directory entry a set of replacement values - type byte: all 256 values; each of the 12 name bytes: valid codes, first "
        "invalid code 0x29, 0x80, 0xFF; size: 0, 1, 139, 140, 141, true size -2/+2, 0xFFFFFF; start sector: 0, 1, header sectors, every other file's "
        "start, the directory sector, a free sector, past the partition, 0xFFFF - plus random multi-byte damage confined to the entry; `ls` of the volume "
        "and `export` of the damaged image are compared with the undamaged image on every OTHER item (name, type, exported bytes). The end-of-table mark "
        "(bytes 8-9 = 47 D7) and a damaged name that collides or L/R-pairs with a sibling are format-/design-inherent and listed as known findings. A "
        "sample of damaged images is also run through the Coq whole-image model. Roland: one sample's directory or parameter record damaged byte-wise "
        "and field-wise (when the S-7xx writer is present); every such image (and a tree with shared partials, repeated / dangling references, empty "
        "slots) also goes through the extracted record model (coq/RolandEntries.v): parsed fields or exception of every reference, record addresses, "
        "surviving entries with cluster lists, listed names, truncated streams, whole images at the format's addresses. Non-trivial = damage that changes the parsed entry; distinct = distinct (volume, k, offset, bytes)")

SECTOR = 8192


def base_volume(rng):
    import akai_writer as AW
    pool = ["KICK", "SNARE", "HAT", "TOM 1", "BASS", "PAD#1", "FX.1", "Z9", "LEAD", "ORGAN"]
    rng.shuffle(pool)
    n = rng.randint(2, 5)
    files = []
    for i, nm in enumerate(pool[:n]):
        nw = rng.choice([3, 10, 50, 4096 - 70, 4100])
        files.append(AW.SampleFile(name=nm, pcm=struct.pack("<%dH" % nw, *[(1000 * (i + 1) + w) % 65536 for w in range(nw)]),
                                   rate=rng.choice([22050, 44100])))
    vol = AW.Volume("VOL", files, dir_style=rng.choice(["run", "chain"]))
    other = AW.Volume("OTHER", [AW.SampleFile(name="KEEP", pcm=struct.pack("<4H", 9, 8, 7, 6))])
    part = AW.Partition([vol, other], size_sectors=40)
    img = bytearray(AW.image_bytes([part]))
    return img, vol, part


def observe(img_bytes):
    """(ls lines of A/VOL as {name: type}, exported {path: bytes}, exception names)"""
    with R.TempImage(bytes(img_bytes)) as path:
        l = R.ls(path, "A/VOL")
        r, tree, reported = R.export(path)
    names = {}
    lines = l.out.splitlines()
    if len(lines) >= 2 and "Type" in lines[0]:
        w = lines[0].index("Type")
        for ln in lines[2:]:
            if ln.strip():
                names[ln[:w].rstrip()] = ln[w:].strip()
    return names, tree, (l.exc_name, r.exc_name), l.out


def damages(rng, vol, k, tier):
    """yield (offset within entry, replacement bytes, tag)"""
    f = vol.files[k]
    for t in (range(256) if (tier != "quick" or k == 0) else [0x00, 0x55, 0x64, 0x70, 0x71, 0x73, 0x78, 0xF0, 0xF3, 0xFF]):
        yield 16, bytes([t]), "type"
    for pos in range(12):
        for v in ([0x00, 0x0B, 0x24, 0x28, 0x29, 0x80, 0xFF] if tier != "quick" or pos in (0, 3, 8, 9, 11) else [0x29, 0xFF]):
            yield pos, bytes([v]), "name"
    yield 8, bytes([0x47, 0xD7]), "name-endflag"
    true_size = len(f.body())
    for sz in (0, 1, 139, 140, 141, max(0, true_size - 2), true_size + 2, 0xFFFFFF):
        yield 17, sz.to_bytes(3, "little"), "size"
    starts = [0, 1, 2, 3, 39, 40, 41, 11385, 11386, 0xFFFF, vol.dir_sectors[0], 38]
    starts += [g.sectors[0] for g in vol.files if g is not f]
    for st in starts:
        yield 20, struct.pack("<H", st), "start"
    for _ in range(12 if tier == "quick" else 60):
        off = rng.randrange(24)
        ln = rng.randint(1, 24 - off)
        yield off, bytes(rng.randrange(256) for _ in range(ln)), "random"
    # a name that collides / pairs with a sibling (design-inherent, known finding)
    import akai_writer as AW
    sib = vol.files[(k + 1) % len(vol.files)].name
    yield 0, AW.akai_name(sib), "name-namesake"


def w_volume(pid, tier, seed, job):
    import akai_writer as AW
    ctx = F.Ctx(pid, tier, seed)
    rng = random.Random(job)
    img, vol, part = base_volume(rng)
    names0, tree0, exc0, _ = observe(img)
    base_case = {"seed": job, "files": [f.name for f in vol.files]}
    if not ctx.require("undamaged image lists and exports", base_case, exc0 == (None, None) and len(names0) == len(vol.files), (exc0, names0)):
        return ctx.dump()
    dir_off = vol.dir_sectors[0] * SECTOR
    model_jobs = []
    for k in range(len(vol.files)):
        for off, rep, tag in damages(rng, vol, k, tier):
            d = bytearray(img)
            a = dir_off + 24 * k + off
            if d[a:a + len(rep)] == rep:
                continue
            d[a:a + len(rep)] = rep
            entry = bytes(d[dir_off + 24 * k: dir_off + 24 * k + 24])
            endflag = entry[8:10] == b"\x47\xD7"
            new_name = None
            try:
                inv = {v: c for c, v in AW._AKAI_CHARS.items()}
                new_name = "".join(inv[b] for b in entry[:12]).rstrip(" ")
            except KeyError:
                pass
            others = [AW.displayed_name(g.name) for i, g in enumerate(vol.files) if i != k]
            import namecases as NC
            namesake = new_name is not None and (new_name in others or any(
                NC.split_stereo(new_name) and NC.split_stereo(o) and NC.split_stereo(new_name)[:2] == NC.split_stereo(o)[:2] for o in others))
            names1, tree1, exc1, out1 = observe(d)
            case = dict(base_case, k=k, offset=off, bytes=rep.hex(), field=tag, endflag_in_name=endflag, namesake=namesake)
            ctx.count("akai_damage", (job, k, off, rep), nontrivial=True)
            if not ctx.require("ls and export of the damaged image finish without exception", case, exc1 == (None, None), exc1):
                continue
            lost = [o for o in others if names1.get(o) != names0.get(o)]
            ctx.require("every other item of the directory is still listed under its original name", case, not lost, {"lost_or_changed": lost, "ls": out1[:300]})
            bad = []
            for g in vol.files:
                if g is vol.files[k]:
                    continue
                p = "A/VOL/%s.wav" % AW.displayed_name(g.name)
                if tree1.get(p) != tree0.get(p):
                    bad.append(p)
            ctx.require("every other item's audio is still exported unchanged", case, not bad, bad)
            ctx.require("items of other directories are unchanged", case, tree1.get("A/OTHER/KEEP.wav") == tree0.get("A/OTHER/KEEP.wav"), None)
            if tag in ("type", "start", "size") and rng.random() < (0.004 if tier == "quick" else 0.01):
                model_jobs.append((bytes(d), case, names1, tree1))
    for d, case, names1, tree1 in model_jobs[:1 if tier == "quick" else 8]:
        mv = M.res(M.call_batch("akai_export", [M.Raw(M.enc_image(d))])[0])
        if mv[0] == "ok":
            mod = sorted("/".join("".join(map(chr, c)) for c in comps) + ".wav" for comps, _, _, _ in mv[1])
        else:
            mod = mv[:2]
        ctx.agree("akai_export.paths(damaged)", case, sorted(tree1), mod)
    return ctx.dump()


# ------------------------------------------------------------------------------ Roland
def w_roland(pid, tier, seed, job):
    ctx = F.Ctx(pid, tier, seed)
    try:
        import roland_damage as RD
    except ImportError:
        return ctx.dump()
    RD.run_job(ctx, tier, job)
    return ctx.dump()


def w_any(pid, tier, seed, job):
    """one pool for both formats (the Roland jobs are the longer ones: they go first)"""
    kind, n = job
    return w_roland(pid, tier, seed, n) if kind == "roland" else w_volume(pid, tier, seed, n)


def run(ctx):
    jobs = []
    if os.path.exists(os.path.join(os.path.dirname(os.path.dirname(os.path.abspath(__file__))), "roland_damage.py")):
        jobs += [("roland", ctx.seed * 13 + i) for i in range(8 if ctx.quick else 48)]
    else:
        ctx.note("Roland S-7xx records: not exercised in this run (harness/roland_damage.py absent)")
    jobs += [("akai", ctx.seed * 7 + i) for i in range(10 if ctx.quick else 64)]
    F.pmap(ctx, w_any, jobs)


def replay(ctx, case):
    c = case["case"]
    sub = F.Ctx(ctx.pid, ctx.tier, ctx.seed)
    if c.get("roland"):
        sub.merge(w_roland(ctx.pid, ctx.tier, ctx.seed, c["seed"]))
    else:
        sub.merge(w_volume(ctx.pid, ctx.tier, ctx.seed, c["seed"]))
    for f in sub.failures:
        print(f["what"], f["case"].get("k"), f["case"].get("field"), f["case"].get("bytes"), f["detail"])
    return not sub.failures
