"""C05 - left/right pairs merge into one stereo file; no sample is lost or duplicated."""
import itertools
import random
import struct

import framework as F
import model as M
import namecases as NC
import runner as R
from props import c06 as C6

RULE = ("function level: combine_stereo_routine on DISTINCT sibling export names: every ordering of every subset (size <= 4) of a stereo "
        "vocabulary (stems x {'', ' L', ' R', '-L', '-R', '  L', ' -R', '--L'} incl. stems that themselves end in L/R or are empty), random lists "
        "up to 10, compared with the Coq model and with an independent pairing oracle written from the property text (sources partition the "
        "directory; L before R; pair named by stem; everything else alone); image level: AKAI volumes whose samples carry distinct constant PCM, "
        "exported through the CLI: channel 0 == the L sample's words, channel 1 == the R sample's, equal-length pairs keep every frame, channels "
        "of all files add up to the number of samples. Non-trivial = list containing at least one L/R-shaped name; distinct = distinct ordered list")

STEMS = ["A", "B", "PAD", "A L", "L", "A-", "A 1", "", "R", "A.B"]
SUFF = ["", " L", " R", "-L", "-R", "  L", " -R", "--L", " - R", " l"]


def vocab():
    out, seen = [], set()
    for s in STEMS:
        for x in SUFF:
            n = s + x
            if n and n == n.strip() and n not in seen:
                seen.add(n)
                out.append(n)
    return out


def oracle_ok(names, outs):
    """Property text -> predicate on the outputs [(name, [source indices])] for DISTINCT names."""
    srcs = [i for _, s in outs for i in s]
    if sorted(srcs) != list(range(len(names))):
        return False, "sources are not a partition of the directory: %r" % (srcs,)
    for nm, s in outs:
        if len(s) == 1:
            if nm != names[s[0]]:
                return False, "single sample renamed: %r" % ((nm, s),)
            sp = NC.split_stereo(names[s[0]])
            if sp:
                other = sp[0] + sp[1] + ("R" if sp[2] == "L" else "L")
                if other in names:
                    return False, "L/R pair present but not merged: %r / %r" % (names[s[0]], other)
        elif len(s) == 2:
            l, r = names[s[0]], names[s[1]]
            sl, sr = NC.split_stereo(l), NC.split_stereo(r)
            if not sl or not sr or sl[2] != "L" or sr[2] != "R" or sl[:2] != sr[:2] or nm != sl[0]:
                return False, "bad pair %r <- (%r, %r)" % (nm, l, r)
        else:
            return False, "output with %d sources" % len(s)
    return True, None


def check_lists(ctx, lists):
    lists = [l for l in lists if len(set(l)) == len(l)]
    mod = M.call_batch("combine_stereo", [[C6.S(n) for n in l] for l in lists])
    for l, mv in zip(lists, mod):
        ic = M.impl_res(C6.impl_combine, l)
        shaped = any(NC.split_stereo(n) for n in l)
        ctx.count("pairing", tuple(l), nontrivial=shaped)
        ctx.agree("combine_stereo", {"export_names": l}, ic, ("ok", [(C6.U(a), b) for a, b in mv]))
        case = {"export_names": l}
        if ic[0] != "ok":
            ctx.require("stereo pairing succeeds", case, False, ic)
            continue
        ok, why = oracle_ok(l, ic[1])
        ctx.require("outputs partition the samples; L/R pairs merged L-first under the stem; others alone", case, ok, why)
        exp = NC.expected_pairs(l)
        ctx.require("outputs equal the pairing computed from the property text", case,
                    sorted(map(repr, exp)) == sorted(map(repr, [(a, list(b)) for a, b in ic[1]])), {"expected": exp, "got": ic[1]})


def w_func(pid, tier, seed, job):
    ctx = F.Ctx(pid, tier, seed)
    check_lists(ctx, job)
    return ctx.dump()


def w_pipeline(pid, tier, seed, job):
    """raw sibling names (duplicates allowed) -> naming routine -> pairing: still a partition."""
    ctx = F.Ctx(pid, tier, seed)
    for raw in job:
        ie = M.impl_res(C6.impl_export_names, raw)
        ctx.count("raw_siblings", tuple(raw), nontrivial=len(set(raw)) < len(raw))
        case = {"raw_names": raw}
        if ie[0] != "ok":
            ctx.require("export names can be assigned", case, False, ie)
            continue
        en = ie[1]
        ic = M.impl_res(C6.impl_combine, en, raw)
        if ic[0] != "ok":
            ctx.require("stereo pairing succeeds", case, False, ic)
            continue
        # the samples carry their stored names; the pairing is decided on the export names alone
        ctx.require("pairing depends on the export names only, not on the stored names", dict(case, export_names=en),
                    ic == M.impl_res(C6.impl_combine, en), {"with_stored_names": ic[1]})
        srcs = sorted(i for _, s in ic[1] for i in s)
        ctx.require("after naming + pairing every sample of the directory is the source of exactly one file", dict(case, export_names=en),
                    srcs == list(range(len(raw))), {"sources": srcs, "outputs": ic[1]})
    return ctx.dump()


# ------------------------------------------------------------------------- image level
AK_STEMS = ["A", "PAD", "B 1", "LL", "X-", "T.1", "T.2", "T.1.5"]
AK_SUFF = ["", " L", " R", "-L", "-R", "  L", "  R", " -L", " -R"]


def w_image(pid, tier, seed, job):
    import akai_writer as AW
    ctx = F.Ctx(pid, tier, seed)
    rng = random.Random(job)
    voc = [s + x for s in AK_STEMS for x in AK_SUFF if len(s + x) <= 12]
    vols = []
    for vi in range(rng.randint(1, 2)):
        k = rng.randint(2, 7)
        names = rng.sample(voc, k)
        if rng.random() < 0.3:
            names.append(rng.choice(names))            # a duplicate: gets a counted name, may pair as "X (2)"
        if rng.random() < 0.3:
            st = rng.choice(["BASS", "A"])             # duplicate groups that differ only in the separator
            names += [st + "-L", st + " L", st + "-L", st + " L"][:rng.randint(2, 4)]
        files = []
        for i, n in enumerate(names):
            nw = rng.choice([4, 4, 4, 7, 100, 4096 - 70, 5000])
            val = 1000 * (vi + 1) + 10 * i + 1
            files.append(AW.SampleFile(name=n, pcm=struct.pack("<%dh" % nw, *[(val + w) % 30000 for w in range(nw)])))
        if rng.random() < 0.5:
            rng.shuffle(files)
        # directory slots that are not samples (deleted entry, unknown / other file type) directly behind a sample
        if rng.random() < 0.5:
            for g in range(rng.randint(1, 2)):
                ghost = AW.SampleFile(name="GH0ST%d" % g, type_byte=rng.choice([0x00, 0xF8, 0x74, 0x64, 0x78]), raw_body=bytes(rng.randrange(256) for _ in range(40)))
                files.insert(rng.randint(1, len(files)), ghost)
        vols.append(AW.Volume("V%d" % vi, files))
    # a fixed directory where stored and export names differ: a duplicated L next to its R, a stem that sanitising rewrites
    fx = [AW.SampleFile(name=n, pcm=struct.pack("<4h", 9000 + i, 1, 2, 3)) for i, n in enumerate(["PAD -L", "PAD -L", "PAD -R", "GTR+ -L", "GTR+ -R", "Z"])]
    vols.append(AW.Volume("FIXED", fx))
    # two volumes with the SAME stored name (exported as NAME and NAME (2)): pairing is per directory - an L here and its R there stay apart
    twin = rng.random() < 0.5
    if twin:
        la = [AW.SampleFile(name=n, pcm=struct.pack("<4h", 7000 + i, 1, 2, 3)) for i, n in enumerate(["KICK -L", "SNARE", "TOM L", "TOM R"])]
        lb = [AW.SampleFile(name=n, pcm=struct.pack("<4h", 8000 + i, 1, 2, 3)) for i, n in enumerate(["KICK -R", "SNARE", "HAT"])]
        vols += [AW.Volume("DRUMS", la), AW.Volume("DRUMS", lb)]
    img = AW.image_bytes([AW.Partition(vols, size_sectors=64)])
    with R.TempImage(img) as path:
        r, tree, reported = R.export(path)
        seen_dirs = {}
        for v in vols:
            seen_dirs[v.name] = seen_dirs.get(v.name, 0) + 1
            vdir = v.name if seen_dirs[v.name] == 1 else "%s (%d)" % (v.name, seen_dirs[v.name])
            smp = [f for f in v.files if f.is_sample]
            disp = [AW.displayed_name(f.name) for f in smp]
            en = C6.impl_export_names(disp)
            case = {"volume": vdir, "names": disp, "export_names": en, "seed": job}
            ctx.count("image_pairing", (tuple(disp),), nontrivial=True)
            if r.exc is not None:
                ctx.require("export finishes without exception", case, False, r.exc_name)
                continue
            mine = {p: b for p, b in tree.items() if p.startswith("A/%s/" % vdir)}
            if NC.d6_shape(en):
                ctx.require("number of files on disk equals number of Exported lines (no two samples to one path)",
                            dict(case, d6_shape=True), len(mine) == len([p for p in reported if p.startswith("A/%s/" % vdir)]), sorted(mine))
                continue
            exp = NC.expected_pairs(en)
            ctx.require("one file per single sample and per L/R pair, nothing else", case,
                        sorted(mine) == sorted("A/%s/%s.wav" % (vdir, nm) for nm, _ in exp), {"files": sorted(mine), "expected": exp})
            total_ch = 0
            for nm, src in exp:
                b = mine.get("A/%s/%s.wav" % (vdir, nm))
                if b is None:
                    continue
                w = R.parse_wav(b)
                if not w["ok"]:
                    ctx.require("exported file is a valid WAV", dict(case, file=nm), False, w["why"])
                    continue
                total_ch += w["channels"]
                ctx.require("channel count: 2 for a pair, 1 otherwise", dict(case, file=nm), w["channels"] == len(src), w["channels"])
                data = w["data"]
                chans = [data[2 * c::2 * len(src)] for c in range(len(src))]
                chans = [b"".join(data[i:i + 2] for i in range(2 * c, len(data), 2 * len(src))) for c in range(len(src))]
                wins = [smp[i].window() for i in src]
                short = min(len(x) for x in wins)
                for c, (got, want) in enumerate(zip(chans, wins)):
                    ctx.require("channel %d carries the %s sample's words (every frame below the shorter one)" % (c, "LR"[c] if len(src) == 2 else "single"),
                                dict(case, file=nm, source=disp[src[c]]), got[:short] == want[:short], {"got": got[:16].hex(), "want": want[:16].hex()})
                if len(set(len(x) for x in wins)) == 1:
                    ctx.require("equal-length pair: every frame of both preserved", dict(case, file=nm), all(len(g) == len(wins[0]) for g in chans),
                                [len(g) for g in chans])
            ctx.require("channels of all written files add up to the number of samples in the directory", case, total_ch == len(disp),
                        {"channels": total_ch, "samples": len(disp)})
    return ctx.dump()


def chunks(l, n):
    l = list(l)
    for i in range(0, len(l), n):
        yield l[i:i + n]


def run(ctx):
    rng = ctx.rng
    voc = vocab()
    core = ["A L", "A R", "A-L", "A-R", "A  L", "A", "A L L", "A L R", "L", "R", " L".strip(), "B -R", "B -L", "-L", "-R"]
    core = [c for c in dict.fromkeys(core) if c]
    lists = []
    for k in (1, 2, 3):
        lists += [list(p) for p in itertools.permutations(core, k)]
    lists += [list(p) for p in itertools.permutations(core[:8], 4)]
    for k in (3, 5, 7, 10):
        for _ in range(300 if ctx.quick else 5000):
            lists.append(rng.sample(voc, min(k, len(voc))))
    F.pmap(ctx, w_func, list(chunks(lists, 500)))
    raw = [list(p) for p in itertools.product(["B-L", "B L", "B-R", "B R", "B", "B (2) L"], repeat=4)]
    raw += [list(p) for p in itertools.product(["A L", "A-L", "A R", "A  R", "A (2) R"], repeat=5)][::(3 if ctx.quick else 1)]
    for _ in range(300 if ctx.quick else 5000):
        k = rng.randint(3, 9)
        base = rng.sample(voc, 3)
        raw.append([rng.choice(base) for _ in range(k)])
    F.pmap(ctx, w_pipeline, list(chunks(raw, 400)))
    F.pmap(ctx, w_image, [ctx.seed * 7919 + i for i in range(32 if ctx.quick else 400)])
    ctx.exhaustive = True


def replay(ctx, case):
    c = case["case"]
    sub = F.Ctx(ctx.pid, ctx.tier, ctx.seed)
    if "seed" in c:
        sub.merge(w_image(ctx.pid, ctx.tier, ctx.seed, c["seed"]))
    elif "raw_names" in c:
        sub.merge(w_pipeline(ctx.pid, ctx.tier, ctx.seed, [c["raw_names"]]))
    else:
        check_lists(sub, [c["export_names"]])
    for f in sub.failures:
        print(f["what"], f["detail"])
    return not sub.failures
