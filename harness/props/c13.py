"""C13 - `ls` and `export` terminate with bounded resources on any input file."""
import os
import random
import resource
import signal
import struct
import time

import framework as F
import model as M
import runner as R

RULE = ("fault sweep, every case run under a CPU alarm (budget per image far above the undamaged image's time) and an address-space limit: random byte "
        "strings (0..200 kB; with and without a valid AKAI / Roland / MDF / MDX signature in front); AKAI images with targeted corruptions - partition "
        "size word (0, 1, 2, 3, 0x7FFF, 0xFFFF), every used SAT word <- {free, EOF, both reserved flags, itself (self link), every other used sector "
        "(cross links, cycles), successor, out of range, 0xFFFF}, volume entry type/start, directory entry fields, sample header counts and markers, "
        "program/keygroup counts and next-keygroup addresses - and 1..4 random corruptions; Roland S-7xx images with FAT cycles (through the head, "
        "rho-shaped, self links), cross links, out-of-range links, id-area counts, directory pointers and parameter records damaged; cue sheets with "
        "corrupted lines, huge numbers, missing files. For each: `ls` at the root and at the paths of the undamaged image, and `export`. Outcome "
        "classes: finished / finished with exception / HANG (alarm) / MEMORY. Non-trivial = input that differs from a well-formed image; distinct = input bytes")

CPU_BUDGET = 10          # seconds per call; the undamaged images take well under 1 s
AS_LIMIT = 3 << 30


class Hang(BaseException):      # BaseException: `except Exception` in library code (construct's stream_read) must not swallow it
    pass


def _alarm(*a):
    raise Hang()


def guarded(fn, *a):
    """-> ('ok'|'exc'|'hang'|'memory', detail, seconds)"""
    signal.signal(signal.SIGALRM, _alarm)
    signal.setitimer(signal.ITIMER_REAL, CPU_BUDGET, 1.0)      # repeating: fires again if a handler-raised Hang is swallowed
    t0 = time.time()
    try:
        r = fn(*a)
        exc = getattr(r, "exc", None)
        if isinstance(exc, Hang):
            return ("hang", None, time.time() - t0)
        if isinstance(exc, MemoryError):
            return ("memory", None, time.time() - t0)
        return ("exc" if exc is not None else "ok", type(exc).__name__ if exc is not None else None, time.time() - t0)
    except Hang:
        return ("hang", None, time.time() - t0)
    except MemoryError:
        return ("memory", None, time.time() - t0)
    finally:
        signal.setitimer(signal.ITIMER_REAL, 0)


def _ls(path, inner):
    return R.run_cli(["ls", path, inner])


def _export(path):
    import shutil
    dest = R.scratch_dir("c13")
    try:
        return R.run_cli(["export", path, "-d", dest])
    finally:
        shutil.rmtree(dest, ignore_errors=True)


def probe(ctx, data, name, extra, paths, case):
    try:
        resource.setrlimit(resource.RLIMIT_AS, (AS_LIMIT, resource.RLIM_INFINITY))
    except Exception:
        pass
    with R.TempImage(data, name, extra or {}) as path:
        for inner in [""] + list(paths):
            st = guarded(_ls, path, inner)
            if not ctx.require("`ls` finishes (result or error) within the CPU/memory budget", dict(case, ls=inner), st[0] in ("ok", "exc"), st):
                return st      # one hang per input is enough
        st = guarded(_export, path)
        ctx.require("`export` finishes (result or error) within the CPU/memory budget", case, st[0] in ("ok", "exc"), st)
        return st


# ------------------------------------------------------------------------------- AKAI
def akai_base(rng):
    import akai_writer as AW
    files = []
    for i, n in enumerate(["KICK", "SNARE L", "SNARE R", "BASS"][:rng.randint(2, 4)]):
        nw = rng.choice([50, 4096 - 70, 9000])
        files.append(AW.SampleFile(name=n, pcm=struct.pack("<%dH" % nw, *[(i * 1000 + w) % 65536 for w in range(nw)])))
    try:
        import akai_program_writer as PW
        h, kgs, addrs = PW.random_program(rng, rng.randint(1, 3), rng.choice(["random", "sequential"]))
        prog = AW.SampleFile(name="PROG 1", type_byte=0xF0, raw_body=PW.program_file_bytes(h, kgs, addrs, 0))
    except Exception:
        prog = None
    if prog is not None:
        files.append(prog)
    vol = AW.Volume("VOL", files, dir_style=rng.choice(["run", "chain"]))
    part = AW.Partition([vol, AW.Volume("V2", [AW.SampleFile(name="X", pcm=b"\x01\x00")])], size_sectors=40)
    order = rng.choice([None, lambda free, n: list(reversed(free[:n]))])
    img = bytearray(AW.image_bytes([part], [AW.Allocator(40, order)] if order else None))
    paths = ["A", "A/VOL", "A/VOL/KICK", "A/V2/X"] + (["A/VOL/PROG 1"] if prog is not None else [])
    used = sorted({s for v in part.volumes for f in v.files for s in f.sectors} | {s for v in part.volumes for s in v.dir_sectors})
    return img, part, vol, paths, used


SAT_OFF = 1802
SECTOR = 8192


def akai_corruptions(rng, img, part, vol, used, tier):
    """yield (tag, [(offset, bytes), ...])"""
    for v in (0, 1, 2, 3, 0x7FFF, 0x8000, 0xFFFF):
        yield "partition-size=%d" % v, [(0, struct.pack("<H", v))]
    yield "magic-damaged", [(50, b"\x00")]
    specials = [0, 0xC000, 0x4000, 0x8000, 0xFFFF, 11386, 39, 40]
    words = used if tier != "quick" else used[:: max(1, len(used) // 6)]
    for s in words:
        vals = specials + [s, s + 1] + [u for u in used if u != s][: (len(used) if tier != "quick" else 3)]
        for v in vals:
            yield "sat[%d]=%d" % (s, v), [(SAT_OFF + 2 * s, struct.pack("<H", v & 0xFFFF))]
    # the reserved entries at the start of the table (the first decode walk starts at entry 0): links, loops reachable from them
    free = [x for x in range(4, 40) if x not in used][:2] + [used[0]]
    for s0 in (0, 1, 3):
        for v in (0, 0xC000, 0x8000, 0xFFFF, s0, s0 + 1, used[0], free[0]):
            yield "sat[%d]=%d" % (s0, v), [(SAT_OFF + 2 * s0, struct.pack("<H", v & 0xFFFF))]
        for a, b in ((free[0], free[0]), (free[0], free[1]), (used[0], used[0])):
            yield "sat[%d]->%d->%d->%d" % (s0, a, b, a), [(SAT_OFF + 2 * s0, struct.pack("<H", a)), (SAT_OFF + 2 * a, struct.pack("<H", b)), (SAT_OFF + 2 * b, struct.pack("<H", a))]
    # volume entries
    for k in range(2):
        for st in (0, 1, 3, 39, 40, 0xFFFF, used[0], used[-1]):
            yield "vol%d.start=%d" % (k, st), [(202 + 16 * k + 14, struct.pack("<H", st))]
        for ty in (0, 2, 0xFF, 0x8001):
            yield "vol%d.type=%d" % (k, ty), [(202 + 16 * k + 12, struct.pack("<H", ty))]
        yield "vol%d.name-bad" % k, [(202 + 16 * k, b"\xff")]
    d0 = vol.dir_sectors[0] * SECTOR
    for k, f in enumerate(vol.files):
        e = d0 + 24 * k
        for st in (0, 1, 40, 0xFFFF, vol.dir_sectors[0]):
            yield "file%d.start=%d" % (k, st), [(e + 20, struct.pack("<H", st))]
        for sz in (0, 1, 139, 0xFFFFFF):
            yield "file%d.size=%d" % (k, sz), [(e + 17, sz.to_bytes(3, "little"))]
        for ty in (0x70, 0xF0, 0x73, 0xF3, 0x64, 0x00):
            yield "file%d.type=%#x" % (k, ty), [(e + 16, bytes([ty]))]
        h = f.sectors[0] * SECTOR
        for off, val in ((26, 0xFFFFFFFF), (30, 0xFFFFFFFF), (34, 0), (34, 0xFFFFFFFF), (30, 5), (138, 0), (0, 9), (19, 9)):
            yield "file%d.hdr[%d]" % (k, off), [(h + off, struct.pack("<I", val)[: (4 if off in (26, 30, 34) else 2 if off == 138 else 1)])]
        # program-like fields (number of keygroups / first keygroup address / next addresses)
        for off in (42, 38, 40, 151, 152, 1, 2):
            for val in (0, 1, 0xFF, 0xFFFF):
                yield "file%d.body[%d]=%d" % (k, off, val), [(h + off, struct.pack("<H", val)[: 2 if val > 0xFF else 1])]
    # pairs: a directory size field of 0 / below the header length together with a degenerate play window
    # (size <= 0 windows are "not clipped": the read loop must still end)
    for k, f in enumerate(vol.files[:2]):
        e = d0 + 24 * k
        h = f.sectors[0] * SECTOR
        for sz in (0, 1, 139, 140):
            for st, en in ((0, 0), (10, 5), (0xFFFFFFFF, 0), (5, 5)):
                yield "file%d.size=%d+window=%d..%d" % (k, sz, st, en), [(e + 17, sz.to_bytes(3, "little")), (h + 30, struct.pack("<II", st, en))]
    for _ in range(10 if tier == "quick" else 80):
        patches = []
        for _ in range(rng.randint(1, 4)):
            region = rng.choice(["hdr", "sat", "dir", "data"])
            if region == "hdr":
                o = rng.randrange(0, 1802)
            elif region == "sat":
                o = SAT_OFF + 2 * rng.choice(used + [rng.randrange(0, 11386)])
            elif region == "dir":
                o = d0 + rng.randrange(0, 24 * (len(vol.files) + 1))
            else:
                o = rng.choice(used) * SECTOR + rng.randrange(0, 200)
            patches.append((o, bytes(rng.randrange(256) for _ in range(rng.randint(1, 4)))))
        yield "random", patches


def w_akai(pid, tier, seed, job):
    ctx = F.Ctx(pid, tier, seed)
    rng = random.Random(job)
    img, part, vol, paths, used = akai_base(rng)
    st0 = probe(ctx, bytes(img), "a.img", None, paths, {"akai": job, "corruption": "none"})
    ctx.count("akai_fault", (job, "none"), nontrivial=False)
    cs = list(akai_corruptions(rng, img, part, vol, used, tier))
    if tier == "quick":
        rng2 = random.Random(job + 1)
        keep = [c for c in cs if c[0].startswith("partition-size") or "+window=" in c[0] or "->" in c[0] or rng2.random() < 0.12]
        cs = keep
    rng3 = random.Random(job + 2)
    for tag, patches in cs:
        d = bytearray(img)
        for o, b in patches:
            if 0 <= o and o + len(b) <= len(d):
                d[o:o + len(b)] = b
        ctx.count("akai_fault", (job, tag, tuple(patches)), nontrivial=True)
        case = {"akai": job, "corruption": tag, "patches": [(o, b.hex()) for o, b in patches]}
        st = probe(ctx, bytes(d), "a.img", None, paths if tier != "quick" else paths[:3], case)
        # tie of the termination theorems to the code on DAMAGED input: the whole-image model (total by akai_export_total)
        # must say what the real export says - a loop in the real classes that the model's functions abstract shows up here
        if st is not None and st[0] in ("ok", "exc") and rng3.random() < (0.06 if tier == "quick" else 0.03):
            compare_with_model(ctx, bytes(d), case)
    return ctx.dump()


def compare_with_model(ctx, data, case):
    with R.TempImage(data, "a.img") as path:
        r, tree, reported = R.export(path)
    soft, hard = resource.getrlimit(resource.RLIMIT_AS)
    try:
        resource.setrlimit(resource.RLIMIT_AS, (hard, hard))          # the address-space budget is for the tool, not for the model driver
        mv = M.res(M.call_batch("akai_export", [M.Raw(M.enc_image(data))], timeout=45)[0])
    except (M.ModelTimeout, RuntimeError) as e:
        # the list-based model is total but can be very slow / memory hungry when a damaged count or size field is huge:
        # not judged (counted separately), never a verdict
        ctx.count("akai_fault_model_not_evaluated", (case["akai"], case["corruption"], type(e).__name__), nontrivial=False)
        ctx.note("C13: whole-image model not evaluated within 45 s on some damaged images (counted under akai_fault_model_not_evaluated)")
        return
    finally:
        resource.setrlimit(resource.RLIMIT_AS, (soft, hard))
    ctx.count("akai_fault_model", (case["akai"], case["corruption"], tuple(map(tuple, case["patches"]))), nontrivial=True)
    if r.exc is not None or mv[0] != "ok":
        ctx.agree("akai_export(damaged image): finishes / fails", case, r.exc is None, mv[0] == "ok")
        return
    got = {}
    for pth, b in tree.items():
        w = R.parse_wav(b)
        got[pth] = (w.get("channels"), w.get("rate"), w.get("data", b"")) if w["ok"] else ("malformed", 0, b"")
    mod = {"/".join("".join(map(chr, c)) for c in comps) + ".wav": (ch, rate, bytes(pcm)) for comps, rate, ch, pcm in mv[1]}
    ctx.agree("akai_export(damaged image).paths", case, sorted(got), sorted(mod))
    for pth in sorted(set(got) & set(mod)):
        g, m = got[pth], mod[pth]
        ctx.agree("akai_export(damaged image).header", dict(case, file=pth), g[:2], m[:2])
        if g[0] == 1:
            ctx.agree("akai_export(damaged image).pcm", dict(case, file=pth), (len(g[2]), hash(g[2])), (len(m[2]), hash(m[2])))
        # an L/R pair: how the longer half ends is C12/C05's subject and depends on lengths a damaged header may have changed - header only


# ------------------------------------------------------------------------------ Roland
def w_roland(pid, tier, seed, job):
    ctx = F.Ctx(pid, tier, seed)
    try:
        import roland_writer as W
    except ImportError:
        return ctx.dump()
    rng = random.Random(job)
    smp = [W.Sample("S%d" % i, W.tone(rng.choice([100, 5000, 9216 // 2 * 2]), i + 1), loop_mode=rng.randrange(7),
                    chain=list(range(10 + 4 * i, 10 + 4 * i + 3))) for i in range(3)]
    d = W.simple_disk(smp)
    img = bytearray(W.image_bytes(d))
    exp = sorted(W.expected_export(d))
    paths = sorted({p.rsplit("/", 1)[0] for p in exp} | {p.rsplit("/", 2)[0] for p in exp} | {p[:-4] for p in exp})[:4]
    fat_off = W.FAT_AREA_OFFSET if hasattr(W, "FAT_AREA_OFFSET") else None
    ctx.count("roland_fault", (job, "none"), nontrivial=False)
    probe(ctx, bytes(img), "r.img", None, paths, {"roland": job, "corruption": "none"})
    cases = []
    clusters = [c for s in smp for c in s.chain]
    # FAT damage through the writer's own override hook (word values)
    for c in clusters[: (len(clusters) if tier != "quick" else 4)]:
        for v in [c, clusters[0], clusters[1], clusters[-1], c - 1, 0, 1, 0xFFF7, 0xFFF8, 0xFFFF, 0xFFFE, 65526, 30000]:
            cases.append(("fat[%d]=%d" % (c, v), {"fat": {c: v}}))
    for c, v in [(12, 11), (12, 12), (12, 10), (16, 15), (11, 10)]:
        cases.append(("rho fat[%d]=%d" % (c, v), {"fat": {c: v}}))
    # loop points / leading-cluster offsets that make a sample's window empty, negative or out of its chain
    for mode in (5, 6, 0, 1):
        cases.append(("window end<start mode %d" % mode, {"sample": dict(loop_mode=mode, start=3000, sustain_end=100, release_end=50)}))
        cases.append(("window empty mode %d" % mode, {"sample": dict(loop_mode=mode, start=200, sustain_end=199, release_end=199)}))
    for top in (1, 3, 4, 200):
        cases.append(("cluster_top=%d" % top, {"sample": dict(cluster_top=top)}))
    for _ in range(6 if tier == "quick" else 60):
        cases.append(("random-fat", {"fat": {rng.choice(clusters + [rng.randrange(2, 200)]): rng.choice(clusters + [0, 1, 0xFFF8, rng.randrange(65536)]) for _ in range(rng.randint(1, 3))}}))
    for _ in range(10 if tier == "quick" else 80):
        cases.append(("random-bytes", {"bytes": [(rng.randrange(0, min(len(img), 0x60000)), bytes(rng.randrange(256) for _ in range(rng.randint(1, 4)))) for _ in range(rng.randint(1, 4))]}))
    for off in (0x100 + 0xF0, 0x100 + 0xF2, 0x100 + 0xF4, 0x100 + 0xF6, 0x100 + 0xF8, 236, 240, 242, 244, 246, 248):
        for val in (0, 0xFFFF, 0x7FFF):
            cases.append(("idarea[%d]=%d" % (off, val), {"bytes": [(off, struct.pack("<H", val))]}))
    if tier == "quick":
        rng2 = random.Random(job + 7)
        cases = [c for c in cases if c[0].startswith("rho") or c[0].startswith("window") or rng2.random() < 0.35]
    for tag, spec in cases:
        smp2 = [W.Sample(s.name, s.pcm, loop_mode=s.loop_mode, chain=list(s.chain)) for s in smp]
        if "sample" in spec:
            big = W.Sample("BIG", W.tone(6000, 9), chain=[40, 41, 42], **{k: v for k, v in spec["sample"].items() if k != "cluster_top"})
            if "cluster_top" in spec["sample"]:
                big.cluster_top = spec["sample"]["cluster_top"]
                big.par_num_clusters = 1
            smp2.append(big)
        d2 = W.simple_disk(smp2)
        if "fat" in spec:
            d2.fat_overrides.update(spec["fat"])
        data = bytearray(W.image_bytes(d2))
        for o, b in spec.get("bytes", []):
            data[o:o + len(b)] = b
        ctx.count("roland_fault", (job, tag, repr(spec)), nontrivial=True)
        probe(ctx, bytes(data), "r.img", None, paths if tier != "quick" else paths[:2], {"roland": job, "corruption": tag, "spec": repr(spec)[:200]})
    return ctx.dump()


# ------------------------------------------------------------------------- raw / cue
def w_random(pid, tier, seed, job):
    import akai_writer as AW
    ctx = F.Ctx(pid, tier, seed)
    rng = random.Random(job)
    magic = struct.pack("<H", rng.choice([0, 1, 3, 40])) + b"\x00\x00" + b"".join(struct.pack("<H", (3333 * i) & 0xFFFF) for i in range(1, 98))
    heads = [b"", magic + b"\x55\xba\x2f\x00", b"\x00" + b"\xff" * 10 + b"\x00\x00\x00\x00\x01", b"MEDIA DESCRIPTOR\x02\x01\xa9" + b" " * 25 + b"\xff" * 4 + struct.pack("<Q", rng.choice([0, 64, 1 << 40])) + bytes(8)]
    for k in range(6 if tier == "quick" else 40):
        n = rng.choice([0, 1, 15, 16, 63, 64, 511, 512, 2048, 2352, 8192, 24574, 24575, 50000, 200000])
        body = bytes(rng.randrange(256) for _ in range(min(n, 4096))) * (n // 4096 + 1)
        data = rng.choice(heads) + body[:n]
        if rng.random() < 0.3:
            data = data.replace(b"\xff", b"\x00")
        ctx.count("random_bytes", (job, k, len(data)), nontrivial=True)
        probe(ctx, data, "x.bin", None, ["A", "x/y"], {"random": job, "k": k, "len": len(data), "head": data[:24].hex()})
    # text / cue corruptions
    good = R.cue_text("t.bin", [{"indices": [(1, 0, 0, i)], "title": "T%d" % i} for i in range(3)])
    lines = good.splitlines()
    variants = [good, "", "FILE", 'FILE "t.bin" BINARY', 'FILE "missing.bin" BINARY\n TRACK 01 AUDIO\n INDEX 01 00:00:00\n',
                'FILE "t.bin" BINARY\n TRACK 01 AUDIO\n', 'FILE "t.bin" BINARY\n TRACK 99999999999999999999 AUDIO\n INDEX 01 99999999:99:99\n',
                'FILE "t.bin" BINARY\n TRACK 01 MODE1/2352\n INDEX 01 00:00:00\n', "\n".join(lines[:2] + ["garbage"] * 50 + lines[2:]),
                "\n".join(reversed(lines)), good * 200, 'FILE "t.bin" BINARY\n' + " TRACK 01 AUDIO\n INDEX 01 00:00:00\n" * 500]
    # a track other than the first / last that has no (parseable) INDEX line
    three = 'FILE "t.bin" BINARY\n TRACK 01 AUDIO\n  INDEX 01 00:00:00\n TRACK 02 AUDIO\n%s TRACK 03 AUDIO\n  INDEX 01 00:00:02\n'
    variants += [three % "", three % "  INDEX 01 00:02\n", three % '  TITLE "x"\n', (three % "").replace("  INDEX 01 00:00:00\n", ""),
                 (three % "  INDEX 01 00:00:01\n").replace("  INDEX 01 00:00:02\n", ""), (three % "") + " TRACK 04 AUDIO\n TRACK 05 AUDIO\n  INDEX 01 00:00:03\n"]
    # lines that make a backtracking regex work hard: unterminated quotes, long runs of one class, near-matches
    hdr = 'FILE "t.bin" BINARY\n TRACK 01 AUDIO\n'
    for body in ("a" * 60, "a b" * 40, "\\" * 50, 'a\\"' * 30, " " * 400, "x" * 5000):
        variants.append(hdr + '  TITLE "' + body + "\n INDEX 01 00:00:00\n")            # no closing quote
        variants.append(hdr + '  TITLE "' + body + '"\n INDEX 01 00:00:00\n')
    # titles that make the NAME routines (sanitising, counting, L/R pairing) work hard: long runs of blanks / separators inside
    for body in ("a" + " " * 3000 + "b", "a" + " -" * 30000 + "b", "a" + " ." * 2500 + " L", "x" + "- " * 30000 + "R", "a" + "." * 4000 + " b"):
        variants.append(hdr + '  TITLE "' + body + '"\n INDEX 01 00:00:00\n')
        variants.append(hdr + '  TITLE "' + body + '"\n INDEX 01 00:00:00\n TRACK 02 AUDIO\n  TITLE "' + body + '"\n INDEX 01 00:00:01\n')
    variants.append('FILE "' + "n" * 80 + "\n TRACK 01 AUDIO\n INDEX 01 00:00:00\n")              # FILE without closing quote
    variants.append('FILE "' + "n n" * 40 + '" BINAR\n TRACK 01 AUDIO\n')
    variants.append(hdr + " INDEX " + "1" * 60 + " " + "2" * 60 + ":" + "3" * 60 + "\n")
    variants.append(hdr + " INDEX 01 " + "00:" * 60 + "\n")
    variants.append(" " * 3000 + "TRACK" + " " * 3000 + "\n")
    variants.append(hdr.replace("AUDIO", "A/" * 200) + " INDEX 01 00:00:00\n")
    for k, v in enumerate(variants):
        for binlen in (0, 10, 2352 * 4):
            ctx.count("cue_fault", (job, k, binlen), nontrivial=k > 0)
            try:
                data = v.encode("ascii")
            except UnicodeEncodeError:
                continue
            probe(ctx, data, "t.cue", {"t.bin": bytes(binlen)}, ["T0", "nope"], {"cue": k, "bin": binlen, "text": v[:80]})
    return ctx.dump()


def run(ctx):
    F.pmap(ctx, w_akai, [ctx.seed * 19 + i for i in range(8 if ctx.quick else 20)])
    F.pmap(ctx, w_roland, [ctx.seed * 23 + i for i in range(8 if ctx.quick else 32)])
    F.pmap(ctx, w_random, [ctx.seed * 29 + i for i in range(4 if ctx.quick else 16)])


def replay(ctx, case):
    c = case["case"]
    sub = F.Ctx(ctx.pid, ctx.tier, ctx.seed)
    if "akai" in c:
        sub.merge(w_akai(ctx.pid, "thorough", ctx.seed, c["akai"]))
    elif "roland" in c:
        sub.merge(w_roland(ctx.pid, "thorough", ctx.seed, c["roland"]))
    else:
        sub.merge(w_random(ctx.pid, ctx.tier, ctx.seed, c.get("random", 0)))
    for f in sub.failures:
        print(f["what"], f["case"].get("corruption"), f["detail"])
    return not sub.failures
