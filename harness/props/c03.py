"""C03 - CDDA tracks tile the bin file exactly at the cue sheet's index positions."""
import random
import struct

import cuegen as CG
import framework as F
import model as M
import runner as R

RULE = ("random cue sheets of 1-12 audio tracks with strictly increasing first-index MM:SS:FF (one or several INDEX lines, with/without TITLE; "
        "MM:SS:FF drawn so that every FF value 0..74 and minute/second carries occur) over bins of length classes {multiple of 2352, +1..3, +4k, +2351, cut inside last track}; "
        "plus sheets of 70-99 tracks with 40-60 INDEX lines each (cue text well beyond 64 KiB); exported WAVs compared with slices of the bin and with the model windows. Non-trivial = >=2 tracks or a partial trailing sector; distinct = distinct (cue text, bin length)")


def frames(i):
    return (i[1] * 60 + i[2]) * 75 + i[3]


def gen_case(rng, big=False):
    n = rng.randint(1, 12)
    pair_titles = None
    if rng.random() < 0.35:
        n = max(n, 2)
        st = rng.choice(["Drums", "A", "Pad 1"])
        sp = rng.choice([" ", "-", "  ", " -"])
        pair_titles = [st + sp + "L", st + sp + "R"]
        if rng.random() < 0.5:
            pair_titles.reverse()
    # first-index frame numbers, strictly increasing; exercise all FF values and carries
    start = rng.choice([0, 0, 0, 1, 1, 2, 3, 74, 75, 76, 149, 150, 4499, 4500]) if not big else rng.randint(0, 30)
    fr = [start]
    for _ in range(n - 1):
        fr.append(fr[-1] + rng.choice([1, 1, 1, 2, 2, 3, 5, 8, 13, 74, 75, 76]))
    base = fr[0]
    tracks = []
    for k, f0 in enumerate(fr):
        idx = []
        nidx = rng.choice([1, 1, 2, 3])
        f = f0
        for j in range(nidx):
            idx.append((j + (0 if nidx > 1 else 1), f // 4500, (f // 75) % 60, f % 75))
            f += rng.randint(0, 1) if k + 1 < len(fr) and f + 1 < fr[k + 1] else 0
        title = None if rng.random() < 0.3 else "T%02d %s" % (k + 1, rng.choice(["x", "song", "Ab-c", "q.r"]))
        if pair_titles and k < 2:
            title = pair_titles[k]            # "Drums L" / "Drums R": tracks are stereo files on their own, never merged
        tracks.append({"number": k + 1, "mode": "AUDIO", "title": title, "indices": idx})
    # several tracks carrying the same TITLE (an "Interlude" that returns, the album title on every track)
    if len(tracks) >= 2 and rng.random() < 0.3:
        dup = rng.choice(["Interlude", "Album", tracks[0]["title"] or "Same"])
        for t in (tracks if rng.random() < 0.3 else rng.sample(tracks, 2)):
            if not (pair_titles and t["number"] <= 2):
                t["title"] = dup
    last = fr[-1]
    tail = rng.choice([0, 1, 2, 3, 4, 5, 2351, 2352, 2353, 4704 + 6, 1000, 7])
    total = (last + rng.choice([0, 1, 2])) * 2352 + tail
    # keep bins small: shift everything down so the file is not huge (offsets are absolute)
    return {"bin": "d.bin", "tracks": tracks}, total, fr


def expected_names(sheet):
    names, i = [], 0
    for t in sheet["tracks"]:
        names.append(t["title"] or "Untitled Track %d" % (i + 1))
        i += 1
    return names


def gen_big(rng):
    """a legal sheet far beyond 64 KiB of text: up to 99 tracks, each with dozens of INDEX lines (sub-indices are legal up to 99)"""
    n = rng.randint(70, 99)
    m = rng.randint(40, 60)
    gap = -(-m // 4)
    tracks, fr = [], []
    f0 = rng.randint(0, 3)
    for k in range(n):
        fr.append(f0)
        idx = []
        for j in range(m):
            f = f0 + j // 4
            idx.append((j, f // 4500, (f // 75) % 60, f % 75))
        title = None if rng.random() < 0.3 else "Track number %02d of a long disc" % (k + 1)
        tracks.append({"number": k + 1, "mode": "AUDIO", "title": title, "indices": idx})
        f0 += gap + rng.randint(0, 2)
    total = (fr[-1] + 1) * 2352 + rng.choice([0, 2, 1000, 2351])
    return {"bin": "d.bin", "tracks": tracks}, total, fr


def w_cases(pid, tier, seed, job):
    ctx = F.Ctx(pid, tier, seed)
    big = isinstance(job, (list, tuple))
    rng = random.Random(job[1] if big else job)
    for _ in range(1 if big else 8):
        sheet, total, fr = gen_big(rng) if big else gen_case(rng)
        if total > 3_000_000 and not big:
            total = fr[-1] * 2352 + 100
        if total > 12_000_000:
            continue
        # bin content: every 4-byte frame distinct enough (position stamp)
        binb = b"".join(struct.pack("<I", (k * 2654435761) & 0xFFFFFFFF) for k in range(total // 4 + 1))[:total]
        lines = CG.decorate(rng, sheet, rng.choice([None, "lower"]), rng.random() < 0.3, False, blanks=rng.randint(0, 2), junk=rng.randint(0, 2))
        text = "\n".join(lines) + "\n"
        case = {"cue": lines, "bin_len": total}
        # model windows
        mv = M.call_batch("cue_route_windows", [[[[ord(c) for c in l + "\n"] for l in lines], total]])[0]
        mres = M.res(mv)
        with R.TempImage(text.encode("ascii"), "d.cue", {"d.bin": binb}) as path:
            img = R.open_image(path)
            kind = type(img).__name__
            wins = [[t.title, t._data_stream.offset, t._data_stream.end_of_file, t.num_audio_samples] for t in getattr(img, "tracks", [])]
            try:
                img.tracks[0]._data_stream.substream.close()
            except Exception:
                pass
            if mres[0] == "ok":
                route, mw = mres[1]
                mwins = [["".join(map(chr, w[0][1])) if w[0][0] == 1 else "Untitled Track %d" % w[1], w[2], w[3], w[4]] for w in mw]
                ctx.agree("cdda_windows", case, (kind == "CompactDiskAudioImage", wins), (route == 1, mwins))
            else:
                ctx.agree("cdda_windows", case, ("not-a-cue",), mres[:2])
            r, tree, reported = R.export(path)
        ctx.count("cdda_export", (tuple(lines), total), nontrivial=len(fr) > 1 or total % 2352 != 0)
        names = expected_names(sheet)
        if len(set(names)) < len(names):
            # tracks sharing a title are told apart by a counter whose exact spelling is C06/C10's subject: here every track
            # must still get a file of its own; the files are matched to the tracks by their content (position stamps)
            ok_cnt = r.exc is None and len(tree) == len(names) and sorted(tree) == sorted(reported) and len(set(reported)) == len(reported)
            ctx.require("one WAV per track, nothing else", dict(case, duplicate_titles=True), ok_cnt,
                        {"reported": reported, "files": sorted(tree), "exc": r.exc_name, "tracks": len(names)})
            if not ok_cnt:
                continue
            slices = []
            for k in range(len(fr)):
                e = binb[2352 * fr[k]:(2352 * fr[k + 1] if k + 1 < len(fr) else total)]
                slices.append(e[:len(e) - len(e) % 4] if k + 1 == len(fr) else e)
            datas = sorted(R.parse_wav(b).get("data", b"") for b in tree.values())
            ctx.require("track PCM = bin bytes from its first index to the next track's first index (last: to EOF, whole frames)",
                        dict(case, duplicate_titles=True), datas == sorted(slices), {"lens": [len(d) for d in datas], "expected": [len(x) for x in slices]})
            continue
        ok_names = sorted(reported) == sorted(n + ".wav" for n in names) and r.exc is None
        ctx.require("one WAV per track, nothing else", case, ok_names and sorted(tree) == sorted(reported),
                    {"reported": reported, "files": sorted(tree), "exc": r.exc_name, "expected": names})
        if not ok_names:
            continue
        concat = b""
        pcm_models = M.call_batch("track_pcm", [[list(binb), 2352 * fr[k], (2352 * (fr[k + 1] - fr[k]) if k + 1 < len(fr) else total - 2352 * fr[k])]
                                                 for k in range(len(fr))]) if total <= 60000 else None
        for k, nm in enumerate(names):
            w = R.parse_wav(tree[nm + ".wav"])
            lo = 2352 * fr[k]
            hi = 2352 * fr[k + 1] if k + 1 < len(fr) else total
            exp = binb[lo:hi]
            if k + 1 == len(fr):
                exp = exp[:len(exp) - len(exp) % 4]
            ok = w["ok"] and w.get("channels") == 2 and w.get("rate") == 44100 and w.get("bits") == 16 and w.get("data") == exp
            ctx.require("track PCM = bin bytes from its first index to the next track's first index (last: to EOF, whole frames)",
                        dict(case, track=k + 1), ok,
                        {"wav_ok": w["ok"], "why": w["why"], "len": len(w.get("data", b"")), "expected_len": len(exp),
                         "fmt": (w.get("channels"), w.get("rate"), w.get("bits"))})
            if pcm_models is not None and w["ok"]:
                ctx.agree("track_pcm", dict(case, track=k + 1), w["data"], bytes(pcm_models[k]))
            concat += w.get("data", b"")
        tail = binb[2352 * fr[0]:]
        tail = tail[:len(tail) - ((total - 2352 * fr[-1]) % 4)] if (total - 2352 * fr[-1]) % 4 else tail
        ctx.require("tracks concatenated reproduce the bin from the first track on (no gap, no overlap)", case, concat == tail,
                    {"len": len(concat), "expected": len(tail)})
    return ctx.dump()


def run(ctx):
    F.pmap(ctx, w_cases, [ctx.seed * 6007 + i for i in range(16 if ctx.quick else 240)] + [("big", ctx.seed * 31 + i) for i in range(2 if ctx.quick else 10)])


def replay(ctx, case):
    print("re-run with the same VERIF_SEED; case:", case.get("case", {}).get("cue"))
    d = w_cases(ctx.pid, ctx.tier, ctx.seed, 0)
    return not d["failures"]
