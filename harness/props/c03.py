"""C03 - CDDA tracks tile the bin file exactly at the cue sheet's index positions."""
import contextlib
import hashlib
import io
import os
import random
import struct

import cuegen as CG
import framework as F
import model as M
import runner as R

RULE = ("random cue sheets of 1-12 audio tracks with strictly increasing first-index MM:SS:FF (one or several INDEX lines, with/without TITLE; "
        "MM:SS:FF drawn so that every FF value 0..74 and minute/second carries occur) over bins of length classes {multiple of 2352, +1..3, +4k, +2351, cut inside last track}; "
        "plus sheets of 70-99 tracks with 40-60 INDEX lines each (cue text well beyond 64 KiB); exported WAVs compared with slices of the bin and with the model windows. "
        "EVERY case is also exported by the extracted whole-image model: cdda_export_plan (routing, file names in order, channels, rate, byte range of the bin = the PCM; the bin enters by its length only, "
        "theorem cdda_export_plan_exact) on every case, cdda_export itself (PCM bytes) on every case whose bin is at most 384 KiB, cdda_listing against the image's safe names. "
        "A second stream of small sheets leaves the property's domain on purpose (model correspondence only): texts the parser rejects (no FILE line, FILE ... WAVE, a line between FILE and TRACK, TRACK without mode, "
        "INDEX before any TRACK, empty), sheets with a data track (routed to the sampler readers), equal / decreasing / beyond-EOF starts, tracks without INDEX, TITLE \"\", titles the sanitiser rewrites or that collide "
        "after rewriting, L/R titles, MM:SS:FF with SS >= 60 / FF >= 75, a second FILE block. Non-trivial = >=2 tracks or a partial trailing sector; distinct = distinct (cue text, bin length)")

FULL_MODEL_MAX = 384 * 1024     # bins up to this size go through cdda_export itself (its transcoder model is quadratic in the block count: ~2 s at this size)


def frames(i):
    return (i[1] * 60 + i[2]) * 75 + i[3]


def gen_case(rng, big=False):
    n = rng.randint(1, 12)
    pair_titles = None
    if rng.random() < 0.35:
        n = max(n, 2)
        st = rng.choice(["Drums", "A", "Pad 1"])
        sp = rng.choice([" ", "-", "  ", " -"])
        pair_titles = [st + sp + "L", st + sp + "R"]
        if rng.random() < 0.5:
            pair_titles.reverse()
    # first-index frame numbers, strictly increasing; exercise all FF values and carries
    start = rng.choice([0, 0, 0, 1, 1, 2, 3, 74, 75, 76, 149, 150, 4499, 4500]) if not big else rng.randint(0, 30)
    fr = [start]
    for _ in range(n - 1):
        fr.append(fr[-1] + rng.choice([1, 1, 1, 2, 2, 3, 5, 8, 13, 74, 75, 76]))
    base = fr[0]
    tracks = []
    for k, f0 in enumerate(fr):
        idx = []
        nidx = rng.choice([1, 1, 2, 3])
        f = f0
        for j in range(nidx):
            idx.append((j + (0 if nidx > 1 else 1), f // 4500, (f // 75) % 60, f % 75))
            f += rng.randint(0, 1) if k + 1 < len(fr) and f + 1 < fr[k + 1] else 0
        title = None if rng.random() < 0.3 else "T%02d %s" % (k + 1, rng.choice(["x", "song", "Ab-c", "q.r"]))
        if pair_titles and k < 2:
            title = pair_titles[k]            # "Drums L" / "Drums R": tracks are stereo files on their own, never merged
        tracks.append({"number": k + 1, "mode": "AUDIO", "title": title, "indices": idx})
    if len(tracks) >= 2 and rng.random() < 0.25 and not pair_titles:
        tracks[0]["title"], tracks[1]["title"] = "Op. 27 No. 1 - Adagio", "Op. 27 No. 2 - Allegretto"      # equal up to their last full stop
    # several tracks carrying the same TITLE (an "Interlude" that returns, the album title on every track)
    if len(tracks) >= 2 and rng.random() < 0.3:
        dup = rng.choice(["Interlude", "Album", tracks[0]["title"] or "Same"])
        for t in (tracks if rng.random() < 0.3 else rng.sample(tracks, 2)):
            if not (pair_titles and t["number"] <= 2):
                t["title"] = dup
    last = fr[-1]
    tail = rng.choice([0, 1, 2, 3, 4, 5, 2351, 2352, 2353, 4704 + 6, 1000, 7])
    total = (last + rng.choice([0, 1, 2])) * 2352 + tail
    # keep bins small: shift everything down so the file is not huge (offsets are absolute)
    return {"bin": "d.bin", "tracks": tracks}, total, fr


def expected_names(sheet):
    names, i = [], 0
    for t in sheet["tracks"]:
        names.append(t["title"] or "Untitled Track %d" % (i + 1))
        i += 1
    return names


def gen_big(rng):
    """a legal sheet far beyond 64 KiB of text: up to 99 tracks, each with dozens of INDEX lines (sub-indices are legal up to 99)"""
    n = rng.randint(70, 99)
    m = rng.randint(40, 60)
    gap = -(-m // 4)
    tracks, fr = [], []
    f0 = rng.randint(0, 3)
    for k in range(n):
        fr.append(f0)
        idx = []
        for j in range(m):
            f = f0 + j // 4
            idx.append((j, f // 4500, (f // 75) % 60, f % 75))
        title = None if rng.random() < 0.3 else "Track number %02d of a long disc" % (k + 1)
        tracks.append({"number": k + 1, "mode": "AUDIO", "title": title, "indices": idx})
        f0 += gap + rng.randint(0, 2)
    total = (fr[-1] + 1) * 2352 + rng.choice([0, 2, 1000, 2351])
    return {"bin": "d.bin", "tracks": tracks}, total, fr


def stamp_bin(total):
    """bin content: every 4-byte frame distinct enough (position stamp)"""
    return b"".join(struct.pack("<I", (k * 2654435761) & 0xFFFFFFFF) for k in range(total // 4 + 1))[:total]


def _dg(b):
    return "%d:%s" % (len(b), hashlib.sha1(b).hexdigest()[:16])


def _name(comps):
    return "/".join("".join(map(chr, c)) for c in comps) + ".wav"


def observe_route(path, lines):
    """what attempt_parse_cue_sheet makes of the text: 'not-a-cue' (BadCueSheet), 'cdda' (+ the tracks' safe names as `ls` shows them), 'sampler'"""
    from smpl_extract import actions
    from smpl_extract.cuesheet import BadCueSheet
    try:
        with contextlib.redirect_stdout(io.StringIO()):
            img = actions.attempt_parse_cue_sheet([l + "\n" for l in lines], os.path.dirname(path))
    except BadCueSheet:
        return "not-a-cue", None
    except Exception as e:      # the sampler readers (or anything else) gave up on the bin: not a CDDA image
        return "sampler", type(e).__name__
    if type(img).__name__ != "CompactDiskAudioImage":
        R.close_image(img)
        return "sampler", None
    listing = None
    try:
        with contextlib.redirect_stdout(io.StringIO()):
            img.set_routines({"make_safe_names": img.make_safe_names_routine, "make_export_names": img.make_export_names_routine})
            listing = [[c.safe_name, c.type_name] for c in img.children]
    except Exception as e:
        listing = ["raised", type(e).__name__]
    for t in img.tracks[:1]:
        try:
            t._data_stream.substream.close()
        except Exception:
            pass
    return "cdda", listing


def tie(ctx, case, lines, binb, path, r, tree, reported):
    """the extracted whole-image model against the real CLI export of the same cue + bin"""
    total = len(binb)
    codes = [[ord(c) for c in l + "\n"] for l in lines]
    full = total <= FULL_MODEL_MAX
    calls = [("cdda_export_plan", [codes, total]), ("cdda_listing", [codes, total])]
    if full:
        calls.append(("cdda_export", [codes, binb]))
    out = [M.res(v) for v in M.call_mixed(calls)]
    plan, lst = out[0], out[1]
    route_i, listing_i = observe_route(path, lines)
    if plan[0] != "ok" and plan[:2] != ("err", "BadCueSheet"):
        # the model's naming routines gave up (CouldNotDetermineName) or ran out of fuel: the real export must fail the same way
        ctx.agree("cdda_export", case, ("err", r.exc_name), plan[:2])
        return
    route_m = ("cdda" if plan[1][0] == 1 else "sampler") if plan[0] == "ok" else "not-a-cue"
    ctx.agree("cdda_export.route", case, route_i, route_m)
    if route_m != "cdda" or route_i != "cdda":
        if route_m in ("not-a-cue", "sampler") and full:
            ctx.agree("cdda_export.route", dict(case, model="cdda_export"), ("err", "BadCueSheet"), out[2][:2])
        return
    if lst[0] == "ok":
        ctx.agree("cdda_listing", case, listing_i, [["".join(map(chr, n)), "CDDA Track"] for n in lst[1][1]])
    else:
        ctx.agree("cdda_listing", case, listing_i, ["raised", lst[1] if len(lst) > 1 else "fuel"])
    files = plan[1][1]
    if r.exc is not None:
        ctx.agree("cdda_export", case, ("err", r.exc_name), ("ok",))
        return
    mnames = [_name(f[0]) for f in files]
    ctx.agree("cdda_export.paths", case, [list(reported), sorted(tree)], [mnames, sorted(mnames)])
    mfull = None
    if full:
        ctx.agree("cdda_export", dict(case, model="cdda_export"), "ok", out[2][0])
        if out[2][0] == "ok":
            mfull = {_name(f[0]): (f[2], f[1], bytes(f[3])) for f in out[2][1]}
            ctx.agree("cdda_export.paths", dict(case, model="cdda_export"), list(reported), [_name(f[0]) for f in out[2][1]])
    for comps, rate, ch, off, ln in files:
        nm = _name(comps)
        if nm not in tree:
            continue
        w = R.parse_wav(tree[nm])
        data = w.get("data", b"")
        c2 = dict(case, file=nm)
        ctx.agree("cdda_export.header", c2, (w["ok"], w.get("channels"), w.get("rate"), w.get("bits"), len(data)), (True, ch, rate, 16, ln))
        lo = max(off, 0)
        ctx.agree("cdda_export.pcm", c2, _dg(data), _dg(binb[lo:lo + max(ln, 0)]))
        if mfull is not None and nm in mfull:
            fch, frate, fpcm = mfull[nm]
            ctx.agree("cdda_export.header", dict(c2, model="cdda_export"), (w.get("channels"), w.get("rate"), len(data)), (fch, frate, len(fpcm)))
            ctx.agree("cdda_export.pcm", dict(c2, model="cdda_export"), _dg(data), _dg(fpcm))


def w_cases(pid, tier, seed, job):
    ctx = F.Ctx(pid, tier, seed)
    big = isinstance(job, (list, tuple))
    rng = random.Random(job[1] if big else job)
    for _ in range(1 if big else 8):
        sheet, total, fr = gen_big(rng) if big else gen_case(rng)
        if total > 3_000_000 and not big:
            total = fr[-1] * 2352 + 100
        if total > 12_000_000:
            continue
        # bin content: every 4-byte frame distinct enough (position stamp)
        binb = stamp_bin(total)
        lines = CG.decorate(rng, sheet, rng.choice([None, "lower"]), rng.random() < 0.3, rng.random() < 0.3, blanks=rng.randint(0, 2), junk=rng.randint(0, 2))
        text = "\n".join(lines) + "\n"
        case = {"cue": lines, "bin_len": total}
        # model windows
        mv = M.call_batch("cue_route_windows", [[[[ord(c) for c in l + "\n"] for l in lines], total]])[0]
        mres = M.res(mv)
        with R.TempImage(text.encode("ascii"), "d.cue", {"d.bin": binb}) as path:
            img = R.open_image(path)
            kind = type(img).__name__
            try:
                wins = [[t.title, F.private(t, "_data_stream").offset, F.private(t, "_data_stream").end_of_file, t.num_audio_samples] for t in getattr(img, "tracks", [])]
            except F.Unavailable as e:
                wins = None
                ctx.note("C03: relation cdda_windows skipped, internal name not available: %s" % e)
            try:
                img.tracks[0]._data_stream.substream.close()
            except Exception:
                pass
            if wins is None:
                pass
            elif mres[0] == "ok":
                route, mw = mres[1]
                mwins = [["".join(map(chr, w[0][1])) if w[0][0] == 1 else "Untitled Track %d" % w[1], w[2], w[3], w[4]] for w in mw]
                ctx.agree("cdda_windows", case, (kind == "CompactDiskAudioImage", wins), (route == 1, mwins))
            else:
                ctx.agree("cdda_windows", case, ("not-a-cue",), mres[:2])
            r, tree, reported = R.export(path)
            tie(ctx, case, lines, binb, path, r, tree, reported)
        ctx.count("cdda_export", (tuple(lines), total), nontrivial=len(fr) > 1 or total % 2352 != 0)
        names = expected_names(sheet)
        if len(set(names)) < len(names):
            # tracks sharing a title are told apart by a counter whose exact spelling is C06/C10's subject: here every track
            # must still get a file of its own; the files are matched to the tracks by their content (position stamps)
            ok_cnt = r.exc is None and len(tree) == len(names) and sorted(tree) == sorted(reported) and len(set(reported)) == len(reported)
            ctx.require("one WAV per track, nothing else", dict(case, duplicate_titles=True), ok_cnt,
                        {"reported": reported, "files": sorted(tree), "exc": r.exc_name, "tracks": len(names)})
            if not ok_cnt:
                continue
            slices = []
            for k in range(len(fr)):
                e = binb[2352 * fr[k]:(2352 * fr[k + 1] if k + 1 < len(fr) else total)]
                slices.append(e[:len(e) - len(e) % 4] if k + 1 == len(fr) else e)
            datas = sorted(R.parse_wav(b).get("data", b"") for b in tree.values())
            ctx.require("track PCM = bin bytes from its first index to the next track's first index (last: to EOF, whole frames)",
                        dict(case, duplicate_titles=True), datas == sorted(slices), {"lens": [len(d) for d in datas], "expected": [len(x) for x in slices]})
            continue
        ok_names = sorted(reported) == sorted(n + ".wav" for n in names) and r.exc is None
        ctx.require("one WAV per track, nothing else", case, ok_names and sorted(tree) == sorted(reported),
                    {"reported": reported, "files": sorted(tree), "exc": r.exc_name, "expected": names})
        if not ok_names:
            continue
        concat = b""
        pcm_models = M.call_batch("track_pcm", [[list(binb), 2352 * fr[k], (2352 * (fr[k + 1] - fr[k]) if k + 1 < len(fr) else total - 2352 * fr[k])]
                                                 for k in range(len(fr))]) if total <= 60000 else None
        for k, nm in enumerate(names):
            w = R.parse_wav(tree[nm + ".wav"])
            lo = 2352 * fr[k]
            hi = 2352 * fr[k + 1] if k + 1 < len(fr) else total
            exp = binb[lo:hi]
            if k + 1 == len(fr):
                exp = exp[:len(exp) - len(exp) % 4]
            ok = w["ok"] and w.get("channels") == 2 and w.get("rate") == 44100 and w.get("bits") == 16 and w.get("data") == exp
            ctx.require("track PCM = bin bytes from its first index to the next track's first index (last: to EOF, whole frames)",
                        dict(case, track=k + 1), ok,
                        {"wav_ok": w["ok"], "why": w["why"], "len": len(w.get("data", b"")), "expected_len": len(exp),
                         "fmt": (w.get("channels"), w.get("rate"), w.get("bits"))})
            if pcm_models is not None and w["ok"]:
                ctx.agree("track_pcm", dict(case, track=k + 1), w["data"], bytes(pcm_models[k]))
            concat += w.get("data", b"")
        tail = binb[2352 * fr[0]:]
        tail = tail[:len(tail) - ((total - 2352 * fr[-1]) % 4)] if (total - 2352 * fr[-1]) % 4 else tail
        ctx.require("tracks concatenated reproduce the bin from the first track on (no gap, no overlap)", case, concat == tail,
                    {"len": len(concat), "expected": len(tail)})
    return ctx.dump()


HOSTILE_TITLES = ["a/b", "..", "x.", " lead", "trail ", "It`s", "A:B", "Drums L", "Drums R", "Drums-L", "same", "same", "same (2)", "same.", "a\\b", "#1",
                  "-x", ".", "", "x" * 70, "caf?", "a  b", "L", "R", "T (2) L", "Untitled Track 2", "Untitled Track 1"]


def gen_odd(rng):
    """small sheets that leave the property's domain (or sit on its edge): for the model correspondence only"""
    n = rng.randint(1, 5)
    fr = [rng.randint(0, 3)]
    for _ in range(n - 1):
        fr.append(fr[-1] + rng.randint(1, 6))
    tracks = []
    for k, f0 in enumerate(fr):
        title = rng.choice([None, "T%d" % (k + 1), rng.choice(HOSTILE_TITLES), rng.choice(HOSTILE_TITLES)])
        tracks.append({"number": k + 1, "mode": "AUDIO", "title": title, "indices": [(1, f0 // 4500, (f0 // 75) % 60, f0 % 75)]})
    sheet = {"bin": "d.bin", "tracks": tracks}
    total = (fr[-1] + rng.choice([0, 1, 2])) * 2352 + rng.choice([0, 1, 2, 3, 4, 7, 2351])
    kind = rng.choice(["no-file", "file-not-binary", "junk-after-file", "track-no-mode", "index-before-track", "empty", "data-track", "data-track",
                       "mode-case", "equal-starts", "decreasing", "beyond-eof", "no-index", "no-index", "titles", "titles", "titles", "wide-msf",
                       "two-files", "title-twice", "all-same-title"])
    t = rng.choice(tracks)
    if kind == "data-track":
        t["mode"] = rng.choice(["MODE1/2352", "MODE2/2336", "CDG", "AUDIO1", "AUDI"])
    elif kind == "mode-case":
        for x in tracks:
            x["mode"] = rng.choice(["audio", "Audio", "aUDIO", "AUDIO"])
    elif kind == "equal-starts" and n >= 2:
        k = rng.randrange(1, n)
        tracks[k]["indices"] = list(tracks[k - 1]["indices"])
    elif kind == "decreasing" and n >= 2:
        k = rng.randrange(1, n)
        tracks[k]["indices"], tracks[k - 1]["indices"] = tracks[k - 1]["indices"], tracks[k]["indices"]
    elif kind == "beyond-eof":
        total = max(0, fr[rng.randrange(n)] * 2352 - rng.choice([1, 3, 2352, 5000]))
    elif kind == "no-index":
        for x in rng.sample(tracks, rng.randint(1, len(tracks))):
            x["indices"] = []
    elif kind == "titles":
        for x in tracks:
            x["title"] = rng.choice(HOSTILE_TITLES)
    elif kind == "all-same-title":
        ti = rng.choice(["same", "same (2)", "x L", "", "Untitled Track 2"])
        for x in tracks:
            x["title"] = ti
    elif kind == "wide-msf":
        k = rng.randrange(n)
        f0 = fr[k]
        if f0 >= 75:
            tracks[k]["indices"] = [(1, 0, f0 // 75 - 1, 75 + f0 % 75)]
        else:
            tracks[k]["indices"] = [(0, 0, 0, f0), (1, 0, 0, f0 + 80)]
    elif kind == "title-twice":
        t["title"] = "first"
    lines = CG.canonical(sheet)
    if kind == "wide-msf":
        lines = [l.replace("INDEX 01", "INDEX 1") for l in lines]
    if kind == "no-file":
        lines = lines[1:]
    elif kind == "file-not-binary":
        lines[0] = rng.choice(['FILE "d.bin" WAVE', 'FILE d.bin BINARY', 'FILE "d.bin"BINARY', 'FILE "d.bin" BINAR'])
    elif kind == "junk-after-file":
        lines.insert(1, rng.choice(["REM x", 'TITLE "album"', "INDEX 01 00:00:00", "CATALOG 1"]))
    elif kind == "track-no-mode":
        i = rng.choice([j for j, l in enumerate(lines) if l.startswith("TRACK")])
        lines[i] = rng.choice(["TRACK 01", "TRACK AUDIO", "TRACK 01AUDIO", "TRACK 01 !"])
    elif kind == "index-before-track":
        lines = [lines[0], "INDEX 01 00:00:00"] + lines[1:]
    elif kind == "empty":
        lines = rng.choice([[], ["", "   "], ["REM nothing"]])
    elif kind == "two-files":
        lines = lines + ['FILE "other.bin" BINARY', "TRACK 09 " + rng.choice(["AUDIO", "MODE1/2352"]), "INDEX 01 00:00:00"]
    elif kind == "title-twice":
        i = lines.index('TITLE "first"')
        lines.insert(rng.choice([i + 1, i + 2]), 'TITLE "second"')
    return kind, lines, total


def w_odd(pid, tier, seed, job):
    ctx = F.Ctx(pid, tier, seed)
    rng = random.Random(job)
    for _ in range(10):
        kind, lines, total = gen_odd(rng)
        binb = stamp_bin(total)
        case = {"cue": lines, "bin_len": total, "kind": kind}
        text = "".join(l + "\n" for l in lines)
        with R.TempImage(text.encode("ascii"), "d.cue", {"d.bin": binb}) as path:
            r, tree, reported = R.export(path)
            tie(ctx, case, lines, binb, path, r, tree, reported)
        ctx.count("cdda_odd", (tuple(lines), total), nontrivial=True)
    return ctx.dump()


def run(ctx):
    F.pmap(ctx, w_cases, [ctx.seed * 6007 + i for i in range(16 if ctx.quick else 240)] + [("big", ctx.seed * 31 + i) for i in range(2 if ctx.quick else 10)])
    F.pmap(ctx, w_odd, [ctx.seed * 7919 + 101 + i for i in range(16 if ctx.quick else 160)])


def replay(ctx, case):
    print("re-run with the same VERIF_SEED; case:", case.get("case", {}).get("cue"))
    d = w_cases(ctx.pid, ctx.tier, ctx.seed, 0)
    return not d["failures"]
