"""C08 - byte-window views behave as read-only files under any seek/read history.

Correspondence: Stream.v's `run` (extracted) vs the real stream classes on the same op
sequences.  Oracle: an ordinary read-only file over the view's logical content, computed
by the harness from the view spec (independent of the model)."""
import io
import itertools
import os
import random

import framework as F
import model as M
import views as VW

RULE = ("exhaustive: every sequence of <= k ops (k=3 quick, 4 thorough on a reduced alphabet) over {tell, read(n), seek(o,whence)} "
        "with n,o in a boundary set, on each of 12 fixed view configurations over a 24-byte base; random: sequences of 40 ops over "
        "random well-formed nestings up to depth 4 (offset, wrapper, sector, chain permutations, MDF 2352->2048, reversed width 1/2/3/4/6/8) over BytesIO and a real file. "
        "Non-trivial = sequence contains a read; distinct = distinct (view, base cursor, op sequence)")

BASE = bytes(range(100, 124))
FIXED = [
    ("off", 8, 5, ("base",)),
    ("wrap", 10, ("base",)),
    ("sect", 10, 4, ("base",)),
    ("chain", 4, (2, 0, 5), ("base",)),
    ("chain", 3, (7, 1), ("base",)),
    ("rev", 8, 1, ("base",)),
    ("rev", 8, 2, ("base",)),
    ("rev", 9, 3, ("base",)),           # sample widths that are no numpy integer width (24-bit samples / frames)
    ("rev", 12, 6, ("base",)),
    ("rev", 9, 3, ("off", 10, 2, ("chain", 4, (3, 0, 2), ("base",)))),
    ("off", 6, 2, ("chain", 4, (3, 1, 4), ("base",))),
    ("wrap", 7, ("chain", 4, (1, 2), ("base",))),
    ("rev", 8, 2, ("off", 10, 3, ("chain", 4, (4, 0, 2), ("base",)))),
    ("off", 5, 1, ("off", 9, 4, ("base",))),
    ("chain", 2, (2, 0, 1), ("off", 8, 6, ("base",))),
    # gap-free sector ranges entered at the lowest and left at the highest sector, the middle out of order
    ("chain", 2, (3, 5, 4, 6, 7), ("base",)),
    ("chain", 3, (1, 3, 2, 4), ("base",)),
    ("off", 9, 1, ("chain", 2, (2, 4, 3, 5, 6), ("base",))),
    # long back-and-forth chains read in one call (read coalescing must follow the chain, not the sector numbers)
    ("chain", 2, (2, 3, 6, 5, 4, 7), ("base",)),
    ("chain", 2, (1, 5, 2, 6, 3, 7, 4, 8), ("base",)),
    ("chain", 1, (9, 8, 7, 6, 5, 4, 3, 2), ("base",)),
]


def alphabet(n, small=False):
    reads = [-1, 0, 1, 2, 3, 5, n + 2] if not small else [0, 1, 3, n + 2]
    offs = [-2, -1, 0, 1, 2, 4, n + 2] if not small else [-1, 0, 2, n + 1]
    ops = [("tell",)] + [("read", r) for r in reads]
    ops += [("seek", o, w) for o in offs for w in (0, 1, 2)]
    return ops


def top_rev_width(spec):
    return spec[2] if spec[0] == "rev" else None


def has_inner_rev(spec):
    s = spec[-1] if spec[0] != "base" else None
    while s is not None and s[0] != "base":
        if s[0] == "rev":
            return True
        s = s[-1]
    return False


def check_batch(ctx, spec, content, cursor, seqs, use_file=False, tmpdir=None):
    ev = VW.enc_view(spec, len(content))
    args = [[ev, content, cursor, VW.enc_ops(ops)] for ops in seqs]
    mod = M.call_batch("run_view", args)
    L = VW.logical(spec, content)
    rw = top_rev_width(spec)
    inner = has_inner_rev(spec)
    fh = None
    if use_file:
        path = os.path.join(tmpdir, "base.bin")
        with open(path, "wb") as f:
            f.write(content)
    for ops, mv in zip(seqs, mod):
        if use_file:
            fh = open(path, "rb")
            base = fh
        else:
            base = io.BytesIO(content)
        base.seek(cursor)
        st = VW.build(spec, base)
        got = VW.run_impl(st, ops)
        if fh:
            fh.close()
        case = {"view": spec, "content": list(content) if len(content) < 64 else "len=%d" % len(content),
                "cursor": cursor, "ops": ops, "file": use_file}
        ctx.count("view_ops", (spec, cursor, tuple(ops), len(content)), nontrivial=any(o[0] == "read" for o in ops))
        ctx.agree("run_view", case, got, VW.dec_outs(mv))
        if not inner:
            ref = VW.run_ref(L, ops, rw)
            ctx.require("view behaves as a read-only file over its logical content", case,
                        VW.ref_agrees(ref, got), {"expected": ref, "got": got, "logical": list(L[:64])})
        # confinement: every returned byte is a byte of the logical content (values are unique)
        if not inner and not use_file and len(ops) >= 2:
            # the owner of the underlying file moves its cursor between two operations of the view
            base2 = io.BytesIO(content)
            base2.seek(cursor)
            st2 = VW.build(spec, base2)
            got2 = []
            for k, o in enumerate(ops):
                got2 += VW.run_impl(st2, [o])
                base2.seek((7 * k + 3) % (len(content) + 1))
            ref = VW.run_ref(L, ops, rw)
            ctx.require("view behaves as a read-only file over its logical content (underlying file cursor moved between operations)",
                        dict(case, perturbed=True), VW.ref_agrees(ref, got2), {"expected": ref, "got": got2})
    return


def w_exh(pid, tier, seed, job):
    ctx = F.Ctx(pid, tier, seed)
    spec, k, part, nparts = job
    n = VW.size_of(spec, len(BASE))
    alpha = alphabet(n, small=(k >= 4))
    seqs = []
    for i, s in enumerate(itertools.product(alpha, repeat=k)):
        if i % nparts == part:
            seqs.append(list(s))
    check_batch(ctx, spec, BASE, 0, seqs)
    return ctx.dump()


def w_long(pid, tier, seed, job):
    """single reads spanning thousands of sector boundaries (a chain of tiny sectors; the 2048-of-2352 view over a few MiB)"""
    ctx = F.Ctx(pid, tier, seed)
    rng = random.Random(job)
    nsec = 1100 if tier == "quick" else 3000
    secs = list(range(nsec))
    rng.shuffle(secs)
    content = bytes((i * 13 + 7) % 251 for i in range(nsec * 4))
    spec = ("chain", 4, tuple(secs), ("base",))
    n = nsec * 4
    seqs = [[("read", n)], [("read", 7), ("read", n - 100), ("tell",), ("read", 200)]] if job % 2 == 0 else [[("seek", 5, 0), ("read", -1)]]
    check_batch(ctx, spec, content, 0, seqs)
    if job % 2 == 1:
        check_batch(ctx, ("off", n - 8, 3, spec), content, 0, [[("seek", 10, 0), ("read", n - 20)]])
    if tier != "quick" and job % 2 == 0:
        raw = bytes((i * 31 + 5) % 253 for i in range(2352 * 1100))
        check_batch(ctx, ("mdf", ("base",)), raw, 0, [[("read", 2048 * 1100)]])
    return ctx.dump()


def w_rand(pid, tier, seed, job):
    ctx = F.Ctx(pid, tier, seed)
    rng = random.Random(job)
    tmp = None
    import runner
    tmp = runner.scratch_dir("c08")
    try:
        for _ in range(12):
            big = rng.random() < 0.25
            clen = rng.choice([2352 * 3 + 100, 2352 * 2]) if big else rng.randint(4, 64)
            content = bytes((i * 7 + 13) % 251 for i in range(clen)) if big else bytes(rng.sample(range(256), clen) if clen <= 256 else [])
            depth = rng.randint(1, 4)
            spec, ln = VW.random_wf_view(rng, depth, clen)
            seqs = []
            for _ in range(6):
                ops = []
                for _ in range(40):
                    r = rng.random()
                    w = top_rev_width(spec) or 1
                    if r < 0.15:
                        ops.append(("tell",))
                    elif r < 0.6:
                        nn = rng.choice([0, 1, 2, 3, 4, 5, 8, 16, ln, ln + 3, rng.randint(0, ln + 2)])
                        if w > 1 and rng.random() < 0.8:
                            nn -= nn % w
                        # read(-1) walks the view in 4096-byte blocks: on a reversed view longer than one block whose sample width does
                        # not divide 4096 that is an unaligned read (rejected, as the property says); not generated there
                        no_readall = w > 1 and 4096 % w != 0 and ln > 4096
                        ops.append(("read", nn if (no_readall or rng.random() > 0.03) else -1))
                    else:
                        wh = rng.choice([0, 0, 1, 2])
                        o = rng.randint(-ln - 2, ln + 2) if wh else rng.randint(-2, ln + 3)
                        if w > 1 and rng.random() < 0.8:
                            o -= o % w
                        ops.append(("seek", o, wh))
                seqs.append(ops)
            check_batch(ctx, spec, content, rng.choice([0, 0, 3, clen]), seqs, use_file=rng.random() < 0.3, tmpdir=tmp)
    finally:
        import shutil
        shutil.rmtree(tmp, ignore_errors=True)
    return ctx.dump()


def run(ctx):
    k = 3 if ctx.quick else 4
    nparts = 2 if ctx.quick else 8
    jobs = [(spec, kk, part, nparts) for spec in FIXED for kk in range(1, k + 1) if kk >= k - 1 or True
            for part in range(nparts if kk == k else 1)]
    F.pmap(ctx, w_exh, jobs)
    F.pmap(ctx, w_long, [ctx.seed * 7 + i for i in range(2 if ctx.quick else 6)])
    F.pmap(ctx, w_rand, [ctx.seed * 7919 + i for i in range(32 if ctx.quick else 600)])
    ctx.exhaustive = True
    ctx.note("exhaustive op-sequence length: %d over %d fixed views" % (k, len(FIXED)))


def replay(ctx, case):
    c = case["case"]

    def tup(x):
        return tuple(tup(y) for y in x) if isinstance(x, list) else x
    spec = tup(c["view"])
    content = bytes(c["content"]) if isinstance(c["content"], list) else BASE
    ops = [tuple(o) for o in c["ops"]]
    base = io.BytesIO(content)
    base.seek(c.get("cursor", 0))
    got = VW.run_impl(VW.build(spec, base), ops)
    ref = VW.run_ref(VW.logical(spec, content), ops, top_rev_width(spec))
    print("impl:", got)
    print("ref :", ref)
    return VW.ref_agrees(ref, got)
