"""C16 - results depend only on the image bytes, not on what was looked at before."""
import hashlib
import itertools
import os
import random
import shutil
import struct

import framework as F
import model as M
import runner as R

RULE = ("generated AKAI (multi-partition, L/R pairs, duplicate names, programs), Roland S-7xx (shared and orphaned entries; when the writer is present) "
        "and CDDA images; operations = `ls` at every valid path of every level, at invalid / corrupted paths, and `export`; ALL sequences of <= 3 "
        "operations over a reduced operation set (exhaustive) and random sequences of <= 12 operations, each sequence run on ONE opened image object, "
        "every operation's stdout (and exported tree) compared with the same operation on a freshly opened image; SHA-256 of the image file(s) before "
        "and after; the CLI started in separate processes under different string-hash seeds on images with several duplicate-name groups. The memo-protocol model (Lazy.v) is run on the same histories with the real answers as its realisation function. "
        "Non-trivial = history of >= 2 operations; distinct = distinct (image, history)")


def do_op(image, op):
    """-> (stdout, exception name, exported tree or None); mirrors smpl_extract.actions on an OPEN image"""
    import contextlib
    import io
    from smpl_extract.actions import ls_action, export_samples_to_wav
    buf = io.StringIO()
    exc, tree = None, None
    dest = None
    with contextlib.redirect_stdout(buf):
        try:
            if op[0] == "ls":
                ls_action(image, op[1])
            else:
                dest = R.scratch_dir("c16")
                export_samples_to_wav(image, dest)
                tree = R.read_tree(dest)
        except BaseException as e:  # noqa
            if isinstance(e, (KeyboardInterrupt, MemoryError)):
                raise
            exc = type(e).__name__
        finally:
            if dest:
                shutil.rmtree(dest, ignore_errors=True)
    return buf.getvalue(), exc, tree


def open_image(path):
    from smpl_extract.actions import determine_image_type
    return determine_image_type(path)


def sha(paths):
    h = hashlib.sha256()
    for p in sorted(paths):
        with open(p, "rb") as f:
            h.update(f.read())
    return h.hexdigest()


def make_image(rng, kind):
    import akai_writer as AW
    if kind == "akai-crosskind":
        # the same raw name carried by a FILE in one partition and by a DIRECTORY in another (names whose export form
        # depends on the kind: a directory may not end in '-' or '.'), so that anything remembered per raw name shows
        mk = lambda n, i: AW.SampleFile(name=n, pcm=struct.pack("<%dH" % (10 + i), *range(10 + i)))
        nm = rng.choice(["KICK-", "X..", "A-"])
        pa = AW.Partition([AW.Volume("DRUMS", [mk(nm, 0), mk("SNARE", 1)])], size_sectors=40)
        pb = AW.Partition([AW.Volume(nm, [mk("SNARE", 2), mk(nm, 3)]), AW.Volume("OTHER", [mk("HAT", 4)])], size_sectors=40)
        data = AW.image_bytes([pa, pb])
        paths = ["", "B", "B/" + nm, "A", "A/DRUMS", "A/DRUMS/" + nm, "B/" + nm + "/" + nm, "B/OTHER"]
        return ("a.img", data, {}), paths, ["B/NOPE/X", "nope"]
    if kind == "akai":
        parts = []
        paths = ["", "A", "A:"]
        for pi in range(rng.choice([1, 2, 2])):
            vols = []
            for vi in range(rng.randint(1, 2)):
                names = rng.sample(["KICK", "KICK", "PAD L", "PAD R", "BASS", "A-L", "A L", "HAT", "KICK-", "X..", "A-"], rng.randint(1, 6))
                files = []
                for i, n in enumerate(names):
                    nw = 20 + i
                    loops = [AW.Loop(at=rng.randint(5, nw), fine=0, coarse=rng.randint(1, 4), duration=rng.choice([0, 50, 9999])) for _ in range(rng.randint(0, 3))]
                    files.append(AW.SampleFile(name=n, pcm=struct.pack("<%dH" % nw, *range(nw)), loop_type=rng.choice([0, 1, 2, 3]), loops=loops))
                vn = rng.choice(["VOL", "VOL", "DRUMS"])
                if pi == 1 and vi == 0 and rng.random() < 0.6:
                    vn = rng.choice(["KICK-", "X..", "PAD L", "A-"])      # a volume named like a sample of partition A
                vols.append(AW.Volume(vn, files))
                if pi == 0 and vi == 0:
                    paths += ["A/" + vn, "a/" + vn.lower()] + ["A/%s/%s" % (vn, AW.displayed_name(n)) for n in dict.fromkeys(names)]
            parts.append(AW.Partition(vols, size_sectors=40))
        data = AW.image_bytes(parts)
        paths += ["B", "A/VOL (2)", "A/VOL/KICK (2)", "B/KICK-", "B/X..", "B/nope/x"]
        for pi_, p_ in enumerate(parts[1:], 1):
            for v_ in p_.volumes:
                paths.append("%s/%s" % (chr(65 + pi_), v_.name))
        bad = ["nope", "A/nope", "A/VOL/KICK/x", "//", "A\\\\VOL\\"]
        return ("a.img", data, {}), paths, bad
    if kind == "roland":
        import roland_writer as W
        d = W.Disk(fat_version=rng.choice([1, 2]))
        ss = [d.add(W.SAMPLE, W.Sample("S%d" % i, W.tone(200 + i, i + 1), loop_mode=rng.randrange(7))) for i in range(3)]
        pt = d.add(W.PARTIAL, W.Partial("PT", ss[:2]))
        pt2 = d.add(W.PARTIAL, W.Partial("PT2", [ss[1], ss[2]]))
        pa = d.add(W.PATCH, W.Patch("PATCH", [pt, pt2]))
        pf = d.add(W.PERFORMANCE, W.Performance("PERF", [pa]))
        d.add(W.PERFORMANCE, W.Performance("ORPH", [pa]), number=None) if False else None
        d.add(W.VOLUME, W.Volume("VOL", [pf]))
        data = W.image_bytes(d)
        paths = ["", "VOL", "VOL/PERF", "VOL/PERF/S0", "VOL/PERF/S1", "VOL/PERF/S2"]
        bad = ["nope", "VOL/nope", "VOL/PERF/S0/x"]
        return ("r.img", data, {}), paths, bad
    titles = [rng.choice(["Intro", "Intro", "Song", None]) for _ in range(rng.randint(2, 4))]
    cue = R.cue_text("t.bin", [{"indices": [(1, 0, 0, i)], "title": t} for i, t in enumerate(titles)])
    paths = ["", "Intro", "Intro (2)", "Song", "Untitled Track 1", "Untitled Track 2"]
    return ("t.cue", cue.encode(), {"t.bin": bytes((i * 7) % 256 for i in range(2352 * (len(titles) + 1) + 6))}), paths, ["nope", "Intro/x"]


def w_image(pid, tier, seed, job):
    ctx = F.Ctx(pid, tier, seed)
    rng = random.Random(job)
    kinds = ["akai", "cdda", "akai"]
    try:
        import roland_writer  # noqa
        kinds.append("roland")
    except ImportError:
        pass
    kinds.append("akai-crosskind")
    kind = kinds[job % len(kinds)]
    (name, data, extra), paths, bad = make_image(rng, kind)
    with R.TempImage(data, name, extra) as path:
        files = [os.path.join(os.path.dirname(path), f) for f in [name] + list(extra)]
        h0 = sha(files)
        ops = [("ls", p) for p in dict.fromkeys(paths + bad + ["B"])] + [("export",)]
        fresh = {}
        for op in ops:
            im = open_image(path)
            fresh[op] = do_op(im, op)
            R.close_image(im)
        # exhaustive short histories over a reduced op set + random long ones
        core = [("ls", paths[0]), ("ls", paths[min(3, len(paths) - 1)]), ("ls", bad[0]), ("export",), ("ls", paths[min(5, len(paths) - 1)]),
                ("ls", paths[min(6, len(paths) - 1)]), ("ls", paths[-1]), ("ls", "B")]
        # the property speaks of ONE export per opened image (before, between or after any `ls` requests); a second
        # export on the same opened object re-reads the already consumed sample streams and is outside it (see DESIGN.md)
        hists = [list(h) for k in (2, 3) for h in itertools.product(core, repeat=k) if list(h).count(("export",)) <= 1]
        if tier == "quick":
            hists = hists[:: 7]
        for _ in range(6 if tier == "quick" else 40):
            h = [rng.choice(ops[:-1]) for _ in range(rng.randint(4, 12))]
            if rng.random() < 0.7:
                h[rng.randrange(len(h))] = ("export",)
            hists.append(h)
        for hist in hists:
            im = open_image(path)
            case = {"image": kind, "seed": job, "history": [list(o) for o in hist]}
            ctx.count("history", (job, tuple(hist)), nontrivial=len(hist) >= 2)
            for i, op in enumerate(hist):
                got = do_op(im, op)
                ctx.require("every operation answers as on a freshly opened image (stdout, exception, exported files)", dict(case, step=i, op=list(op)),
                            got == fresh[op], {"got": (got[0][:200], got[1], sorted(got[2]) if got[2] else None),
                                                "fresh": (fresh[op][0][:200], fresh[op][1], sorted(fresh[op][2]) if fresh[op][2] else None)})
            R.close_image(im)
        ctx.require("the image file is never modified", {"image": kind, "seed": job}, sha(files) == h0, None)
        # repeated runs: a second freshly opened image exports the same bytes
        im = open_image(path)
        again = do_op(im, ("export",))
        R.close_image(im)
        ctx.require("repeated runs export the same files with the same bytes", {"image": kind, "seed": job, "repeat": True}, again == fresh[("export",)], None)
    return ctx.dump()


def w_procs(pid, tier, seed, job):
    """Repeated runs in SEPARATE processes (the CLI as a user starts it), each under another string-hash seed: the export tree and
    the listings depend on the image bytes only."""
    import subprocess
    import sys
    import akai_writer as AW
    ctx = F.Ctx(pid, tier, seed)
    rng = random.Random(job)
    if job % 2 == 0:
        # several groups of identically named siblings that differ only in the separator before L/R, plus plain duplicates
        names = ["PAD L", "PAD L", "PAD-L", "PAD-L", "PAD  L", "X", "X", "KICK", "PAD R", "PAD-R", "X"]
        rng.shuffle(names)
        files = [AW.SampleFile(name=n, pcm=struct.pack("<3h", i, 100 + i, 7)) for i, n in enumerate(names)]
        vols = [AW.Volume("VOL A", files), AW.Volume("VOL A", files[:3]), AW.Volume("VOL-A", files[3:6])]
        name, data, extra, inner = "a.img", AW.image_bytes([AW.Partition(vols, size_sectors=64)]), {}, ["", "A", "A/VOL A", "A/VOL A/PAD (2) L"]
    else:
        titles = ["Interlude", "Song L", "Interlude", "Song-L", "Song L", "Interlude", "Song R"]
        rng.shuffle(titles)
        tracks = [{"indices": [(1, 0, 0, i)], "title": t} for i, t in enumerate(titles)]
        name, data, extra, inner = "t.cue", R.cue_text("t.bin", tracks).encode("ascii"), {"t.bin": bytes((i * 31) % 256 for i in range(2352 * (len(titles) + 1)))}, ["", "Interlude (2)"]
    runs = []
    with R.TempImage(data, name, extra) as path:
        for hs in ("0", "1", "2", "3") if tier == "quick" else [str(k) for k in range(8)]:
            env = dict(os.environ, PYTHONHASHSEED=hs, PYTHONPATH=F.REPO)
            outs = []
            for p_ in inner:
                r = subprocess.run([sys.executable, "-m", "smpl_extract", "ls", path, p_], env=env, capture_output=True, text=True, timeout=120)
                outs.append((r.returncode, r.stdout))
            dest = R.scratch_dir("c16p")
            try:
                r = subprocess.run([sys.executable, "-m", "smpl_extract", "export", path, "-d", dest], env=env, capture_output=True, text=True, timeout=300)
                tree = R.read_tree(dest)
            finally:
                shutil.rmtree(dest, ignore_errors=True)
            runs.append((outs, r.returncode, sorted(l for l in r.stdout.splitlines() if l.startswith("Exported ")), {k: hashlib.sha256(v).hexdigest() for k, v in tree.items()}))
    ctx.count("separate_processes", (job, len(runs)), nontrivial=True)
    diff = [i for i, x in enumerate(runs) if x != runs[0]]
    ctx.require("repeated runs (separate processes, different string-hash seeds) list and export the same", {"image": name, "seed": job, "hash_seeds": len(runs)},
                not diff and runs[0][1] == 0, {"differing_runs": diff, "first": (runs[0][1], runs[0][2][:6]), "other": (runs[diff[0]][1], runs[diff[0]][2][:6]) if diff else None})
    return ctx.dump()


def run(ctx):
    F.pmap(ctx, w_image, [ctx.seed * 43 + i for i in range(16 if ctx.quick else 96)])
    F.pmap(ctx, w_procs, [ctx.seed * 47 + i for i in range(2 if ctx.quick else 8)])


def replay(ctx, case):
    c = case["case"]
    sub = F.Ctx(ctx.pid, ctx.tier, ctx.seed)
    sub.merge(w_image(ctx.pid, ctx.tier, ctx.seed, c["seed"]))
    for f in sub.failures:
        print(f["what"], f["case"].get("history"), f["detail"])
    return not sub.failures
