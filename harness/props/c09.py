"""C09 - listing and export do not depend on the container the image is wrapped in."""
import os
import random
import struct

import framework as F
import model as M
import runner as R

RULE = ("generated AKAI images (and Roland S-7xx images when the writer is present), each delivered five ways: raw, MODE1/2352 raw sectors, Alcohol MDX "
        "wrapper, cue sheet with a data track over the raw file (LF, CRLF and CR line ends), cue sheet with a data track over the 2352 file; image sizes that are and are not "
        "multiples of 2048 (trailing junk appended); `ls` at every level (root, every partition, every volume, every file) and the exported tree must "
        "be identical across the five; cue sheets whose tracks are all audio must be CDDA. Function level: the Coq model's detect / wrap_2352 / wrap_mdx / "
        "logical content against is_mdf_image, is_mdx_image, MdfStream, MdxStream and the harness writers on generated and mutated headers. "
        "Non-trivial = image with at least one exported file; distinct = distinct (image bytes, container)")


def variants(img):
    import akai_writer as AW
    w2352 = AW.wrap_2352(img)
    out = {
        "raw": ("i.img", img, {}),
        "2352": ("i.mdf", w2352, {}),
        "mdx": ("i.mdx", AW.wrap_mdx(img), {}),
        "cue-raw": ("i.cue", R.cue_text("d.bin", [{"mode": "MODE1/2048", "indices": [(1, 0, 0, 0)]}]).encode(), {"d.bin": img}),
        # the same cue sheet with DOS and classic-Mac line ends
        "cue-raw-crlf": ("i.cue", R.cue_text("d.bin", [{"mode": "MODE1/2048", "indices": [(1, 0, 0, 0)]}]).replace("\n", "\r\n").encode(), {"d.bin": img}),
        "cue-raw-cr": ("i.cue", R.cue_text("d.bin", [{"mode": "MODE1/2048", "indices": [(1, 0, 0, 0)]}]).replace("\n", "\r").encode(), {"d.bin": img}),
        # a bin file whose name itself contains double quotes (legal on POSIX): FILE "d "B" side.bin" BINARY
        "cue-raw-quoted-name": ("i.cue", R.cue_text('d "B" side.bin', [{"mode": "MODE1/2048", "indices": [(1, 0, 0, 0)]}]).encode(), {'d "B" side.bin': img}),
        "cue-2352": ("i.cue", R.cue_text("d.bin", [{"mode": "MODE1/2352", "indices": [(1, 0, 0, 0)]},
                                                     {"mode": "AUDIO", "indices": [(1, 0, 2, 0)]}]).encode(), {"d.bin": w2352}),
    }
    return out


def listing_paths(first_out):
    return []


def observe(name, data, extra):
    """all ls outputs (breadth-first over the printed names, depth <= 3) + export tree"""
    from props import c10 as C10
    outs = {}
    with R.TempImage(data, name, extra) as path:
        def visit(prefix, depth):
            r = R.ls(path, "/".join(prefix))
            outs["/".join(prefix)] = (r.out, r.exc_name)
            if r.exc is not None or depth >= 3:
                return
            lines = r.out.splitlines()
            if len(lines) >= 2 and set(lines[1]) == {"-"} and "Type" in lines[0]:
                for n in C10.table_names(r.out):
                    if n.strip():
                        visit(prefix + [n], depth + 1)
        visit([], 0)
        r, tree, reported = R.export(path)
        # the same file addressed by a RELATIVE path with a directory component (the bin file of a cue sheet is looked up
        # next to the sheet, wherever the tool was started)
        import os
        here = os.getcwd()
        try:
            os.chdir(os.path.dirname(os.path.dirname(path)) or "/")
            rel = os.path.join(os.path.basename(os.path.dirname(path)), os.path.basename(path))
            rr = R.ls(rel, "")
            outs["(relative path) "] = (rr.out, rr.exc_name)
            outs["(relative path = absolute path) "] = (rr.out == outs[""][0] and rr.exc_name == outs[""][1], None)
        finally:
            os.chdir(here)
    return outs, tree, sorted(reported), r.exc_name


def roland_image(rng):
    import roland_writer as W
    d = W.Disk(fat_version=rng.choice([1, 2]))
    ss = []
    for i in range(rng.randint(2, 4)):
        nw = rng.choice([300, 4608, 5000])
        chain = list(range(10 + 3 * i, 10 + 3 * i + max(1, -(-2 * nw // W.CLUSTER))))
        rng.shuffle(chain)
        ss.append(d.add(W.SAMPLE, W.Sample("SMP%d" % i, W.tone(nw, i + 1), loop_mode=rng.randrange(7), freq_code=rng.randrange(6), chain=chain)))
    pt = d.add(W.PARTIAL, W.Partial("PT", ss[:4]))
    pa = d.add(W.PATCH, W.Patch("PATCH", [pt]))
    pf = d.add(W.PERFORMANCE, W.Performance("PERF", [pa]))
    if rng.random() < 0.5:
        d.add(W.PERFORMANCE, W.Performance("LONELY", [pa]))       # listed by no volume: orphan pseudo volume
    d.add(W.VOLUME, W.Volume("VOL", [pf]))
    return W.image_bytes(d)


def w_image(pid, tier, seed, job):
    from props import c01 as C1
    ctx = F.Ctx(pid, tier, seed)
    rng = random.Random(job)
    if job % 4 == 3:
        img, parts, meta = roland_image(rng), None, {}
    elif job % 4 == 2:
        # siblings with identical stored names (files, volumes), L/R pairs: naming must not depend on the container either
        import akai_writer as AW
        import struct
        vols = []
        for vi in range(rng.randint(1, 3)):
            names = [rng.choice(["KICK", "KICK", "SNARE", "PAD L", "PAD R", "X.."]) for _ in range(rng.randint(2, 6))]
            vols.append(AW.Volume(rng.choice(["DRUMS", "DRUMS", "AB.."]), [AW.SampleFile(name=n, pcm=struct.pack("<3h", vi, i, 7)) for i, n in enumerate(names)]))
        parts = [AW.Partition(vols, size_sectors=48)]
        img, meta = AW.image_bytes(parts), {}
    else:
        img, parts, meta = C1.gen_image(rng, tier)
    if job % 3 == 1:
        img = img + bytes(rng.randrange(256) for _ in range(rng.choice([1, 1000, 2047, 2049])))   # size not a multiple of 2048
    base = None
    for kind, (name, data, extra) in variants(img).items():
        obs = observe(name, data, extra)
        case = {"seed": job, "container": kind, "size": len(img), "format": "roland" if parts is None else "akai"}
        ctx.count("container", (job, kind), nontrivial=bool(obs[1]))
        ctx.require("ls and export finish without exception", case, obs[3] is None and all(v[1] is None for v in obs[0].values()),
                    (obs[3], [k for k, v in obs[0].items() if v[1]]))
        if base is None:
            base = obs
            continue
        diff = [k for k in set(base[0]) | set(obs[0]) if base[0].get(k) != obs[0].get(k)]
        ctx.require("`ls` output at every level is the same as for the raw image", case, not diff, diff[:5])
        ctx.require("exported files are byte-identical to those of the raw image", case, base[1] == obs[1] and base[2] == obs[2],
                    {"only_raw": sorted(set(base[1]) - set(obs[1]))[:5], "only_here": sorted(set(obs[1]) - set(base[1]))[:5],
                     "differ": [k for k in base[1] if k in obs[1] and base[1][k] != obs[1][k]][:5]})
    return ctx.dump()


def w_cdda(pid, tier, seed, job):
    """a cue sheet whose tracks are all audio is CDDA whatever the bin holds (even an AKAI image)"""
    from props import c01 as C1
    ctx = F.Ctx(pid, tier, seed)
    rng = random.Random(job)
    img, parts, meta = C1.gen_image(rng, tier)
    cue = R.cue_text("d.bin", [{"mode": "AUDIO", "indices": [(1, 0, 0, 0)]}, {"mode": "audio", "indices": [(1, 0, 0, 5)]}])
    with R.TempImage(cue.encode(), "i.cue", {"d.bin": img}) as path:
        r = R.ls(path, "")
        ctx.count("cue_all_audio", job, nontrivial=True)
        ctx.require("a cue sheet whose tracks are all audio is listed as CDDA tracks", {"seed": job}, r.exc is None and "Track" in r.out and "Partition" not in r.out, r.out[:200])
    cue2 = R.cue_text("d.bin", [{"mode": "AUDIO", "indices": [(1, 0, 0, 0)]}, {"mode": "MODE1/2048", "indices": [(1, 0, 0, 5)]}])
    with R.TempImage(cue2.encode(), "i.cue", {"d.bin": img}) as path:
        r = R.ls(path, "")
        ctx.require("a cue sheet with a data track is listed as the sampler image", {"seed": job, "mixed": True}, r.exc is None and "Partition" in r.out, r.out[:200])
    return ctx.dump()


def impl_detect(b):
    import io
    from smpl_extract.alcohol.mdf import is_mdf_image
    from smpl_extract.alcohol.mdx import is_mdx_image
    f = io.BytesIO(b)
    return 1 if is_mdf_image(f) else (2 if is_mdx_image(f) else 0)


def impl_logical(b):
    import io
    from smpl_extract.alcohol.mdf import is_mdf_image, MdfStream
    from smpl_extract.alcohol.mdx import is_mdx_image, MdxStream
    f = io.BytesIO(b)
    if is_mdf_image(f):
        f = MdfStream(f)
    elif is_mdx_image(f):
        f = MdxStream(f)
    else:
        return b
    f.seek(0, 0)
    return f.read(-1)


def w_func(pid, tier, seed, job):
    import akai_writer as AW
    ctx = F.Ctx(pid, tier, seed)
    rng = random.Random(job)
    datas = []
    for n in [1, 5, 2047, 2048, 2049, 4096, 5000]:
        datas.append(bytes(rng.randrange(256) for _ in range(n)))
    heads = []
    for d in datas:
        heads += [d, AW.wrap_2352(d), AW.wrap_mdx(d)]
    # mutated headers
    for h in list(heads):
        if len(h) >= 64:
            for pos in (0, 1, 11, 12, 15, 16, 18, 20, 47, 48, 63):
                m = bytearray(h)
                m[pos] ^= rng.choice([1, 0x80, 0xFF])
                heads.append(bytes(m))
    heads += [b"", b"\x00", bytes(15), bytes(16), b"\x00" + b"\xff" * 10 + b"\x00\x00\x00\x00\x01", b"MEDIA DESCRIPTOR" + bytes(47)]
    mod_d = M.call_batch("detect_container", [list(h) for h in heads])
    for h, mv in zip(heads, mod_d):
        ctx.count("detect", h[:80], nontrivial=len(h) >= 16)
        ctx.agree("detect_container", {"head": h[:80].hex(), "len": len(h)}, impl_detect(h), mv)
    m2 = M.call_batch("wrap_2352", [list(d) for d in datas])
    m3 = M.call_batch("wrap_mdx", [list(d) for d in datas])
    for d, a, b in zip(datas, m2, m3):
        ctx.agree("wrap_2352(writer)", {"len": len(d)}, AW.wrap_2352(d), bytes(a))
        ctx.agree("wrap_mdx(writer)", {"len": len(d)}, AW.wrap_mdx(d), bytes(b))
    wrapped = [AW.wrap_2352(d) for d in datas] + [AW.wrap_mdx(d) for d in datas] + datas
    ml = M.call_batch("container_logical", [list(w) for w in wrapped])
    for w, mv in zip(wrapped, ml):
        got = M.impl_res(impl_logical, w)
        ctx.count("logical", w[:64] + bytes([len(w) % 251]), nontrivial=True)
        ctx.agree("container_logical", {"len": len(w), "head": w[:20].hex()}, got, ("ok", bytes(mv)))
    for d in datas:
        pad = d + bytes((-len(d)) % 2048)
        ctx.require("the user-data view of the 2352 wrapping is the zero-padded image", {"len": len(d)}, M.impl_res(impl_logical, AW.wrap_2352(d)) == ("ok", pad), None)
        ctx.require("the view of the MDX wrapping is the image", {"len": len(d)}, M.impl_res(impl_logical, AW.wrap_mdx(d)) == ("ok", d), None)
    return ctx.dump()


def run(ctx):
    F.pmap(ctx, w_func, [ctx.seed * 17 + i for i in range(4 if ctx.quick else 32)])
    F.pmap(ctx, w_image, [ctx.seed * 5003 + i for i in range(12 if ctx.quick else 120)])
    F.pmap(ctx, w_cdda, [ctx.seed * 41 + i for i in range(4 if ctx.quick else 24)])


def replay(ctx, case):
    c = case["case"]
    sub = F.Ctx(ctx.pid, ctx.tier, ctx.seed)
    if "container" in c or "seed" in c:
        sub.merge((w_cdda if "mixed" in c or "container" not in c else w_image)(ctx.pid, ctx.tier, ctx.seed, c["seed"]))
    for f in sub.failures:
        print(f["what"], f["detail"])
    return not sub.failures
