"""C15 - on a truncated image every reported file is a well-formed prefix."""
import random
import struct

import framework as F
import model as M
import runner as R

RULE = ("generated AKAI images (mono files and L/R pairs, multi-sector and fragmented chains, the directory allocated before or after the data) and "
        "cue/bin CDDA images, cut at: every sector boundary -1/0/+1, the middle of the partition header / SAT / directory / sample header / data, and "
        "random offsets; raw and 2352-wrapped. The export of the truncated image must terminate; every file it REPORTS must be a well-formed WAV whose PCM "
        "is a prefix of the full image's PCM for the same path; a file whose header sectors, directory sectors and data sectors all lie before the cut "
        "must be exported complete. Function level: the operational view model (Stream.v) on truncated base content against the real classes: a read "
        "returns the full-content bytes, a prefix of them, or SectorReadError; the block-loop models (Trunc.v drain / drain_many) against the real "
        "PassthroughTranscoder / PipelineTranscoder over the same towers on cut files (one shared file object), whose drained PCM must be a whole-frame "
        "prefix of the complete file's, complete when all sectors lie before the cut. Non-trivial = cut inside the used part of the image; distinct = (image, cut)")

SECTOR = 8192


def gen(rng):
    import akai_writer as AW
    files = []
    pool = ["KICK", "SNARE", "PAD L", "PAD R", "BASS", "LEAD"]
    rng.shuffle(pool)
    for i, n in enumerate(pool[:rng.randint(2, 5)]):
        nw = rng.choice([10, 3000, 4096 - 70, 6000, 9000])
        if n == "PAD R" and any(f.name == "PAD L" for f in files):
            nw = [f for f in files if f.name == "PAD L"][0].n_words
        files.append(AW.SampleFile(name=n, pcm=struct.pack("<%dH" % nw, *[(4001 * (i + 1) + 7 * w) % 65536 for w in range(nw)])))
    vol = AW.Volume("VOL", files, dir_style=rng.choice(["run", "chain"]))
    part = AW.Partition([vol], size_sectors=40)
    dir_last = rng.random() < 0.5
    mode = rng.choice(["contig", "reversed", "shuffled"])

    def order(free, n):
        if mode == "contig":
            return free[:n]
        if mode == "reversed":
            return list(reversed(free[:n]))
        return rng.sample(free[:n + 4], n)
    alloc = AW.Allocator(40, order)
    if dir_last:
        vol.dir_sectors = [38]
        alloc.free.remove(38)
    if rng.random() < 0.4:
        # file-table order differs from the order on the disk (what deleting and re-saving leaves behind): the file listed
        # FIRST lies in the highest sectors, so a cut can remove an earlier-listed file and leave later-listed ones intact
        if not dir_last:
            vol.dir_sectors = [alloc.free.pop(0)]
        for f in reversed(files):
            f.sectors = alloc.take(max(1, -(-len(f.body()) // SECTOR)))
    img = AW.image_bytes([part], [alloc])
    return img, vol, part


def pcm_of(tree):
    out = {}
    for p, b in tree.items():
        w = R.parse_wav(b)
        out[p] = (w["ok"], w.get("why"), w.get("data"), w.get("channels"))
    return out


def needed_sectors(vol, names):
    """whole sectors (of the partition) a file depends on: header 0-2 and its data; plus the byte offset up to which the
    directory must be readable: the table entries up to and including the file's own entries (the table is walked in order)"""
    import akai_writer as AW
    s = {0, 1, 2}
    last = -1
    for k, f in enumerate(vol.files):
        if AW.displayed_name(f.name) in names:
            s |= set(f.sectors)
            last = max(last, k)
    dir_bytes = vol.dir_sectors[0] * SECTOR + 24 * (last + 1)
    return s, dir_bytes


def w_image(pid, tier, seed, job):
    import akai_writer as AW
    import namecases as NC
    ctx = F.Ctx(pid, tier, seed)
    rng = random.Random(job)
    img, vol, part = gen(rng)
    wrap = job % 4 == 3
    with R.TempImage(AW.wrap_2352(img) if wrap else img) as path:
        r0, tree0, rep0 = R.export(path)
    full = pcm_of(tree0)
    base_case = {"seed": job, "wrapped2352": wrap}
    if not ctx.require("the complete image exports", base_case, r0.exc is None and all(v[0] for v in full.values()) and len(full) > 0, r0.exc_name):
        return ctx.dump()
    used = sorted({s for f in vol.files for s in f.sectors} | set(vol.dir_sectors) | {0, 1, 2})
    cuts = set()
    for s in used + [max(used) + 1]:
        for d in (-1, 0, 1, SECTOR // 2):
            cuts.add(s * SECTOR + d)
    cuts |= {0, 1, 100, 201, 202, 1000, 1802, 5000, 24573, 24574, 24575}
    d0 = vol.dir_sectors[0] * SECTOR
    cuts |= {d0 + 24 * k + d for k in range(len(vol.files) + 2) for d in (0, 9, 10, 23)} | {d0 + 300, d0 + 5000}
    for _ in range(10 if tier == "quick" else 60):
        cuts.add(rng.randrange(0, len(img)))
    names = [AW.displayed_name(f.name) for f in vol.files]
    outs = NC.expected_pairs(names)
    cuts = sorted(c for c in cuts if 0 <= c < len(img))
    if tier == "quick":
        cuts = cuts[::2] if len(cuts) > 60 else cuts
    for c in cuts:
        data = img[:c]
        if wrap:
            data = AW.wrap_2352(img)[: (c // 2048) * 2352 + min(c % 2048 + 16, 2352) if c % 2048 else (c // 2048) * 2352]
        with R.TempImage(data) as path:
            r, tree, rep = R.export(path)
            again = R.export(path, prefill=tree0) if c % 4 == 1 else None
        case = dict(base_case, cut=c, cut_sector=c // SECTOR)
        ctx.count("akai_cut", (job, c), nontrivial=c < (max(used) + 1) * SECTOR)
        if again is not None:
            # exported into the directory that still holds the complete image's (longer) files: never bytes from elsewhere
            bad = [p for p in again[2] if again[1].get(p) != tree.get(p)]
            ctx.require("a truncated image exported over an earlier complete export writes the same files as into an empty directory (no stale tail)",
                        dict(case, reused_destination=True), sorted(again[2]) == sorted(rep) and not bad, {"differ": bad[:4], "reported": again[2][:6]})
        got = pcm_of({p: tree[p] for p in rep if p in tree})
        ctx.require("every reported file exists", case, all(p in tree for p in rep), [p for p in rep if p not in tree])
        for p, (ok, why, pcm, ch) in got.items():
            c2 = dict(case, file=p)
            if not ctx.require("every reported file is a well-formed WAV", c2, ok, why):
                continue
            if p not in full:
                # one half of an L/R pair whose other half is lost by the cut is exported on its own (known finding D17);
                # its audio must still be a prefix of that channel of the complete pair
                base = p[len("A/VOL/"):-len(".wav")]
                sp = NC.split_stereo(base)
                pair = "A/VOL/%s.wav" % sp[0] if sp else None
                half = bool(sp) and pair in full and full[pair][3] == 2
                ctx.require("every reported file is also reported for the complete image", dict(c2, unpaired_half=half), False, sorted(full))
                if half:
                    chn = 0 if sp[2] == "L" else 1
                    want = b"".join(full[pair][2][i:i + 2] for i in range(2 * chn, len(full[pair][2]), 4))
                    k = min(len(want), len(pcm))   # a half exported alone may be longer than the pair (the pair stops with its shorter half)
                    ctx.require("an unpaired half carries the same audio as its channel of the complete pair", c2, want[:k] == pcm[:k], {"len": len(pcm), "pair_channel": len(want)})
                continue
            ctx.require("reported PCM is a prefix of the complete image's PCM for the same path (no foreign bytes)", c2,
                        full[p][2][:len(pcm)] == pcm and ch == full[p][3], {"len": len(pcm), "full": len(full[p][2])})
        if wrap:
            continue
        for nm, src in outs:
            need, dir_bytes = needed_sectors(vol, [names[i] for i in src])
            if all((s + 1) * SECTOR <= c for s in need) and dir_bytes <= c:
                p = "A/VOL/%s.wav" % nm
                c2 = dict(case, file=p)
                ctx.require("a file whose header sectors, directory entries and data sectors all lie before the cut is exported complete", c2,
                            p in got and got[p][0] and got[p][2] == full[p][2], {"reported": sorted(got), "exc": r.exc_name})
    return ctx.dump()


def w_image2(pid, tier, seed, job):
    """two partitions: a cut anywhere inside the SECOND partition (its header, volume table, allocation table, directory, data)
    leaves every file of the first exported complete; whatever is still exported of the second is a prefix"""
    import akai_writer as AW
    ctx = F.Ctx(pid, tier, seed)
    rng = random.Random(job)
    parts = []
    for pi in range(2):
        files = [AW.SampleFile(name="%s%d" % (n, pi), pcm=struct.pack("<%dH" % nw, *[(977 * (pi + 1) * (i + 1) + 3 * w) % 65536 for w in range(nw)]))
                 for i, (n, nw) in enumerate(zip(["KICK", "SNARE", "BASS"], [rng.choice([10, 3000, 6000]) for _ in range(rng.randint(1, 3))]))]
        parts.append(AW.Partition([AW.Volume("VOL %d" % pi, files), AW.Volume("EXTRA", [AW.SampleFile(name="X", pcm=b"\x01\x00\x02\x00")])], size_sectors=rng.choice([24, 40])))
    img = AW.image_bytes(parts)
    with R.TempImage(img) as path:
        r0, tree0, rep0 = R.export(path)
    full = pcm_of(tree0)
    base_case = {"seed": job, "two_partitions": True}
    if not ctx.require("the complete image exports", base_case, r0.exc is None and all(v[0] for v in full.values()) and any(p.startswith("B/") for p in full), r0.exc_name):
        return ctx.dump()
    b0 = parts[0].size_sectors * SECTOR
    first = {p: v for p, v in full.items() if p.startswith("A/")}
    cuts = {b0 + d for d in (0, 1, 2, 3, 100, 201, 202, 203, 209, 210, 213, 214, 215, 216, 217, 218, 219, 230, 233, 1000, 1001, 1801, 1802, 1803, 1804, 1805,
                             5000, 8191, 8192, 8193, 16384, 24573, 24574, 24575, 24576)}
    cuts |= {b0 + 202 + 16 * k + d for k in (0, 1, 2, 99) for d in (0, 11, 12, 13, 14, 15)}
    for _ in range(12 if tier == "quick" else 80):
        cuts.add(rng.randrange(b0, len(img)))
    for c in sorted(x for x in cuts if b0 <= x < len(img)):
        with R.TempImage(img[:c]) as path:
            r, tree, rep = R.export(path)
        case = dict(base_case, cut=c, offset_in_second_partition=c - b0)
        ctx.count("akai_cut2", (job, c), nontrivial=True)
        got = pcm_of({p: tree[p] for p in rep if p in tree})
        if not ctx.require("export of the truncated image finishes without exception", case, r.exc is None, r.exc_name):
            continue
        for p, v in first.items():
            ctx.require("a file whose header sectors, directory entries and data sectors all lie before the cut is exported complete", dict(case, file=p),
                        p in got and got[p][0] and got[p][2] == v[2], {"reported": sorted(got)})
        for p, (ok, why, pcm, ch) in got.items():
            if not ctx.require("every reported file is a well-formed WAV", dict(case, file=p), ok, why):
                continue
            if ctx.require("every reported file is also reported for the complete image", dict(case, file=p), p in full, sorted(full)):
                ctx.require("reported PCM is a prefix of the complete image's PCM for the same path (no foreign bytes)", dict(case, file=p),
                            full[p][2][:len(pcm)] == pcm and ch == full[p][3], {"len": len(pcm), "full": len(full[p][2])})
    return ctx.dump()


def w_roland(pid, tier, seed, job):
    """Roland S-7xx image cut at cluster boundaries -1/0/+1, inside the FAT / directory / parameter areas and at random offsets"""
    ctx = F.Ctx(pid, tier, seed)
    try:
        import roland_writer as W
    except ImportError:
        return ctx.dump()
    rng = random.Random(job)
    d = W.Disk(fat_version=rng.choice([1, 2]))
    ss, info = [], {}
    for i in range(rng.randint(2, 4)):
        nw = rng.choice([300, 4608, 5000, 9300])
        chain = list(range(10 + 4 * i, 10 + 4 * i + max(1, -(-2 * nw // W.CLUSTER))))
        if rng.random() < 0.5:
            chain.reverse()
        smp = W.Sample("SMP%d" % i, W.tone(nw, i + 1), loop_mode=rng.choice([0, 1, 2, 3, 4]), chain=chain)
        ss.append(d.add(W.SAMPLE, smp))
        info["VOL/PERF/SMP%d.wav" % i] = chain
    pt = d.add(W.PARTIAL, W.Partial("PT", ss))
    pa = d.add(W.PATCH, W.Patch("PATCH", [pt]))
    pf = d.add(W.PERFORMANCE, W.Performance("PERF", [pa]))
    d.add(W.VOLUME, W.Volume("VOL", [pf]))
    img = W.image_bytes(d)
    with R.TempImage(img, "r.img") as path:
        r0, tree0, rep0 = R.export(path)
    full = pcm_of(tree0)
    if not ctx.require("the complete image exports", {"roland": job}, r0.exc is None and len(full) == len(ss) and all(v[0] for v in full.values()), r0.exc_name):
        return ctx.dump()
    base = W.MIN_IMAGE_SIZE                      # start of cluster 2
    def cl_off(c):
        return base + (c - 2) * W.CLUSTER
    cuts = {0, 100, 511, 512, W.FAT_OFFSET - 1, W.FAT_OFFSET, W.FAT_OFFSET + 40, W.FAT_OFFSET + 0x20000,
            0x0A0800, 0x0A1800 + 5, 0x0CD800 + 33, 0x255800 + 1, 0x255800 + 48 * 2, base - 1, base, base + 1}
    for ch in info.values():
        for c in ch:
            for dd in (-1, 0, 1, W.CLUSTER // 2, W.CLUSTER - 1, W.CLUSTER):
                cuts.add(cl_off(c) + dd)
    for _ in range(6 if tier == "quick" else 40):
        cuts.add(rng.randrange(0, len(img)))
    cuts = sorted(c for c in cuts if 0 <= c < len(img))
    if tier == "quick":
        cuts = cuts[::2]
    for c in cuts:
        with R.TempImage(img[:c], "r.img") as path:
            r, tree, rep = R.export(path)
        case = {"roland": True, "seed": job, "cut": c}
        ctx.count("roland_cut", (job, c), nontrivial=True)
        got = pcm_of({p_: tree[p_] for p_ in rep if p_ in tree})
        for p_, (ok, why, pcm, ch_) in got.items():
            c2 = dict(case, file=p_)
            if not ctx.require("every reported file is a well-formed WAV", c2, ok, why):
                continue
            if not ctx.require("every reported file is also reported for the complete image", c2, p_ in full, sorted(full)):
                continue
            ctx.require("reported PCM is a prefix of the complete image's PCM for the same path (no foreign bytes)", c2,
                        full[p_][2][:len(pcm)] == pcm, {"len": len(pcm), "full": len(full[p_][2])})
        for p_, chain in info.items():
            if c >= base and all(cl_off(x) + W.CLUSTER <= c for x in chain):
                ctx.require("a sample whose tables and clusters all lie before the cut is exported complete", dict(case, file=p_),
                            p_ in got and got[p_][0] and got[p_][2] == full[p_][2], {"reported": sorted(got), "exc": r.exc_name})
    return ctx.dump()


def w_cdda(pid, tier, seed, job):
    ctx = F.Ctx(pid, tier, seed)
    rng = random.Random(job)
    ntr = rng.randint(2, 4)
    frames = sorted(rng.sample(range(0, 10), ntr))
    binlen = 2352 * 12 + rng.choice([0, 6, 1001])
    content = bytes((i * 11 + 3) % 256 for i in range(binlen))
    cue = R.cue_text("t.bin", [{"indices": [(1, 0, 0, f)], "title": "T%d" % i} for i, f in enumerate(frames)])
    with R.TempImage(cue.encode(), "t.cue", {"t.bin": content}) as path:
        r0, tree0, rep0 = R.export(path)
    full = pcm_of(tree0)
    cuts = sorted({0, 1, 3, 4, 2351, 2352, 2353} | {2352 * f + d for f in frames for d in (-1, 0, 1, 2, 1000)} | {rng.randrange(binlen) for _ in range(10)})
    for c in cuts:
        if not 0 <= c < binlen:
            continue
        with R.TempImage(cue.encode(), "t.cue", {"t.bin": content[:c]}) as path:
            r, tree, rep = R.export(path)
        case = {"seed": job, "cdda": True, "cut": c}
        ctx.count("cdda_cut", (job, c), nontrivial=True)
        got = pcm_of({p: tree[p] for p in rep if p in tree})
        for p, (ok, why, pcm, ch) in got.items():
            c2 = dict(case, file=p)
            if not ctx.require("every reported file is a well-formed WAV", c2, ok, why):
                continue
            ctx.require("reported PCM is a prefix of the complete image's PCM for the same path (no foreign bytes)", c2,
                        p in full and full[p][2][:len(pcm)] == pcm, {"len": len(pcm)})
        for i, f in enumerate(frames):
            end = 2352 * frames[i + 1] if i + 1 < len(frames) else None
            p = "T%d.wav" % i
            if end is not None and end <= c:
                ctx.require("a track that lies wholly before the cut is exported complete", dict(case, file=p),
                            p in got and got[p][2] == full[p][2], {"reported": sorted(got), "exc": r.exc_name})
    return ctx.dump()


# ----------------------------------------------------------------- function level
def w_views(pid, tier, seed, job):
    """operational model on truncated base content vs the real classes"""
    import io
    import views as VW
    ctx = F.Ctx(pid, tier, seed)
    rng = random.Random(job)
    content = bytes((i * 7 + 1) % 256 for i in range(40))
    B = ("base",)
    specs = [
        ("off", 30, 5, B),
        ("wrap", 24, B),
        ("sect", 24, 4, B),
        ("chain", 4, (5, 1, 7), B),
        ("off", 10, 2, ("chain", 4, (5, 1, 7), B)),
        ("wrap", 11, ("chain", 4, (8, 2, 0), B)),
        ("off", 6, 1, ("wrap", 11, ("chain", 4, (8, 2, 0), ("off", 38, 2, B)))),
    ]
    metas = []
    for spec in specs:
        for cut in [0, 3, 7, 8, 9, 20, 21, 29, 33, 36, 39]:
            for _ in range(6 if tier == "quick" else 30):
                ops = []
                for _ in range(rng.randint(1, 4)):
                    k = rng.random()
                    if k < 0.6:
                        ops.append(("read", rng.choice([0, 1, 3, 4, 5, 8, 13, 40])))
                    elif k < 0.9:
                        ops.append(("seek", rng.randint(-2, 30), rng.choice([0, 1, 2])))
                    else:
                        ops.append(("tell",))
                metas.append((spec, cut, ops))
    args = [[VW.enc_view(spec, cut), list(content[:cut]), 0, VW.enc_ops(ops)] for spec, cut, ops in metas]
    mod = M.call_batch("run_view", args)
    for (spec, cut, ops), mv in zip(metas, mod):
        trunc = content[:cut]
        got = VW.run_impl(VW.build(spec, io.BytesIO(trunc)), ops)
        fullr = VW.run_impl(VW.build(spec, io.BytesIO(content)), ops)
        case = {"view": spec, "cut": cut, "ops": ops}
        ctx.count("view_cut", (repr(spec), cut, tuple(ops)), nontrivial=True)
        ctx.agree("run_view(truncated)", case, got, VW.dec_outs(mv))
        ok, why = True, None
        for a_, b_ in zip(got, fullr):
            if a_ == b_:
                continue
            if a_[0] == "err" and a_[1] == "SectorReadError":
                break
            if a_[0] == "bytes" and b_[0] == "bytes" and b_[1][:len(a_[1])] == a_[1]:
                break
            ok, why = False, (a_, b_)
            break
        ctx.require("a read over the truncated file returns the full-file bytes, a prefix of them, or SectorReadError", case, ok, why)
    return ctx.dump()


def w_drain(pid, tier, seed, job):
    """the transcoder's block loops over streams on a cut base file (Trunc.v drain / drain_many) vs the real
    PassthroughTranscoder / PipelineTranscoder; and, on the real classes alone: the drained PCM of the cut file is a
    prefix of the drained PCM of the complete file, equal when every base byte of the windows lies below the cut"""
    import io
    import views as VW
    from smpl_extract.transcoder import PassthroughTranscoder, make_transcoder
    from smpl_extract.data_streams import DataStream, StreamEncoding, Endianess
    ctx = F.Ctx(pid, tier, seed)
    rng = random.Random(job)
    B = ("base",)

    def drained(tr):
        r = M.impl_res(lambda: b"".join(bytes(x) for x in tr))
        return r

    # (a) PassthroughTranscoder, small towers, every cut
    content = bytes((i * 7 + 1) % 256 for i in range(48))
    specs = [("off", 30, 5, B), ("chain", 4, (5, 1, 7, 2), B), ("off", 10, 2, ("chain", 4, (5, 1, 7), B)),
             ("wrap", 11, ("chain", 4, (8, 2, 0), B)), ("sect", 9, 3, ("off", 20, 2, ("wrap", 30, B))),
             ("chain", 3, (2, 0, 1), ("chain", 4, (5, 1, 7), B))]
    combos = [(4, 2), (5, 2), (6, 3), (3, 1), (7, 7), (2, 4)]
    metas = []
    for spec in specs:
        for bs, fs in combos:
            for cut in range(0, 49):
                if tier == "quick" and (cut + bs + job) % 3:
                    continue
                metas.append((spec, bs, fs, cut))
    mod = M.call_batch("drain_view", [[VW.enc_view(spec, cut), list(content[:cut]), 0, bs, fs] for spec, bs, fs, cut in metas])
    fullcache = {}
    for (spec, bs, fs, cut), mv in zip(metas, mod):
        def run(data):
            st = VW.build(spec, io.BytesIO(data))
            return drained(PassthroughTranscoder(DataStream(st, StreamEncoding(Endianess.LITTLE, fs, 1, True)), buffer_size=bs))
        got = run(content[:cut])
        key = (spec, bs, fs)
        if key not in fullcache:
            fullcache[key] = run(content)
        full = fullcache[key]
        case = {"drain_job": job, "view": spec, "block": bs, "frame": fs, "cut": cut}
        ctx.count("drain_cut", (repr(spec), bs, fs, cut), nontrivial=True)
        mr = M.res(mv)
        ctx.agree("drain_view(truncated)", case, got, ("ok", bytes(mr[1])) if mr[0] == "ok" else mr)
        ctx.require("draining a stream of the cut file terminates normally and yields a prefix of what the complete file yields", case,
                    got[0] == "ok" and full[0] == "ok" and full[1][:len(got[1])] == got[1] and len(got[1]) % fs == 0, (got, full))
    # (a') the same over the 2352-byte-sector wrapper, whose size is recomputed from the cut file
    raw = bytes((i * 11 + (i >> 7) + 5) % 256 for i in range(5 * 2352))
    metas = []
    for secs in [(1, 3, 4), (7, 0, 2, 9), (9, 8)]:
        spec = ("chain", 1024, secs, ("mdf", B))
        for bs in (1024, 4096, 700):
            cuts = sorted({0, 1, 2351, len(raw)} | {k * 2352 + d for k in range(1, 6) for d in (-1, 0, 1, 16, 1040, 2064)} | {rng.randrange(len(raw)) for _ in range(3)})
            for cut in cuts:
                if 0 <= cut <= len(raw) and not (tier == "quick" and (cut + bs + job) % 2):
                    metas.append((spec, bs, 2, cut))
    mod = M.call_batch("drain_view", [[VW.enc_view(spec, cut), list(raw[:cut]), 0, bs, fs] for spec, bs, fs, cut in metas])
    for (spec, bs, fs, cut), mv in zip(metas, mod):
        def run(data):
            st = VW.build(spec, io.BytesIO(data))
            return drained(PassthroughTranscoder(DataStream(st, StreamEncoding(Endianess.LITTLE, fs, 1, True)), buffer_size=bs))
        got = run(raw[:cut])
        key = (spec, bs, fs)
        if key not in fullcache:
            fullcache[key] = run(raw)
        full = fullcache[key]
        case = {"drain_job": job, "view": spec, "block": bs, "frame": fs, "cut": cut, "wrapped2352": True}
        ctx.count("drain_mdf_cut", (repr(spec), bs, fs, cut), nontrivial=True)
        mr = M.res(mv)
        ctx.agree("drain_view(truncated)", case, got, ("ok", bytes(mr[1])) if mr[0] == "ok" else mr)
        if cut < 2352:
            # no whole raw sector left: MdfStream gets size 0, and a StreamWrapper of size 0 does not clip reads while its seeks clamp to 0
            # (every read then starts at the wrapper's position 0).  No directory can be read through such a wrapper, so no such tower is
            # ever built by an export; the model agrees with the classes here too (relation above), the prefix claim needs one whole sector
            # (Props/C15.v stacked_mdf_blocks_prefix, ex_stacked_needs_whole_sector)
            continue
        ctx.require("draining a stream of the cut 2352-wrapped file terminates normally and yields a prefix of what the complete file yields", case,
                    got[0] == "ok" and full[0] == "ok" and full[1][:len(got[1])] == got[1] and len(got[1]) % fs == 0,
                    (got[0], full[0], len(got[1]) if got[0] == "ok" else got[1]))
        if all((s // 2 + 1) * 2352 <= cut for s in spec[2]):
            ctx.require("a chained file whose raw sectors all lie before the cut is drained complete (2352-wrapped)", case, got == full, (got[0], full[0]))
    # (b) make_transcoder (default block size) over 512-byte-sector chains: mono pairs (LE / BE), one stereo stream
    SL, NS = 512, 40
    big = bytes((i * 13 + (i >> 8) * 5 + 3) % 256 for i in range(SL * NS))
    metas = []
    for _ in range(6 if tier == "quick" else 40):
        n = rng.choice([3, 8, 9, 17])
        secs = rng.sample(range(NS), 2 * n)
        a = ("chain", SL, tuple(secs[:n]), B)
        b = ("chain", SL, tuple(secs[n:]), B)
        if rng.random() < 0.3:
            a = ("off", n * SL - 6, 4, a)
            b = ("off", n * SL - 6, 2, b)
        kind = rng.choice(["pairLE", "pairBE", "stereo", "monoBE"])
        need = sorted(set(secs if kind.startswith("pair") else secs[:n]))
        cuts = {0, 1, len(big)} | {s * SL + d for s in need for d in (0, 1, SL - 1, SL)} | {rng.randrange(len(big)) for _ in range(4)}
        cuts = sorted(c for c in cuts if 0 <= c <= len(big))
        if tier == "quick":
            cuts = rng.sample(cuts, min(len(cuts), 12))
        for c in cuts:
            metas.append((kind, a, b, need, c))

    def streams_of(kind, a, b):
        if kind == "pairLE":
            return [(a, 2, 1, 0), (b, 2, 1, 0)], 2
        if kind == "pairBE":
            return [(a, 2, 1, 1), (b, 2, 1, 1)], 2
        if kind == "stereo":
            return [(a, 2, 2, 0)], 2
        return [(a, 2, 1, 1)], 1
    margs = []
    for kind, a, b, need, c in metas:
        sts, _ = streams_of(kind, a, b)
        margs.append([4096, [[VW.enc_view(sp, c), 0, w, ch, bg] for sp, w, ch, bg in sts], list(big[:c])])
    mod = M.call_batch("drain_streams", margs)
    fullcache = {}
    for (kind, a, b, need, c), mv in zip(metas, mod):
        sts, dch = streams_of(kind, a, b)

        def run(data):
            base = io.BytesIO(data)          # ONE file object under all streams, as in an export
            dss = [DataStream(VW.build(sp, base), StreamEncoding(Endianess.BIG if bg else Endianess.LITTLE, w, ch, True)) for sp, w, ch, bg in sts]
            return drained(make_transcoder(dss, StreamEncoding(Endianess.LITTLE, 2, dch, True)))
        got = run(big[:c])
        key = (kind, a, b)
        if key not in fullcache:
            fullcache[key] = run(big)
        full = fullcache[key]
        case = {"drain_job": job, "kind": kind, "a": a, "b": b, "cut": c}
        ctx.count("drain_streams_cut", (kind, repr(a), repr(b), c), nontrivial=c < (max(need) + 1) * SL)
        mr = M.res(mv)
        ctx.agree("drain_streams(truncated)", case, got, ("ok", bytes(mr[1])) if mr[0] == "ok" else mr)
        ok = got[0] == "ok" and full[0] == "ok" and full[1][:len(got[1])] == got[1] and len(got[1]) % (2 * dch) == 0
        ctx.require("draining the streams of the cut file terminates normally and yields a whole-frame prefix of what the complete file yields", case, ok,
                    (got[0], len(got[1]) if got[0] == "ok" else got[1], full[0]))
        if all((s + 1) * SL <= c for s in need):
            ctx.require("streams whose sectors all lie before the cut are drained complete", case, got == full, (got[0], full[0]))
    return ctx.dump()


def run(ctx):
    F.pmap(ctx, w_drain, [ctx.seed * 7 + i for i in range(3 if ctx.quick else 12)])
    F.pmap(ctx, w_views, [ctx.seed * 3 + i for i in range(4 if ctx.quick else 16)])
    F.pmap(ctx, w_image, [ctx.seed * 131 + i for i in range(12 if ctx.quick else 96)])
    F.pmap(ctx, w_image2, [ctx.seed * 137 + i for i in range(4 if ctx.quick else 32)])
    F.pmap(ctx, w_cdda, [ctx.seed * 977 + i for i in range(8 if ctx.quick else 48)])
    F.pmap(ctx, w_roland, [ctx.seed * 61 + i for i in range(4 if ctx.quick else 24)])


def replay(ctx, case):
    c = case["case"]
    sub = F.Ctx(ctx.pid, ctx.tier, ctx.seed)
    if "drain_job" in c:
        sub.merge(w_drain(ctx.pid, ctx.tier, ctx.seed, c["drain_job"]))
    elif c.get("cdda"):
        sub.merge(w_cdda(ctx.pid, ctx.tier, ctx.seed, c["seed"]))
    elif "seed" in c:
        sub.merge(w_image(ctx.pid, ctx.tier, ctx.seed, c["seed"]))
    for f in sub.failures:
        print(f["what"], f["case"].get("cut"), f["detail"])
    return not sub.failures
