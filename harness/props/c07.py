"""C07 - allocation chains resolve exactly and always terminate.

Correspondence: get_path / AKAI SAT decode / Roland FAT decode of the model vs the real
classes on exhaustively enumerated small tables and random real-size tables.
Oracle (independent of the model): follow the raw table from the start sector; when the
chain is well-formed in the property's sense the implementation must return exactly it;
every call must return (value or exception) within a time limit."""
import itertools
import random
import signal
import types

import framework as F
import model as M

RULE = ("exhaustive: every link table over n sectors (entry = (next in 0..n, end flag)) x every start incl. one out of range; "
        "every raw AKAI SAT table over n words drawn from {free, EOF, reserved-std, reserved-v2, each in-range link, one out-of-range} "
        "(decoded table compared entry by entry, then every start resolved); every raw Roland FAT over n free clusters with the table size patched; "
        "random real-size tables with injected cycles, cross-links and merges. Non-trivial = table has at least one link/run; distinct = distinct (kind, table, start)")

FREE, EOF_, RES, RES2 = 0, 0xC000, 0x4000, 0x8000


class Hang(BaseException):      # BaseException: `except Exception` in library code (construct's stream_read) must not swallow it
    pass


def _alarm(*a):
    raise Hang()


def guarded(f, *a, limit=3):
    signal.signal(signal.SIGALRM, _alarm)
    signal.setitimer(signal.ITIMER_REAL, limit, 1.0)
    try:
        return M.impl_res(f, *a)
    except Hang:
        return ("hang",)
    finally:
        signal.setitimer(signal.ITIMER_REAL, 0)


# ---------------------------------------------------------------------------- get_path
def impl_get_path(size, links, start):
    from smpl_extract.util.fat import FileAllocationTable, SectorLink
    t = FileAllocationTable(None, size, [SectorLink(n, bool(e)) for n, e in links])
    return t.get_path(start)


def oracle_chain_links(links, start):
    """Follow (next,end) links; None unless it is a proper chain (in range, no repeat, ends)."""
    seen, cur = [], start
    while True:
        if cur < 0 or cur >= len(links) or cur in seen:
            return None
        seen.append(cur)
        n, e = links[cur]
        if e:
            return seen
        cur = n


def w_get_path(pid, tier, seed, job):
    ctx = F.Ctx(pid, tier, seed)
    n, tables = job
    cases = [(n, t, s) for t in tables for s in range(n + 1)]
    mod = M.call_batch("get_path", [[n, [list(x) for x in t], s] for (n, t, s) in cases])
    for (n_, t, s), mv in zip(cases, mod):
        iv = guarded(impl_get_path, n_, t, s)
        ctx.count("get_path", (n_, t, s), nontrivial=any(not e for _, e in t))
        ctx.agree("get_path", {"size": n_, "links": t, "start": s}, iv, M.res(mv))
        ctx.require("get_path terminates", {"size": n_, "links": t, "start": s}, iv[0] != "hang", iv)
        exp = oracle_chain_links(t, s)
        if exp is not None:
            ctx.require("get_path returns exactly the linked chain", {"size": n_, "links": t, "start": s},
                        iv == ("ok", exp), {"expected": exp, "got": iv})
        elif iv[0] == "ok":
            # shortened chain must still be a prefix of the raw walk, never foreign sectors
            ctx.require("get_path result starts at the start sector", {"size": n_, "links": t, "start": s},
                        iv[1][:1] == [s], iv)
    return ctx.dump()


# ---------------------------------------------------------------------------- AKAI
def impl_akai_decode(block):
    from smpl_extract.akai.sat import SegmentAllocationTableAdapter
    from construct import Int16ul
    ad = SegmentAllocationTableAdapter(None, Int16ul[1])
    return ad._decode(list(block), {}, "")


def canon_links(tbl):
    return [[l.next, 1 if l.end else 0] for l in tbl.sector_links]


def raw_akai_chain(block, s):
    """Raw chain from s: every sector holds an in-range link or EOF; no repeats."""
    n, seen, cur = len(block), [], s
    while True:
        if cur < 0 or cur >= n or cur in seen:
            return None
        v = block[cur]
        if v in (FREE, RES, RES2):
            return None
        seen.append(cur)
        if v == EOF_:
            return seen
        cur = v


def akai_wellformed_chain(block, s):
    c = raw_akai_chain(block, s)
    if c is None:
        return None
    # each sector linked from exactly one place: the head from the directory (no table
    # word points at it), every other sector from exactly one table word
    for k, sec in enumerate(c):
        cnt = sum(1 for w in block if w == sec)
        if cnt != (0 if k == 0 else 1):
            return None
    return c


def akai_dir_run(block, s):
    n = len(block)
    if not (0 <= s < n) or block[s] not in (RES, RES2):
        return None
    e = s
    while e + 1 < n and block[e + 1] in (RES, RES2):
        e += 1
    run = list(range(s, e + 1))
    # the run's sectors are not link targets
    if any(w in run for w in block):
        return None
    return run, (e == n - 1)


def check_akai_table(ctx, block, mv, big=False):
    n = len(block)
    iv = guarded(impl_akai_decode, block, limit=5 if not big else 30)
    ctx.require("AKAI SAT decode terminates", {"sat": block if not big else "real-size"}, iv[0] != "hang", iv[0])
    if iv[0] != "ok":
        if mv is not None:
            ctx.agree("akai_decode", {"sat": block}, iv, M.res(mv))
        return
    tbl = iv[1]
    if mv is not None:
        ctx.agree("akai_decode", {"sat": block if not big else "real-size(%d)" % n}, ("ok", canon_links(tbl)), M.res(mv))
    starts = range(n) if not big else sorted(set(random.Random(n).sample(range(n), 40)) | ctx._starts)
    for s in starts:
        r = guarded(tbl.get_path, s)
        case = {"sat": block if not big else None, "start": s}
        ctx.count("akai_resolve", (tuple(block) if not big else id(block), s), nontrivial=block[s] != FREE)
        ctx.require("AKAI chain resolution terminates", case, r[0] != "hang", r)
        c = akai_wellformed_chain(block, s)
        if c is not None:
            ctx.require("AKAI well-formed chain resolves exactly", dict(case, chain=c, head_is_lowest=(c[0] == min(c))),
                        r == ("ok", c), {"expected": c, "got": r})
        d = akai_dir_run(block, s)
        if d is not None:
            run, at_end = d
            ctx.require("AKAI directory run resolves exactly", dict(case, run=run, run_reaches_table_end=at_end),
                        r == ("ok", run), {"expected": run, "got": r})


def w_akai(pid, tier, seed, job):
    ctx = F.Ctx(pid, tier, seed)
    ctx._starts = set()
    tables = job
    mod = M.call_batch("akai_decode", [list(t) for t in tables])
    for t, mv in zip(tables, mod):
        check_akai_table(ctx, list(t), mv)
    return ctx.dump()


def w_akai_big(pid, tier, seed, job):
    ctx = F.Ctx(pid, tier, seed)
    rng = random.Random(job)
    n = 11386 if rng.random() < 0.5 else rng.randint(50, 3000)
    block = [FREE] * n
    free = list(range(3, n))
    rng.shuffle(free)
    ctx._starts = set()
    block[0] = block[1] = block[2] = RES
    # proper chains (head lowest or not), directory runs
    for _ in range(rng.randint(5, 60)):
        ln = rng.randint(1, 12)
        if len(free) < ln:
            break
        c = [free.pop() for _ in range(ln)]
        if rng.random() < 0.7:
            c.sort()
            if rng.random() < 0.6:
                body = c[1:]
                rng.shuffle(body)
                c = c[:1] + body
        for a, b in zip(c, c[1:]):
            block[a] = b
        block[c[-1]] = EOF_
        ctx._starts.add(c[0])
    for _ in range(rng.randint(0, 6)):
        s = rng.randint(3, n - 6)
        ln = rng.randint(1, 4)
        if all(block[k] == FREE and k not in block for k in range(s, s + ln + 1)):
            for k in range(s, s + ln):
                block[k] = rng.choice([RES, RES2])
                if k in free:
                    free.remove(k)
            ctx._starts.add(s)
    # injected damage: cycles, cross links, merges, out-of-range links, links into free
    for _ in range(rng.randint(0, 8)):
        k = rng.randint(3, n - 1)
        block[k] = rng.choice([k, rng.randint(1, n - 1), rng.randint(1, n - 1), n + 5, 0xFFFF, EOF_, FREE, RES])
        ctx._starts.add(k)
    mv = M.call_batch("akai_decode", [block])[0] if n <= 2500 else None
    check_akai_table(ctx, block, mv, big=True)
    return ctx.dump()


# ---------------------------------------------------------------------------- Roland
def impl_roland_decode(fat):
    import smpl_extract.roland.s7xx.fat as RF
    RF.FAT_NUM_ENTRIES = len(fat)
    md = types.SimpleNamespace(fat_id=fat[0], num_unused_clusters=fat[1],
                               version_flag_1=fat[-2], version_flag_2=fat[-1])
    c = types.SimpleNamespace(fat_entries=list(fat), metadata=md, stream_size=0, fat_data_stream=None)
    try:
        return RF.FatAreaParser._decode(c, {}, "")
    finally:
        RF.FAT_NUM_ENTRIES = 0x10000


def roland_scaling_ok():
    """The small-table relations run the real decoder on tables of a dozen entries by re-binding the module constant
    FAT_NUM_ENTRIES around the call.  That works only while the decoder reads the constant at call time - an internal detail.
    When a 12-entry table with one chain 2->3 no longer decodes that way (the table length is derived elsewhere), the
    small-table relations are skipped and full-size tables (with chains at both ends of the table) carry the comparison."""
    fat = [0xfffa, 0, 3, 0xffff] + [0] * 6 + [0xffff, 0xffff]
    try:
        area = impl_roland_decode(fat)
        area.fat.get_file(2, 0)
        return True
    except (IndexError, TypeError, AttributeError, KeyError):
        return False
    except Exception:
        return True          # any other failure is for the relations themselves to judge


def raw_roland_chain(fat, s):
    n, seen, cur = len(fat), [], s
    while True:
        if cur < 2 or cur >= n or cur in seen:
            return None
        v = fat[cur]
        if v in (0, 1, 0xfff7):
            return None
        seen.append(cur)
        if v >= 0xfff8:
            return seen
        cur = v


def roland_wellformed_chain(fat, s, live):
    c = raw_roland_chain(fat, s)
    if c is None:
        return None
    for k, sec in enumerate(c):
        cnt = sum(1 for j in live if fat[j] == sec)
        if cnt != (0 if k == 0 else 1):
            return None
    return c


def check_roland_table(ctx, fat, mv, starts=None):
    n = len(fat)
    live = range(2, n - 9)
    iv = guarded(impl_roland_decode, fat, limit=20)
    ctx.require("Roland FAT decode terminates", {"fat": fat if n < 64 else "real-size"}, iv[0] != "hang", iv[0])
    mres = M.res(mv) if mv is not None else None
    if iv[0] != "ok":
        if mres is not None:
            ctx.agree("roland_decode", {"fat": fat if n < 64 else n}, iv, mres)
        return
    area = iv[1]
    if mres is not None:
        ctx.agree("roland_decode", {"fat": fat if n < 64 else n},
                  ("ok", [area.version, canon_links(area.fat)]), mres)
    for s in (starts if starts is not None else live):
        for off in ((0,) if starts is None else (0, 1, 2)):
            r = guarded(lambda: list(area.fat.get_file(s, off).sector_list))
            case = {"fat": fat if n < 64 else None, "start": s, "cluster_offset": off}
            ctx.count("roland_resolve", (tuple(fat) if n < 64 else id(fat), s, off), nontrivial=fat[s] not in (0, 1))
            ctx.require("Roland chain resolution terminates", case, r[0] != "hang", r)
            c = roland_wellformed_chain(fat, s, live)
            if c is not None:
                ctx.require("Roland well-formed chain resolves exactly", dict(case, chain=c),
                            r == ("ok", c[off:]), {"expected": c[off:], "got": r})


def w_roland(pid, tier, seed, job):
    ctx = F.Ctx(pid, tier, seed)
    tables = job
    mod = M.call_batch("roland_decode", [list(t) for t in tables])
    for t, mv in zip(tables, mod):
        check_roland_table(ctx, list(t), mv)
    return ctx.dump()


def w_roland_big(pid, tier, seed, job):
    ctx = F.Ctx(pid, tier, seed)
    rng = random.Random(job)
    n = 0x10000 if (rng.random() < 0.3 or not roland_scaling_ok()) else rng.randint(40, 4000)
    fat = [0] * n
    fat[0] = 0xfffa
    fat[-2] = rng.choice([0xffff, 0xffff, 0xfffe])
    fat[-1] = rng.choice([0xffff, 0xfffe]) if fat[-2] == 0xffff else 0xffff
    free = list(range(2, n - 9))
    rng.shuffle(free)
    starts = []
    # chains at both ends of the table: heads at the last / first usable cluster, a chain running through the last one
    forced = [[n - 10, n - 20, n - 12], [2, n - 11, 3], [n - 30, n - 10 - 3, n - 14]] if n >= 64 else []
    for c in forced:
        if all(x in free for x in c):
            for x in c:
                free.remove(x)
            for a, b in zip(c, c[1:]):
                fat[a] = b
            fat[c[-1]] = 0xffff
            starts.append(c[0])
    for _ in range(rng.randint(3, 40)):
        ln = rng.randint(1, 10)
        if len(free) < ln:
            break
        c = [free.pop() for _ in range(ln)]
        for a, b in zip(c, c[1:]):
            fat[a] = b
        fat[c[-1]] = rng.choice([0xfff8, 0xffff, 0xfffb])
        starts.append(c[0])
    dmg = rng.random()
    if dmg < 0.6:
        for _ in range(rng.randint(1, 4)):
            k = rng.randint(2, n - 10)
            fat[k] = rng.choice([k, rng.randint(2, n - 1), 0xfff7, 1, 0, n + 3 if n + 3 < 0xfff7 else 0xfff0, 0xfff8])
            starts.append(k)
    mv = M.call_batch("roland_decode", [fat])[0] if n <= 2500 else None
    check_roland_table(ctx, fat, mv, starts=starts[:30])
    return ctx.dump()


def w_two_partitions(pid, tier, seed, job):
    """the byte stream over a resolved chain yields THOSE sectors of THAT partition: images with two or three partitions of the
    same layout and different contents, chains fragmented differently, two images in one process"""
    import struct
    import akai_writer as AW
    import runner as R
    ctx = F.Ctx(pid, tier, seed)
    rng = random.Random(job)
    for rep in range(2):
        parts, allocs, exp = [], [], {}
        for pi in range(rng.randint(2, 3)):
            nw = rng.choice([3 * 4096 - 70 - 5, 2 * 4096 + 300, 9000])
            pcm = struct.pack("<%dH" % nw, *[(pi * 20011 + rep * 977 + 7 * w) % 65536 for w in range(nw)])
            f = AW.SampleFile(name="SMP", pcm=pcm)
            parts.append(AW.Partition([AW.Volume("VOL", [f])], size_sectors=40))
            order = [lambda fr, n: fr[:n], lambda fr, n: list(reversed(fr[:n])), lambda fr, n: [fr[0]] + list(reversed(fr[1:n]))][(pi + rep) % 3]
            allocs.append(AW.Allocator(40, order))
            exp["%s/VOL/SMP.wav" % chr(65 + pi)] = pcm
        img = AW.image_bytes(parts, allocs)
        with R.TempImage(img) as path:
            r, tree, reported = R.export(path)
        case = {"two_partitions": True, "seed": job, "image": rep, "chains": [p.volumes[0].files[0].sectors for p in parts]}
        ctx.count("partition_streams", (job, rep), nontrivial=True)
        if not ctx.require("export of a multi-partition image finishes", case, r.exc is None and sorted(tree) == sorted(exp), (r.exc_name, sorted(tree))):
            continue
        for pth, pcm in exp.items():
            w = R.parse_wav(tree[pth])
            ctx.require("byte stream over the chain yields the concatenation of those sectors (of the file's own partition)", dict(case, file=pth),
                        w["ok"] and w["data"] == pcm, {"len": len(w.get("data", b"")), "expected": len(pcm),
                                                        "first_diff": next((i for i, (a, b) in enumerate(zip(w.get("data", b""), pcm)) if a != b), None)})
    return ctx.dump()


# ---------------------------------------------------------------------------- driver
def chunks(it, n):
    buf = []
    for x in it:
        buf.append(x)
        if len(buf) == n:
            yield buf
            buf = []
    if buf:
        yield buf


def w_stream(pid, tier, seed, job):
    """'a byte stream over that list yields the concatenation of those sectors': AKAI Segment and Roland file over
    resolved chains of 1-12 sectors in every kind of order, read in one call, in blocks, from inside, and with readall"""
    import io
    import random as _r
    import views as VW
    from smpl_extract.util.fat import FileStream
    ctx = F.Ctx(pid, tier, seed)
    rng = _r.Random(job)
    L = rng.choice([4, 8, 16])
    nsec = 24
    content = bytes((i * 13 + 7) % 251 for i in range(nsec * L))
    calls, metas = [], []
    for _ in range(60 if tier == "quick" else 600):
        n = rng.randint(1, 12)
        kind = rng.random()
        if kind < 0.25:
            chain = sorted(rng.sample(range(nsec), n))
        elif kind < 0.4:
            chain = sorted(rng.sample(range(nsec), n), reverse=True)
        elif kind < 0.7:
            a = rng.randint(0, nsec - n)
            chain = list(range(a, a + n))
            mid = chain[1:-1]
            rng.shuffle(mid)
            chain = chain[:1] + mid + chain[-1:] if n > 2 else chain
        else:
            chain = rng.sample(range(nsec), n)
        total = n * L
        pats = [[("read", total)], [("read", total + 5)], [("read", -1)], [("seek", L // 2, 0), ("read", total)],
                [("read", rng.randint(1, total)), ("read", total)], [("seek", rng.randint(0, total), 0), ("read", rng.randint(0, total))],
                [("read", 3)] * 4 + [("read", total)]]
        want = b"".join(content[s_ * L:(s_ + 1) * L] for s_ in chain)
        for ops in pats:
            st = FileStream(io.BytesIO(content), L, list(chain))
            got = VW.run_impl(st, ops)
            ref = VW.run_ref(want, ops, None)
            case = {"sector_size": L, "chain": chain, "ops": ops}
            ctx.count("chain_stream", (L, tuple(chain), tuple(ops)), nontrivial=n > 1)
            ctx.require("a byte stream over the resolved sector list yields the concatenation of those sectors", case, VW.ref_agrees(ref, got),
                        {"expected": ref, "got": got})
            metas.append((case, got))
            calls.append([VW.enc_view(("chain", L, tuple(chain), ("base",)), len(content)), list(content), 0, VW.enc_ops(ops)])
    mod = M.call_batch("run_view", calls)
    for (case, got), mv in zip(metas, mod):
        ctx.agree("chain_stream(run_view)", case, got, VW.dec_outs(mv))
    return ctx.dump()


def run(ctx):
    rng = ctx.rng
    F.pmap(ctx, w_stream, [ctx.seed * 53 + i for i in range(8 if ctx.quick else 32)])
    F.pmap(ctx, w_two_partitions, [ctx.seed * 59 + i for i in range(4 if ctx.quick else 24)])
    # get_path: exhaustive n <= 3 (quick) / 4 (thorough)
    nmax = 3 if ctx.quick else 4
    jobs = []
    for n in range(0, nmax + 1):
        entries = [(nx, e) for nx in range(n + 1) for e in (0, 1)]
        for ch in chunks(itertools.product(entries, repeat=n), 2000):
            jobs.append((n, ch))
    if ctx.quick:
        entries = [(nx, e) for nx in range(5) for e in (0, 1)]
        tabs = [tuple(rng.choice(entries) for _ in range(4)) for _ in range(3000)]
        jobs += [(4, ch) for ch in chunks(tabs, 1000)]
    F.pmap(ctx, w_get_path, jobs)

    # AKAI raw tables
    def words(n):
        return [FREE, EOF_, RES, RES2] + list(range(1, n)) + [n + 2]
    na = 4 if ctx.quick else 5
    jobs = []
    for n in range(1, na + 1):
        jobs += list(chunks(itertools.product(words(n), repeat=n), 1500))
    nb = na + 1
    cnt = 6000 if ctx.quick else 400000
    w = words(nb)
    jobs += list(chunks((tuple(rng.choice(w) for _ in range(nb)) for _ in range(cnt)), 1500))
    if not ctx.quick:
        w7 = words(7)
        jobs += list(chunks((tuple(rng.choice(w7) for _ in range(7)) for _ in range(200000)), 1500))
    F.pmap(ctx, w_akai, jobs)
    F.pmap(ctx, w_akai_big, [ctx.seed * 1000 + i for i in range(16 if ctx.quick else 200)])

    # Roland raw tables: n live clusters 2..n+1, table size n + 11 (9 tail + 2 head)
    def rwords(N):
        return [0, 1, 0xfff7, 0xfff8, 0xffff] + list(range(2, min(N, 2 + 4))) + [N + 3]
    nr = 3 if ctx.quick else 4
    jobs = []
    for live in range(1, nr + 1):
        N = live + 11
        base_tail = [0] * 7
        ws = rwords(live + 2)
        def tabs():
            for body in itertools.product(ws, repeat=live):
                for v1, v2 in ((0xffff, 0xffff), (0xfffe, 0xffff), (0xffff, 0xfffe), (0x1234, 0xffff)):
                    yield tuple([0xfffa, 5] + list(body) + base_tail + [v1, v2])
        jobs += list(chunks(tabs(), 1500))
    live = nr + 1
    ws = rwords(live + 2)
    cnt = 4000 if ctx.quick else 200000
    jobs += list(chunks((tuple([rng.choice([0xfffa, 0xfffa, 0xfffa, 0]), 5] + [rng.choice(ws) for _ in range(live)] + [0] * 7 + [0xffff, rng.choice([0xffff, 0xfffe])]) for _ in range(cnt)), 1500))
    if roland_scaling_ok():
        F.pmap(ctx, w_roland, jobs)
    else:
        ctx.note("C07: the small-table Roland relations are skipped (the decoder no longer takes the table length from the re-bound module constant); full-size tables only")
    F.pmap(ctx, w_roland_big, [ctx.seed * 1000 + i for i in range(8 if ctx.quick else 100)])
    ctx.exhaustive = True
    ctx.note("exhaustive spaces: link tables n<=%d; AKAI SAT tables n<=%d; Roland FAT live clusters<=%d; beyond that seeded random" % (nmax, na, nr))


def replay(ctx, case):
    c = case["case"]
    if "links" in c:
        iv = guarded(impl_get_path, c["size"], [tuple(x) for x in c["links"]], c["start"])
        exp = oracle_chain_links([tuple(x) for x in c["links"]], c["start"])
        print("impl:", iv, "expected chain:", exp)
        return iv[0] != "hang" and (exp is None or iv == ("ok", exp))
    if c.get("sat"):
        t = guarded(impl_akai_decode, c["sat"])
        r = guarded(t[1].get_path, c["start"]) if t[0] == "ok" else t
        exp = akai_wellformed_chain(c["sat"], c["start"])
        d = akai_dir_run(c["sat"], c["start"])
        print("impl:", r, "expected:", exp, d)
        return r[0] != "hang" and (exp is None or r == ("ok", exp)) and (d is None or r == ("ok", d[0]))
    if c.get("fat"):
        t = guarded(impl_roland_decode, c["fat"])
        if t[0] != "ok":
            print("impl decode:", t)
            return t[0] != "hang"
        r = guarded(lambda: list(t[1].fat.get_file(c["start"], c.get("cluster_offset", 0)).sector_list))
        exp = roland_wellformed_chain(c["fat"], c["start"], range(2, len(c["fat"]) - 9))
        print("impl:", r, "expected:", exp)
        return r[0] != "hang" and (exp is None or r == ("ok", exp[c.get("cluster_offset", 0):]))
    print("replay case not self-contained (real-size table); re-run the check with the same VERIF_SEED")
    return False
